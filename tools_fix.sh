#!/bin/sh
# tools_fix.sh <property> "<commit message (starts with fix:)>" "<what failed (known_findings text)>": commit the pending /repo change as one fix, start its baseline, record it
set -e
prop=$1; msg=$2; what=$3
git -C /repo diff --quiet && { echo "nothing to commit in /repo"; exit 1; }
git -C /repo commit -qam "$msg"
h=$(git -C /repo log --format=%h -1)
(N=4 /verif/tools_baseline_at.sh $h > /tmp/bl_$h.out 2>&1 &)
H=$h PROP=$prop WHAT="$what" python3 - <<'PY'
import json, os
k = json.load(open('/verif/known_findings.json'))
k['fixed'].append(f"fixed: property={os.environ['PROP']} {os.environ['H']} {os.environ['WHAT']}")
json.dump(k, open('/verif/known_findings.json', 'w'), indent=1)
PY
echo "fix $h recorded"
