#!/bin/sh
# Builds /verif/.venv offline: python 3.12 (from /venv), solver wheels from the wheelhouse,
# and a .pth that makes /venv's site-packages (numpy, scipy, gmsh, EasyFEA editable -> /repo) importable.
set -e
cd "$(dirname "$0")"
if [ -x .venv/bin/python ] && .venv/bin/python -c "import z3, sympy, cvc5, jsonschema, numpy, EasyFEA" 2>/dev/null; then
  echo "setup: .venv ok"; exit 0
fi
rm -rf .venv
/venv/bin/python -m venv .venv
PIP_NO_INDEX=1 .venv/bin/pip install -q --no-index --find-links /opt/veriftools/wheels z3-solver sympy cvc5 jsonschema deal icontract
SP=$(.venv/bin/python -c "import sysconfig; print(sysconfig.get_paths()['purelib'])")
echo "import site; site.addsitedir('/venv/lib/python3.12/site-packages')" > "$SP/_venvlink.pth"
.venv/bin/python -c "import z3, sympy, cvc5, jsonschema, numpy, scipy, EasyFEA; print('setup: built', z3.get_version_string(), sympy.__version__, EasyFEA.__file__)"
