#!/bin/sh
# tools_seed.sh confirm <ID> <name>   : confirm a seeded change in its scratch worktree (demo fails with / passes without; suite passes) and store it under seeded/<name>
# tools_seed.sh run <name> [check ids]: apply seeded/<name>/patch.diff to /repo, run the checks, undo
set -u
cmd=$1; shift
case $cmd in
confirm)
  id=$1; name=$2; wt=/tmp/wt_$id; sd=/tmp/seed_$id
  git -C $wt diff > /tmp/_seed_patch.diff
  [ -s /tmp/_seed_patch.diff ] || { echo "no change applied in $wt"; exit 1; }
  (cd $wt && PYTHONPATH=$wt /venv/bin/python $sd/demo.py > /tmp/_demo_changed.log 2>&1); c=$?
  # never `git stash`: the stash is shared by every worktree of the repository
  git -C $wt apply -R /tmp/_seed_patch.diff
  (cd $wt && PYTHONPATH=$wt /venv/bin/python $sd/demo.py > /tmp/_demo_orig.log 2>&1); o=$?
  git -C $wt apply /tmp/_seed_patch.diff
  echo "demo: changed exit=$c original exit=$o"
  (cd $wt && PYTHONPATH=$wt /venv/bin/python -m pytest -q -p no:cacheprovider --timeout=900 -n 12 --junitxml=/tmp/_seed_junit.xml tests > /tmp/_seed_pytest.log 2>&1)
  python3 - <<'PY'
import json, xml.etree.ElementTree as ET
base = set(json.load(open('/root/.vp/BASELINE.json'))['stable_pass'])
ok = set()
for tc in ET.parse('/tmp/_seed_junit.xml').iter('testcase'):
    if not any(c.tag in ('failure','error','skipped') for c in tc):
        ok.add(f"{tc.get('classname')}::{tc.get('name')}")
print("suite: baseline", len(base), "passing", len(ok & base), "missing", sorted(base-ok)[:5])
PY
  mkdir -p /verif/seeded/$name
  cp /tmp/_seed_patch.diff /verif/seeded/$name/patch.diff
  cp $sd/demo.py /verif/seeded/$name/demo.py
  cp $sd/meta.json /verif/seeded/$name/meta_agent.json 2>/dev/null
  tail -3 /tmp/_demo_changed.log > /verif/seeded/$name/demo_changed_tail.txt
  tail -3 /tmp/_demo_orig.log > /verif/seeded/$name/demo_original_tail.txt
  ;;
run)
  name=$1; shift
  git -C /repo diff --quiet || { echo "/repo has uncommitted changes (a fix in progress?): commit them first -- the run ends with `git checkout -- .`"; exit 1; }
  git -C /repo apply /verif/seeded/$name/patch.diff || { echo "patch does not apply"; exit 1; }
  rm -rf /verif/.evidence_keep && cp -r /verif/evidence /verif/.evidence_keep    # evidence of seeded runs is never kept
  for id in "$@"; do (cd /verif && ./check $id 2>&1 | grep -v conda | grep "VIOLATION\|UNDECIDED\|SELFCHECK\|^C[0-9]*:" | cut -c1-220 | head -12); done
  git -C /repo checkout -- .
  rm -rf /verif/evidence && mv /verif/.evidence_keep /verif/evidence
  ;;
all)
  # run every registered check (quick) on the current tree, 4 at a time
  cd /verif && ls contracts | sed -n 's/^\(C[0-9][0-9]\)\.py$/\1/p' | xargs -P 4 -I{} sh -c './check {} 2>&1 | grep "^C[0-9]*: \|VIOLATION\|UNDECIDED\|SELFCHECK" | cut -c1-200'
  ;;
esac
