#!/bin/sh
# tools_baseline_at.sh <commit> : pinned suite on a scratch worktree of /repo at <commit> (so that several fix: commits can be checked side by side); worktree removed afterwards
c=$1; wt=/tmp/bl_$c
git -C /repo worktree add --detach $wt $c >/dev/null 2>&1 || { echo "cannot create worktree at $c"; exit 1; }
(cd $wt && PYTHONPATH=$wt /venv/bin/python -m pytest -q -p no:cacheprovider --timeout=900 --continue-on-collection-errors -n ${N:-8} --junitxml=/tmp/bl_$c.xml tests > /tmp/bl_$c.log 2>&1)
python3 - $c <<'PY'
import json, sys, xml.etree.ElementTree as ET
c = sys.argv[1]
base = set(json.load(open('/root/.vp/BASELINE.json'))['stable_pass'])
ok = set()
for tc in ET.parse(f'/tmp/bl_{c}.xml').iter('testcase'):
    if not any(x.tag in ('failure', 'error', 'skipped') for x in tc):
        ok.add(f"{tc.get('classname')}::{tc.get('name')}")
missing = sorted(base - ok)
print(c, "baseline", len(base), "passing now", len(ok & base), "missing", len(missing))
for m in missing[:20]: print("  MISSING", m)
PY
git -C /repo worktree remove --force $wt
rm -f /tmp/bl_$c.xml
