#!/bin/sh
# Runs the pinned suite (parallel) and compares with BASELINE.json's stable_pass list.
cd /repo && /venv/bin/python -m pytest -q -p no:cacheprovider --timeout=900 --continue-on-collection-errors -n 12 --junitxml=/tmp/vt_junit.xml > /tmp/vt_pytest.log 2>&1
python3 - <<'PY'
import json, xml.etree.ElementTree as ET
base = set(json.load(open('/root/.vp/BASELINE.json'))['stable_pass'])
t = ET.parse('/tmp/vt_junit.xml')
ok = set()
for tc in t.iter('testcase'):
    name = f"{tc.get('classname')}::{tc.get('name')}"
    if not any(c.tag in ('failure','error','skipped') for c in tc):
        ok.add(name)
missing = sorted(base - ok)
print("baseline", len(base), "passing now", len(ok & base), "missing", len(missing))
for m in missing[:40]: print("  MISSING", m)
PY
