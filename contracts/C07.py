"""C07 -- quadrature rules: points inside, weight sum, documented exactness, factory sufficiency.

P-tier, finite and ground: the static rule functions of `_gauss.py` are extracted (AST) and executed
with float literals read as exact decimals and `np.sqrt(k)` as an algebraic number, so every
point and weight is an exact element of QQ[sqrt(2), sqrt(3), sqrt(5), ...].  Exactness clauses are
`|sum_i w_i m(x_i) - int_ref m| <= 1e-13 * |ref|` evaluated exactly (15-digit literals cannot do
better than ~1e-15); rules given in closed form (sqrt) satisfy them with residual exactly 0.
"""
from __future__ import annotations

import ast
import math
import re
from fractions import Fraction
import itertools

import numpy as np

from vt import alg, extract, sx
from vt.alg import Ctx, X
from vt.core import Ob, Verdict, Refuted, Unsupported, DISCHARGED, REFUTED
from . import ops
from . import common

PROP = "C07"
PATH = "EasyFEA/FEM/_gauss.py"
MOD = "EasyFEA.FEM._gauss"
TOL = Fraction(1, 10 ** 13)

SHAPES = {
    # shape: (function, dim, reference measure)
    "Triangle": ("Gauss._Triangle", 2, Fraction(1, 2)),
    "Quadrangle": ("Gauss._Quadrangle", 2, Fraction(4)),
    "Tetrahedron": ("Gauss._Tetrahedron", 3, Fraction(1, 6)),
    "Hexahedron": ("Gauss._Hexahedron", 3, Fraction(8)),
    "Prism": ("Gauss._Prism", 3, Fraction(1)),
}


def _np_shim(c: Ctx):
    import numpy as np

    class NP:
        def __getattr__(self, k):
            return getattr(np, k)

        @staticmethod
        def sqrt(v):
            if isinstance(v, X):
                return c.sqrt(v)
            if isinstance(v, (int, Fraction)):
                return c.sqrt_rational(Fraction(v))
            raise Unsupported(f"np.sqrt of {type(v).__name__}")

        @staticmethod
        def array(v, *a, **k):
            return np.array(v, dtype=object)

        @staticmethod
        def asarray(v, *a, **k):
            return np.array(v, dtype=object)
    return NP()


def doc_orders(fnname):
    """Parses 'available [..]' and 'order ... = [..]' lines of the rule's docstring."""
    fn = extract.get(PATH, fnname)
    doc = ast.get_docstring(fn.node) or ""
    avail = re.search(r"available\s*\[([^\]]*)\]", doc)
    if not avail:
        raise Unsupported(f"{fnname}: no 'available [...]' line in docstring")
    av = [int(x) for x in avail.group(1).split(",")]
    orders = {}
    for m in re.finditer(r"order\s*([A-Za-z& ]*)=\s*\[([^\]]*)\]", doc):
        key = m.group(1).strip() or "all"
        orders[key] = [int(x) for x in m.group(2).split(",")]
    if not orders:
        raise Unsupported(f"{fnname}: no 'order = [...]' line in docstring")
    return av, orders


def rule(shape, nPg):
    """Runs the real rule function exactly. Returns ctx, points (list of tuples of X), weights (list of X)."""
    fnname, dim, meas = SHAPES[shape]
    c = Ctx([], nspare=12)
    g = sx.module_globals(MOD, np=_np_shim(c))
    f = extract.compile_fn(extract.get(PATH, fnname), g)
    f = f.__func__ if isinstance(f, staticmethod) else f
    res = f(nPg)
    *coords, weights = res
    coords = [list(cc) for cc in coords]
    weights = list(weights)
    if len(coords) != dim:
        raise Refuted(f"{fnname}({nPg}) returns {len(coords)} coordinate lists, expected {dim}", signature=f"{shape}{nPg}:arity",
                      replay=dict(confirmed=True))
    lift = lambda v: v if isinstance(v, X) else c.const(v)
    pts = [tuple(lift(cc[i]) for cc in coords) for i in range(len(weights))]
    ws = [lift(w) for w in weights]
    return c, pts, ws


def _absle(c, x: X, tol: Fraction) -> tuple[bool, float]:
    if c.iszero(x):
        return True, 0.0
    g = x.ground()
    if g is not None:
        return abs(g) <= tol, float(abs(g))
    v = alg._eval_ground(c, x)
    a = abs(v)
    t = alg._mp(tol)
    if abs(a - t) < alg.mpmath.mpf(10) ** (-50):
        raise Unsupported("algebraic residual indistinguishable from the tolerance")
    return bool(a <= t), float(a)


def _fact(n):
    return math.factorial(n)


def ref_integral(shape, e):
    if shape == "Segment":
        (a,) = e
        return Fraction((1 + (-1) ** a), a + 1)
    if shape == "Triangle":
        a, b = e
        return Fraction(_fact(a) * _fact(b), _fact(a + b + 2))
    if shape == "Quadrangle":
        a, b = e
        return Fraction((1 + (-1) ** a), a + 1) * Fraction((1 + (-1) ** b), b + 1)
    if shape == "Tetrahedron":
        a, b, cc = e
        return Fraction(_fact(a) * _fact(b) * _fact(cc), _fact(a + b + cc + 3))
    if shape == "Hexahedron":
        r = Fraction(1)
        for a in e:
            r *= Fraction((1 + (-1) ** a), a + 1)
        return r
    if shape == "Prism":
        a, b, cc = e          # gmsh axes: triangle in (x, y), Gauss-Legendre along z in [-1, 1]
        return Fraction(_fact(a) * _fact(b), _fact(a + b + 2)) * Fraction((1 + (-1) ** cc), cc + 1)
    raise Unsupported(shape)


def monomial_set(shape, orders, idx):
    dim = 1 if shape == "Segment" else SHAPES[shape][1]
    if shape == "Prism":
        ox = orders.get("X", orders.get("all"))[idx]
        oyz = orders.get("Y & Z", orders.get("all"))[idx]
        return [e for e in common.monomials(3, max(ox, oyz) * 2) if e[0] + e[1] <= oyz and e[2] <= ox]
    o = orders["all"][idx]
    return common.monomials(dim, o)


def inside(shape, c, p):
    """closed reference element"""
    s = lambda x: x.sign()
    if shape == "Segment":
        return s(p[0] + 1) >= 0 and s(1 - p[0]) >= 0
    if shape == "Triangle":
        return s(p[0]) >= 0 and s(p[1]) >= 0 and s(1 - p[0] - p[1]) >= 0
    if shape == "Quadrangle":
        return all(s(x + 1) >= 0 and s(1 - x) >= 0 for x in p)
    if shape == "Tetrahedron":
        return all(s(x) >= 0 for x in p) and s(1 - p[0] - p[1] - p[2]) >= 0
    if shape == "Hexahedron":
        return all(s(x + 1) >= 0 and s(1 - x) >= 0 for x in p)
    if shape == "Prism":
        return s(p[0]) >= 0 and s(p[1]) >= 0 and s(1 - p[0] - p[1]) >= 0 and s(p[2] + 1) >= 0 and s(1 - p[2]) >= 0
    raise Unsupported(shape)


def _quad(c, pts, ws, e):
    tot = c.const(0)
    for p, w in zip(pts, ws):
        t = w
        for x, k in zip(p, e):
            if k:
                t = t * x ** k
        tot = tot + t
    return tot


def _native_rule(shape, nPg, e):
    """Native replay: the real Gauss rule (floats) applied to the monomial."""
    try:
        import numpy as np
        from EasyFEA.FEM._gauss import Gauss
        f = getattr(Gauss, SHAPES[shape][0].split(".")[1])
        *coords, w = f(nPg)
        coords = [np.asarray(cc, dtype=float) for cc in coords]
        w = np.asarray(w, dtype=float)
        val = float(np.sum(w * np.prod([cc ** k for cc, k in zip(coords, e)], axis=0)))
        ref = float(ref_integral(shape, e))
        meas = float(SHAPES[shape][2])
        return dict(confirmed=abs(val - ref) > 1e-13 * meas, quadrature=val, exact=ref, monomial=list(e), rel_err=abs(val - ref) / meas)
    except Exception as ex:
        return dict(confirmed=False, error=repr(ex))


def ob_rule(shape, nPg, idx, canary=False):
    fnname, dim, meas = SHAPES[shape]
    av, orders = doc_orders(fnname)
    c, pts, ws = rule(shape, nPg)
    n = 0
    if len(ws) != nPg:
        raise Refuted(f"{fnname}({nPg}) returns {len(ws)} weights", signature=f"{shape}{nPg}:count", replay=dict(confirmed=True))
    for i, p in enumerate(pts):
        n += 1
        if not inside(shape, c, p):
            raise Refuted(f"{fnname}({nPg}): point {i} = {[float(x) for x in p]} lies outside the reference element",
                          cex=dict(point=i), signature=f"{shape}{nPg}:inside", replay=dict(confirmed=True, point=[float(x) for x in p]))
    worst = 0.0
    for e in monomial_set(shape, orders, idx):
        q = _quad(c, pts, ws, e)
        ref = ref_integral(shape, e)
        if canary and sum(e) == 1:
            ref += Fraction(1, 1000)
        ok, res = _absle(c, q - ref, TOL * meas)
        worst = max(worst, res)
        n += 1
        if not ok:
            kind = "wsum" if sum(e) == 0 else "exact"
            raise Refuted(f"{fnname}({nPg}): monomial {e}: quadrature - integral = {res:.3e} (> 1e-13 x reference measure)",
                          cex=dict(monomial=list(e), residual=res), signature=f"{shape}{nPg}:{kind}:{'.'.join(map(str, e))}",
                          replay=_native_rule(shape, nPg, e))
    return Verdict(DISCHARGED, backend="exact algebraic evaluation (QQ[sqrt primes]), tolerance 1e-13", sub=n,
                   detail=f"max residual {worst:.2e}")


def ob_leggauss(n):
    """External rule np.polynomial.legendre.leggauss(n): values taken at run time, read as exact rationals, degree 2n-1."""
    import numpy as np
    x, w = np.polynomial.legendre.leggauss(n)
    xs = [Fraction(float(v)) for v in x]
    ws = [Fraction(float(v)) for v in w]
    cnt = 0
    for p in xs:
        cnt += 1
        if not (-1 <= p <= 1):
            raise Refuted(f"leggauss({n}) point {float(p)} outside [-1,1]", signature=f"Segment{n}:inside", replay=dict(confirmed=True))
    for a in range(2 * n):
        q = sum(wi * xi ** a for xi, wi in zip(xs, ws))
        ref = ref_integral("Segment", (a,))
        cnt += 1
        if abs(q - ref) > TOL * 2:
            raise Refuted(f"leggauss({n}) degree {a}: residual {float(abs(q-ref)):.3e}", signature=f"Segment{n}:exact:{a}",
                          replay=dict(confirmed=True, residual=float(abs(q - ref))))
    return Verdict(DISCHARGED, backend="external values checked exactly", sub=cnt)


# ---- factory

SHAPE_OF = {"SEG": "Segment", "TRI": "Triangle", "QUAD": "Quadrangle", "TETRA": "Tetrahedron", "HEXA": "Hexahedron", "PRISM": "Prism"}
# nodes shared by a 2-element conforming patch (the smallest mesh the property quantifies over), per possible shared face
SHARED = {"SEG2": [1], "SEG3": [1], "SEG4": [1], "SEG5": [1], "TRI3": [2], "TRI6": [3], "TRI10": [4], "TRI15": [5],
          "QUAD4": [2], "QUAD8": [3], "QUAD9": [3], "TETRA4": [3], "TETRA10": [6], "HEXA8": [4], "HEXA20": [8], "HEXA27": [9],
          "PRISM6": [3, 4], "PRISM15": [6, 8], "PRISM18": [6, 9]}


def topo(et):
    return "".join(ch for ch in et if not ch.isdigit())


def factory(et, mt):
    """Runs the real Gauss_factory exactly (leggauss values lifted to exact rationals of the floats)."""
    import numpy as np
    from EasyFEA.FEM._utils import ElemType, MatrixType
    c = Ctx([], nspare=12)
    np_s = _np_shim(c)

    class Leg:
        @staticmethod
        def leggauss(n):
            x, w = np.polynomial.legendre.leggauss(n)
            return ([c.const(Fraction(float(v))) for v in x], [c.const(Fraction(float(v))) for v in w])

    class Poly:
        legendre = Leg

    class NP2(type(np_s)):
        polynomial = Poly
    g = sx.module_globals(MOD, np=NP2())
    # the factory calls Gauss._Triangle etc.: bind `Gauss` to a namespace of the extracted rule functions
    ns = {}
    for sh, (fnname, dim, meas) in SHAPES.items():
        ff = extract.compile_fn(extract.get(PATH, fnname), g)
        ns[fnname.split(".")[1]] = staticmethod(ff.__func__ if isinstance(ff, staticmethod) else ff)
    GaussNS = type("Gauss", (), ns)
    g["Gauss"] = GaussNS
    f = extract.compile_fn(extract.get(PATH, "Gauss.Gauss_factory"), g)
    f = f.__func__ if isinstance(f, staticmethod) else f
    coord, weights = f(ElemType[et], MatrixType[mt])
    lift = lambda v: v if isinstance(v, X) else c.const(v)
    pts = [tuple(lift(v) for v in row) for row in coord]
    ws = [lift(v) for v in weights]
    return c, pts, ws


def accepted_pairs():
    from EasyFEA.FEM._utils import ElemType, MatrixType
    from EasyFEA.FEM._gauss import Gauss
    out = []
    for et in common.LAGRANGE:
        for mt in MatrixType.Get_types():
            if mt.name in ("beam", "beam_shear") and not et.startswith("SEG"):
                continue   # beam rules are only requested for segment groups
            try:
                Gauss.Gauss_factory(ElemType[et], mt)
            except ValueError:
                continue
            out.append((et, mt.name))
    return out


def exact_degree(shape, c, pts, ws, maxdeg=12):
    """largest d such that all monomials of total degree <= d are integrated within tolerance."""
    dim = len(pts[0])
    meas = Fraction(2) if shape == "Segment" else SHAPES[shape][2]
    d = -1
    for deg in range(maxdeg + 1):
        for e in common.monomials(dim, deg):
            if sum(e) != deg:
                continue
            ok, _ = _absle(c, _quad(c, pts, ws, e) - ref_integral(shape, e), TOL * meas)
            if not ok:
                return d
        d = deg
    return d


def ob_factory(et, mt):
    gid, nPe, dim, order = common.elem_infos(et)
    shape = SHAPE_OF[topo(et)]
    c, pts, ws = factory(et, mt)
    n = 0
    if len(pts) != len(ws) or len(pts) == 0:
        raise Refuted(f"Gauss_factory({et},{mt}): {len(pts)} points, {len(ws)} weights", signature=f"{et}:{mt}:count", replay=dict(confirmed=True))
    for p in pts:
        n += 1
        if len(p) != dim:
            raise Refuted(f"Gauss_factory({et},{mt}): point of dimension {len(p)}, expected {dim}", signature=f"{et}:{mt}:dim", replay=dict(confirmed=True))
        if not inside(shape, c, p):
            raise Refuted(f"Gauss_factory({et},{mt}): point outside the reference element", signature=f"{et}:{mt}:inside", replay=dict(confirmed=True))
    for i, w in enumerate(ws):
        n += 1
        if w.sign() <= 0:
            raise Refuted(f"Gauss_factory({et},{mt}): weight {i} = {float(w)} is not positive (PSD structure of K_e = sum w J B'CB needs w > 0)",
                          cex=dict(weight=i, value=float(w)), signature=f"{et}:{mt}:wpos", replay=_native_factory(et, mt))
    meas = Fraction(2) if shape == "Segment" else SHAPES[shape][2]
    ok, res = _absle(c, _quad(c, pts, ws, (0,) * dim) - meas, TOL * meas)
    n += 1
    if not ok:
        raise Refuted(f"Gauss_factory({et},{mt}): weights sum to measure + {res:.3e}", signature=f"{et}:{mt}:wsum", replay=_native_factory(et, mt))
    deg = exact_degree(shape, c, pts, ws)
    return Verdict(DISCHARGED, backend="exact algebraic evaluation", sub=n, detail=f"nPg={len(ws)} exact total degree={deg}")


def _native_factory(et, mt):
    try:
        import numpy as np
        from EasyFEA.FEM._gauss import Gauss
        from EasyFEA.FEM._utils import ElemType, MatrixType
        g = Gauss(ElemType[et], MatrixType[mt])
        return dict(confirmed=True, nPg=int(g.nPg), weights_sum=float(g.weights.sum()), min_weight=float(g.weights.min()))
    except Exception as e:
        return dict(confirmed=False, error=repr(e))


def ob_sufficient(et, mt):
    """Necessary rank count on the smallest meshes of the quantifier (2 conforming elements):
    rigi: nPg*Ne*nstrain >= ndof - #modes (scalar conduction and elasticity);  mass: nPg*Ne >= Nn (SPD)."""
    from EasyFEA.FEM._gauss import Gauss
    from EasyFEA.FEM._utils import ElemType, MatrixType
    gid, nPe, dim, order = common.elem_infos(et)
    c, pts, ws = factory(et, mt)
    nPg = len(ws)
    n = 0
    for sh in SHARED[et]:
        Nn = 2 * nPe - sh
        if mt == "mass":
            n += 1
            if 2 * nPg < Nn:
                raise Refuted(f"{et} mass: {nPg} points x 2 elements = rank <= {2*nPg} < {Nn} nodes of a 2-element patch: consistent mass matrix singular",
                              cex=dict(elemType=et, nPg=nPg, patch_nodes=Nn), signature=f"{et}:mass:rank",
                              replay=_native_patch(et, "mass"))
        elif mt == "rigi":
            nstrain_s, modes_s = dim, 1
            n += 1
            if 2 * nPg * nstrain_s < Nn - modes_s:
                raise Refuted(f"{et} rigi (scalar conduction): rank <= {2*nPg*nstrain_s} < {Nn - modes_s} = nodes - 1 of a 2-element patch: spurious zero-energy modes",
                              cex=dict(elemType=et, nPg=nPg, patch_nodes=Nn), signature=f"{et}:rigi:rank:scalar",
                              replay=_native_patch(et, "rigi"))
            if dim >= 2:
                nstrain, modes = (3, 3) if dim == 2 else (6, 6)
                n += 1
                if 2 * nPg * nstrain < Nn * dim - modes:
                    raise Refuted(f"{et} rigi (elasticity): rank <= {2*nPg*nstrain} < {Nn*dim - modes}", signature=f"{et}:rigi:rank:elastic",
                                  cex=dict(elemType=et, nPg=nPg, patch_nodes=Nn), replay=_native_patch(et, "rigi"))
    return Verdict(DISCHARGED, backend="integer arithmetic on the factory's point count", sub=n, detail=f"nPg={nPg}")


def _native_patch(et, mt):
    """Native replay on a real 2-element mesh built without gmsh: nullity of the assembled scalar matrix."""
    try:
        import numpy as np
        from . import patches
        mesh = patches.two_element_mesh(et)
        from EasyFEA import Models, Simulations
        mat = Models.Thermal(k=1.0, c=1.0)
        simu = Simulations.Thermal(mesh, mat)
        simu.rho = 1.0
        K, C, M, F = simu.Get_K_C_M_F()
        A = (K if mt == "rigi" else C).toarray()
        ev = np.linalg.eigvalsh((A + A.T) / 2)
        tol = 1e-10 * max(1.0, abs(ev).max())
        nullity = int((np.abs(ev) < tol).sum())
        want = 1 if mt == "rigi" else 0
        return dict(confirmed=nullity != want, nullity=nullity, expected_nullity=want, Nn=int(mesh.Nn), min_eig=float(ev.min()))
    except Exception as e:
        return dict(confirmed=False, error=repr(e))


SHAPE_ET = {"Segment": "SEG2", "Triangle": "TRI3", "Quadrangle": "QUAD4", "Tetrahedron": "TETRA4", "Hexahedron": "HEXA8", "Prism": "PRISM6"}


def ob_mesh_rule(shape, nPg, idx):
    """mesh level (the integration measure every operator and Integrate_e use): with the rule selected by its POINT COUNT on a 2-element affine patch,
    the weighted Jacobians sum to the measure of each element and Integrate_e is exact for every monomial of total degree <= the documented order
    (an affine map keeps the degree).  Rules with a negative weight (5-point tetrahedron, 8-point prism) are included."""
    from . import patches
    fnname, dim, meas = SHAPES[shape]
    av, orders = doc_orders(fnname)
    order = min(v[idx] for v in orders.values())
    et = SHAPE_ET[shape]
    mesh = patches.two_element_mesh(et)
    g = mesh.groupElem
    try:
        wJ = np.asarray(g.Get_weightedJacobian_e_pg(nPg))
    except Exception as ex:
        raise Unsupported(f"the group does not accept the point count {nPg} as a matrix type: {type(ex).__name__}: {str(ex)[:100]}")
    if wJ.shape[1] != nPg:
        raise Unsupported(f"point count {nPg} gives {wJ.shape[1]} points")
    meas_e = {1: lambda: g.length_e, 2: lambda: g.area_e, 3: lambda: g.volume_e}[dim]()
    ref_e = _elem_measures(et, np.asarray(mesh.coord), np.asarray(g.connect))
    n = 1
    e0 = float(np.abs(wJ.sum(1) - ref_e).max() / ref_e.max())
    if e0 > 1e-12:
        raise Refuted(f"{shape} rule with {nPg} points on a {et} patch: weighted Jacobians sum to {wJ.sum(1).tolist()}, the elements measure {ref_e.tolist()}", cex=dict(shape=shape, nPg=nPg),
                      signature=f"mesh_rule:{shape}:{nPg}:measure", replay=dict(confirmed=True, rel_err=e0))
    # exact integrals of monomials over the affine image of the reference element: by the change of variables, via the exact reference integrals (ref_integral)
    co = np.asarray(mesh.coord)
    con = np.asarray(g.connect)
    ref_nodes = np.array([[float(x) for x in p_] for p_ in patches.ref_nodes(et)])
    worst = 0.0
    for e in range(con.shape[0]):
        # affine map x = A xi + b from the vertices
        X0 = co[con[e]][:, :3]
        M = np.hstack([ref_nodes, np.ones((ref_nodes.shape[0], 1))])
        sol = np.linalg.lstsq(M, X0, rcond=None)[0]          # (dim+1, 3)
        A, b = sol[:dim].T, sol[dim]
        import sympy as sp
        xi = sp.symbols("a0:%d" % dim)
        xs = [sum(sp.nsimplify(A[i, j], rational=True) * xi[j] for j in range(dim)) + sp.nsimplify(b[i], rational=True) for i in range(3)]
        for exps in itertools.product(range(order + 1), repeat=dim):
            if sum(exps) > order:
                continue
            f_sym = sp.expand(sp.Mul(*[xs[i] ** exps[i] for i in range(dim)]))
            poly = sp.Poly(f_sym, *xi)
            exact = sum(float(cf) * float(ref_integral(shape, mon)) for mon, cf in poly.terms()) * (ref_e[e] / float(meas))
            got = float(np.asarray(g.Integrate_e(lambda x, y, z: (x ** exps[0]) * ((y ** exps[1]) if dim > 1 else 1) * ((z ** exps[2]) if dim > 2 else 1), nPg))[e])
            n += 1
            err = abs(got - exact) / max(abs(exact), ref_e[e])
            worst = max(worst, err)
            if err > 1e-10:
                raise Refuted(f"{shape} rule with {nPg} points (documented order {order}) on a {et} patch: Integrate_e of x^{exps} over element {e} = {got:.12g}, exact {exact:.12g}",
                              cex=dict(shape=shape, nPg=nPg, monomial=list(exps), element=e), signature=f"mesh_rule:{shape}:{nPg}:poly", replay=dict(confirmed=True, rel_err=err))
    return Verdict(DISCHARGED, backend="native run of Integrate_e vs exact reference integrals mapped affinely", sub=n, detail=f"order {order}, worst {worst:.1e}")


def _elem_measures(et, co, con):
    out = []
    for row in con:
        P = co[row]
        if et == "SEG2":
            out.append(np.linalg.norm(P[1] - P[0]))
        elif et == "TRI3":
            out.append(0.5 * np.linalg.norm(np.cross(P[1] - P[0], P[2] - P[0])))
        elif et == "QUAD4":        # affine image of the square: a parallelogram
            out.append(np.linalg.norm(np.cross(P[1] - P[0], P[3] - P[0])))
        elif et == "TETRA4":
            out.append(abs(np.linalg.det(np.array([P[1] - P[0], P[2] - P[0], P[3] - P[0]]))) / 6)
        elif et == "HEXA8":        # parallelepiped
            out.append(abs(np.linalg.det(np.array([P[1] - P[0], P[3] - P[0], P[4] - P[0]]))))
        elif et == "PRISM6":       # affine prism: triangle area x extrusion
            out.append(abs(np.linalg.det(np.array([P[1] - P[0], P[2] - P[0], P[3] - P[0]]))) / 2)
    return np.array(out)


def ob_simu_center(case):
    """centre of mass served by a simulation (the same quadrature as the mesh centroid, weighted by the density): no exception and the right point, also for a mesh centred at
    the origin and for a beam structure whose members have different sections (mass-weighted centre, not the geometric one)."""
    import contextlib, io
    from EasyFEA import Models, Simulations, Mesher, ElemType
    from EasyFEA.Geoms import Domain, Point, Line
    with contextlib.redirect_stdout(io.StringIO()):
        if case in ("TRI3", "QUAD4", "TETRA4", "HEXA8"):
            # a domain that is NOT centred at the origin, with three different centre coordinates (a sum over the wrong axes cannot cancel)
            dom = Domain(Point(0.5, -1), Point(2.5, 3), 0.5)
            mesh = dom.Mesh_2D([], ElemType[case]) if case in ("TRI3", "QUAD4") else Domain(Point(0.5, -1, 0.25), Point(2.5, 3, 0.25), 1.0).Mesh_Extrude([], [0, 0, 2], [2], ElemType[case])
            sm = Simulations.Elastic(mesh, Models.Elastic.Isotropic(mesh.dim, thickness=0.7) if mesh.dim == 2 else Models.Elastic.Isotropic(3))
            sm.rho = 2.5
            want = np.array([1.5, 1.0, 0.0 if mesh.dim == 2 else 1.25])
        else:
            s1 = Mesher().Mesh_2D(Domain(Point(), Point(0.1, 0.1)))
            s2 = Mesher().Mesh_2D(Domain(Point(), Point(0.2, 0.2)))
            b1 = Models.Beam.Isotropic(2, Line(Point(0, 0), Point(1, 0)), s1, 210e3, v=0.3)
            b2 = Models.Beam.Isotropic(2, Line(Point(1, 0), Point(2, 0)), s2 if case == "beam.sections" else s1, 210e3, v=0.3)
            mesh = Mesher().Mesh_Beams([b1, b2], elemType=ElemType.SEG2)
            sm = Simulations.Beam(mesh, Models.Beam.BeamStructure([b1, b2]))
            sm.rho = 7.8
            A1, A2 = 0.01, (0.04 if case == "beam.sections" else 0.01)
            want = np.array([(A1 * 0.5 + A2 * 1.5) / (A1 + A2), 0.0, 0.0])
    try:
        got = np.asarray(sm.center, dtype=float)
    except Exception as ex:
        raise Refuted(f"centre of mass of the simulation ({case}) raises {type(ex).__name__}: {str(ex)[:100]}", cex=dict(case=case), signature=f"center:{case}:raises", replay=dict(confirmed=True))
    e = float(np.abs(got - want).max())
    if e > 1e-12:
        raise Refuted(f"centre of mass of the simulation ({case}) is {got.tolist()}, expected {want.tolist()}", cex=dict(case=case), signature=f"center:{case}", replay=dict(confirmed=True, err=e))
    return Verdict(DISCHARGED, backend="native run", detail=f"err {e:.1e}")


def build(tier, seed):
    obs = []
    funcs = {}
    for shape, (fnname, dim, meas) in SHAPES.items():
        funcs[fnname] = extract.get(PATH, fnname).describe()
        av, orders = doc_orders(fnname)
        for idx, nPg in enumerate(av):
            obs.append(Ob(f"C07.{shape}.{nPg}", ob_rule, (shape, nPg, idx), "P", (f"{PATH}::{fnname}",),
                          clause=f"{nPg} points inside; weights sum to |ref|; exact for all monomials of the documented order ({ {k: v[idx] for k, v in orders.items()} })"))
        for idx, nPg in enumerate(av):
            obs.append(Ob(f"C07.mesh.{shape}.{nPg}", ob_mesh_rule, (shape, nPg, idx), "X", ("EasyFEA/FEM/_group_elem.py::_GroupElem.Get_weightedJacobian_e_pg", "EasyFEA/FEM/_group_elem.py::_GroupElem.Integrate_e"),
                          bound="2-element affine patch of the linear element of the shape, floats (1e-10)", timeout=300,
                          clause="rule selected by its point count at mesh level: weighted Jacobians sum to the element measures; Integrate_e exact for every monomial up to the documented order"))
    for n in range(1, 9):
        obs.append(Ob(f"C07.Segment.{n}", ob_leggauss, (n,), "X", ("numpy.polynomial.legendre.leggauss (external)",),
                      bound="external function: values at run time", clause="Gauss-Legendre n points exact to degree 2n-1"))
    funcs["Gauss.Gauss_factory"] = extract.get(PATH, "Gauss.Gauss_factory").describe()
    for et, mt in accepted_pairs():
        obs.append(Ob(f"C07.factory.{et}.{mt}", ob_factory, (et, mt), "P", (f"{PATH}::Gauss.Gauss_factory",),
                      clause="rule exists, points inside, weights > 0, weights sum to the reference measure"))
        if mt in ("rigi", "mass"):
            obs.append(Ob(f"C07.sufficient.{et}.{mt}", ob_sufficient, (et, mt), "P", (f"{PATH}::Gauss.Gauss_factory",),
                          clause="necessary rank count on 2-element patches (no rank-deficient assembled matrix)"))
    for case in ("TRI3", "QUAD4", "TETRA4", "HEXA8", "beam.uniform", "beam.sections"):
        obs.append(Ob(f"C07.center.{case}", ob_simu_center, (case,), "X", ("EasyFEA/Simulations/_simu.py::_Simu.center", "EasyFEA/Simulations/_beam.py::Beam.center"), bound="one mesh",
                      clause="centre of mass of a simulation: exact on a mesh centred at the origin; mass-weighted for beams with different sections", timeout=300))
    obs.append(Ob("canary.Triangle.3", ob_rule, ("Triangle", 3, 1, True), "P", expect=REFUTED))
    obs += ops.measure_obligations('C07', tier)
    obs.append(ops.selfcheck_ob('C07'))
    return dict(
        obs=obs, level="proof", min_obligations=60,
        explanation=("Every tabulated rule (_Triangle, _Quadrangle, _Tetrahedron, _Hexahedron, _Prism at every point count its "
                     "docstring lists) is executed from the extracted AST in exact arithmetic and checked against closed-form "
                     "reference integrals for every monomial of the documented order; the factory if-chain is executed for every "
                     "accepted (element type, matrix type) pair. Finite and ground, hence complete."),
        trusted_base=ops.GP_TRUST + ["decimal literals read as exact rationals; np.sqrt(k) as the algebraic number (independent sqrt(prime) generators)",
                      "closed-form monomial integrals on the reference shapes",
                      "np.polynomial.legendre.leggauss is external: its float output is checked at run time, not proved",
                      "sympy normal form; mpmath 80-digit sign evaluation of ground algebraic numbers"],
        assumptions=["machine arithmetic treated as mathematical", "tolerance 1e-13 x reference measure for exactness clauses",
                     "documented order parsed from the rule docstrings ('available [...]', 'order = [...]')",
                     "sufficiency is the necessary rank-count on 2-element patches; actual ranks of assembled matrices are decided in C02"],
        functions=funcs,
        dropped=["D1 staticmethod decorator", "D2 annotations", "D3 docstrings (parsed for the documented order)", "D4 exact literals"],
    )
