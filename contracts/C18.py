"""C18 -- hyperelastic stress, tangents and discrete energy balance are consistent.

  P  C18.inv.<I>.<dim>        HyperElasticState invariants, real methods run on a SYMBOLIC right Cauchy-Green tensor: the returned first / second derivatives
                              are the Kelvin-Mandel gradient / Hessian of the returned invariant (polynomial identities, all C)
  P  C18.kin.De / Deta / C    De(u).flat(grad v) == KM(sym(F' grad v)), Deta(v).flat(grad du) == KM(sym(grad v' grad du)) for symbolic F, grad v (2-D, 3-D);
                              C(QF) == C(F) for a rational rotation Q and symbolic F
  E  C18.law.frame.<law>      every built-in law reads the state only through Compute_I* / Compute_dI*dC / Compute_d2I*dC (so W depends on F through C only:
                              with C18.kin.C this is objectivity)
  P  C18.law.<law>.dW / d2W   extracted Compute_W / Compute_dWde / Compute_d2Wde run on formal invariants (sympy symbols) and formal gradient / Hessian atoms:
                              the coefficient of dI_k/dC in the stress is 2 dW/dI_k, the tangent is 4 sum dW/dI_k d2I_k + 4 sum d2W/dI_k dI_l dI_k (x) dI_l with
                              symmetric coefficients -- decided by sympy simplification for ALL invariant values and ALL parameters
  P  C18.law.<law>.ref        W == 0 and stress == 0 at C == I (fibres orthogonal for Holzapfel-Ogden)
  B  C18.op.<operator>.<et>   the real element operators run on exact rationals along u(t) = u0 + t d (Saint-Venant-Kirchhoff, whose energy is polynomial):
                              K_e(t) d == d/dt R_e(t) as polynomials in t, for every unit direction d (tolerance 2^-40 on coefficients: float literals)
                              pointwise PK2, Gonzalez discrete gradient (coefK = 1/2), strain-path quadrature (1, 2, 3 points; coefK = 1/2 and 1), active
                              stress, Kelvin-Voigt (configuration tangent and damping matrix), follower pressure, penalty contact (flat obstacle)
  B  C18.energy.<operator>    discrete energy balance of one step for arbitrary end states: R_e . (u_{n+1} - u_n) == integral of W(u_{n+1}) - W(u_n)
                              (Gonzalez: every law's energy; quadrature: when the rule integrates the path exactly)
  X  C18.native.*             all laws (incl. AutoDiff with a user energy) at seeded random deformation states: stress / tangent vs Richardson finite differences
                              of W / stress, objectivity under random rotations, reference state; free-motion energy drift under midpoint + gonzalez / quadrature
                              for several step sizes and many steps
"""
from __future__ import annotations

import ast
import itertools
import math
from fractions import Fraction

import numpy as np

from vt import alg, extract, sx, npshim, symrun, eff
from vt.alg import Ctx, X
from vt.core import Ob, Verdict, Refuted, Unsupported, DISCHARGED, REFUTED
from . import ops
from . import common, fem, patches

PROP = "C18"
F = Fraction
LAWS = "EasyFEA/Models/HyperElastic/_laws.py"
STATE = "EasyFEA/Models/HyperElastic/_state.py"
NL = "EasyFEA/FEM/Operators/NonLinear.py"
EPS = F(1, 2 ** 40)
LAW_NAMES = ["NeoHookean", "MooneyRivlin", "CiarletGeymonat", "SaintVenantKirchhoff", "HolzapfelOgden"]


# ---------------------------------------------------------------- P: invariants on a symbolic C

class _FakeGroup:
    def __init__(self, NPs, dim, nPg=1):
        self.Ne, self.Ncoords, self.dim, self._nPg, self._np = 1, 1, dim, nPg, NPs

    def Get_N_pg(self, matrixType):
        return np.zeros((self._nPg, 1, 1))


def _state_on_C(c, NPs, dim, Cmat):
    """real HyperElasticState whose Compute_C returns the given 3x3 symbolic matrix (one element, one Gauss point)."""
    from EasyFEA.Models.HyperElastic._state import HyperElasticState
    from EasyFEA.FEM._linalg import FeArray
    import EasyFEA.Models.HyperElastic._state as S
    S.np = NPs
    st = object.__new__(HyperElasticState)
    object.__setattr__(st, "_HyperElasticState__groupElem", _FakeGroup(NPs, dim))
    object.__setattr__(st, "_HyperElasticState__displacement", np.zeros(dim))
    object.__setattr__(st, "_HyperElasticState__matrixType", "rigi")
    arr = np.empty((1, 1, 3, 3), dtype=object)
    for i in range(3):
        for j in range(3):
            arr[0, 0, i, j] = Cmat[i][j]
    Cfe = FeArray.asfearray(arr)
    st.Compute_C = lambda: Cfe
    return st


def _sym_C(c, dim):
    cxx, cyy, cxy = c.sym("cxx"), c.sym("cyy"), c.sym("cxy")
    if dim == 3:
        czz, cyz, cxz = c.sym("czz"), c.sym("cyz"), c.sym("cxz")
    else:
        czz, cyz, cxz = F(1), F(0), F(0)
    return [[cxx, cxy, cxz], [cxy, cyy, cyz], [cxz, cyz, czz]], dict(cxx=cxx, cyy=cyy, czz=czz, cyz=cyz, cxz=cxz, cxy=cxy)


KM6 = [("cxx", 1), ("cyy", 1), ("czz", 1), ("cyz", 2), ("cxz", 2), ("cxy", 2)]


def _km_diff(c, expr, comp, mult):
    """Kelvin-Mandel derivative: d/d c_ii, or (1/sqrt2) d/d c_ab for a shear component (c_ab stands for both c_ab and c_ba)."""
    expr = expr if isinstance(expr, X) else c.const(expr)
    d = expr.diff(comp)
    return d if mult == 1 else d / c.sqrt_rational(F(2))


def _scalar(v):
    a = np.asarray(v)
    return a.ravel()[0] if a.dtype == object or a.size == 1 else a


def ob_invariant(name, dim):
    names = ["cxx", "cyy", "cxy"] + (["czz", "cyz", "cxz"] if dim == 3 else [])
    wit = dict(cxx=F(5, 4), cyy=F(9, 8), cxy=F(1, 7), czz=F(11, 10), cyz=F(-1, 9), cxz=F(1, 11))
    c = Ctx(names, nspare=6, witness={k: wit[k] for k in names})
    NPs = symrun.install(c)
    Cmat, syms = _sym_C(c, dim)
    st = _state_on_C(c, NPs, dim, Cmat)
    T1 = np.array([0.5, 0.25, -0.75])
    T2 = np.array([0.25, -0.5, 0.125])
    args = {"I4": (T1,), "I6": (T2,), "I8": (T1, T2)}.get(name, ())
    val = _scalar(getattr(st, f"Compute_{name}")(*args))
    grad = np.asarray(getattr(st, f"Compute_d{name}dC")(*args)).reshape(-1)
    hess = np.asarray(getattr(st, f"Compute_d2{name}dC")())
    hess = hess.reshape(hess.shape[-2], hess.shape[-1])
    comps = KM6 if dim == 3 else [KM6[0], KM6[1], KM6[5]]
    if grad.size != len(comps) or hess.shape != (len(comps), len(comps)):
        raise Refuted(f"{name} ({dim}-D): gradient has {grad.size} components, Hessian {hess.shape}; expected {len(comps)}", signature=f"inv:{name}:{dim}:shape", replay=_sub("_replay_law", "MooneyRivlin", dim))
    n = 0
    for i, (comp, mult) in enumerate(comps):
        want = _km_diff(c, val, comp, mult)
        got = grad[i] if isinstance(grad[i], X) else c.const(grad[i])
        n += 1
        if not (got == want) and not _small(c, got - want, EPS):
            raise Refuted(f"d{name}/dC component {i} ({comp}) is {got}, Kelvin-Mandel derivative of {name} is {want}", signature=f"inv:{name}:{dim}:grad", replay=_sub("_replay_inv", name, dim))
        for j, (comp2, mult2) in enumerate(comps):
            want2 = _km_diff(c, got, comp2, mult2)
            got2 = hess[i][j] if isinstance(hess[i][j], X) else c.const(hess[i][j])
            n += 1
            if not (got2 == want2) and not _small(c, got2 - want2, EPS):
                raise Refuted(f"d2{name}/dC2 [{i},{j}] is {got2}, Kelvin-Mandel derivative of d{name}/dC[{i}] w.r.t. {comp2} is {want2}", signature=f"inv:{name}:{dim}:hess",
                              replay=_sub("_replay_inv", name, dim))
    return Verdict(DISCHARGED, backend="real HyperElasticState methods on Q(c_ij)(sqrt 2); exact differentiation", sub=n)




def _small(c, d, tol=EPS * 4096):
    """|coefficient| <= tol for every monomial in the NAMED symbols, the coefficients being elements of Q(radicals) evaluated with the radicals' values
    (used where the imported code carries a float literal such as 2**-0.5 next to an exact sqrt(2))."""
    d = d if isinstance(d, X) else c.const(d)
    if d == 0:
        return True
    num, den = d.v.numer, d.v.denom
    nv = c.nvars
    # denominator must be a constant of Q(radicals)
    dval = 0
    for mon, cf in den.terms():
        if any(mon[:nv]):
            return False
        t = float(Fraction(int(cf.numerator), int(cf.denominator)))
        for j, e in enumerate(mon[nv:]):
            if e:
                t *= float(c.rad_wit[nv + j]) ** e
        dval += t
    if dval == 0:
        return False
    groups = {}
    for mon, cf in num.terms():
        t = float(Fraction(int(cf.numerator), int(cf.denominator)))
        for j, e in enumerate(mon[nv:]):
            if e:
                t *= float(c.rad_wit[nv + j]) ** e
        groups[mon[:nv]] = groups.get(mon[:nv], 0.0) + t
    return sum(abs(v) for v in groups.values()) / abs(dval) <= float(tol)

# ---------------------------------------------------------------- P: kinematics

def ob_kin_De(dim, which):
    names = [f"f{i}{j}" for i in range(dim) for j in range(dim)] + [f"g{i}{j}" for i in range(dim) for j in range(dim)]
    c = Ctx(names, nspare=6, witness={n_: F(1 + k, 7 + 2 * k) for k, n_ in enumerate(names)})
    NPs = symrun.install(c)
    from EasyFEA.Models.HyperElastic._state import HyperElasticState
    from EasyFEA.FEM._linalg import FeArray
    import EasyFEA.Models.HyperElastic._state as S
    S.np = NPs

    def mat(prefix, ident):
        M = [[(c.sym(f"{prefix}{i}{j}") if (i < dim and j < dim) else F(0)) + (F(1) if (ident and i == j) else F(0)) for j in range(3)] for i in range(3)]
        return M
    # F = I + grad u  (f symbols are grad u), G = grad v (g symbols)
    H, G = mat("f", False), mat("g", False)
    Fm = [[H[i][j] + (1 if i == j else 0) for j in range(3)] for i in range(3)]

    class Grp(_FakeGroup):
        def Get_Gradient_e_pg(self, u, matrixType):
            M = H if u is U else G
            arr = np.empty((1, 1, 3, 3), dtype=object)
            for i in range(3):
                for j in range(3):
                    arr[0, 0, i, j] = M[i][j]
            return FeArray.asfearray(arr)
    U, V = np.zeros(dim), np.zeros(dim)
    st = object.__new__(HyperElasticState)
    object.__setattr__(st, "_HyperElasticState__groupElem", Grp(NPs, dim))
    object.__setattr__(st, "_HyperElasticState__displacement", U)
    object.__setattr__(st, "_HyperElasticState__matrixType", "rigi")
    r2 = c.sqrt_rational(F(2))
    pairs = [(0, 0), (1, 1), (0, 1)] if dim == 2 else [(0, 0), (1, 1), (2, 2), (1, 2), (0, 2), (0, 1)]

    def km_sym(A, B):
        """KM vector of sym(A' B) restricted to dim"""
        AtB = [[sum(A[k][i] * B[k][j] for k in range(3)) for j in range(3)] for i in range(3)]
        out = []
        for (i, j) in pairs:
            s = (AtB[i][j] + AtB[j][i]) / 2
            out.append(s if i == j else s * r2)
        return out
    n = 0
    if which == "De":
        D = np.asarray(st.Compute_De())[0, 0]
        flat = [G[i][j] for i in range(dim) for j in range(dim)]          # flat(grad v) = [dx vx, dy vx, (dz vx), dx vy, ...]: row i = component, column j = derivative
        want = km_sym(Fm, G)
        what = "De(u).flat(grad v) == KM(sym(F' grad v))"
    elif which == "Deta":
        D = np.asarray(st.Compute_Deta(V))[0, 0]
        flat = [H[i][j] for i in range(dim) for j in range(dim)]          # direction grad(du) := H
        want = km_sym(G, H)
        what = "Deta(v).flat(grad du) == KM(sym(grad v' grad du))"
    else:
        # C(QF) == C(F)
        from .C08 import R_ROT, R_Z
        Q = R_ROT if dim == 3 else R_Z
        C1 = np.asarray(st.Compute_C())[0, 0]
        QF = [[sum(Q[i][k] * Fm[k][j] for k in range(3)) for j in range(3)] for i in range(3)]
        H2 = [[QF[i][j] - (1 if i == j else 0) for j in range(3)] for i in range(3)]

        class Grp2(_FakeGroup):
            def Get_Gradient_e_pg(self, u, matrixType):
                arr = np.empty((1, 1, 3, 3), dtype=object)
                for i in range(3):
                    for j in range(3):
                        arr[0, 0, i, j] = H2[i][j]
                return FeArray.asfearray(arr)
        st2 = object.__new__(HyperElasticState)
        object.__setattr__(st2, "_HyperElasticState__groupElem", Grp2(NPs, dim))
        object.__setattr__(st2, "_HyperElasticState__displacement", U)
        object.__setattr__(st2, "_HyperElasticState__matrixType", "rigi")
        C2 = np.asarray(st2.Compute_C())[0, 0]
        for i in range(3):
            for j in range(3):
                n += 1
                a = C1[i][j] if isinstance(C1[i][j], X) else c.const(C1[i][j])
                want_ij = sum(Fm[k][i] * Fm[k][j] for k in range(3))
                if not (a == want_ij):
                    raise Refuted(f"Compute_C[{i},{j}] != (F'F)[{i},{j}]", signature=f"kin:C:{dim}", replay=_sub("_replay_objectivity", dim))
                if not (a == C2[i][j]):
                    raise Refuted(f"C(QF)[{i},{j}] != C(F)[{i},{j}] for a rotation Q", signature=f"kin:C:{dim}:rot", replay=_sub("_replay_objectivity", dim))
        return Verdict(DISCHARGED, backend="real Compute_F / Compute_C on Q(grad u)", sub=n)
    if D.shape != (len(pairs), dim * dim):
        raise Refuted(f"{which} has shape {D.shape}, expected {(len(pairs), dim * dim)}", signature=f"kin:{which}:{dim}:shape", replay=_sub("_replay_operator", "pointwise", "TRI3" if dim == 2 else "TETRA4"))
    for r in range(len(pairs)):
        got = sum((D[r][k] if isinstance(D[r][k], X) else c.const(D[r][k])) * flat[k] for k in range(dim * dim))
        d = got - want[r]
        d = d if isinstance(d, X) else c.const(d)
        n += 1
        if not (d == 0) and not _small(c, d):
            raise Refuted(f"{what}: row {r} (strain component {pairs[r]}) differs: {d}", signature=f"kin:{which}:{dim}", replay=_sub("_replay_operator", "pointwise" if which == "De" else "kelvinvoigt", "TRI3" if dim == 2 else "TETRA4"))
    return Verdict(DISCHARGED, backend="real kinematic operators on Q(grad u, grad v)(sqrt 2); float literal 2**-1/2 read exactly (2^-40 slack)", sub=n)


# ---------------------------------------------------------------- E: laws read the state through invariants only

ALLOWED_STATE = {"Compute_I1", "Compute_I2", "Compute_I3", "Compute_I4", "Compute_I6", "Compute_I8", "Compute_dI1dC", "Compute_dI2dC", "Compute_dI3dC", "Compute_dI4dC", "Compute_dI6dC",
                 "Compute_dI8dC", "Compute_d2I1dC", "Compute_d2I2dC", "Compute_d2I3dC", "Compute_d2I4dC", "Compute_d2I6dC", "Compute_d2I8dC"}


def ob_law_frame(law):
    n = 0
    for meth in ("Compute_W", "Compute_dWde", "Compute_d2Wde"):
        fn = extract.get(LAWS, f"{law}.{meth}")
        arg = fn.node.args.args[1].arg
        for node in ast.walk(fn.node):
            if isinstance(node, ast.Attribute) and isinstance(node.value, ast.Name) and node.value.id == arg:
                n += 1
                if node.attr not in ALLOWED_STATE:
                    raise Refuted(f"{law}.{meth} reads the state through `{node.attr}`: the response is no longer a function of the invariants of C only (objectivity is not guaranteed)",
                                  signature=f"frame:{law}:{node.attr}", replay=_sub("_replay_objectivity_law", law))
            if isinstance(node, ast.Name) and node.id == arg and not isinstance(getattr(node, "ctx", None), ast.Load):
                raise Refuted(f"{law}.{meth} rebinds its state argument", signature=f"frame:{law}:rebind", replay=dict(confirmed=False))
        # the state may not be passed on to anything else
        for node in ast.walk(fn.node):
            if isinstance(node, ast.Call):
                for a in list(node.args) + [k.value for k in node.keywords]:
                    if isinstance(a, ast.Name) and a.id == arg:
                        raise Refuted(f"{law}.{meth} passes the state to {ast.unparse(node.func)}", signature=f"frame:{law}:escape", replay=_sub("_replay_objectivity_law", law))
    if n == 0:
        raise Unsupported("no state access found")
    return Verdict(DISCHARGED, backend="AST frame scan", sub=n)


# ---------------------------------------------------------------- P: laws on formal invariants

class SLin:
    """sum of sympy-coefficient * formal atom (vector g_k, matrix H_k, or ordered dyad (g_k, g_l))."""
    __array_priority__ = 3000

    def __init__(self, kind, terms=None):
        self.kind, self.terms = kind, dict(terms or {})

    @staticmethod
    def atom(kind, name):
        import sympy as sp
        return SLin(kind, {name: sp.Integer(1)})

    def _add(self, o, s):
        if isinstance(o, (int, float)) and o == 0:
            return self
        if not isinstance(o, SLin) or o.kind != self.kind:
            raise Unsupported(f"adding {self.kind} and {getattr(o, 'kind', type(o).__name__)}")
        t = dict(self.terms)
        for k, v in o.terms.items():
            t[k] = t.get(k, 0) + s * v
        return SLin(self.kind, t)

    def __add__(self, o): return self._add(o, 1)
    __radd__ = __add__
    def __sub__(self, o): return self._add(o, -1)
    def __neg__(self): return SLin(self.kind, {k: -v for k, v in self.terms.items()})

    def __mul__(self, s):
        if isinstance(s, SLin):
            raise Unsupported("product of formal tensors")
        return SLin(self.kind, {k: v * s for k, v in self.terms.items()})
    __rmul__ = __mul__

    def __truediv__(self, s):
        return SLin(self.kind, {k: v / s for k, v in self.terms.items()})


def _tensorprod(a, b, *args, **kw):
    if not (isinstance(a, SLin) and isinstance(b, SLin) and a.kind == b.kind == "vec"):
        raise Unsupported("TensorProd of non-formal operands")
    t = {}
    for ka, va in a.terms.items():
        for kb, vb in b.terms.items():
            t[(ka, kb)] = t.get((ka, kb), 0) + va * vb
    return SLin("mat", t)


class _SymNP:
    def __init__(self):
        import sympy as sp
        self.sp = sp
        self.pi = sp.pi

    def sqrt(self, x): return self.sp.sqrt(x)
    def exp(self, x): return self.sp.exp(x)
    def log(self, x): return self.sp.log(x)
    def __getattr__(self, k):
        raise Unsupported(f"np.{k} is not modelled in the symbolic law run")


def _law_instance(law, g):
    import sympy as sp
    cls = extract.assemble_class(LAWS, law, lambda path: g, exact=True)
    obj = object.__new__(cls)
    params = {"NeoHookean": ["K"], "MooneyRivlin": ["K1", "K2", "K"], "CiarletGeymonat": ["K", "K1", "K2"], "SaintVenantKirchhoff": ["lmbda", "mu", "K"],
              "HolzapfelOgden": ["C0", "C1", "C2", "C3", "C4", "C5", "C6", "C7", "K", "Mu1", "Mu2"]}[law]
    syms = {}
    for p in params:
        syms[p] = sp.Symbol(p, positive=True)
    return cls, obj, syms


def _run_law(law):
    import sympy as sp
    g = sx.module_globals("EasyFEA.Models.HyperElastic._laws", np=_SymNP(), TensorProd=_tensorprod)
    g["__vt_div__"] = lambda a, b: (sp.Rational(a, b) if isinstance(a, int) and isinstance(b, int) else a / b)
    g["__vt_pow__"] = lambda a, b: a ** b
    g["__vt_lit__"] = lambda s: sp.Rational(str(extract.lit(s)))
    fnW = extract.compile_fn(extract.get(LAWS, f"{law}.Compute_W"), g)
    fndW = extract.compile_fn(extract.get(LAWS, f"{law}.Compute_dWde"), g)
    fnd2W = extract.compile_fn(extract.get(LAWS, f"{law}.Compute_d2Wde"), g)
    I = {k: sp.Symbol(k, positive=True) for k in ("I1", "I2", "I3", "I4", "I6")}
    I["I8"] = sp.Symbol("I8", real=True)
    params = {"NeoHookean": ["K"], "MooneyRivlin": ["K1", "K2", "K"], "CiarletGeymonat": ["K", "K1", "K2"], "SaintVenantKirchhoff": ["lmbda", "mu", "K"],
              "HolzapfelOgden": ["C0", "C1", "C2", "C3", "C4", "C5", "C6", "C7", "K", "Mu1", "Mu2", "T1", "T2", "_HolzapfelOgden__ks"]}[law]
    attrs = {p: sp.Symbol(p.replace("_HolzapfelOgden__", ""), positive=True) for p in params}
    me = sx.Mock("self", **attrs)
    used = set()

    def inv(name):
        def f(*a):
            used.add(name)
            return I[name]
        return f

    def dinv(name):
        return lambda *a: SLin.atom("vec", f"g{name[1:]}")

    def d2inv(name):
        return lambda *a: SLin.atom("mat", f"H{name[1:]}")
    st = sx.Mock("state", **{f"Compute_{k}": inv(k) for k in I}, **{f"Compute_d{k}dC": dinv(k) for k in I}, **{f"Compute_d2{k}dC": d2inv(k) for k in I})
    W = fnW(me, st)
    dW = fndW(me, st)
    d2W = fnd2W(me, st)
    return sp, I, W, dW, d2W, used


def _zero(sp, e):
    e = sp.simplify(e)
    if e == 0:
        return True
    e2 = sp.simplify(sp.expand(sp.powsimp(sp.expand_power_base(e, force=True), force=True)))
    return e2 == 0


def ob_law(law, which):
    sp, I, W, dW, d2W, used = _run_law(law)
    keys = ["1", "2", "3", "4", "6", "8"]
    n = 0
    if which == "dW":
        if not isinstance(dW, SLin) or dW.kind != "vec":
            raise Unsupported("Compute_dWde did not return a formal vector")
        for k in keys:
            want = 2 * sp.diff(W, I[f"I{k}"])
            got = dW.terms.get(f"g{k}", 0)
            n += 1
            if not _zero(sp, got - want):
                raise Refuted(f"{law}: the stress is  sum_k c_k dI_k/dC  with c_{k} = {sp.simplify(got)}, but 2 dW/dI{k} = {sp.simplify(want)}: the stress is not the derivative of the stored energy",
                              cex=dict(invariant=f"I{k}"), signature=f"law:{law}:dW:I{k}", replay=_sub("_replay_law", law, 3))
        extra = set(dW.terms) - {f"g{k}" for k in keys}
        if extra:
            raise Refuted(f"{law}: stress has unexpected terms {extra}", signature=f"law:{law}:dW:extra", replay=_sub("_replay_law", law, 3))
    else:
        if not isinstance(d2W, SLin) or d2W.kind != "mat":
            raise Unsupported("Compute_d2Wde did not return a formal matrix")
        for k in keys:
            # Hessian atoms: I4, I6, I8 are linear in C (their Hessians vanish: C18.inv) so a dropped term is fine there
            want = 4 * sp.diff(W, I[f"I{k}"])
            got = d2W.terms.get(f"H{k}", 0)
            n += 1
            if k in ("4", "6", "8") and got == 0:
                continue
            if not _zero(sp, got - want):
                raise Refuted(f"{law}: tangent coefficient of d2I{k}/dC2 is {sp.simplify(got)}, expected 4 dW/dI{k} = {sp.simplify(want)}", signature=f"law:{law}:d2W:H{k}",
                              cex=dict(invariant=f"I{k}"), replay=_sub("_replay_law", law, 3))
        for k in keys:
            for l in keys:
                want = 4 * sp.diff(W, I[f"I{k}"], I[f"I{l}"])
                got = d2W.terms.get((f"g{k}", f"g{l}"), 0)
                n += 1
                if not _zero(sp, got - want):
                    raise Refuted(f"{law}: tangent coefficient of dI{k}/dC (x) dI{l}/dC is {sp.simplify(got)}, expected 4 d2W/dI{k}dI{l} = {sp.simplify(want)}: the material tangent is not "
                                  f"the derivative of the stress", cex=dict(pair=[f"I{k}", f"I{l}"]), signature=f"law:{law}:d2W:I{k}I{l}", replay=_sub("_replay_law", law, 3))
    return Verdict(DISCHARGED, backend="extracted law methods on formal invariants; sympy differentiation + simplification", sub=n)


def ob_law_ref(law):
    """W == 0 and dW/dE == 0 at C == I; gradient vectors at C == I are those of C18.inv: dI1 = dI3 = (1,1,1,0,0,0), dI2 = 2 dI1, dI4 = T1(x)T1, dI6 = T2(x)T2, dI8 = sym(T1(x)T2)
    with orthonormal fibres T1 = ex, T2 = ey (so dI1 = dI4 + dI6 + ez(x)ez)."""
    sp, I, W, dW, d2W, used = _run_law(law)
    at = {I["I1"]: 3, I["I2"]: 3, I["I3"]: 1, I["I4"]: 1, I["I6"]: 1, I["I8"]: 0}
    w0 = sp.simplify(W.subs(at))
    if w0 != 0:
        raise Refuted(f"{law}: W at C = I is {w0}, not 0", signature=f"law:{law}:ref:W", replay=_sub("_replay_law_ref", law))
    vec = {"g1": [1, 1, 1], "g2": [2, 2, 2], "g3": [1, 1, 1], "g4": [1, 0, 0], "g6": [0, 1, 0], "g8": [0, 0, 0]}       # normal components (shear components: only g8, = 1/sqrt2 on xy)
    tot = [0, 0, 0]
    for k, cf in dW.terms.items():
        for i in range(3):
            tot[i] += sp.simplify(cf.subs(at)) * vec[k][i]
    shear = sp.simplify(dW.terms.get("g8", 0).subs(at)) if hasattr(dW.terms.get("g8", 0), "subs") else dW.terms.get("g8", 0)
    if any(sp.simplify(t) != 0 for t in tot) or sp.simplify(shear) != 0:
        raise Refuted(f"{law}: stress at C = I is {[sp.simplify(t) for t in tot]} (normal) / {shear} (shear coefficient), not 0: the reference configuration is not stress free",
                      signature=f"law:{law}:ref:S", replay=_sub("_replay_law_ref", law))
    return Verdict(DISCHARGED, backend="sympy evaluation at the reference state", sub=5)


# ---------------------------------------------------------------- B: operators along u0 + t d  (Saint-Venant-Kirchhoff)

def _sub(fn, *args):
    import json, os, subprocess, sys
    root = os.path.dirname(os.path.dirname(os.path.abspath(__file__)))
    code = f"import json, sys; sys.path.insert(0, {root!r}); from contracts import C18; print('@@' + json.dumps(C18.{fn}(*{args!r}), default=str))"
    try:
        out = subprocess.run([sys.executable, "-c", code], capture_output=True, text=True, timeout=900, cwd=root)
        for line in out.stdout.splitlines():
            if line.startswith("@@"):
                return json.loads(line[2:])
        return dict(confirmed=False, error=(out.stderr or out.stdout)[-400:])
    except Exception as e:
        return dict(confirmed=False, error=repr(e)[:300])


def _setup_exact(et, names=("t",), wit=None):
    c = Ctx(list(names), nspare=6, witness=wit or {"t": F(1, 97)})
    import EasyFEA.FEM.Operators.NonLinear as NLm0
    cc = getattr(NLm0, "__clenshaw_curtis")
    for k in (1, 2, 3, 5, 9):
        cc(k)                       # Clenshaw-Curtis tables computed by the unmodified code in floats (lru_cache), read exactly afterwards
    NPs = symrun.install(c)
    import EasyFEA.Models.HyperElastic._laws as L
    import EasyFEA.Models.HyperElastic._state as S
    import EasyFEA.FEM.Operators.NonLinear as NLm
    for m in (L, S, NLm):
        m.np = NPs
    _exact_defaults(c)
    pre, connect = patches.two_element_patch(et, 0)
    pre = [[p_ if isinstance(p_, F) else F(p_) for p_ in p] for p in pre]
    g = fem.exact_group(et, pre, connect)
    return c, NPs, g, pre, connect


_EXACT_STATE = {}


def _exact_defaults(c):
    """default arguments `coef=np.sqrt(2)` were evaluated at import time by the real numpy (a float): replaced by the exact sqrt(2)."""
    import EasyFEA.Models._utils as MU
    r2 = c.sqrt_rational(F(2))
    for name in dir(MU):
        f = getattr(MU, name)
        if callable(f) and getattr(f, "__defaults__", None):
            f.__defaults__ = tuple(r2 if (isinstance(d, float) and abs(d - 2 ** 0.5) < 1e-15) else d for d in f.__defaults__)



def _exact_state_cls(NPs):
    """HyperElasticState re-assembled from the AST with exact literals (2 ** (-1 / 2) is 1/sqrt 2, not a float)."""
    if "cls" not in _EXACT_STATE:
        g = sx.module_globals("EasyFEA.Models.HyperElastic._state", np=NPs)
        _EXACT_STATE["cls"] = extract.assemble_class(STATE, "HyperElasticState", lambda path: g, exact=True)
    return _EXACT_STATE["cls"]


def _mk_state(NPs, g, u, matrixType):
    cls = _exact_state_cls(NPs)
    st = object.__new__(cls)
    object.__setattr__(st, "_HyperElasticState__groupElem", g)
    object.__setattr__(st, "_HyperElasticState__displacement", u)
    object.__setattr__(st, "_HyperElasticState__matrixType", matrixType)
    return st


def _vec(vals):
    a = np.empty(len(vals), dtype=object)
    for i, v in enumerate(vals):
        a[i] = v
    return a


def _poly_close(c, d):
    d = d if isinstance(d, X) else c.const(d)
    if d == 0:
        return True
    try:
        return _small(c, d)
    except Exception:
        return False


def _rand_u(rnd, n, den=40, amp=6):
    return [F(rnd.randint(-amp, amp), den) for _ in range(n)]


def ob_operator(kind, et, seed):
    import random
    from EasyFEA.FEM._utils import MatrixType
    from EasyFEA.FEM.Operators import NonLinear
    from EasyFEA.Models.HyperElastic import SaintVenantKirchhoff, HyperElasticState
    rnd = random.Random(seed * 7 + 3)
    c, NPs, g, pre, connect = _setup_exact(et)
    dim = g.dim
    Nn = len(pre)
    nd = dim * Nn
    mat = SaintVenantKirchhoff(dim, 1.5, 0.75, K=0.25 if kind != "quadrature.exact" else 0.0, thickness=0.5)
    t = c.sym("t")
    un = _rand_u(rnd, nd)
    u1 = _rand_u(rnd, nd)
    vv = _rand_u(rnd, nd, den=10)
    rows = np.asarray(g.Get_assembly_e(dim))
    nloc = rows.shape[1]
    ncheck = 0
    dirs = range(nloc) if nloc <= 8 else sorted(rnd.sample(range(nloc), 6))
    elems = range(g.Ne)
    if kind.startswith("gonzalez") and et != "TRI3":
        dirs = sorted(rnd.sample(range(nloc), 2))        # rational functions of t with many Gauss points: two seeded unit directions per element
    if et in ("HEXA8", "PRISM6") or (kind.startswith("gonzalez") and et == "QUAD4"):
        dirs, elems = sorted(rnd.sample(range(nloc), 2)), [0]      # 8 Gauss points x 24 dofs: two seeded unit directions of the first element
    for e in elems:
        for a in dirs:
            d = [F(0)] * nd
            d[int(rows[e][a])] = F(1)
            u = _vec([u1[i] + t * d[i] for i in range(nd)])
            scale = F(1)
            if kind == "pointwise":
                K, R = NonLinear.SecondPiolaKirchhoffStressTensor(mat, _mk_state(NPs, g, u, MatrixType.rigi))
            elif kind in ("gonzalez", "gonzalez.inconsistent"):
                umid = _vec([(un[i] + u1[i] + t * d[i]) / 2 for i in range(nd)])
                sts = [_mk_state(NPs, g, _vec(un), MatrixType.rigi), _mk_state(NPs, g, umid, MatrixType.rigi), _mk_state(NPs, g, u, MatrixType.rigi)]
                K, R = NonLinear.GonzalezStressTensor(mat, *sts, True)
                scale = F(1, 2)
            elif kind.startswith("quadrature"):
                npts, coefK = {"quadrature.1": (1, F(1, 2)), "quadrature.2": (2, F(1, 2)), "quadrature.3": (3, F(1, 2)), "quadrature.4": (4, F(1, 2)), "quadrature.5": (5, F(1, 2)), "quadrature.newmark": (3, F(1))}[kind]
                ut = _vec([(un[i] + u1[i] + t * d[i]) / 2 for i in range(nd)]) if coefK == F(1, 2) else u
                sts = [_mk_state(NPs, g, _vec(un), MatrixType.rigi), _mk_state(NPs, g, ut, MatrixType.rigi), _mk_state(NPs, g, u, MatrixType.rigi)]
                K, R, _ = NonLinear.TimeQuadratureStressTensor(mat, *sts, coefK, npts)
                scale = coefK
            elif kind == "active":
                mat.active_stress = 0.7
                T = np.zeros((g.Ne, np.asarray(g.Get_weightedJacobian_e_pg(MatrixType.rigi)).shape[1], 3))
                T[..., 0], T[..., 1] = 0.6, 0.8
                import EasyFEA.Models.HyperElastic._laws as L
                from EasyFEA.FEM._linalg import FeArray
                mat.Set_active_stress_vec(FeArray.asfearray(_lift3(NPs, [F(3, 5), F(4, 5), F(0)], T.shape)))
                K, R = NonLinear.ActiveStressTensor(mat, _mk_state(NPs, g, u, MatrixType.rigi))
            elif kind in ("kelvinvoigt.K", "kelvinvoigt.C"):
                mat.eta = 0.3
                if kind == "kelvinvoigt.K":
                    K, R, Cd = NonLinear.KelvinVoigtDamping(mat, _mk_state(NPs, g, u, MatrixType.rigi), _vec(vv))
                else:
                    vt = _vec([vv[i] + t * d[i] for i in range(nd)])
                    Kg, R, K = NonLinear.KelvinVoigtDamping(mat, _mk_state(NPs, g, _vec(u1), MatrixType.rigi), vt)
            else:
                raise Unsupported(kind)
            K, R = np.asarray(K), np.asarray(R)
            for i in range(nloc):
                dR = (R[e][i] if isinstance(R[e][i], X) else c.const(R[e][i])).diff("t")
                Kd = K[e][i][a] * scale
                ncheck += 1
                if not _poly_close(c, dR - Kd):
                    raise Refuted(f"{kind} operator, {et}, element {e}: tangent column {a} row {i} is not d R_{i}/d u_{a} (difference {dR - Kd} along u0 + t e_{a}): "
                                  f"the tangent is not the derivative of the residual with respect to the step unknown", cex=dict(operator=kind, elemType=et, row=i, col=a),
                                  signature=f"op:{kind}:{et}", replay=_sub("_replay_operator", kind, et))
    return Verdict(DISCHARGED, backend="real operators on Q(t)(sqrt 2): polynomial identity in t (2^-40 slack for float literals / quadrature tables)", sub=ncheck)


def _lift3(NPs, vec3, shape):
    a = np.empty(shape, dtype=object)
    for idx in np.ndindex(shape[:-1]):
        for k in range(3):
            a[idx + (k,)] = vec3[k]
    return a


def ob_follower(et, seed):
    """FollowingPressure on a surface group in 3-D: K_e == -dF/du, R_e == F."""
    import random
    from EasyFEA.FEM._utils import MatrixType
    from EasyFEA.FEM.Operators import NonLinear
    rnd = random.Random(seed + 5)
    c = Ctx(["t"], nspare=6, witness={"t": F(1, 97)})
    NPs = symrun.install(c)
    import EasyFEA.FEM.Operators.NonLinear as NLm
    NLm.np = NPs
    from .C08 import _ref, _affine, A_POS, B_VEC
    ref, _ = _ref(et)
    co = _affine(ref, A_POS, B_VEC)
    g = fem.exact_group(et, co, [list(range(len(ref)))])
    nd = 3 * len(ref)
    u0 = _rand_u(rnd, nd, den=10)
    t = c.sym("t")
    n = 0
    for a in range(nd):
        u = _vec([u0[i] + (t if i == a else 0) for i in range(nd)])
        K, R = NonLinear.FollowingPressure(g, u, 0.75)
        K, R = np.asarray(K), np.asarray(R)
        for i in range(nd):
            dR = (R[0][i] if isinstance(R[0][i], X) else c.const(R[0][i])).diff("t")
            n += 1
            if not _poly_close(c, dR + K[0][i][a]):
                raise Refuted(f"FollowingPressure, {et}: K_e[{i},{a}] != -dF_{i}/du_{a}", cex=dict(row=i, col=a), signature=f"op:follower:{et}", replay=_sub("_replay_operator", "follower", et))
    return Verdict(DISCHARGED, backend="real operator on Q(t)", sub=n)


def ob_contact(et, seed):
    """PenaltyContact against a flat rigid obstacle: gap(u) = g0 + n.(x + u), so dgap/du = n N;  K_e == -dR/du on the active set and R >= 0 only where gap < 0."""
    import random
    from EasyFEA.FEM._utils import MatrixType
    from EasyFEA.FEM.Operators import NonLinear
    from EasyFEA.FEM._linalg import FeArray
    rnd = random.Random(seed + 9)
    c = Ctx(["t"], nspare=6, witness={"t": F(1, 97)})
    NPs = symrun.install(c)
    import EasyFEA.FEM.Operators.NonLinear as NLm
    NLm.np = NPs
    from .C08 import _ref, _affine, A_POS, B_VEC
    ref, _ = _ref(et)
    dim1 = common.elem_infos(et)[2]
    if dim1 == 1:
        A = [[F(3, 2), F(0), F(0)], [F(2), F(1), F(0)], [F(0), F(0), F(1)]]
        co = _affine(ref, A, [F(1), F(-1), F(0)])
        nrm = [F(-4, 5), F(3, 5), F(0)]
        ind = 2
    else:
        co = _affine(ref, A_POS, B_VEC)
        nrm = [F(2, 3), F(1, 3), F(2, 3)]
        ind = 3
    g = fem.exact_group(et, co, [list(range(len(ref)))])
    if g.inDim != ind:
        raise Unsupported(f"inDim {g.inDim}")
    nPe = len(ref)
    nd = ind * nPe
    N = np.asarray(g.Get_N_pg(MatrixType.mass))[:, 0, :]
    nPg = N.shape[0]
    t = c.sym("t")
    # obstacle offset chosen so that the gap changes sign over the element (mixed active set); the seeded state is redrawn until the Gauss points
    # are spread along the obstacle normal by clearly more than the perturbation used for the derivative
    for _try in range(50):
        u0 = _rand_u(rnd, nd, den=10)
        xg0 = [[sum(N[p][k] * (co[k][d_] + u0[k * ind + d_]) for k in range(nPe)) for d_ in range(ind)] for p in range(nPg)]
        proj = sorted(sum(nrm[d_] * xg0[p][d_] for d_ in range(ind)) for p in range(nPg))
        if nPg == 1 or float(proj[-1] - proj[0]) > 0.2:
            break
    g0 = -(proj[0] + proj[-1]) / 2 + F(1, 1000)
    n = 0
    nact = 0
    for a in range(nd):
        gap = np.empty((1, nPg), dtype=object)
        nn = np.empty((1, nPg, 3), dtype=object)
        for p in range(nPg):
            xp = [sum(N[p][k] * (co[k][d_] + u0[k * ind + d_] + (t if (k * ind + d_) == a else 0)) for k in range(nPe)) for d_ in range(ind)]
            gap[0, p] = g0 + sum(nrm[d_] * xp[d_] for d_ in range(ind))
            for d_ in range(3):
                nn[0, p, d_] = nrm[d_]
        K, R = NonLinear.PenaltyContact(g, 50.0, FeArray.asfearray(gap), FeArray.asfearray(nn))
        K, R = np.asarray(K), np.asarray(R)
        if a == 0:
            nact = sum(1 for p in range(nPg) if gap[0, p] < 0)
            if nact in (0, nPg) and nPg > 1:
                raise Unsupported("contact test state has a trivial active set")
        for i in range(nd):
            dR = (R[0][i] if isinstance(R[0][i], X) else c.const(R[0][i])).diff("t")
            n += 1
            if not _poly_close(c, dR + K[0][i][a]):
                raise Refuted(f"PenaltyContact, {et}: K_e[{i},{a}] != -dR_{i}/du_{a} (flat obstacle, {nact}/{nPg} Gauss points in contact)", cex=dict(row=i, col=a), signature=f"op:contact:{et}",
                              replay=_sub("_replay_operator", "contact", et))
    return Verdict(DISCHARGED, backend="real operator on Q(t); active set by witness", sub=n, detail=f"{nact}/{nPg} active")


def ob_clenshaw_curtis():
    """the path-quadrature rule: for every point count 1..12, 17, 33 the extracted __clenshaw_curtis returns increasing nodes in [0, 1] with exact end points,
    symmetric nodes and weights, weights summing to 1, and integrates every monomial s^k, k <= nPoints - 1 (k <= 1 for the one-point midpoint rule), exactly --
    the stress average along the strain path is the exact mean of a polynomial integrand of that degree (and S:de == dW for the quadrature stress)."""
    g = sx.module_globals("EasyFEA.FEM.Operators.NonLinear")
    f = extract.compile_fn(extract.get(NL, "__clenshaw_curtis"), g, exact=False)
    n = 0
    for N in list(range(1, 13)) + [17, 33]:
        nodes, w = (np.asarray(a, dtype=float) for a in f(N))
        n += 5
        bad = None
        if nodes.shape != (N,) or w.shape != (N,):
            bad = f"returns {nodes.shape[0]} nodes and {w.shape[0]} weights"
        elif N > 1 and not (nodes[0] == 0.0 and nodes[-1] == 1.0 and np.all(np.diff(nodes) > 0)):
            bad = "nodes are not increasing from exactly 0 to exactly 1"
        elif abs(w.sum() - 1) > 1e-13:
            bad = f"weights sum to {w.sum():.15g}, not 1"
        elif np.abs(nodes + nodes[::-1] - 1).max() > 1e-13 or np.abs(w - w[::-1]).max() > 1e-13:
            bad = "nodes / weights are not symmetric about 1/2"
        else:
            deg = max(N - 1, 1)
            for k in range(deg + 1):
                n += 1
                q = float(np.sum(w * nodes ** k))
                if abs(q - 1.0 / (k + 1)) > 1e-12:
                    bad = f"integral of s^{k} over [0,1] = {q:.15g}, exact {1.0/(k+1):.15g}"
                    break
        if bad:
            raise Refuted(f"Clenshaw-Curtis rule with {N} points: {bad}", cex=dict(nPoints=N, nodes=nodes.tolist(), weights=w.tolist()), signature=f"clenshaw_curtis:{N}",
                          replay=_sub("_replay_cc", N))
    return Verdict(DISCHARGED, backend="extracted function, floats (1e-12)", sub=n)


def _replay_cc(N):
    """native: the real (name-mangled, cached) function of the module."""
    try:
        import EasyFEA.FEM.Operators.NonLinear as NLm
        fn = getattr(NLm, "__clenshaw_curtis")
        nodes, w = (np.asarray(a, dtype=float) for a in fn(int(N)))
        deg = max(int(N) - 1, 1)
        errs = [abs(float(np.sum(w * nodes ** k)) - 1.0 / (k + 1)) for k in range(deg + 1)]
        return dict(confirmed=bool(max(errs) > 1e-12), max_err=max(errs), weight_sum=float(w.sum()))
    except Exception as e:
        return dict(confirmed=False, raised=repr(e))


def ob_energy(kind, et, seed):
    """one step, arbitrary end states:  R_e . (u_{n+1} - u_n)_e == thickness * sum_p wJ (W_{n+1} - W_n)."""
    import random
    from EasyFEA.FEM._utils import MatrixType
    from EasyFEA.FEM.Operators import NonLinear
    from EasyFEA.Models.HyperElastic import SaintVenantKirchhoff, HyperElasticState
    rnd = random.Random(seed * 5 + 1)
    c, NPs, g, pre, connect = _setup_exact(et)
    dim = g.dim
    nd = dim * len(pre)
    thickness = 0.5 if dim == 2 else 1.0
    mat = SaintVenantKirchhoff(dim, 1.5, 0.75, K=0.25 if kind == "gonzalez" else 0.0, thickness=0.5)
    un, u1 = _rand_u(rnd, nd), _rand_u(rnd, nd)
    umid = [(a + b) / 2 for a, b in zip(un, u1)]
    sts = [_mk_state(NPs, g, _vec(x), MatrixType.rigi) for x in (un, umid, u1)]
    if kind == "gonzalez":
        K, R = NonLinear.GonzalezStressTensor(mat, *sts, True)
    else:
        K, R, _ = NonLinear.TimeQuadratureStressTensor(mat, *sts, F(1, 2), {"quadrature.1": 1, "quadrature.3": 3}[kind])
    R = np.asarray(R)
    wJ = np.asarray(g.Get_weightedJacobian_e_pg(MatrixType.rigi))
    dW = np.asarray(mat.Compute_W(sts[2])) - np.asarray(mat.Compute_W(sts[0]))
    rows = np.asarray(g.Get_assembly_e(dim))
    n = 0
    for e in range(g.Ne):
        work = sum(R[e][i] * (u1[int(rows[e][i])] - un[int(rows[e][i])]) for i in range(rows.shape[1]))
        want = F(thickness) * sum(wJ[e][p] * dW[e][p] for p in range(wJ.shape[1]))
        n += 1
        if abs(work - want) > EPS * 4096:
            raise Refuted(f"{kind}, {et}, element {e}: internal work over the step R.(u_n+1 - u_n) = {float(work)!r}, stored-energy change = {float(want)!r}: the discrete energy balance "
                          f"(energy conservation under the midpoint scheme) does not hold", cex=dict(operator=kind, elemType=et), signature=f"energy:{kind}:{et}",
                          replay=_sub("_replay_energy", kind))
    return Verdict(DISCHARGED, backend="real operators on exact rationals", sub=n)


# ---------------------------------------------------------------- X: native runs

def _native_material(law, dim):
    from EasyFEA import Models
    H = Models.HyperElastic
    if law == "NeoHookean":
        return H.NeoHookean(dim, K=2.3)
    if law == "MooneyRivlin":
        return H.MooneyRivlin(dim, K1=1.1, K2=0.6, K=3.0)
    if law == "CiarletGeymonat":
        return H.CiarletGeymonat(dim, K=2.0, K1=0.8, K2=0.4)
    if law == "SaintVenantKirchhoff":
        return H.SaintVenantKirchhoff(dim, lmbda=1.5, mu=0.75, K=0.25)
    if law == "HolzapfelOgden":
        return H.HolzapfelOgden(dim, 0.5, 1.2, 0.4, 1.1, 0.3, 0.9, 0.2, 0.7, 2.0, 0.6, 0.3, np.array([1.0, 0.0, 0.0]), np.array([0.0, 1.0, 0.0]), ks=5.0)
    if law == "HolzapfelOgden.oblique":
        # orthogonal unit fibre / sheet directions leaving every coordinate plane (in 2-D: a fibre with an out-of-plane component in a plane-strain body)
        return H.HolzapfelOgden(dim, 0.5, 1.2, 0.4, 1.1, 0.3, 0.9, 0.2, 0.7, 2.0, 0.6, 0.3, np.array([1.0, 2.0, 2.0]) / 3, np.array([2.0, 1.0, -2.0]) / 3, ks=5.0)
    if law == "AutoDiff":
        from EasyFEA.Models import _autodiff
        _autodiff.Enable_x64()
        return H.AutoDiff(dim, _fung_energy)
    raise Unsupported(law)


def _fung_energy(C):
    """a user energy that EasyFEA does not ship: Fung-type  W = c/2 (exp(a tr(E^2) + b tr(E)^2) - 1)."""
    import jax.numpy as jnp
    E = 0.5 * (C - jnp.eye(3))
    Q = 0.8 * jnp.trace(E @ E) + 0.3 * jnp.trace(E) ** 2
    return 0.7 * (jnp.exp(Q) - 1.0)


def _native_state(dim, seed, amp=0.25):
    from EasyFEA.FEM._utils import MatrixType
    from EasyFEA.Models.HyperElastic import HyperElasticState
    et = "QUAD4" if dim == 2 else "HEXA8"
    pre, connect = patches.two_element_patch(et, 0)
    mesh = patches.real_mesh(et, [[float(v) for v in p] for p in pre], connect)
    rng = np.random.default_rng(seed)
    g = mesh.groupElem
    while True:
        u = rng.uniform(-amp, amp, dim * mesh.Nn)
        st = HyperElasticState(g, u, MatrixType.rigi)
        if np.asarray(st.Compute_J()).min() > 0.3:
            return g, u, st


KMB = None


def _km_basis():
    s = 1 / np.sqrt(2)
    B = np.zeros((6, 3, 3))
    B[0, 0, 0] = B[1, 1, 1] = B[2, 2, 2] = 1
    B[3, 1, 2] = B[3, 2, 1] = s
    B[4, 0, 2] = B[4, 2, 0] = s
    B[5, 0, 1] = B[5, 1, 0] = s
    return B


def _at_C(template, C):
    from EasyFEA.FEM.Operators.NonLinear import _StrainPathState
    from EasyFEA.FEM._linalg import FeArray
    return _StrainPathState._sliced(template, FeArray.asfearray(C))


def _native_law(law, dim, seed=0):
    """max relative error of stress vs Richardson FD of W, and of tangent vs FD of the stress, over the Gauss points of a random state."""
    mat = _native_material(law, dim)
    g, u, st = _native_state(dim, seed)
    C0 = np.asarray(st.Compute_C()).copy()
    comps = [0, 1, 5] if dim == 2 else list(range(6))
    B = _km_basis()
    S = np.asarray(mat.Compute_dWde(st))
    T = np.asarray(mat.Compute_d2Wde(st))

    def W_at(C):
        return np.asarray(mat.Compute_W(_at_C(st, C)))

    def S_at(C):
        return np.asarray(mat.Compute_dWde(_at_C(st, C)))
    errS = errT = 0.0
    h = 1e-3
    for a, ka in enumerate(comps):
        dC = 2 * B[ka]                     # dE = basis  =>  dC = 2 dE

        def fd(f, h):
            return (f(C0 + h * dC) - f(C0 - h * dC)) / (2 * h)
        dW = (4 * fd(W_at, h / 2) - fd(W_at, h)) / 3
        errS = max(errS, float(np.abs(dW - S[..., a]).max() / (np.abs(S).max() + 1e-30)))
        dS = (4 * fd(S_at, h / 2) - fd(S_at, h)) / 3
        errT = max(errT, float(np.abs(dS - T[..., a]).max() / (np.abs(T).max() + 1e-30)))
    sym = float(np.abs(T - np.swapaxes(T, -1, -2)).max() / np.abs(T).max())
    return dict(stress_err=errS, tangent_err=errT, tangent_asym=sym)


def _replay_law(law, dim):
    try:
        r = _native_law(law, dim)
        return dict(confirmed=bool(r["stress_err"] > 1e-7 or r["tangent_err"] > 1e-6), **r)
    except Exception as e:
        return dict(confirmed=False, raised=repr(e)[:300])


def _replay_inv(name, dim):
    """finite differences of the invariant / its gradient at a random C, natively."""
    try:
        g, u, st = _native_state(dim, 1)
        C0 = np.asarray(st.Compute_C()).copy()
        B = _km_basis()
        comps = [0, 1, 5] if dim == 2 else list(range(6))
        T1, T2 = np.array([0.5, 0.25, -0.75]), np.array([0.25, -0.5, 0.125])
        args = {"I4": (T1,), "I6": (T2,), "I8": (T1, T2)}.get(name, ())
        f = lambda C: np.asarray(getattr(_at_C(st, C), f"Compute_{name}")(*args))
        gf = lambda C: np.asarray(getattr(_at_C(st, C), f"Compute_d{name}dC")(*args))
        G = gf(C0)
        Hh = np.asarray(getattr(st, f"Compute_d2{name}dC")())
        eg = eh = 0.0
        for a, ka in enumerate(comps):
            h = 1e-4
            d1 = (f(C0 + h * B[ka]) - f(C0 - h * B[ka])) / (2 * h)
            eg = max(eg, float(np.abs(d1 - np.broadcast_to(G, d1.shape + (len(comps),))[..., a]).max()))
            d2 = (gf(C0 + h * B[ka]) - gf(C0 - h * B[ka])) / (2 * h)
            eh = max(eh, float(np.abs(np.broadcast_to(d2, C0.shape[:2] + (len(comps),)) - np.broadcast_to(Hh, C0.shape[:2] + (len(comps), len(comps)))[..., a]).max()))
        return dict(confirmed=bool(eg > 1e-6 or eh > 1e-6), grad_err=eg, hess_err=eh)
    except Exception as e:
        return dict(confirmed=False, raised=repr(e)[:300])


def _native_objectivity(law, dim, seed=0):
    from EasyFEA.FEM._utils import MatrixType
    from EasyFEA.Models.HyperElastic import HyperElasticState
    from EasyFEA.Geoms import Rotate
    mat = _native_material(law, dim)
    g, u, st = _native_state(dim, seed)
    X0 = np.asarray(g.coord)
    x = X0.copy()
    x[:, :dim] += u.reshape(-1, dim)
    axis = (0, 0, 1) if dim == 2 else (1, 2, 0.5)
    xr = Rotate(x, 53.0, (0.2, -0.1, 0.0 if dim == 2 else 0.3), axis)
    ur = (xr - X0)[:, :dim].ravel()
    st2 = HyperElasticState(g, ur, MatrixType.rigi)
    W1, W2 = np.asarray(mat.Compute_W(st)), np.asarray(mat.Compute_W(st2))
    S1, S2 = np.asarray(mat.Compute_dWde(st)), np.asarray(mat.Compute_dWde(st2))
    return dict(W_err=float(np.abs(W1 - W2).max() / (np.abs(W1).max() + 1e-30)), S_err=float(np.abs(S1 - S2).max() / (np.abs(S1).max() + 1e-30)))


def _replay_objectivity(dim):
    try:
        r = _native_objectivity("MooneyRivlin", dim)
        return dict(confirmed=bool(r["W_err"] > 1e-9 or r["S_err"] > 1e-9), **r)
    except Exception as e:
        return dict(confirmed=False, raised=repr(e)[:300])


def _replay_objectivity_law(law):
    try:
        r = _native_objectivity(law, 3)
        return dict(confirmed=bool(r["W_err"] > 1e-9 or r["S_err"] > 1e-9), **r)
    except Exception as e:
        return dict(confirmed=False, raised=repr(e)[:300])


def _native_ref(law, dim):
    from EasyFEA.FEM._utils import MatrixType
    from EasyFEA.Models.HyperElastic import HyperElasticState
    mat = _native_material(law, dim)
    g, u, st = _native_state(dim, 0)
    st0 = HyperElasticState(g, np.zeros_like(u), MatrixType.rigi)
    return dict(W=float(np.abs(np.asarray(mat.Compute_W(st0))).max()), S=float(np.abs(np.asarray(mat.Compute_dWde(st0))).max()))


def _replay_law_ref(law):
    try:
        r = _native_ref(law, 3)
        return dict(confirmed=bool(r["W"] > 1e-10 or r["S"] > 1e-10), **r)
    except Exception as e:
        return dict(confirmed=False, raised=repr(e)[:300])


def _native_operator(kind, et, seed=0):
    """native finite-difference check of an operator's tangent (replay of the exact obligation)."""
    from EasyFEA.FEM._utils import MatrixType
    from EasyFEA.FEM.Operators import NonLinear
    from EasyFEA.Models.HyperElastic import HyperElasticState
    from EasyFEA import Models
    rng = np.random.default_rng(seed)
    if kind in ("follower", "contact"):
        return dict(err=float("nan"), note="replayed by the exact run only")
    pre, connect = patches.two_element_patch(et, 0)
    mesh = patches.real_mesh(et, [[float(v) for v in p] for p in pre], connect)
    g = mesh.groupElem
    dim = g.dim
    mat = Models.HyperElastic.SaintVenantKirchhoff(dim, 1.5, 0.75, K=0.25, thickness=0.5)
    nd = dim * mesh.Nn
    un, u1, v = rng.uniform(-0.15, 0.15, nd), rng.uniform(-0.15, 0.15, nd), rng.uniform(-0.5, 0.5, nd)
    S = lambda u: HyperElasticState(g, u, MatrixType.rigi)

    def KR(u):
        if kind == "pointwise":
            return NonLinear.SecondPiolaKirchhoffStressTensor(mat, S(u)) + (1.0,)
        if kind.startswith("gonzalez"):
            return NonLinear.GonzalezStressTensor(mat, S(un), S((un + u) / 2), S(u), True) + (0.5,)
        if kind.startswith("quadrature"):
            npts, ck = {"quadrature.1": (1, 0.5), "quadrature.2": (2, 0.5), "quadrature.3": (3, 0.5), "quadrature.4": (4, 0.5), "quadrature.5": (5, 0.5), "quadrature.9": (9, 0.5), "quadrature": (3, 0.5), "quadrature.newmark": (3, 1.0), "quadrature.exact": (3, 0.5)}[kind]
            K, R, _ = NonLinear.TimeQuadratureStressTensor(mat, S(un), S((un + u) / 2) if ck == 0.5 else S(u), S(u), ck, npts)
            return K, R, ck
        if kind == "active":
            mat.active_stress = 0.7
            nPg = np.asarray(g.Get_weightedJacobian_e_pg(MatrixType.rigi)).shape[1]
            T = np.zeros((g.Ne, nPg, 3))
            T[..., 0], T[..., 1] = 0.6, 0.8
            from EasyFEA.FEM._linalg import FeArray
            mat.Set_active_stress_vec(FeArray.asfearray(T))
            return NonLinear.ActiveStressTensor(mat, S(u)) + (1.0,)
        if kind == "kelvinvoigt.K":
            mat.eta = 0.3
            K, R, C = NonLinear.KelvinVoigtDamping(mat, S(u), v)
            return K, R, 1.0
        raise Unsupported(kind)
    rows = np.asarray(g.Get_assembly_e(dim))
    K, R, scale = KR(u1)
    err = 0.0
    h = 1e-5
    for a in range(rows.shape[1]):
        for e in range(g.Ne):
            d = np.zeros(nd)
            d[rows[e][a]] = 1
            dR = (KR(u1 + h * d)[1][e] - KR(u1 - h * d)[1][e]) / (2 * h)
            err = max(err, float(np.abs(dR - scale * np.asarray(K)[e][:, a]).max() / np.abs(K).max()))
    return dict(err=err)


def _replay_operator(kind, et):
    try:
        r = _native_operator(kind, et)
        return dict(confirmed=bool(r["err"] > 1e-6), **r)
    except Exception as e:
        return dict(confirmed=False, raised=repr(e)[:300])


def _native_energy_step(kind, seed=0):
    from EasyFEA.FEM._utils import MatrixType
    from EasyFEA.FEM.Operators import NonLinear
    from EasyFEA.Models.HyperElastic import HyperElasticState
    mat = _native_material("NeoHookean", 2)
    g, u1, st1 = _native_state(2, seed)
    _, un, stn = _native_state(2, seed + 1)
    stm = HyperElasticState(g, (un + u1) / 2, MatrixType.rigi)
    if kind == "gonzalez":
        K, R = NonLinear.GonzalezStressTensor(mat, stn, stm, st1, True)
    else:
        K, R, _ = NonLinear.TimeQuadratureStressTensor(mat, stn, stm, st1, 0.5, 3, 1e-10)
    rows = np.asarray(g.Get_assembly_e(2))
    wJ = np.asarray(g.Get_weightedJacobian_e_pg(MatrixType.rigi))
    dW = np.asarray(mat.Compute_W(st1)) - np.asarray(mat.Compute_W(stn))
    work = np.einsum("ei,ei->e", np.asarray(R), (u1 - un)[rows])
    want = mat.thickness * (wJ * dW).sum(1)
    return dict(err=float(np.abs(work - want).max() / np.abs(want).max()))


def _replay_energy(kind):
    try:
        r = _native_energy_step("gonzalez" if kind == "gonzalez" else "quadrature")
        return dict(confirmed=bool(r["err"] > 1e-8), **r)
    except Exception as e:
        return dict(confirmed=False, raised=repr(e)[:300])


def ob_native_law(law, dim, seed):
    r = _native_law(law, dim, seed)
    if r["stress_err"] > 1e-7 or r["tangent_err"] > 1e-6 or r["tangent_asym"] > 1e-10:
        raise Refuted(f"{law} ({dim}-D, state seed {seed}): stress vs finite-difference dW/dE: {r['stress_err']:.2e}; tangent vs finite-difference dS/dE: {r['tangent_err']:.2e}; "
                      f"tangent asymmetry {r['tangent_asym']:.2e}", cex=dict(law=law, dim=dim, seed=seed), signature=f"native:law:{law}:{dim}", replay=dict(confirmed=True, **r))
    o = _native_objectivity(law, dim, seed)
    if o["W_err"] > 1e-9 or o["S_err"] > 1e-9:
        raise Refuted(f"{law} ({dim}-D): a superposed rigid rotation changes W by {o['W_err']:.2e} and the second Piola-Kirchhoff stress by {o['S_err']:.2e}", signature=f"native:objectivity:{law}:{dim}",
                      replay=dict(confirmed=True, **o))
    f = _native_ref(law, dim)
    if f["W"] > 1e-10 or f["S"] > 1e-10:
        raise Refuted(f"{law} ({dim}-D): reference configuration has W = {f['W']:.2e}, |S| = {f['S']:.2e}", signature=f"native:ref:{law}:{dim}", replay=dict(confirmed=True, **f))
    return Verdict(DISCHARGED, backend="native run, Richardson finite differences", detail=f"S {r['stress_err']:.1e} T {r['tangent_err']:.1e}")


def ob_adaptive_fields():
    """the adaptive (energy-tolerance) path quadrature with a law carrying per-element / per-Gauss-point data (Holzapfel-Ogden with fibre FIELDS) on a step during which only part
    of the body moves (elements are accepted at different refinement levels): the operator returns, and its residual satisfies the discrete-gradient identity
    R_e.(u_n+1 - u_n) == integral of W_n+1 - W_n within the tolerance."""
    import contextlib, io
    from EasyFEA import ElemType, Models
    from EasyFEA.Geoms import Domain
    from EasyFEA.FEM import FeArray
    from EasyFEA.FEM._utils import MatrixType
    from EasyFEA.FEM.Operators import NonLinear
    from EasyFEA.Models.HyperElastic import HyperElasticState
    HO = dict(C0=1.0, C1=2.0, C2=3.0, C3=2.0, C4=1.5, C5=1.0, C6=4.0, C7=3.0, K=50.0, Mu1=0.5, Mu2=0.25, ks=20.0)
    with contextlib.redirect_stdout(io.StringIO()):
        mesh = Domain((0, 0), (1, 1), 0.5).Mesh_Extrude([], [0, 0, 1], [2], ElemType.HEXA8, isOrganised=True)
    g = mesh.groupElem
    Ne, nPg = g.Ne, np.asarray(g.Get_weightedJacobian_e_pg(MatrixType.rigi)).shape[1]
    ang = np.linspace(-1, 1, Ne)[:, None] * np.ones((1, nPg))
    z = np.zeros_like(ang)
    T1 = FeArray.asfearray(np.stack([np.cos(ang), np.sin(ang), z], -1))
    T2 = FeArray.asfearray(np.stack([-np.sin(ang), np.cos(ang), z], -1))
    rng = np.random.default_rng(0)
    u_n = rng.normal(0, 0.03, mesh.Nn * 3)
    u_1 = u_n.copy()
    nodes = mesh.Nodes_Conditions(lambda x, y, z: x > 0.6)
    dofs = (nodes[:, None] * 3 + np.arange(3)).ravel()
    u_1[dofs] += rng.normal(0, 0.05, dofs.size)
    S = lambda u: HyperElasticState(g, u, MatrixType.rigi)
    mat = Models.HyperElastic.HolzapfelOgden(3, T1=T1, T2=T2, **HO)
    try:
        K, R, npts = NonLinear.TimeQuadratureStressTensor(mat, S(u_n), S(0.5 * (u_n + u_1)), S(u_1), 0.5, 3, tol=1e-8)
    except Exception as ex:
        ref = Models.HyperElastic.HolzapfelOgden(3, T1=np.array([1.0, 0, 0]), T2=np.array([0, 1.0, 0]), **HO)
        _, _, npts = NonLinear.TimeQuadratureStressTensor(ref, S(u_n), S(0.5 * (u_n + u_1)), S(u_1), 0.5, 3, tol=1e-8)
        raise Refuted(f"TimeQuadratureStressTensor(tol=1e-8) with Holzapfel-Ogden fibre fields (Ne, nPg, 3) raises {type(ex).__name__}: {str(ex)[:140]} as soon as elements are accepted at different "
                      f"levels (points per element with uniform fibres: {np.asarray(npts).tolist()}): the state is restricted to the elements still refining, the law's fields are not",
                      cex=dict(law="HolzapfelOgden", fibres="(Ne, nPg, 3) fields", tol=1e-8), signature="adaptive:fields", replay=dict(confirmed=True))
    rows = np.asarray(g.Get_assembly_e(3))
    wJ = np.asarray(g.Get_weightedJacobian_e_pg(MatrixType.rigi))
    dW = np.asarray(mat.Compute_W(S(u_1))) - np.asarray(mat.Compute_W(S(u_n)))
    work = np.einsum("ei,ei->e", np.asarray(R), (u_1 - u_n)[rows])
    want = (wJ * dW).sum(1)
    e = float(np.abs(work - want).max() / np.abs(want).max())
    if e > 1e-6:
        raise Refuted(f"adaptive path quadrature with fibre fields: R_e.(u_n+1 - u_n) differs from the integral of W_n+1 - W_n by {e:.2e} (relative)", signature="adaptive:fields:energy", replay=dict(confirmed=True, err=e))
    return Verdict(DISCHARGED, backend="native run", detail=f"points per element {np.asarray(npts).tolist()}, energy defect {e:.1e}")


def ob_native_operator(kind, et, law):
    """full tangent of the real operator with a genuinely nonlinear law vs central differences of its residual."""
    from EasyFEA.FEM._utils import MatrixType
    from EasyFEA.FEM.Operators import NonLinear
    from EasyFEA.Models.HyperElastic import HyperElasticState
    rng = np.random.default_rng(4)
    pre, connect = patches.two_element_patch(et, 0)
    mesh = patches.real_mesh(et, [[float(v) for v in p] for p in pre], connect)
    g = mesh.groupElem
    dim = g.dim
    mat = _native_material(law, dim)
    nd = dim * mesh.Nn
    un, u1 = rng.uniform(-0.1, 0.1, nd), rng.uniform(-0.1, 0.1, nd)
    S = lambda u: HyperElasticState(g, u, MatrixType.rigi)

    def KR(u):
        if kind == "pointwise":
            return NonLinear.SecondPiolaKirchhoffStressTensor(mat, S(u)) + (1.0,)
        if kind == "gonzalez":
            return NonLinear.GonzalezStressTensor(mat, S(un), S((un + u) / 2), S(u), True) + (0.5,)
        npts = int(kind.split(".")[1]) if "." in kind else 3          # fixed Clenshaw-Curtis rule with that many points along the strain path
        K, R, _ = NonLinear.TimeQuadratureStressTensor(mat, S(un), S((un + u) / 2), S(u), 0.5, npts)
        return K, R, 0.5
    rows = np.asarray(g.Get_assembly_e(dim))
    K, R, scale = KR(u1)
    err, h = 0.0, 1e-4
    for a in range(rows.shape[1]):
        for e in range(g.Ne):
            d = np.zeros(nd)
            d[rows[e][a]] = 1
            f = lambda hh: (KR(u1 + hh * d)[1][e] - KR(u1 - hh * d)[1][e]) / (2 * hh)
            dR = (4 * f(h / 2) - f(h)) / 3
            err = max(err, float(np.abs(dR - scale * np.asarray(K)[e][:, a]).max() / np.abs(K).max()))
    if err > 1e-6:
        raise Refuted(f"{kind} operator with {law} on {et}: tangent differs from the finite-difference derivative of the residual by {err:.2e} (relative)", cex=dict(operator=kind, law=law, elemType=et),
                      signature=f"native:op:{kind}:{law}:{et}", replay=dict(confirmed=True, err=err))
    return Verdict(DISCHARGED, backend="native run, Richardson finite differences", detail=f"err {err:.1e}")


def ob_native_energy(stress, law, dt, nstep):
    """free motion after a static preload: KE + W constant over many steps (midpoint + energy-conserving stress)."""
    import contextlib, io
    from EasyFEA import Models, Simulations, AlgoType, ElemType
    from EasyFEA.Geoms import Domain
    L, h = 30.0, 10.0
    mesh = Domain((0, 0), (L, h), h / 2).Mesh_2D([], ElemType.QUAD4, isOrganised=True)
    n0 = mesh.Nodes_Conditions(lambda x, y, z: x == 0)
    nL = mesh.Nodes_Conditions(lambda x, y, z: x == L)
    mat = Models.HyperElastic.NeoHookean(2, K=5.0e4) if law == "NeoHookean" else Models.HyperElastic.MooneyRivlin(2, K1=2.0e4, K2=1.0e4, K=8.0e4)
    simu = Simulations.HyperElastic(mesh, mat, absTol=1e-5, verbosity=False)
    with contextlib.redirect_stdout(io.StringIO()):
        simu.add_dirichlet(n0, [0, 0], simu.Get_unknowns())
        simu.add_dirichlet(nL, [-h / 3], ["y"])
        simu.Solve()
        simu.Save_Iter()
        simu.Bc_Init()
        simu.Solver_Set_Hyperbolic_Algorithm(dt, algo=AlgoType.midpoint)
        if stress == "gonzalez":
            simu.Solver_Set_Stress(simu.StressType.gonzalez)
        else:
            simu.Solver_Set_Stress(simu.StressType.quadrature, energyTol=1e-9)
        simu.add_dirichlet(n0, [0, 0], simu.Get_unknowns())
        pt = simu.problemType
        E = [float(simu._Calc_W())]
        M = None
        for _ in range(nstep):
            simu.Solve()
            simu.Save_Iter()
            if M is None:
                _, _, M, _ = simu.Get_K_C_M_F(pt)
            v = simu._Get_v_n(pt)
            E.append(0.5 * float(v @ (M @ v)) + float(simu._Calc_W()))
    E = np.array(E)
    drift = float(np.abs(E - E[0]).max() / abs(E[0]))
    ke = float(E[0] - min(float(simu._Calc_W()), E[0]))
    if drift > 2e-6:
        raise Refuted(f"free motion, midpoint + {stress} stress, {law}, dt = {dt}, {nstep} steps: kinetic + stored energy drifts by {drift:.2e} (relative)", cex=dict(stress=stress, law=law, dt=dt, steps=nstep),
                      signature=f"native:energy:{stress}:{law}", replay=dict(confirmed=True, drift=drift))
    return Verdict(DISCHARGED, backend="native simulation", detail=f"drift {drift:.1e} over {nstep} steps")


# ---------------------------------------------------------------- build

def ob_fibre_shapes():
    """Holzapfel-Ogden with one fibre direction constant and the other given as a per-point field (either way round): energy, stress and tangent are those of the law with both
    directions given as (constant) fields"""
    import contextlib, io
    from EasyFEA import ElemType, MatrixType, Models
    from EasyFEA.Geoms import Domain
    from EasyFEA.FEM import FeArray
    from EasyFEA.Models.HyperElastic._state import HyperElasticState
    HO = dict(C0=1.2, C1=2.0, C2=3.0, C3=2.5, C4=1.5, C5=1.8, C6=0.9, C7=1.3, K=60.0, Mu1=1.0, Mu2=0.5, ks=100.0)
    with contextlib.redirect_stdout(io.StringIO()):
        mesh = Domain((0, 0), (1, 1), 0.5).Mesh_Extrude([], [0, 0, 1], [2], ElemType.HEXA8, isOrganised=True)
    ge = mesh.groupElem
    rng = np.random.default_rng(0)
    u = rng.standard_normal(mesh.Nn * 3) * 0.02
    state = HyperElasticState(ge, u, MatrixType.rigi)
    Ne, nPg, _ = state._GetDims()
    t1, t2 = np.array([2.0, 1.0, 2.0]) / 3, np.array([-2.0, 2.0, 1.0]) / 3
    fld = lambda t: FeArray.asfearray(np.tile(t, (Ne, nPg, 1)))
    ref = Models.HyperElastic.HolzapfelOgden(3, T1=fld(t1), T2=fld(t2), **HO)
    want = [np.asarray(f(state)) for f in (ref.Compute_W, ref.Compute_dWde, ref.Compute_d2Wde)]
    n = 0
    for tag, T1, T2 in (("constant T1, field T2", t1, fld(t2)), ("field T1, constant T2", fld(t1), t2), ("both constant", t1, t2)):
        try:
            mat = Models.HyperElastic.HolzapfelOgden(3, T1=T1, T2=T2, **HO)
            got = [np.asarray(f(state)) for f in (mat.Compute_W, mat.Compute_dWde, mat.Compute_d2Wde)]
        except Exception as ex:
            raise Refuted(f"HolzapfelOgden with {tag}: {type(ex).__name__}: {ex}", cex=dict(fibres=tag), signature="fibres:shapes:raises", replay=dict(confirmed=True, raised=repr(ex)[:200]))
        for nm, a, b in zip(("W", "dWde", "d2Wde"), got, want):
            n += 1
            e = float(np.abs(a - b).max() / (np.abs(b).max() + 1e-300))
            if a.shape != b.shape or e > 1e-12:
                raise Refuted(f"HolzapfelOgden with {tag}: {nm} differs from the law with both directions given as fields by {e:.3e}", cex=dict(fibres=tag, quantity=nm), signature="fibres:shapes:value",
                              replay=dict(confirmed=True, rel_err=e))
    return Verdict(DISCHARGED, backend="native", sub=n)


def build(tier, seed):
    obs = []
    thorough = tier == "thorough"
    for name in ("I1", "I2", "I3", "I4", "I6", "I8"):
        for dim in (2, 3):
            obs.append(Ob(f"C18.inv.{name}.{dim}d", ob_invariant, (name, dim), "P", (f"{STATE}::HyperElasticState.Compute_{name}", f"{STATE}::HyperElasticState.Compute_d{name}dC", f"{STATE}::HyperElasticState.Compute_d2{name}dC"),
                          clause="returned gradient / Hessian == Kelvin-Mandel derivatives of the returned invariant, all C", timeout=600))
    for dim in (2, 3):
        for which in ("De", "Deta", "C"):
            obs.append(Ob(f"C18.kin.{which}.{dim}d", ob_kin_De, (dim, which), "P", (f"{STATE}::HyperElasticState.Compute_{'C' if which == 'C' else which}",), clause="kinematic operator identities / C(QF) == C(F)", timeout=600))
    for law in LAW_NAMES:
        obs.append(Ob(f"C18.law.frame.{law}", ob_law_frame, (law,), "E", (f"{LAWS}::{law}",), clause="the law reads the state through the invariants of C only"))
        obs.append(Ob(f"C18.law.{law}.dW", ob_law, (law, "dW"), "P", (f"{LAWS}::{law}.Compute_W", f"{LAWS}::{law}.Compute_dWde"), clause="stress == 2 sum dW/dI_k dI_k/dC for all invariants and parameters", timeout=900))
        obs.append(Ob(f"C18.law.{law}.d2W", ob_law, (law, "d2W"), "P", (f"{LAWS}::{law}.Compute_W", f"{LAWS}::{law}.Compute_d2Wde"), clause="tangent == chain rule of the second derivative of W", timeout=1800))
        obs.append(Ob(f"C18.law.{law}.ref", ob_law_ref, (law,), "P", (f"{LAWS}::{law}.Compute_W", f"{LAWS}::{law}.Compute_dWde"), clause="W == 0 and stress == 0 at C == I", timeout=600))
    kinds = ["pointwise", "gonzalez", "quadrature.1", "quadrature.2", "quadrature.3", "quadrature.newmark", "active", "kelvinvoigt.K", "kelvinvoigt.C"]          # (rules with more than 3 points take np.cos of computed angles: left to the native obligations native.op.quadrature.{4,9})
    for kind in kinds:
        # exact runs cost grows with (Gauss points x dofs): HEXA8 needs ~10 min per operator call and the Gonzalez rational functions on QUAD4 more; both are left to the native
        # finite-difference obligations (C18.native.op.*), the exact ones cover TRI3 / QUAD4 / TETRA4 / TRI6 / PRISM6
        ets = ["TRI3", "TETRA4"] + (["QUAD4"] if kind == "pointwise" or (thorough and kind != "gonzalez") else []) + (["TRI6", "PRISM6"] if thorough and kind in ("pointwise", "quadrature.3") else [])
        if kind == "gonzalez" and not thorough:
            ets = ["TRI3"]                 # rational functions of t: minutes per element type; the others run in the thorough tier and natively (finite differences) in both
        for et in ets:
            obs.append(Ob(f"C18.op.{kind}.{et}", ob_operator, (kind, et, seed), "B", (f"{NL}::{_opname(kind)}",), bound=f"2-element {et} patch, one seeded rational state, unit directions",
                          clause="K_e(t) d == d/dt R_e(t) as polynomials in t", timeout=3600))
    obs.append(Ob("C18.quadrature.rule", ob_clenshaw_curtis, (), "B", (f"{NL}::__clenshaw_curtis",), bound="point counts 1-12, 17, 33; floats (1e-12)",
                  clause="Clenshaw-Curtis nodes increasing from 0 to 1, symmetric, weights sum to 1, exact for every monomial of degree <= nPoints - 1"))
    for et in ("TRI3", "QUAD4") + (("TRI6",) if thorough else ()):
        obs.append(Ob(f"C18.op.follower.{et}", ob_follower, (et, seed), "B", (f"{NL}::FollowingPressure",), bound="one embedded surface element, one seeded state", clause="K_e == -dF/du", timeout=1800))
    for et in ("SEG2", "TRI3") + (("SEG3", "QUAD4") if thorough else ()):
        obs.append(Ob(f"C18.op.contact.{et}", ob_contact, (et, seed), "B", (f"{NL}::PenaltyContact",), bound="one boundary element, flat obstacle, mixed active set", clause="K_e == -dR/du", timeout=1800))
    for kind in ("gonzalez", "quadrature.1", "quadrature.3"):
        for et in ("TRI3", "QUAD4", "TETRA4"):
            obs.append(Ob(f"C18.energy.{kind}.{et}", ob_energy, (kind, et, seed), "B", (f"{NL}::{_opname(kind)}",), bound=f"2-element {et} patch, one seeded pair of end states",
                          clause="R_e.(u_n+1 - u_n) == integral of W_n+1 - W_n", timeout=1800))
    for law in LAW_NAMES + ["AutoDiff", "HolzapfelOgden.oblique"]:
        for dim in (2, 3):
            for s in range(3 if thorough else 1):
                obs.append(Ob(f"C18.native.law.{law}.{dim}d.s{s}", ob_native_law, (law, dim, seed + s), "X", (f"{LAWS}::{law.split('.')[0]}",), bound="one seeded deformation state (16 / 16 Gauss points)",
                              clause="stress / tangent vs finite differences; objectivity; reference state", timeout=1800))
    obs.append(Ob("C18.native.operator.quadrature.adaptive.fields", ob_adaptive_fields, (), "X", (f"{NL}::__AdaptiveTimeQuadratureStressTensor", f"{LAWS}::HolzapfelOgden"), bound="one 8-element block, one step",
                  clause="adaptive path quadrature with per-element law data: returns, and satisfies the discrete-gradient identity", timeout=600))
    for kind in ("pointwise", "gonzalez", "quadrature", "quadrature.4", "quadrature.9"):
        for law in ("NeoHookean", "MooneyRivlin") + (("CiarletGeymonat", "HolzapfelOgden") if thorough else ()):
            for et in ("QUAD4",) + (("TETRA4",) if thorough or law == "NeoHookean" else ()):
                obs.append(Ob(f"C18.native.op.{kind}.{law}.{et}", ob_native_operator, (kind, et, law), "X", (f"{NL}::{_opname(kind)}",), bound="2-element patch, one seeded state",
                              clause="tangent == finite-difference derivative of the residual (1e-6)", timeout=1800))
    for stress, law, dt, nstep in [("gonzalez", "NeoHookean", 0.05, 60), ("gonzalez", "MooneyRivlin", 0.1, 40), ("quadrature", "NeoHookean", 0.05, 40)] + \
            ([("gonzalez", "NeoHookean", 0.2, 200), ("quadrature", "MooneyRivlin", 0.1, 100), ("gonzalez", "MooneyRivlin", 0.02, 300)] if thorough else []):
        obs.append(Ob(f"C18.native.energy.{stress}.{law}.dt{dt}", ob_native_energy, (stress, law, dt, nstep), "X", ("EasyFEA/Simulations/_hyperelastic.py::HyperElastic.Construct_local_matrix_system",),
                      bound=f"one cantilever, {nstep} steps", clause="KE + W constant (2e-6) in free motion", timeout=3600))
    obs.append(Ob("canary.law", ob_law_canary, (), "P", expect=REFUTED))
    obs.append(Ob("canary.operator", ob_operator_canary, (), "B", expect=REFUTED))
    obs.append(Ob("C18.native.law.HolzapfelOgden.shapes", ob_fibre_shapes, (), "X", (f"{STATE}::HyperElasticState._Compute_Anisotropic_Invariants_First_Derivatives", f"{LAWS}::HolzapfelOgden"),
                  bound="one 8-element HEXA8 state", clause="a constant fibre direction next to a per-point field of directions: W, stress, tangent == both given as fields"))
    obs += ops.hyper_obligations('C18', tier) + ops.hyper_lemma_obligations('C18', tier)
    obs.append(ops.selfcheck_ob('C18'))
    return dict(
        obs=obs, level="other", min_obligations=60,
        explanation=("Invariants and kinematic operators: real HyperElasticState methods run on symbolic tensors and differentiated exactly. Laws: the extracted Compute_W / dWde / d2Wde run "
                     "on formal invariants and are compared with sympy derivatives for all invariant values and parameters; with the frame scan (laws read C only) and C(QF) = C(F) this "
                     "gives stress = dW/dE, tangent = dS/dE, objectivity and the stress-free reference for every deformation. Operators: the real element operators run on exact rationals "
                     "along u0 + t d and their tangent is compared with the exact t-derivative of their residual (a polynomial identity; Saint-Venant-Kirchhoff so that the field is "
                     "rational); the one-step discrete energy balance is checked the same way. Native runs (bounded) repeat these with every law, the jax AutoDiff law and long free motions."),
        trusted_base=ops.GP_TRUST + ["sympy simplification (a failed simplification is reported as a refutation only after two normal forms; none occurs on the current tree)", "numpy model (npshim), exact field arithmetic",
                      "operator obligations are instances (one rational state per element type): bounded, not proofs", "jax (AutoDiff law) external"],
        assumptions=["Holzapfel-Ogden reference state needs orthogonal fibres", "energy conservation over many steps is checked natively (bounded); per step it follows from C18.energy.* and C05's midpoint identities",
                     "float literals (2**-1/2, Clenshaw-Curtis nodes) read as exact rationals: 2^-40 slack in operator identities"],
        functions={law: extract.get(LAWS, f"{law}.Compute_d2Wde").describe() for law in LAW_NAMES},
        dropped=["law obligations: D1-D5, numpy replaced by sympy functions, TensorProd by the formal dyad; operator obligations: imported code, `np` replaced by the exact model"],
    )


def _opname(kind):
    return {"pointwise": "SecondPiolaKirchhoffStressTensor", "gonzalez": "GonzalezStressTensor", "active": "ActiveStressTensor", "kelvinvoigt.K": "KelvinVoigtDamping", "kelvinvoigt.C": "KelvinVoigtDamping",
            "quadrature": "TimeQuadratureStressTensor"}.get(kind, "TimeQuadratureStressTensor")


def ob_law_canary():
    """a law whose stress coefficient is wrong must be refuted: dW/dI3 of the Neo-Hookean law is checked against a deliberately perturbed energy."""
    global _run_law
    base = _run_law

    def bad(law):
        sp, I, W, dW, d2W, used = base(law)
        return sp, I, W + I["I3"] ** 2, dW, d2W, used
    _run_law = bad
    try:
        return ob_law("NeoHookean", "dW")
    finally:
        _run_law = base


def ob_operator_canary():
    """the pointwise tangent compared with the wrong chain factor must be refuted."""
    global _opscale_canary
    import EasyFEA.FEM.Operators.NonLinear as NLm
    orig = NLm.SecondPiolaKirchhoffStressTensor

    def wrong(mat, st):
        K, R = orig(mat, st)
        return K * 2, R
    NLm.SecondPiolaKirchhoffStressTensor = wrong
    return ob_operator("pointwise", "TRI3", 0)
