"""C14 -- after any sequence of changes a simulation behaves like a freshly built one.

E-tier (all call histories, by induction over operations): three representation invariants of a simulation,
each preserved by every method, decided path by path on the AST (vt/eff.py):
  I_obs    the simulation observes its current mesh and model
  I_flag   flag low  =>  stored K, C, M, F were assembled from the current dependencies
  I_cache  every cached value was computed from the current values of what it reads
The mutator list is derived mechanically: every method / property setter of the anchored classes is analysed; a rule
fires wherever its trigger event occurs, so a new mutator is checked automatically.
X-tier (bounded histories, native floats): every operation sequence of bounded length over a mutator alphabet, interleaved
with assemblies, against a fresh simulation built in the final configuration.
"""
from __future__ import annotations

import ast
import copy
import itertools

import numpy as np

from vt import eff, extract
from vt.core import Ob, Verdict, Refuted, Unsupported, DISCHARGED, REFUTED
from . import patches

PROP = "C14"
MESH = "EasyFEA/FEM/_mesh.py"
GROUP = "EasyFEA/FEM/_group_elem.py"
SIMU = "EasyFEA/Simulations/_simu.py"
PARAMS = "EasyFEA/Utilities/_params.py"
OBS = "EasyFEA/Utilities/_observers.py"
MUTILS = "EasyFEA/Models/_utils.py"
ASSUME_FALSE_BRANCHES = {("MPI_SIZE == 1", False), ("MPI_SIZE > 1", True)}      # MPI_SIZE == 1 is assumed


def _reachable(path):
    return not any(e[0] == "branch" and (e[1], e[2]) in ASSUME_FALSE_BRANCHES for e in path)


def _call(path, pred):
    return any(e[0] == "call" and pred(e) for e in path)


def _store(path, pred, kinds=("store", "augstore", "itemstore")):
    return [e for e in path if e[0] in kinds and pred(e)]


def _fmt(path):
    return [f"{e[0]}:{e[1]}" + (f"({e[2]})" if e[0] == "call" and len(e) > 2 and e[2] else "") for e in path if e[0] != "branch"][:30]


def _check_rule(rule_id, cls_path, cls, trigger, require, what, skip=("__init__",), only=None, replay=None):
    n = 0
    checked = []
    for name, which, fn, decs in eff.methods_of(cls_path, cls):
        if name in skip or (only is not None and name not in only):
            continue
        ps = eff.paths(fn)
        for p in ps:
            if not _reachable(p):
                continue
            trig = trigger(p)
            if trig:
                n += 1
                checked.append(fn.qualname)
                if not require(p, trig):
                    rp = replay(fn.qualname) if replay else None
                    raise Refuted(f"{rule_id}: {fn.qualname} (lines {fn.lineno}-{fn.end_lineno}) has a path that {what[0]} without {what[1]}: {_fmt(p)}",
                                  cex=dict(method=fn.qualname, path=_fmt(p)), signature=f"{rule_id}:{fn.qualname}", replay=rp)
    return n, sorted(set(checked))


# ---------------------------------------------------------------- native replays for the effect rules

def _mk_simu(et="TRI3"):
    from EasyFEA import Models, Simulations
    coords, connect = patches.star_patch(et)
    mesh = patches.real_mesh(et, coords, connect)
    mat = Models.Elastic.Isotropic(2, E=3.0, v=0.25, planeStress=True, thickness=1.0)
    return Simulations.Elastic(mesh, mat), mesh, mat


def _fresh_like(simu):
    from EasyFEA import Models, Simulations
    mesh = copy.deepcopy(simu.mesh)
    m = simu.model
    mat = Models.Elastic.Isotropic(2, E=float(m.E), v=float(m.v), planeStress=bool(m.planeStress), thickness=float(m.thickness))
    s = Simulations.Elastic(mesh, mat)
    s.rho = simu.rho
    # the damping coefficients are part of the final configuration (set BEFORE the first assembly of the fresh simulation)
    s.Set_Rayleigh_Damping_Coefs(coefM=getattr(simu, "_Elastic__coefM", 0.0), coefK=getattr(simu, "_Elastic__coefK", 0.0))
    return s


def _Kdiff(simu):
    K = simu.Get_K_C_M_F()[0].toarray()
    Kf = _fresh_like(simu).Get_K_C_M_F()[0].toarray()
    return float(np.abs(K - Kf).max() / max(np.abs(Kf).max(), 1e-300))


def replay_mesh_coord(qual=None):
    try:
        simu, mesh, mat = _mk_simu()
        simu.Get_K_C_M_F()
        c = np.asarray(mesh.coord).copy()
        c[:, 0] *= 1.7
        c[:, 1] += 0.3 * c[:, 0]
        mesh.coord = c
        d = _Kdiff(simu)
        return dict(confirmed=d > 1e-12, history=["Get_K_C_M_F", "mesh.coord = sheared coordinates", "Get_K_C_M_F"], rel_diff_vs_fresh=d,
                    needUpdate_after_setter=bool(simu.needUpdate))
    except Exception as e:
        return dict(confirmed=True, raised=repr(e))


def replay_simu_mesh(qual=None):
    try:
        simu, mesh, mat = _mk_simu()
        simu.Get_K_C_M_F()
        coords, connect = patches.star_patch("TRI3")
        mesh2 = patches.real_mesh("TRI3", coords, connect)
        simu.mesh = mesh2
        simu.Get_K_C_M_F()
        mesh2.Rotate(30)
        mesh2.Translate(0.2, 0.1)
        c = np.asarray(mesh2.coord).copy()
        c[:, 0] *= 1.5
        for g in mesh2.dict_groupElem.values():
            g.coord = c
        mesh2._Notify("stretched")
        d = _Kdiff(simu)
        return dict(confirmed=d > 1e-12, history=["simu.mesh = mesh2", "Get_K_C_M_F", "mesh2 stretched + _Notify", "Get_K_C_M_F"], rel_diff_vs_fresh=d,
                    needUpdate=bool(simu.needUpdate), observed=bool(simu in mesh2.observers))
    except Exception as e:
        return dict(confirmed=True, raised=repr(e))


# ---------------------------------------------------------------- E-tier obligations

def ob_mesh_notify(canary=False):
    """Mesh: every path that re-assigns coordinates of a group (or replaces the group dictionary) notifies the observers."""
    trig = lambda p: _store(p, lambda e: e[1].endswith(".coord") or e[1].endswith("._GroupElem__coord") or e[1] == "self._Mesh__dict_groupElem",
                            kinds=("store", "augstore", "itemstore"))
    req = lambda p, t: _call(p, lambda e: e[1] == ("self._Notify_twice" if canary else "self._Notify"))
    n, who = _check_rule("I_flag.mesh", MESH, "Mesh", trig, req, ("changes coordinates", "self._Notify(...)"), replay=replay_mesh_coord)
    if n == 0:
        raise Unsupported("no coordinate mutator found in Mesh (vacuous)")
    return Verdict(DISCHARGED, backend="AST path analysis", sub=n, detail=f"mutators: {who}")


def ob_group_cache():
    """_GroupElem: F = private fields read (transitively through self-calls and properties) by @cache_computed_values methods;
    every non-constructor path storing a field of F calls self._InitMatrix; _InitMatrix clears the cache."""
    meths = eff.methods_of(GROUP, "_GroupElem")
    by_name = {}
    for name, which, fn, decs in meths:
        by_name.setdefault(name, []).append((which, fn, decs))
    reads: dict[str, set] = {}
    calls: dict[str, set] = {}
    for name, lst in by_name.items():
        r, c = set(), set()
        for which, fn, decs in lst:
            if which == "setter":
                continue
            for node in ast.walk(fn.node):
                if isinstance(node, ast.Attribute) and isinstance(node.value, ast.Name) and node.value.id == "self" and isinstance(node.ctx, ast.Load):
                    a = node.attr
                    if a.startswith("__") and not a.endswith("__"):
                        r.add("_GroupElem" + a)
                    else:
                        c.add(a)
        reads[name], calls[name] = r, c
    cached = [name for name, lst in by_name.items() if any("cache_computed_values" in d for _, _, decs in lst for d in decs)]
    if not cached:
        raise Unsupported("no cached method found (vacuous)")
    F, seen, todo = set(), set(), list(cached)
    while todo:
        m = todo.pop()
        if m in seen or m not in reads:
            continue
        seen.add(m)
        F |= reads[m]
        todo += list(calls[m])
    immutable_after_init = set()
    trig = lambda p: _store(p, lambda e: e[1].startswith("self.") and e[1][5:] in F, kinds=("store", "augstore", "itemstore"))
    req = lambda p, t: _call(p, lambda e: e[1] == "self._InitMatrix") or all(
        # lazily-built memo of a pure function of connectivity (set once from None): not a dependency change
        e[1] in ("self._GroupElem__connect_n_e",) for e in t)
    n, who = _check_rule("I_cache.group", GROUP, "_GroupElem", trig, req, ("stores a field read by cached functions", "self._InitMatrix()"),
                         skip=("__init__", "_Set_partitioned_data"))
    fn = extract.get(GROUP, "_GroupElem._InitMatrix")
    for p in eff.paths(fn):
        if not _call(p, lambda e: e[1] == "clear_cached_computed_values" and e[2] == "self"):
            raise Refuted("_GroupElem._InitMatrix does not clear the cached computed values on every path", signature="I_cache.group:_InitMatrix",
                          replay=dict(confirmed=False))
    if "_GroupElem__coord" not in F:
        raise Unsupported("coordinates are not among the dependencies of the cached functions (unexpected)")
    return Verdict(DISCHARGED, backend="AST path analysis", sub=n + 1, detail=f"{len(cached)} cached methods; dependency fields {sorted(F)}; mutators {who}")


def _cached_classes():
    """every (file, class) of the package holding at least one @cache_computed_values method -- discovered on every run."""
    import os
    out = []
    root = os.path.join(extract.REPO if hasattr(extract, "REPO") else "/repo", "EasyFEA")
    for d, _, files in os.walk(root):
        for f in sorted(files):
            if not f.endswith(".py"):
                continue
            full = os.path.join(d, f)
            rel = os.path.relpath(full, os.path.dirname(root))
            try:
                tree = ast.parse(open(full).read())
            except SyntaxError:
                continue
            for c in ast.walk(tree):
                if isinstance(c, ast.ClassDef) and any(isinstance(m, ast.FunctionDef) and any("cache_computed_values" in ast.unparse(dd) for dd in m.decorator_list) for m in c.body):
                    out.append((rel, c.name))
    return sorted(set(out))


# fields that are memo slots of pure functions of other dependencies (set once from None), per class
MEMO_FIELDS = {"_GroupElem": {"_GroupElem__connect_n_e"}}
# cached methods whose cache is keyed by every value they depend on (arguments only): nothing of self is read
def ob_cache_all():
    """for EVERY class with @cache_computed_values methods: F = private fields of self read (transitively through self-calls / properties) by the cached
    methods; every non-constructor path that stores a field of F also clears the cache (directly or through a method that clears it on all its paths)."""
    # scope of the property: the simulation and the objects it keeps and observes.  HyperElasticState is a transient evaluation object rebuilt at every assembly
    # (its public matrixType setter does leave its own cache stale -- reported in DESIGN.md as an observation outside C14)
    classes = [(p_, c_) for p_, c_ in _cached_classes() if c_ not in ("HyperElasticState", "_StrainPathState")]
    if not classes:
        raise Unsupported("no cached method found (vacuous)")
    total, report = 0, []
    for path, cls in classes:
        meths = eff.methods_of(path, cls)
        by_name = {}
        for name, which, fn, decs in meths:
            by_name.setdefault(name, []).append((which, fn, decs))
        owner = cls.lstrip("_")
        reads, calls = {}, {}
        for name, lst in by_name.items():
            r, c = set(), set()
            for which, fn, decs in lst:
                if which == "setter":
                    continue
                for node in ast.walk(fn.node):
                    if isinstance(node, ast.Attribute) and isinstance(node.value, ast.Name) and node.value.id == "self" and isinstance(node.ctx, ast.Load):
                        a = node.attr
                        if a.startswith("__") and not a.endswith("__"):
                            r.add(f"_{owner}{a}")
                        else:
                            c.add(a)
                            if not a.startswith("__") and a not in by_name:
                                r.add(a)                      # plain (public / protected) data attribute
            reads[name], calls[name] = r, c
        cached = [name for name, lst in by_name.items() if any("cache_computed_values" in d for _, _, decs in lst for d in decs)]
        F, seen, todo = set(), set(), list(cached)
        while todo:
            m = todo.pop()
            if m in seen or m not in reads:
                continue
            seen.add(m)
            F |= reads[m]
            todo += list(calls[m])
        F -= MEMO_FIELDS.get(cls, set())
        # clearers: methods every reachable path of which clears the cache (fixpoint)
        clearers = set()
        changed = True
        while changed:
            changed = False
            for name, lst in by_name.items():
                if name in clearers:
                    continue
                for which, fn, decs in lst:
                    ps = [p for p in eff.paths(fn.node if hasattr(fn, "node") and False else fn) if _reachable(p)]
                    if ps and all(_call(p, lambda e: (e[1] == "clear_cached_computed_values" and e[2] == "self") or (e[1].startswith("self.") and e[1][5:] in clearers)) for p in ps):
                        clearers.add(name)
                        changed = True
        mangled_clearers = {_m for _m in clearers} | {f"_{owner}{c}" for c in clearers if c.startswith("__")}
        trig = lambda p, F=F: _store(p, lambda e: e[1].startswith("self.") and e[1][5:] in F, kinds=("store", "augstore", "itemstore"))
        req = lambda p, t, mc=mangled_clearers: _call(p, lambda e: (e[1] == "clear_cached_computed_values" and e[2] == "self") or (e[1].startswith("self.") and e[1][5:] in mc))
        n, who = _check_rule(f"I_cache.all:{cls}", path, cls, trig, req, (f"stores a field read by the @cache_computed_values methods of {cls}", "a call that clears the cache"),
                             skip=("__init__", "_Set_partitioned_data", "__setstate__"), replay=lambda q, path=path, cls=cls: _replay_cache_all(path, cls))
        total += n
        report.append(f"{cls}: {len(cached)} cached, fields {sorted(F)}, clearers {sorted(clearers)}, mutators {who}")
    return Verdict(DISCHARGED, backend="AST path analysis over every class with cached methods", sub=total, detail=" || ".join(report)[:1500])


def _all_classes():
    import os
    out = []
    root = os.path.join(extract.REPO if hasattr(extract, "REPO") else "/repo", "EasyFEA")
    for d, _, files in os.walk(root):
        for f in sorted(files):
            if not f.endswith(".py"):
                continue
            full = os.path.join(d, f)
            rel = os.path.relpath(full, os.path.dirname(root))
            try:
                tree = ast.parse(open(full).read())
            except SyntaxError:
                continue
            for c in tree.body:
                if isinstance(c, ast.ClassDef):
                    out.append((rel, c.name))
    return sorted(set(out))


def ob_cache_handmade():
    """hand-written memos -- `if self.X is None: self.X = <expression>` -- anywhere in the package: X caches what the expression reads (private fields of self, transitively
    through self-calls and properties); every non-constructor path that stores one of those fields also stores X again (resets or recomputes it), directly or through a method
    that does so on all its paths"""
    total, report, memos_found = 0, [], 0
    for path, cls in _all_classes():
        if cls in ("HyperElasticState", "_StrainPathState"):
            continue
        try:
            meths = eff.methods_of(path, cls)
        except Exception:
            continue
        by_name = {}
        for name, which, fn, decs in meths:
            by_name.setdefault(name, []).append((which, fn, decs))
        owner = cls.lstrip("_")

        def attr_key(a):
            return f"_{owner}{a}" if a.startswith("__") and not a.endswith("__") else a
        memos = {}      # mangled memo field -> set of names (fields / methods) read by the memoised expression
        for name, lst in by_name.items():
            for which, fn, decs in lst:
                for node in ast.walk(fn.node):
                    if isinstance(node, ast.If) and isinstance(node.test, ast.Compare) and len(node.test.ops) == 1 and isinstance(node.test.ops[0], ast.Is) \
                            and isinstance(node.test.comparators[0], ast.Constant) and node.test.comparators[0].value is None \
                            and isinstance(node.test.left, ast.Attribute) and isinstance(node.test.left.value, ast.Name) and node.test.left.value.id == "self":
                        X = node.test.left.attr
                        assigns = [a_ for b_ in node.body for a_ in ast.walk(b_) if isinstance(a_, ast.Assign) and any(isinstance(t, ast.Attribute) and isinstance(t.value, ast.Name)
                                   and t.value.id == "self" and t.attr == X for t in a_.targets)]
                        if not assigns:
                            continue
                        used = set()
                        for a_ in assigns:
                            for sub in ast.walk(a_.value):
                                if isinstance(sub, ast.Attribute) and isinstance(sub.value, ast.Name) and sub.value.id == "self" and isinstance(sub.ctx, ast.Load):
                                    used.add(sub.attr)
                        memos.setdefault(attr_key(X), set()).update(used)
        if not memos:
            continue
        reads, calls = {}, {}
        for name, lst in by_name.items():
            r, c = set(), set()
            for which, fn, decs in lst:
                if which == "setter":
                    continue
                for node in ast.walk(fn.node):
                    if isinstance(node, ast.Attribute) and isinstance(node.value, ast.Name) and node.value.id == "self" and isinstance(node.ctx, ast.Load):
                        a = node.attr
                        if a.startswith("__") and not a.endswith("__"):
                            r.add(f"_{owner}{a}")
                            c.add(a)
                        else:
                            c.add(a)
                            if a not in by_name:
                                r.add(a)
            reads[name], calls[name] = r, c
        for X, used in memos.items():
            memos_found += 1
            F, seen, todo = set(), set(), []
            for a in used:
                if a.startswith("__") and not a.endswith("__") and a not in by_name:
                    F.add(f"_{owner}{a}")
                elif a in by_name:
                    todo.append(a)
                else:
                    F.add(a)
            while todo:
                m = todo.pop()
                if m in seen or m not in reads:
                    continue
                seen.add(m)
                F |= reads[m]
                todo += list(calls[m])
            F.discard(X)
            F = {f for f in F if f.startswith(f"_{owner}__")}          # the class's own private state (what another object holds is the concern of I_cache.foreign)
            if not F:
                continue
            # methods that store X on every reachable path (fixpoint)
            resetters = set()
            changed = True
            while changed:
                changed = False
                for name, lst in by_name.items():
                    if name in resetters:
                        continue
                    for which, fn, decs in lst:
                        ps = [p_ for p_ in eff.paths(fn) if _reachable(p_)]
                        if ps and all(_store(p_, lambda e, X=X: e[1] == f"self.{X}") or _call(p_, lambda e: e[1].startswith("self.") and e[1][5:] in resetters) for p_ in ps):
                            resetters.add(name)
                            changed = True
            mres = set(resetters) | {f"_{owner}{c}" for c in resetters if c.startswith("__")}
            trig = lambda p_, F=F: _store(p_, lambda e: e[1].startswith("self.") and e[1][5:] in F, kinds=("store", "augstore", "itemstore"))
            req = lambda p_, t, X=X, mres=mres: bool(_store(p_, lambda e: e[1] == f"self.{X}")) or _call(p_, lambda e: e[1].startswith("self.") and e[1][5:] in mres)
            n, who = _check_rule(f"I_cache.handmade:{cls}.{X}", path, cls, trig, req, (f"stores a field read by the hand-written memo {X} of {cls}", f"storing {X} again"),
                                 skip=("__init__", "_Set_partitioned_data", "__setstate__"))
            total += n
            report.append(f"{cls}.{X}: depends on {sorted(F)}, mutators {who}")
    if memos_found == 0:
        raise Unsupported("no hand-written memo found (vacuous)")
    return Verdict(DISCHARGED, backend="AST path analysis over every class of the package", sub=max(total, memos_found), detail=" || ".join(report)[:1500])


def _replay_cache_all(path, cls):
    """native witness for the time-scheme weights (the one cached dependency family with public setters): change dt / algorithm on the same simulation and compare
    the weights with those of a fresh simulation."""
    try:
        from EasyFEA import Models, Simulations, AlgoType
        mesh = patches.two_element_mesh("TRI3")
        mk = lambda: Simulations.Elastic(mesh, Models.Elastic.Isotropic(2, E=10.0, v=0.3))
        s = mk()
        s.Solver_Set_Hyperbolic_Algorithm(1e-2)
        a = s._Solver_Get_K_C_M_coefs_for_time_scheme()
        s.Solver_Set_Hyperbolic_Algorithm(4e-3, algo=AlgoType.hht, alpha=0.2) if "hht" in AlgoType.__members__ else s.Solver_Set_Hyperbolic_Algorithm(4e-3)
        b = s._Solver_Get_K_C_M_coefs_for_time_scheme()
        f = mk()
        f.Solver_Set_Hyperbolic_Algorithm(4e-3, algo=AlgoType.hht, alpha=0.2) if "hht" in AlgoType.__members__ else f.Solver_Set_Hyperbolic_Algorithm(4e-3)
        c = f._Solver_Get_K_C_M_coefs_for_time_scheme()
        return dict(confirmed=bool(not np.allclose(b, c)), after_change=[float(x) for x in b], fresh=[float(x) for x in c], first=[float(x) for x in a])
    except Exception as e:
        return dict(confirmed=False, raised=repr(e)[:300])


def _beam_section_swap(timo=False):
    """dynamic beam simulation (timo: Timoshenko theory, new section of another SHAPE -- a disk -- so that the shear correction factors differ): assemble, replace the cross-section by one of another area, assemble again: mass matrix vs a fresh simulation built with the new section."""
    import contextlib, io
    from EasyFEA import Models, Simulations, Mesher, ElemType
    from EasyFEA.Geoms import Domain, Point, Line
    with contextlib.redirect_stdout(io.StringIO()):
        s1 = Mesher().Mesh_2D(Domain(Point(), Point(0.1, 0.2)))
        s2 = Mesher().Mesh_2D(Domain(Point(), Point(0.3, 0.2)))
        if timo:
            from EasyFEA.Geoms import Circle
            s2 = Mesher().Mesh_2D(Circle(Point(), 0.2, 0.02), [], ElemType.TRI6)
        line = Line(Point(0, 0), Point(2.0, 0.0), 0.5)

        def mk(sect):
            beam = Models.Beam.Isotropic(2, line, sect, 210e3, v=0.3)
            mesh = Mesher().Mesh_Beams([beam], elemType=ElemType.SEG2)
            sm = Simulations.Beam(mesh, beam, useTimoshenko=timo)
            sm.rho = 7.8
            sm.Solver_Set_Hyperbolic_Algorithm(0.1)
            return sm, beam
        sm, beam = mk(s1)
        sm.Get_K_C_M_F()
        beam.section = s2
        M1 = sm.Get_K_C_M_F()[2].toarray()
        K1 = sm.Get_K_C_M_F()[0].toarray()
        fr, _ = mk(s2)
        K2, _, M2, _ = fr.Get_K_C_M_F()
    return max(float(np.abs(M1 - M2.toarray()).max() / np.abs(M2.toarray()).max()), float(np.abs(K1 - K2.toarray()).max() / np.abs(K2.toarray()).max()))


def ob_phasefield_change(op):
    """a phase-field simulation is solved for two load steps (the damage system is assembled and flagged up to date when Solve returns), then one parameter of the ELASTIC MATERIAL
    wrapped by the phase-field model, or of the phase-field model itself, changes: the damage system (Kd, Fd), the displacement system (Ku) and the next solution equal those of a
    simulation constructed directly in the final configuration and given the same (u, d). The HistoryDamage solver keeps no energy history, so both simulations are in the same state."""
    import contextlib, io
    from EasyFEA import Models, Simulations, ElemType
    from EasyFEA.Geoms import Domain, Point
    PF = Models.PhaseField
    first = dict(E=1.0, v=0.3, Gc=0.1, l0=0.1, split=PF.SplitType.Amor, regularization=PF.ReguType.AT2)
    change = {"material.E": ("mat", "E", 2.0), "material.v": ("mat", "v", 0.2), "model.Gc": ("pfm", "Gc", 0.25), "model.l0": ("pfm", "l0", 0.17),
              "model.split": ("pfm", "split", PF.SplitType.Miehe), "model.regularization": ("pfm", "regularization", PF.ReguType.AT1)}[op]

    def build(mesh, cfg):
        mat = Models.Elastic.Isotropic(2, E=cfg["E"], v=cfg["v"], planeStress=True, thickness=1.0)
        pfm = PF(mat, cfg["split"], cfg["regularization"], Gc=cfg["Gc"], l0=cfg["l0"], solver=PF.SolverType.HistoryDamage)
        simu = Simulations.PhaseField(mesh, pfm, verbosity=False)
        simu.solver = "scipy"
        return dict(mat=mat, pfm=pfm), simu

    def load(simu, mesh, ud):
        simu.Bc_Init()
        simu.add_dirichlet(mesh.Nodes_Conditions(lambda x, y, z: x == 0), [0, 0], ["x", "y"])
        simu.add_dirichlet(mesh.Nodes_Conditions(lambda x, y, z: x == 1), [ud], ["x"])

    def dense(a):
        return a.toarray() if hasattr(a, "toarray") else np.asarray(a)

    def rel(a, b):
        a, b = dense(a), dense(b)
        return float(np.abs(a - b).max() / max(np.abs(b).max(), 1e-300))
    with contextlib.redirect_stdout(io.StringIO()):
        mesh = Domain(Point(), Point(1, 1), 0.25).Mesh_2D([], ElemType.TRI3)
        objs, simu = build(mesh, first)
        for ud in (0.2, 0.3):
            load(simu, mesh, ud)
            simu.Solve()
            simu.Save_Iter()
        u, d = np.asarray(simu.displacement).copy(), np.asarray(simu.damage).copy()
        setattr(objs[change[0]], change[1], change[2])
        Kd, _, _, Fd = simu.Get_K_C_M_F("damage")
        Ku = simu.Get_K_C_M_F("elastic")[0]
        final = dict(first)
        final[change[1]] = change[2]
        _, fresh = build(mesh, final)
        fresh._Set_solutions("damage", d.copy())
        fresh._Set_solutions("elastic", u.copy())
        load(fresh, mesh, 0.3)
        Kd2, _, _, Fd2 = fresh.Get_K_C_M_F("damage")
        Ku2 = fresh.Get_K_C_M_F("elastic")[0]
        errs = {"Kd": rel(Kd, Kd2), "Fd": rel(Fd, Fd2), "Ku": rel(Ku, Ku2)}
        load(simu, mesh, 0.35)
        load(fresh, mesh, 0.35)
        simu.Solve()
        fresh.Solve()
        errs["next damage"] = rel(simu.damage, fresh.damage)
        errs["next displacement"] = rel(simu.displacement, fresh.displacement)
    bad = {k: v for k, v in errs.items() if v > 1e-9}
    if bad:
        raise Refuted(f"PhaseField: two solved steps, then {op} = {change[2]}: differs from a simulation built directly in the final configuration with the same (u, d): "
                      + ", ".join(f"{k} {v:.3e}" for k, v in bad.items()), cex=dict(history=["Solve", "Save_Iter", "Solve", "Save_Iter", f"{op} = {change[2]}", "Get_K_C_M_F('damage')", "Solve"]),
                      signature=f"phasefield_change:{op}", replay=dict(confirmed=True, errors=errs))
    return Verdict(DISCHARGED, backend="native run vs fresh simulation", detail=str({k: f"{v:.1e}" for k, v in errs.items()}))


def ob_meshswap_state(sim):
    """replacing the mesh of a simulation whose model carries a state per integration point (energy history of the phase-field History solver, internal variables of an
    inelastic behaviour): after `simu.mesh = other` the next solution equals that of a simulation constructed directly on that mesh -- for a copy of the mesh (same sizes: a stale
    state fits silently) and for a finer mesh (a stale state has the wrong shape)."""
    import contextlib, io
    from EasyFEA import Models, Simulations, ElemType
    from EasyFEA.Geoms import Domain, Point

    def bc(simu, mesh, ud):
        simu.Bc_Init()
        simu.add_dirichlet(mesh.Nodes_Conditions(lambda x, y, z: x == 0), [0, 0], ["x", "y"])
        simu.add_dirichlet(mesh.Nodes_Conditions(lambda x, y, z: x == 1), [ud], ["x"])

    def build(mesh):
        if sim == "PhaseField":
            mat = Models.Elastic.Isotropic(2, E=1.0, v=0.3, planeStress=True, thickness=1.0)
            PF = Models.PhaseField
            s_ = Simulations.PhaseField(mesh, PF(mat, PF.SplitType.Amor, PF.ReguType.AT2, Gc=0.1, l0=0.1, solver=PF.SolverType.History), verbosity=False)
        else:
            IE = Models.InElastic
            s_ = Simulations.InElastic(mesh, IE.Behavior(2, Models.Elastic.Isotropic(3, 1000.0, 0.3), IE.Yield.VonMises(1.0), IE.IsotropicHardening.Linear(10.0)))
        s_.solver = "scipy"
        return s_
    loads, small = ((0.2, 0.3), 0.01) if sim == "PhaseField" else ((0.005, 0.01), 0.0005)
    out = {}
    with contextlib.redirect_stdout(io.StringIO()):
        mesh = Domain(Point(), Point(1, 1), 0.25).Mesh_2D([], ElemType.TRI3)
        for case, other in (("copy of the mesh", mesh.copy()), ("finer mesh", Domain(Point(), Point(1, 1), 0.2).Mesh_2D([], ElemType.TRI3))):
            simu = build(mesh)
            for ud in loads:
                bc(simu, mesh, ud)
                simu.Solve()
                simu.Save_Iter()
            simu.mesh = other
            bc(simu, other, small)
            fresh = build(other)
            bc(fresh, other, small)
            try:
                simu.Solve()
            except Exception as ex:
                raise Refuted(f"{sim}: two solved steps, then simu.mesh = {case}, then Solve raises {type(ex).__name__}: {str(ex)[:160]} (the state of the old mesh is still there)",
                              cex=dict(history=["Solve", "Save_Iter", "Solve", "Save_Iter", f"simu.mesh = {case}", "Solve"]), signature=f"meshswap:{sim}:{case.split()[0]}", replay=dict(confirmed=True))
            fresh.Solve()
            for nm in (("displacement", "damage") if sim == "PhaseField" else ("displacement",)):
                a, b = np.asarray(getattr(simu, nm)), np.asarray(getattr(fresh, nm))
                out[f"{case}: {nm}"] = float(np.abs(a - b).max() / max(np.abs(b).max(), 1e-300)) if np.abs(b).max() > 1e-14 else float(np.abs(a - b).max())
    bad = {k: v for k, v in out.items() if v > 1e-9}
    if bad:
        raise Refuted(f"{sim}: two solved steps, then simu.mesh = other, then a small load: the solution differs from that of a simulation constructed on that mesh: "
                      + ", ".join(f"{k} {v:.3e}" for k, v in bad.items()) + " (the state computed on the old mesh survives the replacement)",
                      cex=dict(history=["Solve", "Save_Iter", "Solve", "Save_Iter", "simu.mesh = other", "Solve"]), signature=f"meshswap:{sim}:state", replay=dict(confirmed=True, errors=out))
    return Verdict(DISCHARGED, backend="native run vs fresh simulation", detail=str({k: f"{v:.1e}" for k, v in out.items()}))


def ob_meshswap_weakforms():
    """replacing the mesh of a weak-form simulation (a copy stretched to a 3 x 1 plate): K and F equal those of a simulation constructed on that mesh with the same forms."""
    import contextlib, io
    from EasyFEA import Models, Simulations, ElemType
    from EasyFEA.Geoms import Domain, Point
    from EasyFEA.FEM import Field, BiLinearForm, LinearForm
    bil = BiLinearForm(lambda u, v: u.grad.dot(v.grad))
    lin = LinearForm(lambda v: 1.0 * v)
    with contextlib.redirect_stdout(io.StringIO()):
        mesh = Domain(Point(), Point(1, 1), 0.25).Mesh_2D([], ElemType.TRI3)
        simu = Simulations.WeakForms(mesh, Models.WeakForms(Field(mesh.groupElem, 1), computeK=bil, computeF=lin))
        simu.Get_K_C_M_F()
        mesh2 = mesh.copy()
        mesh2.coord = mesh2.coord * np.array([3, 1, 1])
        simu.mesh = mesh2
        K, _, _, F = simu.Get_K_C_M_F()
        fresh = Simulations.WeakForms(mesh2, Models.WeakForms(Field(mesh2.groupElem, 1), computeK=bil, computeF=lin))
        Kf, _, _, Ff = fresh.Get_K_C_M_F()
    eK = float(np.abs(K.toarray() - Kf.toarray()).max() / np.abs(Kf.toarray()).max())
    if eK > 1e-10 or abs(F.sum() - Ff.sum()) > 1e-10:
        raise Refuted(f"WeakForms: after simu.mesh = (copy stretched to 3 x 1) the assembled K differs from a fresh simulation's by {eK:.3e} and sum F = {float(F.sum()):.4f} against {float(Ff.sum()):.4f}: "
                      "the forms are still integrated on the element group the model's Field was built on", cex=dict(history=["Get_K_C_M_F", "simu.mesh = stretched copy", "Get_K_C_M_F"]),
                      signature="meshswap:WeakForms", replay=dict(confirmed=True, rel_K=eK))
    return Verdict(DISCHARGED, backend="native run vs fresh simulation")


def ob_beam_theory_switch():
    """`Simulations.Beam.useTimoshenko` is a public parameter whose setter raises the update flag: after it is switched the matrices equal those of a simulation constructed with that theory."""
    import contextlib, io
    from EasyFEA import Models, Simulations, ElemType, Mesher
    from EasyFEA.Geoms import Domain, Point, Line
    with contextlib.redirect_stdout(io.StringIO()):
        sect = Mesher().Mesh_2D(Domain(Point(-0.05, -0.1), Point(0.05, 0.1), 0.02), [], ElemType.TRI3)
        beam = Models.Beam.Isotropic(2, Line(Point(), Point(1, 0, 0), 0.1), sect, 210e9, 0.3)
        mesh = Mesher().Mesh_Beams([beam], elemType=ElemType.SEG3)
        simu = Simulations.Beam(mesh, beam, verbosity=False)
        simu.Get_K_C_M_F()
        try:
            simu.useTimoshenko = True
        except Exception as ex:       # a read-only parameter is a legitimate repair
            return Verdict(DISCHARGED, backend="native run", detail=f"the switch is refused: {type(ex).__name__}")
        K = simu.Get_K_C_M_F()[0].toarray()
        Kf = Simulations.Beam(mesh, beam, useTimoshenko=True, verbosity=False).Get_K_C_M_F()[0].toarray()
    e = float(np.abs(K - Kf).max() / np.abs(Kf).max()) if K.shape == Kf.shape else float("inf")
    if e > 1e-10:
        raise Refuted(f"Beam: simu.useTimoshenko = True after construction is accepted and raises the update flag, but the assembled K differs from a simulation constructed with useTimoshenko=True by {e:.3e}: "
                      "the theory is carried by the class of the element group chosen at construction", cex=dict(history=["Get_K_C_M_F", "simu.useTimoshenko = True", "Get_K_C_M_F"]),
                      signature="beam:theory_switch", replay=dict(confirmed=True, rel_K=e))
    return Verdict(DISCHARGED, backend="native run vs fresh simulation")


def ob_behavior_elastic_change(solver, aniso=False):
    """the elastic law inside an inelastic behaviour is an object the simulation observes through the behaviour: re-assigning one of its parameters must leave no
    stale derived data in the behaviour (the spectral return keeps a decomposition of C^1/2 P C^1/2)"""
    from EasyFEA import Models
    from EasyFEA.FEM._linalg import FeArray
    IE = Models.InElastic

    def mk(E, v):
        el = Models.Elastic.Isotropic(3, E=E, v=v)
        if aniso:
            # the same law held as a general matrix: it is replaced as a whole through Set_C
            el = Models.Elastic.Anisotropic(3, np.asarray(el.C), useVoigtNotation=False)
        return IE.Behavior(3, el, yieldSurface=IE.Yield.VonMises(250.0), hardening=IE.IsotropicHardening.Linear(2000.0), solver=solver), el
    rng = np.random.default_rng(3)
    eps = np.array([3e-3, -5e-4, -5e-4, 1e-4, -2e-4, 3e-4])[None, None] * rng.uniform(0.2, 2.0, size=(2, 3, 1))
    b, el = mk(210e3, 0.3)
    b.Integrate(FeArray.asfearray(eps.copy()))               # whatever is cached is cached now
    told = []

    from EasyFEA.Utilities._observers import _IObserver

    class Listener(_IObserver):
        def _Update(self, observable, event):
            told.append(event)
    b._Add_observer(Listener())
    n = 0
    cur = dict(E=210e3, v=0.3)
    for name, val in (("E", 70e3), ("v", 0.2), ("E", 150e3)):
        cur[name] = val
        if aniso:
            el.Set_C(np.asarray(Models.Elastic.Isotropic(3, **cur).C), useVoigtNotation=False)
            name = f"Set_C(law of {name}"
        else:
            setattr(el, name, val)
        fresh, _ = mk(cur["E"], cur["v"])
        got = b.Integrate(FeArray.asfearray(eps.copy()))
        want = fresh.Integrate(FeArray.asfearray(eps.copy()))
        n += 1
        if not (np.asarray(want[2])[..., 6] > 0).any() or not (np.asarray(want[2])[..., 6] == 0).any():
            raise Unsupported("the strain states are not a mix of elastic and plastic points")
        for k, what in ((0, "stress"), (1, "tangent"), (2, "state")):
            a, w = np.asarray(got[k]), np.asarray(want[k])
            e = float(np.abs(a - w).max() / (np.abs(w).max() + 1e-300))
            if e > 1e-9:
                raise Refuted(f"behaviour (solver={solver}) after elastic.{name} = {val}: the {what} returned by Integrate differs from that of a behaviour built on the new law by {e:.3e} (relative)",
                              cex=dict(history=["Integrate", f"elastic.{name} = {val}", "Integrate"], solver=solver), signature=f"behavior:elastic:{solver}:{what}", replay=dict(confirmed=True, rel_err=e))
        if not told:
            raise Refuted(f"behaviour (solver={solver}): re-assigning elastic.{name} does not notify the observers of the behaviour (a simulation would keep its assembled system)",
                          cex=dict(history=[f"elastic.{name} = {val}"]), signature=f"behavior:elastic:{solver}:notify", replay=dict(confirmed=True))
        told.clear()
    return Verdict(DISCHARGED, backend="native", sub=3 * n)


def ob_hyper_fibres():
    """re-assigning the fibre / sheet directions of a Holzapfel-Ogden law (vectors of any length, as the constructor accepts them): energy, stress and tangent at a seeded
    deformation equal those of a law constructed directly with these directions."""
    from EasyFEA import Models
    from EasyFEA.FEM._utils import MatrixType
    from EasyFEA.Models.HyperElastic import HyperElasticState
    HO = dict(C0=1.0, C1=2.0, C2=3.0, C3=2.0, C4=1.5, C5=1.0, C6=4.0, C7=3.0, K=50.0, Mu1=0.5, Mu2=0.25, ks=20.0)
    mesh = patches.two_element_mesh("HEXA8")
    g = mesh.groupElem
    rng = np.random.default_rng(5)
    st = HyperElasticState(g, rng.uniform(-0.05, 0.05, 3 * mesh.Nn), MatrixType.rigi)
    a, b = np.array([1.0, 1.0, 0.0]), np.array([-2.0, 2.0, 1.0])
    lived = Models.HyperElastic.HolzapfelOgden(3, T1=np.array([1.0, 0, 0]), T2=np.array([0, 1.0, 0]), **HO)
    lived.Compute_W(st)
    lived.T1, lived.T2 = a, b
    fresh = Models.HyperElastic.HolzapfelOgden(3, T1=a, T2=b, **HO)
    errs = {}
    for nm in ("Compute_W", "Compute_dWde", "Compute_d2Wde"):
        x, y = np.asarray(getattr(lived, nm)(st)), np.asarray(getattr(fresh, nm)(st))
        errs[nm] = float(np.abs(x - y).max() / np.abs(y).max())
    bad = {k: v for k, v in errs.items() if v > 1e-12}
    if bad:
        raise Refuted(f"Holzapfel-Ogden: after `mat.T1 = {a.tolist()}; mat.T2 = {b.tolist()}` the law differs from one constructed with these directions: "
                      + ", ".join(f"{k} {v:.3e}" for k, v in bad.items()) + f" (|T1| stored = {float(np.linalg.norm(lived.T1)):.4f}: the constructor normalises, the assignment does not)",
                      cex=dict(history=["construct with unit directions", "Compute_W", "T1 = (1, 1, 0)", "T2 = (-2, 2, 1)"]), signature="hyper:fibres", replay=dict(confirmed=True, errors=errs))
    return Verdict(DISCHARGED, backend="native run vs fresh law")


def ob_beam_section_swap(timo=False):
    e = _beam_section_swap(timo)
    if e > 1e-10:
        raise Refuted(f"{'Timoshenko ' if timo else ''}beam simulation: after the cross-section of a beam is replaced by one of another area the assembled K / M differ from a fresh simulation's by {e:.3e} (relative)",
                      signature="history:beam:section" + (":timoshenko" if timo else ""), replay=dict(confirmed=True, rel_diff=e))
    return Verdict(DISCHARGED, backend="native run vs fresh simulation")


# (class, memoised method, argument) whose attribute reads are accepted, with the reason
_CACHE_ARGUMENT_ALLOWED = set()


def ob_cache_foreign():
    """a @cache_computed_values method (and what it calls on self) must not read the state of ANOTHER object through self -- `self.<object>.<attribute>` with
    <object> a public attribute or property (model, material, mesh, ...): the memo key cannot see such state and a change of it only raises the update flag of
    the simulation, it does not clear the memo.  Private array fields of self (`self.__connect.shape`) are the class's own state (rule I_cache.all)."""
    n, report = 0, []
    for path, cls in _cached_classes():
        if cls in ("HyperElasticState", "_StrainPathState"):
            continue
        by = {}
        for name, which, fn, decs in eff.methods_of(path, cls):
            by.setdefault(name, []).append((which, fn, decs))
        cached = [nm for nm, lst in by.items() if any("cache_computed_values" in d for _, _, decs in lst for d in decs)]
        seen, todo = set(), list(cached)
        while todo:
            m = todo.pop()
            if m in seen or m not in by:
                continue
            seen.add(m)
            for which, fn, decs in by[m]:
                if which == "setter":
                    continue
                for node in ast.walk(fn.node):
                    if isinstance(node, ast.Attribute) and isinstance(node.value, ast.Name) and node.value.id == "self":
                        todo.append(node.attr)
        for m in sorted(seen):
            for which, fn, decs in by[m]:
                if which == "setter":
                    continue
                # objects reached through a collection kept by self (`for beam in self.__beams`, `[b.Get_M() for b in listBeam]` with `listBeam = self.__beams`): their
                # attributes are another object's state just as `self.<object>.<attribute>` is
                held, members = set(), set()
                for node in ast.walk(fn.node):
                    if isinstance(node, ast.Assign) and len(node.targets) == 1 and isinstance(node.targets[0], ast.Name) and isinstance(node.value, ast.Attribute) \
                            and isinstance(node.value.value, ast.Name) and node.value.value.id == "self":
                        held.add(node.targets[0].id)
                def _from_self(it):
                    if isinstance(it, ast.Attribute) and isinstance(it.value, ast.Name) and it.value.id == "self":
                        return True
                    if isinstance(it, ast.Name) and it.id in held:
                        return True
                    if isinstance(it, ast.Call) and isinstance(it.func, ast.Name) and it.func.id in ("zip", "enumerate", "list", "tuple", "sorted", "reversed"):
                        return any(_from_self(a_) for a_ in it.args)
                    return False
                def _targets(t, positions=None):
                    return [x.id for x in ast.walk(t) if isinstance(x, ast.Name)]
                for node in ast.walk(fn.node):
                    its = []
                    if isinstance(node, ast.For):
                        its.append((node.target, node.iter))
                    elif isinstance(node, (ast.ListComp, ast.GeneratorExp, ast.SetComp, ast.DictComp)):
                        its += [(g_.target, g_.iter) for g_ in node.generators]
                    for tgt, it in its:
                        if _from_self(it):
                            if isinstance(it, ast.Call) and it.func.id == "zip" and isinstance(tgt, ast.Tuple):
                                for t_, a_ in zip(tgt.elts, it.args):
                                    if _from_self(a_):
                                        members.update(_targets(t_))
                            elif isinstance(it, ast.Call) and it.func.id == "enumerate" and isinstance(tgt, ast.Tuple) and len(tgt.elts) == 2:
                                members.update(_targets(tgt.elts[1]))
                            else:
                                members.update(_targets(tgt))
                for node in ast.walk(fn.node):
                    if isinstance(node, ast.Attribute) and isinstance(node.value, ast.Name) and node.value.id in members and isinstance(node.ctx, ast.Load):
                        raise Refuted(f"{cls}.{m} is reached from the @cache_computed_values methods {cached} and reads `{node.value.id}.{node.attr}` (line {node.lineno}) where `{node.value.id}` runs over a "
                                      f"collection kept by self: state of other objects that the memo key does not contain; changing it leaves the memoised value stale",
                                      cex=dict(cls=cls, method=m, read=f"{node.value.id}.{node.attr}", line=node.lineno), signature=f"I_cache.foreign:{cls}:member.{node.attr}",
                                      replay=_replay_foreign(cls, node.value.id, node.attr))
                for node in ast.walk(fn.node):
                    n += 1
                    if isinstance(node, ast.Attribute) and isinstance(node.value, ast.Attribute) and isinstance(node.value.value, ast.Name) and node.value.value.id == "self" \
                            and isinstance(node.ctx, ast.Load) and not (node.value.attr.startswith("__") and not node.value.attr.endswith("__")):
                        obj, att = node.value.attr, node.attr
                        rep = _replay_foreign(cls, obj, att)
                        raise Refuted(f"{cls}.{m} is reached from the @cache_computed_values methods {cached} and reads `self.{obj}.{att}` (line {node.lineno}): state of another object "
                                      f"that the memo key does not contain; changing it leaves the memoised value stale", cex=dict(cls=cls, method=m, read=f"self.{obj}.{att}", line=node.lineno),
                                      signature=f"I_cache.foreign:{cls}:{obj}.{att}", replay=rep)
        # a memoised method handed ANOTHER OBJECT as an argument: the key holds the object, not its state -- reading an attribute of the argument (or calling it) makes the
        # memo depend on state the key cannot see
        for m in cached:
            for which, fn, decs in by[m]:
                if which == "setter" or not any("cache_computed_values" in d for d in decs):
                    continue
                params = [a.arg for a in fn.node.args.args[1:]] + [a.arg for a in fn.node.args.kwonlyargs]
                for node in ast.walk(fn.node):
                    n += 1
                    if isinstance(node, ast.Attribute) and isinstance(node.value, ast.Name) and node.value.id in params and isinstance(node.ctx, ast.Load):
                        if (cls, m, node.value.id) in _CACHE_ARGUMENT_ALLOWED:
                            continue
                        raise Refuted(f"{cls}.{m} is memoised by @cache_computed_values and reads `{node.value.id}.{node.attr}` (line {node.lineno}) of its ARGUMENT `{node.value.id}`: the memo key holds "
                                      f"that object, not its state; after the object changes the memoised value is stale", cex=dict(cls=cls, method=m, read=f"{node.value.id}.{node.attr}", line=node.lineno),
                                      signature=f"I_cache.foreign:{cls}:{m}:argument.{node.value.id}", replay=dict(confirmed=False, note="no native witness is generated for this read; the obligation that passed on the unchanged tree now fails"))
        report.append(f"{cls}: {len(cached)} cached, {len(seen)} reachable methods")
    if n == 0:
        raise Unsupported("no cached method found (vacuous)")
    return Verdict(DISCHARGED, backend="AST scan of the cached methods and the methods they reach on self", sub=n, detail="; ".join(report))


def _replay_foreign(cls, obj, att):
    """native witness when the foreign read is a model attribute of the hyperelastic simulation: change it and compare the mass matrix with a fresh simulation's."""
    try:
        if cls == "HyperElastic" and att in ("thickness",):
            def ch(mesh, sm):
                sm.material.thickness = 5.0
                return dict(thickness=5.0)
            e = _he_mass(ch)
            return dict(confirmed=bool(e > 1e-10), mass_rel_diff=e)
        if cls == "BeamStructure":
            e = _beam_section_swap()
            return dict(confirmed=bool(e > 1e-10), mass_rel_diff=e)
        return dict(confirmed=False, note="no native witness is generated for this read; the obligation that passed on the unchanged tree now fails")
    except Exception as ex:
        return dict(confirmed=False, raised=repr(ex)[:300])


def ob_cache_observed():
    """classes with cached methods that observe a mesh: every path of `_Update` taken for a Mesh notification clears the cached values (cached methods keyed on element
    groups read the groups' geometry, which the key cannot see)."""
    n = 0
    for path, cls in _cached_classes():
        meths = {name: fn for name, which, fn, decs in eff.methods_of(path, cls) if which is None}
        if "_Update" not in meths:
            continue
        for p in eff.paths(meths["_Update"]):
            if not _reachable(p):
                continue
            on_mesh = any(e[0] == "branch" and "Mesh" in e[1] and e[2] for e in p)
            if not on_mesh:
                continue
            n += 1
            if not _call(p, lambda e: e[1] == "clear_cached_computed_values" and e[2] == "self"):
                raise Refuted(f"{cls}._Update: a mesh notification does not clear the values cached by @cache_computed_values methods of {cls} (they are keyed on element groups, whose geometry "
                              f"just changed)", cex=dict(path=_fmt(p)), signature=f"I_cache.observed:{cls}", replay=_replay_he_mass())
    if n == 0:
        raise Unsupported("no observing class with cached methods found")
    return Verdict(DISCHARGED, backend="AST path analysis", sub=n)


def _he_mass(change):
    """`change(mesh, simu)` mutates the mesh or the simulation / its model and returns the keyword arguments a fresh simulation in the final configuration is built with."""
    import contextlib, io
    from EasyFEA import Models, Simulations, AlgoType

    def mk(mesh, thickness=1.0, rho=2.0, K=10.0):
        sm = Simulations.HyperElastic(mesh, Models.HyperElastic.NeoHookean(2, K=K, thickness=thickness), verbosity=False)
        sm.rho = rho
        sm.Solver_Set_Hyperbolic_Algorithm(0.1, algo=AlgoType.midpoint)
        c_ = np.asarray(mesh.coord)
        sm.add_dirichlet(np.where(np.isclose(c_[:, 0], c_[:, 0].min()))[0], [0, 0], ["x", "y"])
        return sm
    coords, connect = patches.star_patch("QUAD4")
    mesh = patches.real_mesh("QUAD4", coords, connect)
    with contextlib.redirect_stdout(io.StringIO()), np.errstate(all="ignore"):
        sm = mk(mesh)
        sm.Solve()
        sm.Get_K_C_M_F()
        kw = change(mesh, sm) or {}
        sm.Solve()
        M1 = sm.Get_K_C_M_F()[2].toarray()
        fr = mk(mesh, **kw)
        fr.Solve()
        M2 = fr.Get_K_C_M_F()[2].toarray()
    return float(np.abs(M1 - M2).max() / np.abs(M2).max())


def _replay_he_mass():
    try:
        def ch(mesh, sm):
            mesh.coord = 2 * np.asarray(mesh.coord)
        e = _he_mass(ch)
        return dict(confirmed=bool(e > 1e-10), mass_rel_diff=e, note="dynamic hyperelastic simulation, mesh.coord doubled in place, mass matrix vs fresh simulation")
    except Exception as ex:
        return dict(confirmed=False, raised=repr(ex)[:300])


def ob_he_default_getter():
    """Get_K_C_M_F() with its default argument on a dynamic hyperelastic simulation whose system has to be assembled (flag raised by any change): same matrices as before the flag was raised"""
    import contextlib, io
    from EasyFEA import Models, Simulations
    from EasyFEA.Simulations.Solvers import AlgoType
    coords, connect = patches.star_patch("QUAD4")
    mesh = patches.real_mesh("QUAD4", coords, connect)
    with contextlib.redirect_stdout(io.StringIO()), np.errstate(all="ignore"):
        sm = Simulations.HyperElastic(mesh, Models.HyperElastic.NeoHookean(2, K=10.0, thickness=1.0), verbosity=False)
        sm.rho = 1.3
        sm.Solver_Set_Hyperbolic_Algorithm(0.1, algo=AlgoType.midpoint)
        c_ = np.asarray(mesh.coord)
        sm.add_dirichlet(np.where(np.isclose(c_[:, 0], c_[:, 0].min()))[0], [0, 0], ["x", "y"])
        sm.add_neumann(np.where(np.isclose(c_[:, 0], c_[:, 0].max()))[0], [0.01], ["x"])
        sm.Solve()
        sm.Need_Update()
        try:
            A = [X.toarray() for X in sm.Get_K_C_M_F()]
            B = [X.toarray() for X in sm.Get_K_C_M_F(sm.problemType)]
        except Exception as ex:
            raise Refuted(f"dynamic HyperElastic: Solve(); Need_Update(); Get_K_C_M_F() raises {type(ex).__name__}: {ex}", cex=dict(history=["Solve", "Need_Update", "Get_K_C_M_F()"]),
                          signature="history:hyper:default_getter", replay=dict(confirmed=True, raised=repr(ex)[:200]))
    for a, b in zip(A, B):
        if np.abs(a - b).max() > 0:
            raise Refuted("Get_K_C_M_F() and Get_K_C_M_F(problemType) differ", signature="history:hyper:default_getter:value", replay=dict(confirmed=True))
    return Verdict(DISCHARGED, backend="native")


def ob_setc_keeps_S():
    """Anisotropic.Set_C(C2, update_S=False) (the compliance is left to the caller) is a change of the law like any other: the elastic simulation observing it assembles the
    stiffness of C2 at its next read, as a simulation built on C2 does"""
    import contextlib, io
    from EasyFEA import Models, Simulations
    coords, connect = patches.star_patch("QUAD4")
    C1 = np.asarray(Models.Elastic.Isotropic(2, E=3.0, v=0.25, planeStress=True).C)
    C2 = np.asarray(Models.Elastic.Isotropic(2, E=7.0, v=0.1, planeStress=True).C)

    def K_of(sim):
        return np.asarray(sim.Get_K_C_M_F()[0].toarray())
    with contextlib.redirect_stdout(io.StringIO()):
        mesh = patches.real_mesh("QUAD4", coords, connect)
        law = Models.Elastic.Anisotropic(2, C1, useVoigtNotation=False)
        sim = Simulations.Elastic(mesh, law)
        K_of(sim)
        n = 0
        for upd in (False, True, False):
            Cn = C2 if n % 2 == 0 else C1
            law.Set_C(Cn, useVoigtNotation=False, update_S=upd)
            got = K_of(sim)
            fresh = K_of(Simulations.Elastic(patches.real_mesh("QUAD4", coords, connect), Models.Elastic.Anisotropic(2, Cn, useVoigtNotation=False)))
            n += 1
            e = float(np.abs(got - fresh).max() / np.abs(fresh).max())
            if e > 1e-12:
                raise Refuted(f"Elastic simulation on an Anisotropic law: after Set_C(new matrix, update_S={upd}) (call #{n}) the stiffness read through Get_K_C_M_F differs from that of a simulation built on the "
                              f"new matrix by {e:.3e} (relative): the simulation was not told", cex=dict(history=["Get_K_C_M_F", f"Set_C(C, update_S={upd})", "Get_K_C_M_F"], update_S=upd),
                              signature=f"history:Set_C:update_S={upd}", replay=dict(confirmed=True, rel_diff=e))
    return Verdict(DISCHARGED, backend="native", sub=n)


def ob_he_system_stale(what):
    """a hyperelastic simulation whose assembled system was read, then (a) the time scheme is switched (the local system holds the inertia terms of the scheme) or
    (b) the direction of the active stress is registered anew: the public getter hands out the system a simulation taken through the same steps WITHOUT the
    intermediate read hands out."""
    import contextlib, io
    from EasyFEA import Models, Simulations
    from EasyFEA.FEM._linalg import FeArray
    coords, connect = patches.star_patch("QUAD4")

    def run(read_first):
        mesh = patches.real_mesh("QUAD4", coords, connect)
        mat = Models.HyperElastic.NeoHookean(2, K=10.0, thickness=1.0)
        sm = Simulations.HyperElastic(mesh, mat, verbosity=False)
        sm.rho = 1.3
        g = mesh.groupElem
        Ne, nPg = np.asarray(g.Get_weightedJacobian_e_pg("rigi")).shape[:2]
        if what == "active":
            T = FeArray.zeros(Ne, nPg, 3)
            T[..., 0] = 1.0
            mat.Set_active_stress_vec(T)
            mat.active_stress = 0.05
        c_ = np.asarray(mesh.coord)
        sm.add_dirichlet(np.where(np.isclose(c_[:, 0], c_[:, 0].min()))[0], [0, 0], ["x", "y"])
        sm.add_dirichlet(np.where(np.isclose(c_[:, 0], c_[:, 0].max()))[0], [0.02], ["x"])
        sm.Solve()
        if read_first:
            sm.Get_K_C_M_F()
        if what == "scheme":
            sm.Solver_Set_Hyperbolic_Algorithm(0.1)
        elif what == "scheme.back":
            sm.Solver_Set_Hyperbolic_Algorithm(0.1)
            if read_first:
                sm.Get_K_C_M_F()
            sm.Solver_Set_Elliptic_Algorithm()
        else:
            T = FeArray.zeros(Ne, nPg, 3)
            T[..., 1] = 1.0
            mat.Set_active_stress_vec(T)
        return [np.asarray(X.toarray() if hasattr(X, "toarray") else X, dtype=float) for X in sm.Get_K_C_M_F()]
    with contextlib.redirect_stdout(io.StringIO()), np.errstate(all="ignore"):
        A, B = run(True), run(False)
    for nm, a, b in zip("KCMF", A, B):
        sc = max(float(np.abs(b).max()), 1e-300)
        e = float(np.abs(a - b).max() / sc) if a.shape == b.shape else float("inf")
        if e > 1e-10:
            step = {"scheme": "Solver_Set_Hyperbolic_Algorithm(0.1)", "scheme.back": "Solver_Set_Hyperbolic_Algorithm(0.1); Get_K_C_M_F(); Solver_Set_Elliptic_Algorithm()", "active": "Set_active_stress_vec(other direction)"}[what]
            raise Refuted(f"HyperElastic: Solve(); Get_K_C_M_F(); {step}; Get_K_C_M_F() returns a {nm} differing by {e:.3e} (relative) from the one obtained without the first read: the system "
                          f"assembled before the change is handed out", cex=dict(history=["Solve", "Get_K_C_M_F", step, "Get_K_C_M_F"], which=nm), signature=f"history:hyper:stale:{what}:{nm}",
                          replay=dict(confirmed=True, rel_diff=e))
    return Verdict(DISCHARGED, backend="native", sub=4)


def ob_he_mass(opname):
    def thick(m, sm):
        sm.material.thickness = 5.0
        return dict(thickness=5.0)

    def dens(m, sm):
        sm.rho = 3.1
        return dict(rho=3.1)

    def bulk(m, sm):
        sm.material.K = 23.0
        return dict(K=23.0)
    ops = dict(coord=lambda m, sm: setattr(m, "coord", 2 * np.asarray(m.coord)), rotate=lambda m, sm: m.Rotate(30.0), symmetry=lambda m, sm: m.Symmetry((0.1, 0, 0), (1, 0.5, 0)),
               stretch=lambda m, sm: setattr(m, "coord", np.asarray(m.coord) * np.array([1.5, 0.8, 1.0])), thickness=thick, rho=dens, K=bulk)
    e = _he_mass(ops[opname])
    if e > 1e-10:
        raise Refuted(f"dynamic hyperelastic simulation: after `{opname}` the assembled mass matrix differs from a fresh simulation's in the final configuration by {e:.3e} (stale cached element matrix)",
                      cex=dict(operation=opname), signature="history:hyperelastic:mass", replay=dict(confirmed=True, rel_diff=e))
    return Verdict(DISCHARGED, backend="native run vs fresh simulation")


def _beam_lagrange(seq):
    from EasyFEA import Models, Simulations, Mesher, ElemType
    from EasyFEA.Geoms import Domain, Point, Line
    import contextlib, io
    with contextlib.redirect_stdout(io.StringIO()):
        sect = Mesher().Mesh_2D(Domain(Point(), Point(0.1, 0.1)))
        b1 = Models.Beam.Isotropic(2, Line(Point(0, 0), Point(1, 0)), sect, 210e3, v=0.3)
        b2 = Models.Beam.Isotropic(2, Line(Point(1, 0), Point(2, 0)), sect, 210e3, v=0.3)
        st = Models.Beam.BeamStructure([b1, b2])
        mesh = Mesher().Mesh_Beams([b1, b2], elemType=ElemType.SEG2)
    co = np.asarray(mesh.coord)
    n0, n2, nm = (np.where(np.isclose(co[:, 0], x))[0] for x in (0, 2, 1))

    def base(sm, extra):
        sm.add_dirichlet(n0, [0, 0, 0], ["x", "y", "rz"])
        sm.add_neumann(nm[:1], [-1.0], ["y"])
        if "connection" in extra:
            sm.add_connection_fixed(nm)
        if "support" in extra:
            sm.add_dirichlet(n2, [0.0, 0.0, 0.0], ["x", "y", "rz"])          # clamp: well posed with and without the connection
    sm = Simulations.Beam(mesh, st)
    final = set()
    for step in seq:
        if step == "start":
            base(sm, {"connection"})
            final = {"connection"}
        elif step == "add_dirichlet":
            sm.add_dirichlet(n2, [0.0, 0.0, 0.0], ["x", "y", "rz"])
            final = final | {"support"}
        elif step == "bc_init_readd_without_connection":
            sm.Bc_Init()
            base(sm, {"support"})
            final = {"support"}
        elif step == "bc_init_readd":
            sm.Bc_Init()
            base(sm, {"connection", "support"})
            final = {"connection", "support"}
        u = np.asarray(sm.Solve()).copy()
    fr = Simulations.Beam(mesh, st)
    base(fr, final)
    uf = np.asarray(fr.Solve())
    if not (np.isfinite(u).all() and np.isfinite(uf).all()):
        raise Unsupported("ill-posed comparison problem")
    return float(np.abs(u - uf).max() / np.abs(uf).max())


def ob_beam_lagrange(seq):
    try:
        e = _beam_lagrange(seq)
    except Exception as ex:
        raise Refuted(f"beam frame with a fixed connection, history {list(seq)}: {type(ex).__name__}: {str(ex)[:120]} (the stored system keeps the size of the earlier set of conditions)",
                      cex=dict(history=list(seq)), signature="history:beam:lagrange:" + ">".join(seq), replay=dict(confirmed=True, error=str(ex)[:200]))
    if e > 1e-9:
        raise Refuted(f"beam frame, history {list(seq)}: solution differs from a fresh simulation by {e:.3e}", cex=dict(history=list(seq)), signature="history:beam:lagrange:" + ">".join(seq),
                      replay=dict(confirmed=True, rel_diff=e))
    return Verdict(DISCHARGED, backend="native run vs fresh simulation")


def ob_mesh_indim():
    coords, connect = patches.star_patch("TRI3")
    mesh = patches.real_mesh("TRI3", coords, connect)
    before = mesh.inDim
    mesh.Rotate(40.0, (0, 0, 0), (1, 0, 0))
    fresh = patches.real_mesh("TRI3", np.asarray(mesh.coord).tolist(), connect)
    if mesh.inDim != fresh.inDim:
        raise Refuted(f"after Rotate out of the plane mesh.inDim = {mesh.inDim} (was {before}); a mesh built from the same coordinates has inDim = {fresh.inDim}", signature="history:mesh:inDim",
                      replay=dict(confirmed=True, stale=int(mesh.inDim), fresh=int(fresh.inDim)))
    mesh.Rotate(-40.0, (0, 0, 0), (1, 0, 0))
    return Verdict(DISCHARGED, backend="native run vs fresh mesh")


def ob_simu_mesh():
    """_Simu: every path storing self.__mesh registers the simulation as observer of the new mesh, clears the
    geometry-derived caches and raises the flag."""
    trig = lambda p: _store(p, lambda e: e[1] == "self._Simu__mesh", kinds=("store",))
    def req(p, t):
        obs = _call(p, lambda e: e[1].endswith("._Add_observer") and e[2] == "self")
        clr = _call(p, lambda e: e[1] == "clear_cached_computed_values" and e[2] == "self")
        flg = _call(p, lambda e: e[1] == "self.Need_Update" and e[2] in ("", "True"))
        return obs and clr and flg
    n, who = _check_rule("I_obs.simu", SIMU, "_Simu", trig, req, ("replaces the mesh", "<mesh>._Add_observer(self) + clear_cached_computed_values(self) + self.Need_Update()"),
                         replay=replay_simu_mesh)
    if n == 0:
        raise Unsupported("no mesh store found in _Simu (vacuous)")
    # I_obs is an invariant: no method of the simulation may withdraw it as observer (of any object) after the registration on the path, unless a registration on the
    # current mesh follows; the simulation classes never need to unsubscribe from a mesh or model they may return to (Set_Iter)
    import os
    simdir = os.path.join("/repo", "EasyFEA", "Simulations")
    for f_ in sorted(os.listdir(simdir)):
        if not f_.endswith(".py"):
            continue
        rel = f"EasyFEA/Simulations/{f_}"
        _, tree = extract.read(rel)
        for c_ in [x for x in tree.body if isinstance(x, ast.ClassDef)]:
            for name, which, fn, decs in eff.methods_of(rel, c_.name):
                for p_ in eff.paths(fn):
                    if not _reachable(p_):
                        continue
                    idx_rm = [i for i, e in enumerate(p_) if e[0] == "call" and e[1].endswith("._Remove_observer") and e[2] == "self"]
                    if not idx_rm:
                        continue
                    last = max(idx_rm)
                    readd = any(e[0] == "call" and e[1] in ("self.mesh._Add_observer", "self._Simu__mesh._Add_observer") and e[2] == "self" for e in p_[last + 1:])
                    n += 1
                    if not readd:
                        raise Refuted(f"{c_.name}.{name} withdraws the simulation as observer ({p_[last][1]}(self)) and does not register it on its current mesh afterwards: if the object is "
                                      f"(still or again) the current mesh, later modifications no longer raise the update flag", cex=dict(method=f"{c_.name}.{name}", path=_fmt(p_)),
                                      signature=f"I_obs.simu:remove:{c_.name}.{name}", replay=_replay_reassign())
    # constructor: observes the model, and the mesh (directly or through the setter contract just checked)
    fn = extract.get(SIMU, "_Simu.__init__")
    k = 0
    for p in eff.paths(fn):
        if not _reachable(p):
            continue
        k += 1
        okm = _call(p, lambda e: e[1] == "model._Add_observer" and e[2] == "self")
        okmesh = _call(p, lambda e: e[1] == "mesh._Add_observer" and e[2] == "self") or bool(_store(p, lambda e: e[1] == "self.mesh"))
        if not (okm and okmesh):
            raise Refuted("_Simu.__init__ has a path that does not register the simulation as observer of its model and mesh", signature="I_obs.simu:__init__",
                          replay=dict(confirmed=False))
        if k > 200:
            break
    return Verdict(DISCHARGED, backend="AST path analysis", sub=n + k, detail=f"mesh writers: {who}")


def _replay_reassign():
    """simu.mesh = (the same mesh object), assemble, modify the mesh in place, compare with a fresh simulation."""
    try:
        simu, mesh, mat = _mk_simu()
        simu.Get_K_C_M_F()
        simu.mesh = mesh
        simu.Get_K_C_M_F()
        c = np.asarray(mesh.coord).copy()
        c[:, 0] = 1.4 * c[:, 0] + 0.2 * c[:, 1]
        mesh.coord = c
        worst, det = _compare(simu)
        return dict(confirmed=bool(worst > 1e-11), rel_diff=det, note="mesh re-assigned to the simulation, then re-coordinated in place")
    except Exception as e:
        return dict(confirmed=False, raised=repr(e)[:300])


def ob_simu_update():
    """_Simu._Update raises the flag for model and mesh notifications; Get_K_C_M_F re-assembles iff the flag is up, lowers it, returns copies."""
    fn = extract.get(SIMU, "_Simu._Update")
    n = 0
    for p in eff.paths(fn):
        for cond in ("isinstance(observable, _IModel)", "isinstance(observable, Mesh)"):
            if ("branch", cond, True) in p:
                n += 1
                if not _call(p, lambda e: e[1] == "self.Need_Update" and e[2] in ("", "True")):
                    raise Refuted(f"_Simu._Update: notification `{cond}` does not raise the flag", signature="I_flag.simu:_Update", replay=dict(confirmed=False))
    if n < 2:
        raise Refuted("_Simu._Update does not handle both model and mesh notifications", signature="I_flag.simu:_Update", replay=dict(confirmed=False))
    fn = extract.get(SIMU, "_Simu.Get_K_C_M_F")
    m = 0
    for p in eff.paths(fn):
        up = ("branch", "self.needUpdate", True) in p
        st = _store(p, lambda e: e[1] in ("self._Simu__K", "self._Simu__C", "self._Simu__M", "self._Simu__F"))
        m += 1
        if up:
            if not (_call(p, lambda e: e[1] == "self.Assembly") and len(st) == 4 and _call(p, lambda e: e[1] == "self.Need_Update" and e[2] == "False")):
                raise Refuted("Get_K_C_M_F: flag up but K,C,M,F are not all re-assembled or the flag is not lowered", signature="I_flag.simu:Get_K_C_M_F", replay=dict(confirmed=False))
        elif st:
            raise Refuted("Get_K_C_M_F: stores matrices although the flag is down", signature="I_flag.simu:Get_K_C_M_F", replay=dict(confirmed=False))
        for q in ("K", "C", "M", "F"):
            if not _call(p, lambda e: e[1] == f"self._Simu__{q}.copy"):
                raise Refuted(f"Get_K_C_M_F returns the stored {q} itself (not a copy)", signature="I_flag.simu:Get_K_C_M_F:copy", replay=dict(confirmed=False))
    return Verdict(DISCHARGED, backend="AST path analysis", sub=n + m)


def replay_param(qual=None):
    """re-assign parameters by tiny / small-magnitude amounts after an assembly and compare with a fresh simulation."""
    try:
        out = {}
        worst = 0.0
        for label, setter in (("rho 7.85e-9 -> 2.7e-9", lambda s: (setattr(s, "rho", 7.85e-9), s.Get_K_C_M_F(), setattr(s, "rho", 2.7e-9))),
                              ("E -> E*(1+1e-7)", lambda s: (s.Get_K_C_M_F(), setattr(s.model, "E", float(s.model.E) * (1 + 1e-7)))),
                              ("thickness -> +1e-9", lambda s: (s.Get_K_C_M_F(), setattr(s.model, "thickness", float(s.model.thickness) + 1e-9)))):
            simu, mesh, mat = _mk_simu()
            setter(simu)
            flagged = bool(simu.needUpdate)
            w, det = _compare(simu)
            out[label] = dict(needUpdate_after_assignment=flagged, rel_diff=det)
            if not flagged:
                worst = max(worst, 1.0)
        return dict(confirmed=worst > 0, cases=out)
    except Exception as e:
        return dict(confirmed=True, raised=repr(e))


def ob_param_chain():
    """parameter descriptor -> Need_Update -> _Notify -> observer._Update (the chain that carries a model change to the simulation)."""
    n = 0
    fn = extract.get(PARAMS, "_Parameter.__set__")
    for p in eff.paths(fn):
        n += 1
        if not _store(p, lambda e: e[1] == "instance.__dict__", kinds=("itemstore",)):
            raise Refuted("_Parameter.__set__ has a path that does not store the value", signature="I_flag.param:__set__", replay=dict(confirmed=False))
        if ("branch", "isinstance(instance, Updatable)", True) in p and not _call(p, lambda e: e[1] == "instance.Need_Update" and e[2] in ("", "True")):
            raise Refuted("_Parameter.__set__ does not raise Need_Update on an Updatable instance", signature="I_flag.param:__set__", replay=replay_param())
        if not any(e[0] == "branch" and e[1] == "isinstance(instance, Updatable)" for e in p) and not _call(p, lambda e: e[1] == "instance.Need_Update"):
            raise Refuted("_Parameter.__set__ does not raise Need_Update", signature="I_flag.param:__set__", replay=replay_param())
    fn = extract.get(MUTILS, "_IModel.Need_Update")
    for p in eff.paths(fn):
        n += 1
        if ("branch", "value", True) in p and not _call(p, lambda e: e[1] == "self._Notify"):
            raise Refuted("_IModel.Need_Update(True) does not notify the observers", signature="I_flag.param:Need_Update", replay=dict(confirmed=False))
        if not _call(p, lambda e: e[1] == "super().Need_Update"):
            raise Refuted("_IModel.Need_Update does not set its own flag", signature="I_flag.param:Need_Update", replay=dict(confirmed=False))
    fn = extract.get(OBS, "Observable._Notify")
    src = ast.unparse(fn.node)
    n += 1
    if "for observer in self.observers" not in src or "observer._Update(self, event)" not in src:
        raise Refuted("Observable._Notify does not call _Update(self, event) of every registered observer", signature="I_flag.param:_Notify", replay=dict(confirmed=False))
    fn = extract.get(OBS, "Observable._Add_observer")
    ok = False
    for p in eff.paths(fn):
        if _call(p, lambda e: e[1] == "self._Observable__observers.append" and e[2] == "observer"):
            ok = True
    n += 1
    if not ok:
        raise Refuted("Observable._Add_observer never registers the observer", signature="I_obs:_Add_observer", replay=dict(confirmed=False))
    return Verdict(DISCHARGED, backend="AST path analysis", sub=n)


def ob_model_setters():
    """Every class attribute of the model classes that is assigned in __init__ through `self.x = ...` is a parameter descriptor
    (so that assignment raises the flag), or a property whose setter raises it."""
    import glob
    import os
    from vt.core import REPO
    files = ["EasyFEA/Models/Elastic/_laws.py", "EasyFEA/Models/_thermal.py", "EasyFEA/Models/Beam/_beam.py", "EasyFEA/Models/_phasefield.py",
             "EasyFEA/Models/HyperElastic/_laws.py", "EasyFEA/Models/_weakforms.py"]
    n = 0
    bad = []
    for path in files:
        if not os.path.exists(os.path.join(REPO, path)):
            continue
        _, tree = extract.read(path)
        classes = {c.name: c for c in ast.walk(tree) if isinstance(c, ast.ClassDef)}

        def descriptors(c, seen=None):
            seen = seen or set()
            out = {}
            for b in c.bases:
                bn = b.id if isinstance(b, ast.Name) else (b.attr if isinstance(b, ast.Attribute) else None)
                if bn in classes and bn not in seen:
                    out.update(descriptors(classes[bn], seen | {bn}))
            for s in c.body:
                tgt, val = None, None
                if isinstance(s, ast.AnnAssign) and isinstance(s.target, ast.Name):
                    tgt, val = s.target.id, s.value
                elif isinstance(s, ast.Assign) and len(s.targets) == 1 and isinstance(s.targets[0], ast.Name):
                    tgt, val = s.targets[0].id, s.value
                if tgt and isinstance(val, ast.Call) and "_params." in ast.unparse(val.func):
                    out[tgt] = "descriptor"
                if isinstance(s, ast.FunctionDef) and any(ast.unparse(d).endswith(".setter") for d in s.decorator_list):
                    out[s.name] = s
            return out
        for cname, c in classes.items():
            init = next((s for s in c.body if isinstance(s, ast.FunctionDef) and s.name == "__init__"), None)
            if init is None:
                continue
            desc = descriptors(c)
            for node in ast.walk(init):
                if isinstance(node, ast.Assign):
                    for t in node.targets:
                        if isinstance(t, ast.Attribute) and isinstance(t.value, ast.Name) and t.value.id == "self" and not t.attr.startswith("_"):
                            n += 1
                            d = desc.get(t.attr)
                            if d == "descriptor":
                                continue
                            if isinstance(d, ast.FunctionDef):
                                fn = extract.Fn(path, f"{cname}.{t.attr}[setter]", d, cname, "", d.lineno, d.end_lineno, "")
                                if all(_call(p, lambda e: e[1] in ("self.Need_Update",)) or not _store(p, lambda e: e[1].startswith("self."), kinds=("store",)) for p in eff.paths(fn)):
                                    continue
                            bad.append(f"{path}::{cname}.{t.attr}")
    return n, bad


def ob_model_params():
    n, bad = ob_model_setters()
    if n == 0:
        raise Unsupported("no public model attribute found (vacuous)")
    # documented exceptions would go to known findings; the unchanged tree has the list below verified by reading
    if bad:
        raise Refuted(f"public model attributes assigned in __init__ that are neither parameter descriptors nor flag-raising properties: {bad}",
                      cex=dict(attributes=bad), signature="I_flag.model:" + ",".join(sorted(bad)), replay=dict(confirmed=False))
    return Verdict(DISCHARGED, backend="AST class analysis", sub=n)


def ob_cache_key(canary=False):
    """cache_computed_values is transparent: for every sequence of calls, wrapper(self, *a, **k) == func(self, *a, **k).
    The decorator is extracted and run on an uninterpreted function (returns its own call signature); all ordered pairs of
    calls from a small argument domain (positional / keyword / default spellings, two receivers)."""
    import numpy as _np
    from vt import sx
    fn = extract.get("EasyFEA/Utilities/_cache.py", "cache_computed_values")
    g = sx.module_globals("EasyFEA.Utilities._cache")
    g = extract.compile_module_functions("EasyFEA/Utilities/_cache.py", g, exact=False)
    deco, clear = g["cache_computed_values"], g["clear_cached_computed_values"]
    calls_log = []

    class Obj:
        def f(self, a, b=True, *, c=0):
            calls_log.append((id(self), a, b, c))
            return ("f", id(self), a, b, c)

        def h(self, a, b=True):
            return ("h", id(self), a, b)
    raw_f, raw_h = Obj.f, Obj.h
    Obj.f = deco(raw_f)
    Obj.h = deco(raw_h)
    dom = [((1,), {}), ((1,), {"b": False}), ((1, False), {}), ((2,), {}), ((1,), {"c": 3}), ((1,), {"b": True, "c": 3}), ((1, True), {"c": 0})]
    if canary:
        dom = dom[:1]
    n = 0
    for (a1, k1), (a2, k2) in itertools.product(dom, repeat=2):
        o1, o2 = Obj(), Obj()
        for o in (o1, o2):
            for meth, raw in (("f", raw_f), ("h", raw_h)):
                for (a, k) in ((a1, k1), (a2, k2), (a1, k1)):
                    if meth == "h" and "c" in k:
                        continue
                    got = getattr(o, meth)(*a, **k)
                    want = raw(o, *a, **k)
                    n += 1
                    if got != want or canary:
                        raise Refuted(f"cache_computed_values returns {got} for {meth}{a}{k} after an earlier call; the function itself returns {want} "
                                      "(the memo key does not separate calls with different arguments)",
                                      cex=dict(first=[list(a1), k1], second=[list(a2), k2]), signature="I_cache.key",
                                      replay=_replay_cache_key())
    # clearing empties the memo: a changed function result is seen after clear
    o = Obj()
    o.state = 1
    Obj.g = deco(lambda self: self.state)
    v1 = o.g()
    o.state = 2
    clear(o)
    if o.g() != 2:
        raise Refuted("clear_cached_computed_values does not drop cached entries", signature="I_cache.clear", replay=dict(confirmed=True))
    return Verdict(DISCHARGED, backend="extracted decorator run on an uninterpreted function, all ordered call pairs of the domain", sub=n + 1)


def _replay_cache_key():
    try:
        from EasyFEA.FEM._utils import MatrixType
        coords, connect = patches.star_patch("TRI3")
        mesh = patches.real_mesh("TRI3", coords, connect)
        mesh.Symmetry((0, 0, 0), (1, 0, 0))
        g = mesh.groupElem
        a = _np_asarray(g.Get_jacobian_e_pg(MatrixType.mass, absoluteValues=False)).copy()
        b = _np_asarray(g.Get_jacobian_e_pg(MatrixType.mass)).copy()
        return dict(confirmed=bool((b <= 0).any()), signed_min=float(a.min()), default_min=float(b.min()),
                    note="Get_jacobian_e_pg(mass, absoluteValues=False) then Get_jacobian_e_pg(mass) on a mirrored mesh")
    except Exception as e:
        return dict(confirmed=False, error=repr(e))


def _np_asarray(x):
    return np.asarray(x)


# ---------------------------------------------------------------- X-tier: bounded histories

def _ops():
    def setE(s): s.model.E = float(s.model.E) * 1.5
    def setv(s): s.model.v = 0.1 if float(s.model.v) > 0.2 else 0.3
    def ps(s): s.model.planeStress = not s.model.planeStress
    def thick(s): s.model.thickness = float(s.model.thickness) * 1.25
    def rho(s): s.rho = float(s.rho) * 2.0
    def tr(s): s.mesh.Translate(0.3, -0.2)
    def rot(s): s.mesh.Rotate(33.0)
    def symm(s): s.mesh.Symmetry((0.1, 0.0, 0.0), (1.0, 0.5, 0.0))
    def coord(s):
        c = np.asarray(s.mesh.coord).copy()
        c[:, 0] = 1.4 * c[:, 0] + 0.2 * c[:, 1]
        s.mesh.coord = c
    def newmesh(s):
        coords, connect = patches.star_patch("TRI3", affine=([[1.2, 0.1], [0.3, 0.9]], [0.0, 0.1]))
        s.mesh = patches.real_mesh("TRI3", coords, connect)
    def algo(s): s.Solver_Set_Hyperbolic_Algorithm(dt=0.1)
    def samemesh(s): s.mesh = s.mesh
    def rayleigh(s): s.Set_Rayleigh_Damping_Coefs(coefM=0.3 + getattr(s, "_Elastic__coefM", 0.0), coefK=0.2 + getattr(s, "_Elastic__coefK", 0.0))
    return dict(rayleigh=rayleigh, same_mesh=samemesh, E=setE, v=setv, planeStress=ps, thickness=thick, rho=rho, translate=tr, rotate=rot, symmetry=symm, coord_setter=coord,
                replace_mesh=newmesh, algo=algo)


def _compare(simu):
    fresh = _fresh_like(simu)
    out = {}
    worst = 0.0
    for name, A, B in zip("KCMF", simu.Get_K_C_M_F(), fresh.Get_K_C_M_F()):
        A, B = A.toarray(), B.toarray()
        d = float(np.abs(A - B).max() / max(np.abs(B).max(), 1e-300)) if A.shape == B.shape else float("inf")
        out[name] = d
        worst = max(worst, d)
    return worst, out


def ob_history(seq):
    ops = _ops()
    simu, mesh, mat = _mk_simu()
    simu.Get_K_C_M_F()
    for name in seq:
        try:
            ops[name](simu)
            simu.Get_K_C_M_F()         # assemblies interleaved: the flag is lowered between operations
        except Exception as ex:
            raise Refuted(f"history {list(seq)}: operation {name} raises {type(ex).__name__}: {ex}", cex=dict(history=list(seq)),
                          signature="history:" + ">".join(seq) + ":raises", replay=dict(confirmed=True))
    worst, det = _compare(simu)
    if worst > 1e-11:
        raise Refuted(f"history {list(seq)}: matrices differ from a fresh simulation in the final configuration: {det}",
                      cex=dict(history=list(seq), rel_diff=det), signature="history:" + ">".join(seq),
                      replay=dict(confirmed=True, rel_diff=det, note="this obligation is itself a native run"))
    return Verdict(DISCHARGED, backend="native float run vs fresh simulation (1e-11)", detail=str(det))


KNOWN_SIG_PREFIX = "history:"


def _elastic_model(law, params):
    from EasyFEA import Models
    E = Models.Elastic
    if law == "Isotropic":
        return E.Isotropic(params["dim"], E=params["E"], v=params["v"], planeStress=params["planeStress"])
    if law == "TransverselyIsotropic":
        return E.TransverselyIsotropic(params["dim"], El=params["El"], Et=params["Et"], Gl=params["Gl"], vl=params["vl"], vt=params["vt"], axis_l=(2, 1, 0), axis_t=(-1, 2, 0), planeStress=params["planeStress"])
    if law == "Orthotropic":
        return E.Orthotropic(params["dim"], E1=params["E1"], E2=params["E2"], E3=3.0, G23=1.1, G13=1.4, G12=params["G12"], v23=0.2, v13=0.24, v12=params["v12"], axis_1=(2, 1, 0), axis_2=(-1, 2, 0),
                             planeStress=params["planeStress"])
    if law == "Anisotropic":
        return E.Anisotropic(params["dim"], params["C"], useVoigtNotation=False, axis1=(2, 1, 0), axis2=(-1, 2, 0))
    raise Unsupported(law)


def ob_model_history(law, dim):
    """model-level histories: after any sequence of parameter changes / stiffness replacements interleaved with reads, the law and its derived
    cached quantities (C, S, the matrix square roots handed to the energy splits) are those of a model constructed in the final configuration."""
    rng = np.random.default_rng(5)
    n_ = 3 if dim == 2 else 6

    def spd(k):
        A = np.random.default_rng(100 + k).normal(size=(n_, n_))
        return A @ A.T + n_ * np.eye(n_)
    base = {"Isotropic": dict(E=3.0, v=0.25), "TransverselyIsotropic": dict(El=11.0, Et=3.0, Gl=1.7, vl=0.26, vt=0.31), "Orthotropic": dict(E1=11.0, E2=5.0, G12=1.9, v12=0.3),
            "Anisotropic": dict(C=spd(0))}[law]
    base = dict(base, dim=dim, planeStress=True)
    # the alphabet: ('set', name, value) parameter assignment; ('Set_C', k, update_S); ('C=', k) the public setter; ('read',)
    if law == "Anisotropic":
        ops = [("read",), ("Set_C", 1, True), ("Set_C", 2, False), ("C=", 3), ("Set_C", 4, True)]
    else:
        names = [k for k in base if k not in ("dim", "planeStress")]
        ops = [("read",)] + [("set", nm, base[nm] * f) for nm, f in zip(names, (1.3, 0.8, 1.1, 0.9, 1.05))] + ([("set", "planeStress", False)] if dim == 2 else [])
    n = 0
    seqs = [s_ for L in (1, 2, 3) for s_ in itertools.product(range(len(ops)), repeat=L)]
    for seq in seqs:
        params = dict(base)
        m = _elastic_model(law, params)
        s_stale = False
        for k in seq:
            op = ops[k]
            if op[0] == "read":
                m.Get_sqrt_C_S(); m.C; m.S
            elif op[0] == "set":
                setattr(m, op[1], op[2])
                params[op[1]] = op[2]
            elif op[0] == "Set_C":
                m.Set_C(spd(op[1]), useVoigtNotation=False, update_S=op[2])
                params["C"] = spd(op[1])
                s_stale = not op[2]
            elif op[0] == "C=":
                fresh_ = _elastic_model(law, dict(params, C=spd(op[1])))
                m.C = fresh_.C                       # the setter takes the matrix in the global basis, as Set_C hands it over
                params["C"] = spd(op[1])
                s_stale = True
        fresh = _elastic_model(law, params)
        C, Cf = np.asarray(m.C), np.asarray(fresh.C)
        rC, rS = (np.asarray(a) for a in m.Get_sqrt_C_S())
        rCf, rSf = (np.asarray(a) for a in fresh.Get_sqrt_C_S())
        sc = np.abs(Cf).max()
        errs = dict(C=float(np.abs(C - Cf).max() / sc), sqrtC=float(np.abs(rC - rCf).max() / np.abs(rCf).max()), sqrtS=float(np.abs(rS - rSf).max() / np.abs(rSf).max()),
                    sqrtC2=float(np.abs(rC @ rC - Cf).max() / sc), sqrtCS=float(np.abs(rC @ rS - np.eye(n_)).max()))
        if not s_stale:
            errs["S"] = float(np.abs(np.asarray(m.S) - np.asarray(fresh.S)).max() / np.abs(np.asarray(fresh.S)).max())
        n += len(errs)
        bad = {k: v for k, v in errs.items() if not v < 1e-10}
        if bad:
            hist = [ops[k] if ops[k][0] != "set" else ops[k][:2] for k in seq]
            raise Refuted(f"{law} (dim {dim}): after the history {hist} the model differs from one constructed in the final configuration: {bad}",
                          cex=dict(law=law, dim=dim, history=[list(map(str, h)) for h in hist]), signature=f"model:{law}:{dim}:{sorted(bad)[0]}", replay=dict(confirmed=True, **errs))
    return Verdict(DISCHARGED, backend="native run of the real law classes, every sequence of length <= 3 over the alphabet", sub=n, detail=f"{len(seqs)} histories")


def ob_restore_after_scheme_switch(sim):
    """an iteration saved under one time scheme is restored after the time scheme was switched (and the other way round): no exception, the stored fields come back,
    fields the iteration does not hold are zero (what a simulation built directly in the final configuration and given the stored state would have)."""
    import contextlib, io
    from .C15 import _mk, _bc
    from EasyFEA.FEM import Field, BiLinearForm
    from EasyFEA import Models, Simulations

    def build():
        if sim == "WeakForms":
            mesh = patches.two_element_mesh("QUAD4")
            s_ = Simulations.WeakForms(mesh, Models.WeakForms(Field(mesh.groupElem, 1), BiLinearForm(lambda u, v: u.grad.dot(v.grad)), computeC=BiLinearForm(lambda u, v: u.dot(v)),
                                                                  computeM=BiLinearForm(lambda u, v: u.dot(v))))
            co = np.asarray(mesh.coord)
            s_.add_dirichlet(np.where(np.isclose(co[:, 0], co[:, 0].min()))[0], [1.0], ["u"])
            return s_
        s_ = _mk(sim)
        _bc(s_, sim, 1)
        return s_
    schemes = {"WeakForms": ["parabolic", "hyperbolic", "elliptic"], "Elastic": ["elliptic", "hyperbolic"], "Beam": ["elliptic", "hyperbolic"], "HyperElastic": ["elliptic", "hyperbolic"],
               "Thermal": ["elliptic", "parabolic"]}[sim]

    def setscheme(s_, name):
        if name == "parabolic":
            s_.Solver_Set_Parabolic_Algorithm(0.1)
        elif name == "hyperbolic":
            s_.Solver_Set_Hyperbolic_Algorithm(0.1)
        else:
            s_.Solver_Set_Elliptic_Algorithm()
    n = 0
    for a_, b_ in itertools.permutations(schemes, 2):
        with contextlib.redirect_stdout(io.StringIO()):
            s_ = build()
            setscheme(s_, a_)
            s_.Solve()
            s_.Save_Iter()
            pt = s_.problemType
            u0 = np.asarray(s_._Get_u_n(pt)).copy()
            # the time derivatives current when the iteration was saved, as far as the scheme of that moment carries them
            d0 = {}
            if a_ in ("parabolic", "hyperbolic"):
                d0["first time derivative"] = (s_._Get_v_n, np.asarray(s_._Get_v_n(pt)).copy())
            if a_ == "hyperbolic":
                d0["second time derivative"] = (s_._Get_a_n, np.asarray(s_._Get_a_n(pt)).copy())
            setscheme(s_, b_)
            s_.Solve()
            s_.Save_Iter()
            try:
                s_.Set_Iter(0)
            except Exception as ex:
                raise Refuted(f"{sim}: an iteration saved under the {a_} scheme cannot be restored after switching to the {b_} scheme: Set_Iter(0) raises {type(ex).__name__}: {ex}",
                              cex=dict(simulation=sim, history=[f"scheme {a_}", "Solve", "Save_Iter", f"scheme {b_}", "Solve", "Save_Iter", "Set_Iter(0)"]), signature=f"restore_scheme:{sim}:raises",
                              replay=dict(confirmed=True, error=str(ex)[:200]))
        n += 1
        if not np.array_equal(np.asarray(s_._Get_u_n(pt)), u0):
            raise Refuted(f"{sim}: after scheme {a_} -> {b_}, Set_Iter(0) does not bring back the unknown saved at iteration 0", signature=f"restore_scheme:{sim}:u", replay=dict(confirmed=True))
        for nm, (get, want) in d0.items():
            got = np.asarray(get(pt))
            if np.abs(want).max() > 0 and not np.array_equal(got, want):
                raise Refuted(f"{sim}: iteration 0 was saved under the {a_} scheme with a {nm} of magnitude {np.abs(want).max():.3e}; after switching to the {b_} scheme, Set_Iter(0) brings back "
                              f"{np.abs(got).max():.3e} (max difference {np.abs(got - want).max():.3e}): the stored field is discarded because of the scheme active now",
                              cex=dict(simulation=sim, history=[f"scheme {a_}", "Solve", "Save_Iter", f"scheme {b_}", "Solve", "Save_Iter", "Set_Iter(0)"]), signature=f"restore_scheme:{sim}:derivatives",
                              replay=dict(confirmed=True))
    return Verdict(DISCHARGED, backend="native run", sub=n)


def build(tier, seed):
    obs = []
    obs.append(Ob("C14.I_flag.mesh", ob_mesh_notify, (), "E", (f"{MESH}::Mesh.*",), clause="every Mesh method that re-assigns group coordinates notifies the observers"))
    obs.append(Ob("C14.I_cache.group", ob_group_cache, (), "E", (f"{GROUP}::_GroupElem.*",),
                  clause="every _GroupElem method storing a field read by a cached function calls _InitMatrix; _InitMatrix clears the cache"))
    obs.append(Ob("C14.I_obs.simu", ob_simu_mesh, (), "E", (f"{SIMU}::_Simu.mesh[setter]", f"{SIMU}::_Simu.__Update_mesh", f"{SIMU}::_Simu.__init__"),
                  clause="every _Simu method storing the mesh observes it, clears the caches and raises the flag"))
    obs.append(Ob("C14.I_flag.simu", ob_simu_update, (), "E", (f"{SIMU}::_Simu._Update", f"{SIMU}::_Simu.Get_K_C_M_F"),
                  clause="_Update raises the flag; Get_K_C_M_F re-assembles iff the flag is up, lowers it, returns copies"))
    obs.append(Ob("C14.I_flag.param", ob_param_chain, (), "E", (f"{PARAMS}::_Parameter.__set__", f"{MUTILS}::_IModel.Need_Update", f"{OBS}::Observable._Notify"),
                  clause="descriptor -> Need_Update -> _Notify -> observer._Update"))
    obs.append(Ob("C14.I_flag.model", ob_model_params, (), "E", ("EasyFEA/Models/**",),
                  clause="public model attributes assigned in constructors are parameter descriptors or flag-raising properties"))
    obs.append(Ob("C14.I_cache.all", ob_cache_all, (), "E", ("EasyFEA/**::@cache_computed_values",),
                  clause="every class with cached methods: a store to a field the cached methods read is accompanied by clearing the cache, on every path of every method"))
    obs.append(Ob("C14.I_cache.foreign", ob_cache_foreign, (), "E", ("EasyFEA/**::@cache_computed_values",),
                  clause="no memoised method reads the state of another object (self.<object>.<attribute>) that its key does not contain"))
    obs.append(Ob("C14.I_cache.observed", ob_cache_observed, (), "E", (f"{SIMU}::_Simu._Update",), clause="a mesh notification clears the values cached from element-group geometry"))
    for opname in ("coord", "rotate", "symmetry", "stretch", "thickness", "rho", "K"):      # K: the mass must not change
        obs.append(Ob(f"C14.history.hyperelastic.mass.{opname}", ob_he_mass, (opname,), "X", ("EasyFEA/Simulations/_hyperelastic.py::HyperElastic.__Mass_e",), bound="one 4-element patch", clause="mass matrix after an in-place mesh change / a thickness, density or modulus change == fresh simulation's in the final configuration"))
    for seq in (("start", "add_dirichlet"), ("start", "bc_init_readd_without_connection"), ("start", "bc_init_readd"), ("start", "add_dirichlet", "bc_init_readd_without_connection")):
        obs.append(Ob("C14.history.beam.lagrange." + ".".join(seq[1:]), ob_beam_lagrange, (seq,), "X", (f"{SIMU}::_Simu._Bc_Add_Dirichlet", f"{SIMU}::_Simu.Bc_Init", f"{SIMU}::_Simu._Bc_Lagrange_dim"),
                      bound="one 2-beam frame", clause="changing the set of conditions around multiplier constraints: next solve == fresh simulation's"))
    for law in ("Isotropic", "TransverselyIsotropic", "Orthotropic", "Anisotropic"):
        for dim in (2, 3):
            obs.append(Ob(f"C14.history.model.{law}.{dim}d", ob_model_history, (law, dim), "X", ("EasyFEA/Models/Elastic/_laws.py::_Elastic.Get_sqrt_C_S", "EasyFEA/Models/Elastic/_laws.py::_Elastic.C[setter]", f"EasyFEA/Models/Elastic/_laws.py::{law}"),
                          bound="every sequence of length <= 3 over reads, 3-5 parameter assignments, Set_C (with / without compliance update) and the public C setter",
                          clause="C, S and the cached matrix square roots (C^1/2, C^-1/2) equal those of a model constructed in the final configuration", timeout=600))
    for sim in ("WeakForms", "Elastic", "Beam", "HyperElastic", "Thermal"):
        obs.append(Ob(f"C14.history.restore.scheme.{sim}", ob_restore_after_scheme_switch, (sim,), "X", (f"EasyFEA/Simulations/_{sim.lower()}.py::{sim}.Set_Iter", f"EasyFEA/Simulations/_{sim.lower()}.py::{sim}.Save_Iter"),
                      bound="one small mesh, every ordered pair of time schemes the simulation accepts", clause="switching the time scheme then restoring an earlier iteration works and brings back the stored unknown and its stored time derivatives", timeout=300))
    for op in ("material.E", "material.v", "model.Gc", "model.l0", "model.split", "model.regularization"):
        obs.append(Ob(f"C14.history.phasefield.{op}", ob_phasefield_change, (op,), "X", ("EasyFEA/Simulations/_phasefield.py::PhaseField._Update", "EasyFEA/Simulations/_phasefield.py::PhaseField.Get_K_C_M_F"),
                      bound="one 2-D mesh, two load steps, one new value", clause="after a change of the elastic material or of the phase-field model: Kd, Fd, Ku and the next solution == fresh simulation's", timeout=300))
    for sim in ("PhaseField", "InElastic"):
        obs.append(Ob(f"C14.history.meshswap.{sim}", ob_meshswap_state, (sim,), "X", (f"EasyFEA/Simulations/_{sim.lower()}.py::{sim}", f"{SIMU}::_Simu.mesh[setter]"),
                      bound="one 2-D mesh, its copy and a finer mesh", clause="after the mesh is replaced the next solution == that of a simulation constructed on the new mesh (no state of the old mesh survives)", timeout=600))
    obs.append(Ob("C14.history.meshswap.WeakForms", ob_meshswap_weakforms, (), "X", ("EasyFEA/Simulations/_weakforms.py::WeakForms.Construct_local_matrix_system",), bound="one 2-D mesh and a stretched copy",
                  clause="after the mesh is replaced K and F == those of a weak-form simulation constructed on the new mesh", timeout=300))
    obs.append(Ob("C14.history.beam.theory", ob_beam_theory_switch, (), "X", ("EasyFEA/Simulations/_beam.py::Beam.useTimoshenko",), bound="one beam",
                  clause="switching the beam theory of a simulation: K == that of a simulation constructed with that theory (or the switch is refused)", timeout=300))
    obs.append(Ob("C14.I_cache.handmade", ob_cache_handmade, (), "E", ("EasyFEA/**::`if self.X is None: self.X = ...`",), clause="a field a hand-written memo depends on is never stored without storing the memo again (every class of the package)", timeout=600))
    obs.append(Ob("C14.history.hyperelastic.getter", ob_he_default_getter, (), "X", ("EasyFEA/Simulations/_simu.py::_Simu.Get_K_C_M_F",), bound="one dynamic hyperelastic step",
                  clause="after the update flag is raised the public getter assembles the system of the simulation's problem type"))
    obs.append(Ob("C14.history.elastic.Set_C.update_S", ob_setc_keeps_S, (), "X", ("EasyFEA/Models/Elastic/_laws.py::Anisotropic.Set_C",), bound="one 4-element patch, three replacements of the matrix", timeout=300,
                  clause="Set_C with update_S=False or True tells the observers: the next assembled stiffness is that of the new matrix"))
    obs.append(Ob("C14.history.behavior.elastic.Set_C", ob_behavior_elastic_change, ("auto", True), "X", ("EasyFEA/Models/Elastic/_laws.py::Anisotropic.Set_C", "EasyFEA/Models/InElastic/_behavior.py::Behavior._Update"),
                  bound="one von Mises / linear hardening behaviour on an Anisotropic elastic law, 6 strain states, the matrix replaced three times through Set_C", timeout=300,
                  clause="after Set_C on the elastic law of an inelastic behaviour, Integrate returns what a behaviour built on the new matrix returns"))
    from . import C15 as _C15
    obs.append(Ob("C14.history.phasefield.HistoryDamage.unload", _C15.ob_roundtrip, ("PhaseField", "memory", False, "HistoryDamage.Bourdin.unload"), "X",
                  ("EasyFEA/Simulations/_phasefield.py::PhaseField.Solve", "EasyFEA/Simulations/_simu.py::_Simu.Get_K_C_M_F"), bound="load / unload / reload on a small mesh, HistoryDamage solver, isotropic degradation", timeout=300,
                  clause="after a solve that replaces the damage by max(d_old, d_new) the elastic system handed out is that of the damage the simulation holds (same as after a forced update)"))
    for what in ("scheme", "scheme.back", "active"):
        obs.append(Ob(f"C14.history.hyperelastic.stale.{what}", ob_he_system_stale, (what,), "X", ("EasyFEA/Simulations/_simu.py::_Simu.Solver_Set_Hyperbolic_Algorithm", "EasyFEA/Simulations/_simu.py::_Simu.Solver_Set_Elliptic_Algorithm",
                      "EasyFEA/Models/HyperElastic/_laws.py::_HyperElastic.Set_active_stress_vec"), bound="one solved static step on a 4-element patch", timeout=300,
                      clause="after the time scheme of a non-linear simulation is switched / the active-stress direction is registered anew, the public getter returns the system of the new configuration"))
    for solver in ("auto", "newton"):
        obs.append(Ob(f"C14.history.behavior.elastic.{solver}", ob_behavior_elastic_change, (solver,), "X", ("EasyFEA/Models/InElastic/_behavior.py::Behavior.__init__", "EasyFEA/Models/InElastic/_behavior.py::Behavior.Integrate"),
                      bound="one von Mises / linear hardening behaviour, 6 strain states (elastic and plastic), parameters E and v of its elastic law re-assigned", timeout=300,
                      clause="after a parameter of the elastic law of an inelastic behaviour is re-assigned, Integrate returns what a behaviour built on the new law returns, and the simulation observing the behaviour is told"))
    obs.append(Ob("C14.history.hyper.fibres", ob_hyper_fibres, (), "X", ("EasyFEA/Models/HyperElastic/_laws.py::HolzapfelOgden", "EasyFEA/Utilities/_params.py::UnitVectorParameter"), bound="one seeded deformation state",
                  clause="re-assigned fibre directions give the law constructed with them (energy, stress, tangent)", timeout=300))
    obs.append(Ob("C14.history.beam.section.timoshenko", ob_beam_section_swap, (True,), "X", ("EasyFEA/Models/Beam/_beam.py::_Beam.section[setter]", "EasyFEA/Models/Beam/_beam.py::_Beam._Get_shear_correction_factor"),
                  bound="one 4-element Timoshenko beam, rectangle -> disk", clause="replacing the cross-section of a Timoshenko beam by one of another shape: K and M == fresh simulation's (shear correction factors of the new section)", timeout=300))
    obs.append(Ob("C14.history.beam.section", ob_beam_section_swap, (), "X", ("EasyFEA/Models/Beam/_beam.py::BeamStructure.Calc_M_e_pg", "EasyFEA/Models/Beam/_beam.py::_Beam.section[setter]"), bound="one 4-element beam",
                  clause="replacing the cross-section of a beam (another area): K and M == fresh simulation's", timeout=300))
    obs.append(Ob("C14.history.mesh.inDim", ob_mesh_indim, (), "X", (f"{MESH}::Mesh.inDim",), bound="one patch", clause="inDim after an out-of-plane rotation == a fresh mesh's"))
    obs.append(Ob("C14.I_cache.key", ob_cache_key, (), "B", ("EasyFEA/Utilities/_cache.py::cache_computed_values", "EasyFEA/Utilities/_cache.py::clear_cached_computed_values"),
                  bound="7 call spellings x all ordered pairs x 2 receivers x 2 signatures", clause="the memoised wrapper returns what the function returns, for every call sequence; clear drops the memo"))
    obs.append(Ob("canary.I_flag.mesh", ob_mesh_notify, (True,), "E", expect=REFUTED))
    obs.append(Ob("canary.I_cache.key", ob_cache_key, (True,), "B", expect=REFUTED))
    names = list(_ops())
    L = 2 if tier == "quick" else 3
    seqs = [(a,) for a in names] + [s for s in itertools.product(names, repeat=2)]
    if tier == "thorough":
        import random
        rnd = random.Random(seed)
        triples = list(itertools.product(names, repeat=3))
        rnd.shuffle(triples)
        seqs += triples[:300]
    for s in seqs:
        obs.append(Ob("C14.history." + ">".join(s), ob_history, (s,), "X", (f"{SIMU}::_Simu", f"{MESH}::Mesh"),
                      bound=f"Elastic 2-D simulation on a 4-triangle star patch, operation sequences of length <= {L} interleaved with assemblies",
                      clause="K, C, M, F equal those of a fresh simulation built in the final configuration (1e-11)", timeout=120))
    functions = {}
    for pth, q in ((MESH, "Mesh.Translate"), (MESH, "Mesh.Rotate"), (MESH, "Mesh.Symmetry"), (SIMU, "_Simu._Update"), (SIMU, "_Simu.Get_K_C_M_F"),
                   (SIMU, "_Simu.__Update_mesh"), (PARAMS, "_Parameter.__set__"), (OBS, "Observable._Notify"), (GROUP, "_GroupElem._InitMatrix")):
        functions[q] = extract.get(pth, q).describe()
    functions["Mesh.coord[setter]"] = extract.get(MESH, "Mesh.coord", "setter").describe()
    functions["_GroupElem.coord[setter]"] = extract.get(GROUP, "_GroupElem.coord", "setter").describe()
    functions["_Simu.mesh[setter]"] = extract.get(SIMU, "_Simu.mesh", "setter").describe()
    return dict(
        obs=obs, level="other", min_obligations=20,
        explanation=("Invalidation and notification contracts are decided on the AST for every method of Mesh, _GroupElem, _Simu and the parameter/"
                     "observer plumbing (path-sensitive must-call analysis): by induction over operations, after ANY sequence of public operations a low "
                     "flag implies matrices assembled from current dependencies and every cached value is current. Complemented by the exhaustive "
                     "enumeration of operation sequences of bounded length on a small simulation against a fresh one (bounded, native floats)."),
        trusted_base=["vt/eff.py path enumeration (loops 0/1 times, comprehension bodies 0/1 times, exceptional exits dropped)",
                      "no aliasing through user-held references, no reflection (setattr / __dict__ writes by users)", "MPI_SIZE == 1 (MPI-only branches unreachable)"],
        assumptions=["effect groups are the right abstraction (cross-checked by the bounded histories)", "histories: one simulation type (Elastic 2-D), one mesh family",
                     "phase-field two-flag protocol and HyperElastic mass cache not covered by rules"],
        functions=functions,
        dropped=["E-tier reads the AST only (nothing executed)"],
        not_attempted=["per-problem flags of the phase-field simulation", "models shared between several simulations (dynamic)", "Set_Iter in histories"],
    )
