"""Hand-built conforming patches (no gmsh): exact rational geometry, real Mesh / _GroupElem objects.

two_element_patch(et): element 1 = reference element, element 2 = its mirror image across one face,
composed with an orientation-reversing symmetry of the reference element so that both Jacobians are
positive and the map of each element is affine; an optional affine map distorts the whole patch.
"""
from __future__ import annotations

from fractions import Fraction

import numpy as np

from . import common

F = Fraction


def ref_nodes(et):
    g = common.real_group(et)
    loc = np.asarray(g.Get_Local_Coords(), dtype=float).reshape(g.nPe, -1)
    return [[F(float(x)).limit_denominator(1000) for x in row] for row in loc]


def _topo(et):
    return "".join(ch for ch in et if not ch.isdigit())


# (reflection across the shared face, orientation-reversing symmetry of the reference element)
def _maps(et, face=0):
    t = _topo(et)
    if t == "SEG":
        return (lambda p: [2 - p[0]]), (lambda p: [-p[0]])
    if t == "TRI":
        return (lambda p: [p[0], -p[1]]), (lambda p: [p[1], p[0]])
    if t == "QUAD":
        return (lambda p: [p[0], -2 - p[1]]), (lambda p: [p[1], p[0]])
    if t == "TETRA":
        return (lambda p: [p[0], p[1], -p[2]]), (lambda p: [p[1], p[0], p[2]])
    if t == "HEXA":
        return (lambda p: [p[0], p[1], -2 - p[2]]), (lambda p: [p[1], p[0], p[2]])
    if t == "PRISM":
        if face == 0:   # triangular face t = -1
            return (lambda p: [p[0], p[1], -2 - p[2]]), (lambda p: [p[1], p[0], p[2]])
        return (lambda p: [p[0], -p[1], p[2]]), (lambda p: [p[1], p[0], p[2]])   # quadrangular face s = 0
    raise ValueError(et)


DEFAULT_AFFINE = {
    1: ([[F(3, 2)]], [F(1, 3)]),
    2: ([[F(3, 2), F(1, 3)], [F(-1, 4), F(6, 5)]], [F(1, 3), F(-1, 2)]),
    3: ([[F(3, 2), F(1, 3), F(1, 5)], [F(-1, 4), F(6, 5), F(1, 7)], [F(1, 6), F(-1, 5), F(4, 3)]], [F(1, 3), F(-1, 2), F(1, 4)]),
}


def two_element_patch(et, face=0, affine="default"):
    """Returns (coords: list of [x,y,z] Fractions, connect: list of 2 lists)."""
    ref = ref_nodes(et)
    dim = len(ref[0])
    refl, sym = _maps(et, face)
    el1 = [list(p) for p in ref]
    el2 = [refl(sym(p)) for p in ref]
    coords, index = [], {}
    connect = []
    for el in (el1, el2):
        row = []
        for p in el:
            k = tuple(p)
            if k not in index:
                index[k] = len(coords)
                coords.append(list(p))
            row.append(index[k])
        connect.append(row)
    if affine == "default":
        affine = DEFAULT_AFFINE[dim]
    out = []
    for p in coords:
        if affine is not None:
            A, b = affine
            q = [sum(A[i][j] * p[j] for j in range(dim)) + b[i] for i in range(dim)]
        else:
            q = list(p)
        out.append(q + [F(0)] * (3 - dim))
    return out, connect


def real_mesh(et, coords, connect):
    from EasyFEA.FEM._mesh import Mesh
    from EasyFEA.FEM._group_elem import GroupElemFactory
    from EasyFEA.FEM._utils import ElemType
    c = np.array([[float(x) for x in p] for p in coords], dtype=float)
    con = np.array(connect, dtype=int)
    g = GroupElemFactory.Create(ElemType[et], con, c)
    return Mesh({ElemType[et]: g})


def two_element_mesh(et, face=0, affine="default"):
    coords, connect = two_element_patch(et, face, affine)
    return real_mesh(et, coords, connect)


# ---------------------------------------------------------------- star patches (one interior vertex node)

def _star_maps(et):
    """(list of d reflections fixing vertex v0, orientation-reversing symmetry of the reference element fixing v0)."""
    t = _topo(et)
    if t == "SEG":
        # vertex r = -1 ; reflection r -> -2 - r ; symmetry none needed in 1-D (handled by re-orienting)
        return [lambda p: [-2 - p[0]]], None
    if t == "TRI":
        return [lambda p: [-p[0], p[1]], lambda p: [p[0], -p[1]]], (lambda p: [p[1], p[0]])
    if t == "QUAD":
        return [lambda p: [-2 - p[0], p[1]], lambda p: [p[0], -2 - p[1]]], (lambda p: [p[1], p[0]])
    if t == "TETRA":
        return [lambda p: [-p[0], p[1], p[2]], lambda p: [p[0], -p[1], p[2]], lambda p: [p[0], p[1], -p[2]]], (lambda p: [p[1], p[0], p[2]])
    if t == "HEXA":
        return [lambda p: [-2 - p[0], p[1], p[2]], lambda p: [p[0], -2 - p[1], p[2]], lambda p: [p[0], p[1], -2 - p[2]]], (lambda p: [p[1], p[0], p[2]])
    if t == "PRISM":
        return [lambda p: [-p[0], p[1], p[2]], lambda p: [p[0], -p[1], p[2]], lambda p: [p[0], p[1], -2 - p[2]]], (lambda p: [p[1], p[0], p[2]])
    raise ValueError(et)


def star_patch(et, affine="default"):
    """2^dim elements around one vertex of the reference element (an interior node of the patch)."""
    import itertools
    ref = ref_nodes(et)
    dim = len(ref[0])
    refls, sym = _star_maps(et)
    coords, index, connect = [], {}, []
    for subset in itertools.product([0, 1], repeat=len(refls)):
        odd = sum(subset) % 2 == 1
        el = []
        for p in ref:
            q = list(p)
            if odd:
                if sym is not None:
                    q = sym(q)
                else:
                    q = [-q[0]]          # 1-D: reverse the reference segment
            for k, use in enumerate(subset):
                if use:
                    q = refls[k](q)
            el.append(q)
        if dim == 1 and odd:
            pass
        row = []
        for q in el:
            k = tuple(q)
            if k not in index:
                index[k] = len(coords)
                coords.append(list(q))
            row.append(index[k])
        connect.append(row)
    if affine == "default":
        affine = DEFAULT_AFFINE[dim]
    out = []
    for p in coords:
        if affine is not None:
            A, b = affine
            q = [sum(A[i][j] * p[j] for j in range(dim)) + b[i] for i in range(dim)]
        else:
            q = list(p)
        out.append(q + [F(0)] * (3 - dim))
    return out, connect


def boundary_nodes(et, coords_ref_patch_connect):
    raise NotImplementedError
