"""Helpers shared by contract modules: element-class re-assembly, element data, monomials."""
from __future__ import annotations

import glob
import itertools
import os
from fractions import Fraction

from vt import alg, extract, sx
from vt.core import REPO, Unsupported

ELEMS_DIR = "EasyFEA/FEM/Elems"
GROUP_PATH = "EasyFEA/FEM/_group_elem.py"

LAGRANGE = ["SEG2", "SEG3", "SEG4", "SEG5", "TRI3", "TRI6", "TRI10", "TRI15", "QUAD4", "QUAD8", "QUAD9",
            "TETRA4", "TETRA10", "HEXA8", "HEXA20", "HEXA27", "PRISM6", "PRISM15", "PRISM18"]
HERMITE = ["EULER_BERNOULLI2", "EULER_BERNOULLI3", "EULER_BERNOULLI4", "EULER_BERNOULLI5"]


def elem_file(clsname: str) -> str:
    for f in sorted(glob.glob(os.path.join(REPO, ELEMS_DIR, "_*.py"))):
        rel = os.path.relpath(f, REPO)
        _, tree = extract.read(rel)
        if extract.find_class(tree, clsname) is not None:
            return rel
    raise Unsupported(f"element class {clsname} not found under {ELEMS_DIR}")


def elem_infos(elemType: str):
    """(gmshId, nPe, dim, order) read from the real GroupElemFactory (working tree)."""
    from EasyFEA.FEM._group_elem import GroupElemFactory
    from EasyFEA.FEM._utils import ElemType
    base = elemType
    for pre in ("EULER_BERNOULLI", "TIMOSHENKO"):
        if elemType.startswith(pre):
            base = "SEG" + elemType[len(pre):]
    gid, nPe, dim, order = GroupElemFactory.DICT_ELEMTYPE[ElemType[base]][:4]
    return gid, nPe, dim, order


_MODS = {}


def _glob_for(overrides):
    def f(path):
        mod = path[:-3].replace("/", ".")
        if mod.endswith(".__init__"):
            mod = mod[: -len(".__init__")]
        return sx.module_globals(mod, **overrides)
    return f


def elem_instance(elemType: str, exact=True, np_override=None, **fields):
    """Instance of the re-assembled element class (object.__new__, private fields set from DICT_GMSH_DATA)."""
    path = elem_file(elemType)
    ov = {}
    if np_override is not None:
        ov["np"] = np_override
    cls = extract.assemble_class(path, elemType, _glob_for(ov), exact=exact)
    obj = object.__new__(cls)
    gid, nPe, dim, order = elem_infos(elemType)
    d = {"_GroupElem__gmshId": gid, "_GroupElem__nPe": nPe, "_GroupElem__dim": dim, "_GroupElem__order": order}
    d.update(fields)
    for k, v in d.items():
        object.__setattr__(obj, k, v)
    return obj


def real_group(elemType: str, connect=None, coord=None):
    """The real EasyFEA group element (ordinary import, floats)."""
    import numpy as np
    from EasyFEA.FEM._group_elem import GroupElemFactory
    from EasyFEA.FEM._utils import ElemType
    if elemType.startswith(("EULER_BERNOULLI", "TIMOSHENKO")):
        from EasyFEA.FEM import Elems
        cls = getattr(Elems._beam, elemType)
        gid, nPe, dim, order = elem_infos(elemType)
        connect = np.arange(nPe)[None] if connect is None else connect
        coord = np.zeros((nPe, 3)) if coord is None else coord
        return cls(gid, connect, coord)
    gid, nPe, dim, order = elem_infos(elemType)
    connect = np.arange(nPe)[None] if connect is None else connect
    coord = np.zeros((nPe, 3)) if coord is None else coord
    return GroupElemFactory.Create(ElemType[elemType], connect, coord)


def monomials(dim: int, deg: int):
    """exponent tuples of total degree <= deg in `dim` variables."""
    out = []
    for e in itertools.product(range(deg + 1), repeat=dim):
        if sum(e) <= deg:
            out.append(e)
    return out


def frac_str(x):
    return str(x)
