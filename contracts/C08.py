"""C08 -- geometry, orientation and point location are consistent across element groups.

  P  C08.origin.<et>         `origin` is the reference coordinate of local node 0:  N_i(origin) == delta_i0  (exact; the affine inverse map
                             xi = origin + (x - x_0) F^-1 relies on it)
  P  C08.faces.<et>          3-D types: every row of `faces` builds a boundary element whose REAL normal (Get_normals_e_pg, exact run) points out
                             of the reference element at every Gauss point; sum of area-weighted normals == 0 exactly; flux of x == 3 V (<= 2^-40)
                             -- the contract Surface_reconstruction relies on
  P  C08.surfaces.<et>       `surfaces` rows: 3-D -- (p1-p0) x (plast-p0) points outward on the reference element, row corners == a `faces` row;
                             2-D -- the contour visits all boundary nodes once, counter-clockwise, enclosing the reference area
  P  C08.normal.rule.<et>    boundary element types under rational affine embeddings: real normals are unit, orthogonal to the tangents, right-handed
                             w.r.t. the node order (2-D meshes: n = ez x t), covariant under proper rotations:  n(Rx + t) == R n(x)
  P  C08.normal.mirror       reflection:  n(Sx) == S n(x)  (the property's "outward after mirroring")
  P  C08.measure.affine.<et> real length/area/volume of a patch mapped by x -> A x + b with SYMBOLIC A (both orientations by witness) == |det A| * reference
                             measure; centre == A centre_ref + b; embedded (dim < inDim) elements under rational isometric embeddings
  P  C08.measure.general.*   QUAD4 with 8 symbolic node coordinates: area == shoelace polynomial (convex witness); HEXA8: rational general hexahedra
                             vs exact integration of det J
  P  C08.motion.*            Geoms Translate / Rotate / Symmetry from the AST: isometries (symbolic points, angle, axis), Rotate proper, Symmetry involutive
  X  C08.gmsh.*              native gmsh meshes of seeded random polygons (holes) and prisms over them: area / perimeter / volume / centre vs closed forms,
                             unchanged by Translate / Rotate / Symmetry; closure and sign of boundary normals; reconstructed boundaries; embedded surfaces
  X  C08.locate.*            point location + interpolation reproduces polynomials (interior, edge, node queries; single and batch; plain, rotated,
                             mirrored, embedded meshes; distorted quadrangles / hexahedra); exact containment on lattice points; Calc_projector
"""
from __future__ import annotations

import itertools
import math
from fractions import Fraction

import numpy as np

from vt import alg, extract, sx, npshim, symrun
from vt.alg import Ctx, X
from vt.core import Ob, Verdict, Refuted, Unsupported, DISCHARGED, REFUTED
from . import ops
from . import common, fem, patches

PROP = "C08"
F = Fraction
GE = "EasyFEA/FEM/_group_elem.py"
GU = "EasyFEA/Geoms/_utils.py"
EPS = F(1, 2 ** 40)

TYPES_1D = ["SEG2", "SEG3", "SEG4", "SEG5"]
TYPES_2D = ["TRI3", "TRI6", "TRI10", "TRI15", "QUAD4", "QUAD8", "QUAD9"]
TYPES_3D = ["TETRA4", "TETRA10", "HEXA8", "HEXA20", "HEXA27", "PRISM6", "PRISM15", "PRISM18"]
ORDER = {"SEG2": 1, "SEG3": 2, "SEG4": 3, "SEG5": 4, "TRI3": 1, "TRI6": 2, "TRI10": 3, "TRI15": 4, "QUAD4": 1, "QUAD8": 2, "QUAD9": 2, "TETRA4": 1, "TETRA10": 2,
         "HEXA8": 1, "HEXA20": 2, "HEXA27": 2, "PRISM6": 1, "PRISM15": 2, "PRISM18": 2}
SERENDIPITY = ("QUAD8", "HEXA20", "PRISM15")


def _fr(x):
    if isinstance(x, (F, X)):
        return x
    xf = float(x)
    return F(int(xf)) if xf.is_integer() else F(xf)


def _ref(et):
    inst = common.elem_instance(et)
    loc = inst.Get_Local_Coords()
    return [[_fr(v) for v in p] + [F(0)] * (3 - len(p)) for p in loc], inst


def _dim(et):
    return common.elem_infos(et)[2]


# ---------------------------------------------------------------- P: origin

def ob_origin(et):
    ref, inst = _ref(et)
    dim = _dim(et)
    org = [_fr(v) for v in inst.origin]
    if len(org) == 1 and dim > 1:
        org = org * dim            # numpy broadcasting of `xiOrigin + ...` in _Get_Mapping
    if len(org) != dim:
        raise Refuted(f"{et}: origin {org} has {len(org)} components for a {dim}-D element", signature=f"origin:{et}:len", replay=_replay_locate(et))
    Nf = inst._N()
    n = 0
    for i in range(len(ref)):
        v = Nf[i, 0](*org[:dim])
        n += 1
        if v != (1 if i == 0 else 0):
            raise Refuted(f"{et}: N_{i}(origin={org}) = {v}, expected {1 if i == 0 else 0}: `origin` is not the reference position of local node 0 "
                          f"(the affine inverse map xi = origin + (x - x_0) F^-1 is then wrong)", signature=f"origin:{et}", replay=_replay_locate(et))
    if [ref[0][d] for d in range(dim)] != org[:dim]:
        raise Refuted(f"{et}: origin {org} != Get_Local_Coords()[0] {ref[0][:dim]}", signature=f"origin:{et}:local", replay=_replay_locate(et))
    return Verdict(DISCHARGED, backend="exact rational evaluation of the extracted shape functions", sub=n + 1)


# ---------------------------------------------------------------- P: faces / surfaces tables

def _face_type(g, nnodes):
    from EasyFEA.FEM._group_elem import GroupElemFactory
    for t_ in GroupElemFactory._Get_2d_element_types(g.elemType):
        if GroupElemFactory.DICT_ELEMTYPE[t_][1] == nnodes:
            return t_.name
    raise Unsupported(f"no 2-D element type with {nnodes} nodes for {g.elemType}")


def _affine(ref, A, b):
    return [[sum(A[i][j] * p[j] for j in range(3)) + b[i] for i in range(3)] for p in ref]


A_POS = [[F(3, 2), F(1, 3), F(-1, 4)], [F(-1, 5), F(5, 4), F(1, 6)], [F(1, 7), F(-1, 3), F(2)]]
B_VEC = [F(1, 2), F(-2, 3), F(3, 4)]


def _det3(A):
    return (A[0][0] * (A[1][1] * A[2][2] - A[1][2] * A[2][1]) - A[0][1] * (A[1][0] * A[2][2] - A[1][2] * A[2][0]) + A[0][2] * (A[1][0] * A[2][1] - A[1][1] * A[2][0]))


def ob_faces(et, mapped):
    from EasyFEA.FEM._utils import MatrixType
    c = Ctx([], nspare=6)
    symrun.install(c)
    ref, _ = _ref(et)
    co = _affine(ref, A_POS, B_VEC) if mapped else ref
    g = fem.exact_group(et, co, [list(range(len(ref)))])
    V = sum(np.asarray(g.Get_weightedJacobian_e_pg(MatrixType.mass)).ravel())
    cen = [sum(p[d] for p in co) / len(co) for d in range(3)]
    tot, flux, n = [F(0)] * 3, F(0), 0
    seen = set()
    for face in g.faces:
        face = [int(i) for i in face]
        fg = fem.exact_group(_face_type(g, len(face)), co, [face])
        nrm = np.asarray(fg.Get_normals_e_pg(MatrixType.mass, normalize=False))[0]
        w = np.asarray(fg.Get_weight_pg(MatrixType.mass)).ravel()
        x = np.asarray(fg.Get_GaussCoordinates_e_pg(MatrixType.mass))[0]
        seen.add(tuple(sorted(face)))
        for p in range(len(w)):
            out = sum(nrm[p][d] * (x[p][d] - cen[d]) for d in range(3))
            n += 1
            if not out > 0:
                raise Refuted(f"{et}: face {face} of the `faces` table gives a normal pointing INTO the element (n.(x - centre) = {out}); boundaries reconstructed from "
                              f"volume faces are then not outward", cex=dict(face=face), signature=f"faces:{et}:inward", replay=_sub("_replay_recon", et))
            for d in range(3):
                tot[d] = tot[d] + w[p] * nrm[p][d]
            flux = flux + w[p] * sum(nrm[p][d] * x[p][d] for d in range(3))
    if any(t != 0 for t in tot):
        raise Refuted(f"{et}: area-weighted face normals sum to {tot}, not 0: the `faces` table does not close the element", signature=f"faces:{et}:closure", replay=_sub("_replay_recon", et))
    if abs(flux - 3 * V) > EPS * 64:
        raise Refuted(f"{et}: flux of x through the faces is {float(flux)}, expected 3 V = {float(3 * V)}", signature=f"faces:{et}:flux", replay=_sub("_replay_recon", et))
    if len(seen) != len(list(g.faces)):
        raise Refuted(f"{et}: `faces` lists a face twice", signature=f"faces:{et}:dup", replay=_sub("_replay_recon", et))
    return Verdict(DISCHARGED, backend="real Get_normals_e_pg / Get_GaussCoordinates_e_pg run on exact rationals", sub=n + 3)


def ob_faces_canary():
    """a TETRA4 whose face table has one face reversed must be refuted."""
    from EasyFEA.FEM.Elems import _tetra
    orig = _tetra.TETRA4.faces
    faces = np.array(orig.fget(object.__new__(_tetra.TETRA4)) if isinstance(orig, property) else orig).copy()
    faces[0] = faces[0][::-1]
    _tetra.TETRA4.faces = property(lambda self: faces)
    return ob_faces("TETRA4", False)


def ob_motion_canary():
    """an improper 'rotation' (cos, sin) -> (c, -s) in one entry only is not an isometry: the isometry clause must fail on a broken parametrisation."""
    global _TrigNP
    base = _TrigNP

    class Bad(base):
        def cos(self, th):
            return self._c * 2
    _TrigNP = Bad
    try:
        return ob_motion("rotate")
    finally:
        _TrigNP = base


def ob_surfaces(et):
    ref, inst = _ref(et)
    dim = _dim(et)
    n = 0
    if dim == 3:
        surfaces = [list(map(int, r)) for r in inst.surfaces]
        if et.startswith("PRISM"):
            surfaces = surfaces[:3] + [r[:-1] for r in surfaces[3:]]          # same trimming as Get_pointsInElem
        faces = [sorted(int(i) for i in f) for f in inst.faces]
        cen = [sum(p[d] for p in ref) / len(ref) for d in range(3)]
        used = []
        for row in surfaces:
            last = [k for k in row if k != row[0]][-1]           # Get_pointsInElem: last contour node that is not the (repeated) first one
            p0, p1, p2 = ref[row[0]], ref[row[1]], ref[last]
            i_ = [p1[d] - p0[d] for d in range(3)]
            j_ = [p2[d] - p0[d] for d in range(3)]
            nf = [i_[1] * j_[2] - i_[2] * j_[1], i_[2] * j_[0] - i_[0] * j_[2], i_[0] * j_[1] - i_[1] * j_[0]]
            n += 1
            if all(v == 0 for v in nf):
                raise Refuted(f"{et}: surfaces row {row}: (p1-p0) x (plast-p0) vanishes -- no face normal for the containment test", signature=f"surfaces:{et}:degenerate", replay=_replay_points(et))
            # corners of the row lie in the plane; the plane is a supporting plane with the element on its negative side
            for k in set(row):
                if sum(nf[d] * (ref[k][d] - p0[d]) for d in range(3)) != 0:
                    raise Refuted(f"{et}: surfaces row {row}: node {k} is not in the plane of (p0, p1, plast)", signature=f"surfaces:{et}:plane", replay=_replay_points(et))
            side = [sum(nf[d] * (p[d] - p0[d]) for d in range(3)) for p in ref]
            if not all(s <= 0 for s in side) or not sum(nf[d] * (cen[d] - p0[d]) for d in range(3)) < 0:
                raise Refuted(f"{et}: surfaces row {row}: (p1-p0) x (plast-p0) = {nf} does not point out of the reference element; Get_pointsInElem keeps the points with "
                              f"(x-p0).n <= tol for every face", signature=f"surfaces:{et}:outward", replay=_replay_points(et))
            onplane = sorted(k for k, s in enumerate(side) if s == 0)
            used.append(onplane)
            if onplane not in faces:
                raise Refuted(f"{et}: surfaces row {row} spans the nodes {onplane}, which is not a row of `faces`", signature=f"surfaces:{et}:faces", replay=_replay_points(et))
        if sorted(used) != sorted(faces):
            raise Refuted(f"{et}: `surfaces` does not cover every face exactly once", signature=f"surfaces:{et}:cover", replay=_replay_points(et))
        return Verdict(DISCHARGED, backend="exact rational geometry on the reference element", sub=n + 1)
    # 2-D: one contour
    row = [int(i) for i in np.asarray(inst.surfaces).ravel()]
    if row[0] != row[-1]:
        raise Refuted(f"{et}: the surfaces contour {row} is not closed", signature=f"surfaces:{et}:closed", replay=_replay_points(et))
    cyc = row[:-1]
    area2 = sum(ref[a][0] * ref[b][1] - ref[b][0] * ref[a][1] for a, b in zip(cyc, cyc[1:] + cyc[:1]))
    refarea = F(1, 2) if et.startswith("TRI") else F(4)
    if area2 != 2 * refarea:
        raise Refuted(f"{et}: the surfaces contour {row} encloses the signed area {area2 / 2}, expected {refarea} (counter-clockwise, whole element)", signature=f"surfaces:{et}:area",
                      replay=_replay_points(et))
    if len(set(cyc)) != len(cyc):
        raise Refuted(f"{et}: the surfaces contour visits a node twice", signature=f"surfaces:{et}:twice", replay=_replay_points(et))
    # every node of the contour lies on the boundary of the reference element; first and last edge are not collinear (normal of the element)
    e0 = [ref[cyc[1]][d] - ref[cyc[0]][d] for d in range(2)]
    el = [ref[cyc[0]][d] - ref[cyc[-1]][d] for d in range(2)]
    if e0[0] * (-el[1]) - e0[1] * (-el[0]) <= 0:
        raise Refuted(f"{et}: first and last contour edges do not give a +z element normal", signature=f"surfaces:{et}:normal", replay=_replay_points(et))
    return Verdict(DISCHARGED, backend="exact rational geometry on the reference element", sub=4)


# ---------------------------------------------------------------- P: normal rule, covariance, mirror

# rational rotation (Cayley transform of a rational skew matrix), reflection through a rational plane
def _cayley(a, b, c_):
    d = 1 + a * a + b * b + c_ * c_
    return [[(1 + a * a - b * b - c_ * c_) / d, 2 * (a * b - c_) / d, 2 * (a * c_ + b) / d],
            [2 * (a * b + c_) / d, (1 - a * a + b * b - c_ * c_) / d, 2 * (b * c_ - a) / d],
            [2 * (a * c_ - b) / d, 2 * (b * c_ + a) / d, (1 - a * a - b * b + c_ * c_) / d]]


R_ROT = _cayley(F(1, 2), F(-1, 3), F(2, 5))
R_Z = _cayley(F(0), F(0), F(1, 3))                       # rotation about z (2-D meshes stay in the plane)
S_REF = [[F(1) - 2 * F(4, 9), -2 * F(2, 9), -2 * F(4, 9)], [-2 * F(2, 9), F(1) - 2 * F(1, 9), -2 * F(2, 9)], [-2 * F(4, 9), -2 * F(2, 9), F(1) - 2 * F(4, 9)]]   # n = (2,1,2)/3
S_X = [[F(-1), F(0), F(0)], [F(0), F(1), F(0)], [F(0), F(0), F(1)]]


def _mv(M, v):
    return [sum(M[i][j] * v[j] for j in range(3)) for i in range(3)]


def _normals(et, co, inplane):
    from EasyFEA.FEM._utils import MatrixType
    g = fem.exact_group(et, co, [list(range(len(co)))])
    if inplane:
        pass
    nrm = np.asarray(g.Get_normals_e_pg(MatrixType.mass))[0]
    raw = np.asarray(g.Get_normals_e_pg(MatrixType.mass, normalize=False))[0]
    dN = np.asarray(g.Get_dN_pg(MatrixType.mass))
    return g, nrm, raw, dN


def ob_normal_rule(et):
    c = Ctx([], nspare=12)
    symrun.install(c)
    ref, _ = _ref(et)
    dim = _dim(et)
    n = 0
    if dim == 1:
        # boundary of a 2-D mesh: segment in the z = 0 plane
        A = [[F(3, 2), F(0), F(0)], [F(2), F(1), F(0)], [F(0), F(0), F(1)]]        # tangent (3/2, 2, 0): |t| = 5/2
        frames = [("plane", A, [F(1), F(-1), F(0)], R_Z)]
    else:
        frames = [("embedded", A_POS, B_VEC, R_ROT)]
    for name, A, b, R in frames:
        co = _affine(ref, A, b)
        g, nrm, raw, dN = _normals(et, co, dim == 1)
        co_r = [_mv(R, p) for p in co]
        co_r = [[p[0] + F(1, 3), p[1] - F(2), p[2] + (F(0) if dim == 1 else F(5, 7))] for p in co_r]
        _, nrm_r, _, _ = _normals(et, co_r, dim == 1)
        for p in range(nrm.shape[0]):
            t1 = [sum(dN[p][0][k] * co[k][d] for k in range(len(co))) for d in range(3)]
            nv = [nrm[p][d] for d in range(3)]
            n += 1
            if not (sum(v * v for v in nv) == 1):
                raise Refuted(f"{et}: normal at Gauss point {p} is not unit (|n|^2 = {sum(v * v for v in nv)})", signature=f"rule:{et}:unit", replay=_sub("_replay_normals"))
            if not (sum(nv[d] * t1[d] for d in range(3)) == 0):
                raise Refuted(f"{et}: normal is not orthogonal to dx/dr at Gauss point {p}", signature=f"rule:{et}:orth", replay=_sub("_replay_normals"))
            if dim == 1:
                want = [-t1[1], t1[0], F(0)]           # ez x t
            else:
                t2 = [sum(dN[p][1][k] * co[k][d] for k in range(len(co))) for d in range(3)]
                if not (sum(nv[d] * t2[d] for d in range(3)) == 0):
                    raise Refuted(f"{et}: normal is not orthogonal to dx/ds at Gauss point {p}", signature=f"rule:{et}:orth", replay=_sub("_replay_normals"))
                want = [t1[1] * t2[2] - t1[2] * t2[1], t1[2] * t2[0] - t1[0] * t2[2], t1[0] * t2[1] - t1[1] * t2[0]]
            # same direction as `want`: n x want == 0 and n . want > 0
            cr = [nv[1] * want[2] - nv[2] * want[1], nv[2] * want[0] - nv[0] * want[2], nv[0] * want[1] - nv[1] * want[0]]
            if not all(v == 0 for v in cr) or not sum(nv[d] * want[d] for d in range(3)) > 0:
                raise Refuted(f"{et}: normal {[float(v) for v in nv]} is not along {'ez x dx/dr' if dim == 1 else 'dx/dr x dx/ds'} (orientation rule of the node order)",
                              signature=f"rule:{et}:orientation", replay=_sub("_replay_normals"))
            Rn = _mv(R, nv)
            n += 1
            if not all(Rn[d] == nrm_r[p][d] for d in range(3)):
                raise Refuted(f"{et}: normals are not covariant under a proper rigid motion: n(Rx+t) = {[float(v) for v in nrm_r[p]]}, R n(x) = {[float(v) for v in Rn]}",
                              signature=f"rule:{et}:rotation", replay=_sub("_replay_normals"))
    return Verdict(DISCHARGED, backend="real Get_normals_e_pg run on exact rationals (radicals by relation)", sub=n)


def ob_normal_mirror(et):
    c = Ctx([], nspare=12)
    symrun.install(c)
    ref, _ = _ref(et)
    dim = _dim(et)
    if dim == 1:
        A = [[F(3, 2), F(0), F(0)], [F(2), F(1), F(0)], [F(0), F(0), F(1)]]
        b, S = [F(1), F(-1), F(0)], S_X
    else:
        A, b, S = A_POS, B_VEC, S_REF
    co = _affine(ref, A, b)
    _, nrm, _, _ = _normals(et, co, dim == 1)
    _, nrm_s, _, _ = _normals(et, [_mv(S, p) for p in co], dim == 1)
    for p in range(nrm.shape[0]):
        Sn = _mv(S, [nrm[p][d] for d in range(3)])
        if not all(Sn[d] == nrm_s[p][d] for d in range(3)):
            flipped = all(Sn[d] == -nrm_s[p][d] for d in range(3))
            raise Refuted(f"{et}: after a reflection S of the coordinates the normal is {'-S n' if flipped else 'not S n'}: an outward normal becomes inward when the mesh is mirrored "
                          f"(the node order is kept, so the orientation rule flips)", cex=dict(elemType=et), signature="mirror:flip", replay=_sub("_replay_mirror"))
    return Verdict(DISCHARGED, backend="real Get_normals_e_pg run on exact rationals", sub=int(nrm.shape[0]))


# ---------------------------------------------------------------- P: measure

def _ref_measure(et):
    dim = _dim(et)
    if dim == 1:
        return F(2)
    if et.startswith("TRI"):
        return F(1, 2)
    if et.startswith("QUAD"):
        return F(4)
    if et.startswith("TETRA"):
        return F(1, 6)
    if et.startswith("HEXA"):
        return F(8)
    return F(1)          # PRISM: triangle 1/2 x [-1, 1]


def ob_measure_affine(et, orient):
    """Two-element patch (or the single reference element for 1-D) under x -> A x + b, A symbolic (dim x dim), witness with det A > 0 / < 0."""
    from EasyFEA.FEM._utils import MatrixType
    dim = _dim(et)
    names = [f"a{i}{j}" for i in range(dim) for j in range(dim)] + [f"b{i}" for i in range(dim)]
    wit = {"a00": F(31, 19), "a01": F(11, 29), "a02": F(-7, 23), "a10": F(-5, 23), "a11": F(37, 31), "a12": F(3, 17), "a20": F(2, 13), "a21": F(-10, 29), "a22": F(41, 19),
           "b0": F(7, 11), "b1": F(-13, 17), "b2": F(19, 23)}
    if orient < 0:
        for j in range(dim):
            wit[f"a0{j}"] = -wit[f"a0{j}"]
    c = Ctx(names, nspare=4, witness={k: wit[k] for k in names})
    symrun.install(c)
    if dim == 1:
        ref, _ = _ref(et)
        pre, connect = ref, [list(range(len(ref)))]
        nel = 1
    else:
        pre, connect = patches.two_element_patch(et, 0, affine=None)
        pre = [[_fr(v) for v in p] for p in pre]
        nel = 2
    A = [[c.sym(f"a{i}{j}") if (i < dim and j < dim) else (F(1) if i == j else F(0)) for j in range(3)] for i in range(3)]
    b = [c.sym(f"b{i}") if i < dim else F(0) for i in range(3)]
    co = _affine(pre, A, b)
    g = fem.exact_group(et, co, connect)
    meas = {1: "length", 2: "area", 3: "volume"}[dim]
    got = getattr(g, meas)
    detA = A[0][0] if dim == 1 else (A[0][0] * A[1][1] - A[0][1] * A[1][0]) if dim == 2 else _det3(A)
    want = detA * orient * nel * _ref_measure(et)
    d = got - want
    d = d if isinstance(d, X) else c.const(d)
    bound = d.coeff_abs_sum() if hasattr(d, "coeff_abs_sum") else None
    ok = (d == 0)
    if not ok:
        # quadrature weights are the code's floats read exactly: allow 2^-40 on the coefficients of the polynomial difference
        try:
            ok = d.coeff_abs_sum() <= EPS * 1024
        except Exception:
            ok = False
    if not ok:
        raise Refuted(f"{et}: {meas} of the mapped patch is {got}, expected |det A| * {nel * _ref_measure(et)} (orientation {orient:+d})", signature=f"measure:{et}:{orient}",
                      replay=_sub("_replay_measure", et, orient))
    # centre: A centre_ref + b
    cen = np.asarray(g.center).ravel()
    g0 = fem.exact_group(et, pre, connect)
    cen0 = np.asarray(g0.center).ravel()
    wantc = [sum(A[i][j] * cen0[j] for j in range(3)) + b[i] for i in range(3)]
    for i in range(3):
        if not (cen[i] == wantc[i]):
            raise Refuted(f"{et}: centre of the mapped patch, component {i}: {cen[i]} != (A centre_ref + b) = {wantc[i]}", signature=f"measure:{et}:{orient}:centre", replay=_sub("_replay_measure", et, orient))
    wJ = np.asarray(g.Get_weightedJacobian_e_pg(MatrixType.mass))
    if not all((v > 0) for v in wJ.ravel()):
        raise Refuted(f"{et}: weighted jacobian is not positive (orientation {orient:+d})", signature=f"measure:{et}:{orient}:wJ", replay=_sub("_replay_measure", et, orient))
    return Verdict(DISCHARGED, backend="real length/area/volume run on the exact field Q(a_ij, b_i); witness decides |.|", sub=5 + wJ.size)


def ob_measure_quad4():
    """One QUAD4 with 8 symbolic coordinates (convex, counter-clockwise witness, and the clockwise mirror image): area == |shoelace|."""
    names = [f"{a}{i}" for i in range(4) for a in "xy"]
    n = 0
    for orient, wit in ((1, dict(x0=F(1, 7), y0=F(-1, 9), x1=F(2), y1=F(1, 5), x2=F(13, 5), y2=F(17, 10), x3=F(1, 5), y3=F(1))),
                        (-1, dict(x0=F(-1, 7), y0=F(-1, 9), x1=F(-2), y1=F(1, 5), x2=F(-13, 5), y2=F(17, 10), x3=F(-1, 5), y3=F(1)))):
        c = Ctx(names, nspare=4, witness=wit)
        symrun.install(c)
        co = [[c.sym(f"x{i}"), c.sym(f"y{i}"), F(0)] for i in range(4)]
        g = fem.exact_group("QUAD4", co, [[0, 1, 2, 3]])
        got = g.area
        sh = sum(co[i][0] * co[(i + 1) % 4][1] - co[(i + 1) % 4][0] * co[i][1] for i in range(4)) / 2
        d = got - orient * sh
        n += 1
        if not (d == 0) and not (d.coeff_abs_sum() <= EPS * 64):
            raise Refuted(f"QUAD4 (orientation {orient:+d}): area {got} != |shoelace| {orient * sh}", signature=f"measure:QUAD4:general:{orient}", replay=_sub("_replay_measure", "QUAD4", orient))
    return Verdict(DISCHARGED, backend="real area run on Q(x_i, y_i); polynomial identity", sub=n)


def ob_measure_hexa8(seed):
    """General hexahedra (rational, non-parallel, non-planar faces): volume == exact integral of det J over the reference cube (sympy polynomials)."""
    import sympy as sp
    import random
    rnd = random.Random(seed)
    c = Ctx([], nspare=4)
    symrun.install(c)
    ref, inst = _ref("HEXA8")
    n = 0
    for trial in range(3):
        co = [[p[d] * F(3 + d, 2) + F(rnd.randint(-3, 3), 10) for d in range(3)] for p in ref]
        if trial == 2:
            co = [[-p[0], p[1], p[2]] for p in co]
        g = fem.exact_group("HEXA8", co, [list(range(8))])
        got = g.volume
        r, s, t = sp.symbols("r s t")
        Nf = inst._N()
        xs = [sum(sp.Rational(co[k][d].numerator, co[k][d].denominator) * Nf[k, 0](r, s, t) for k in range(8)) for d in range(3)]
        J = sp.Matrix([[sp.diff(xs[d], v) for d in range(3)] for v in (r, s, t)])
        vol = sp.integrate(sp.expand(J.det()), (r, -1, 1), (s, -1, 1), (t, -1, 1))
        want = abs(F(int(vol.p), int(vol.q)))
        n += 1
        if abs(got - want) > EPS * 64:
            raise Refuted(f"HEXA8 {[[str(v) for v in p] for p in co]}: volume {float(got)} != exact integral of det J {float(want)}", signature="measure:HEXA8:general",
                          cex=dict(coords=[[str(v) for v in p] for p in co]), replay=dict(confirmed=True))
    return Verdict(DISCHARGED, backend="real volume run on exact rationals vs sympy exact integration", sub=n)


# ---------------------------------------------------------------- P: rigid motions of Geoms._utils

class _TrigNP:
    """numpy stand-in for Rotate/_Rotation_matrix: cos/sin of the (opaque) angle are c, s with c^2 + s^2 = 1 (tangent half-angle parametrisation)."""

    def __init__(self, NPs, cth, sth, zero=False):
        self._n, self._c, self._s, self._zero = NPs, cth, sth, zero
        self.pi = F(355, 113)           # only used to scale the opaque angle

    def cos(self, th):
        return 1 if self._zero else self._c

    def sin(self, th):
        return 0 if self._zero else self._s

    def __getattr__(self, k):
        return getattr(self._n, k)


def ob_motion(kind):
    names = ["t", "px", "py", "pz", "qx", "qy", "qz", "cx", "cy", "cz"]
    wit = dict(t=F(1, 3), px=F(1, 2), py=F(-2, 3), pz=F(3, 4), qx=F(-1, 5), qy=F(2), qz=F(1, 7), cx=F(1, 3), cy=F(1, 4), cz=F(-1, 2))
    c = Ctx(names, nspare=6, witness=wit)
    NPs = npshim.NP(c)
    t = c.sym("t")
    cth, sth = (1 - t * t) / (1 + t * t), 2 * t / (1 + t * t)
    g = sx.module_globals("EasyFEA.Geoms._utils")
    P = [[c.sym("px"), c.sym("py"), c.sym("pz")], [c.sym("qx"), c.sym("qy"), c.sym("qz")]]
    cen = [c.sym("cx"), c.sym("cy"), c.sym("cz")]
    def as_coords(value):
        """contract of the singledispatch AsCoords (Iterable branch): zero-padded 3-vector / (n, 3) array unchanged (decorators are dropped by the extraction)."""
        val = np.array(list(value), dtype=object)
        if val.ndim == 2:
            return val
        out = np.array([F(0)] * 3, dtype=object)
        out[:val.size] = val
        return out
    NAMES = ["Translate", "_Rotation_matrix", "Rotate", "Symmetry", "Normalize"]
    fns = extract.compile_module_functions(GU, dict(g, np=_TrigNP(NPs, cth, sth), AsCoords=as_coords), names=NAMES)
    pts = np.empty((2, 3), dtype=object)
    for i in range(2):
        for j in range(3):
            pts[i, j] = P[i][j]

    def d2(a, b):
        return sum((a[j] - b[j]) * (a[j] - b[j]) for j in range(3))
    n = 0
    if kind == "translate":
        out = np.asarray(fns["Translate"](pts, c.sym("cx"), c.sym("cy"), c.sym("cz")))
        for i in range(2):
            for j in range(3):
                n += 1
                if not (out[i][j] == P[i][j] + cen[j]):
                    raise Refuted("Translate does not add (dx, dy, dz)", signature="motion:translate", replay=dict(confirmed=True))
    elif kind == "rotate":
        for axis in ([F(0), F(0), F(1)], [F(2), F(1), F(2)], [F(1), F(0), F(0)]):
            out = np.asarray(fns["Rotate"](pts, 30, tuple(cen), tuple(axis)))
            n += 1
            if not (d2(out[0], out[1]) == d2(P[0], P[1])):
                raise Refuted(f"Rotate about {axis} is not an isometry", signature="motion:rotate:isometry", replay=dict(confirmed=True))
            # fixes the axis: centre + axis maps to itself;  proper: det R = +1;  distance to the centre preserved
            ax = np.empty((1, 3), dtype=object)
            for j in range(3):
                ax[0, j] = cen[j] + axis[j]
            o2 = np.asarray(fns["Rotate"](ax, 30, tuple(cen), tuple(axis)))
            n += 1
            if not all(o2[0][j] == ax[0][j] for j in range(3)):
                raise Refuted(f"Rotate about {axis} moves the points of its axis", signature="motion:rotate:axis", replay=dict(confirmed=True))
            R = np.asarray(fns["_Rotation_matrix"](np.array(axis, dtype=object), 1))
            det = _det3([[R[i][j] for j in range(3)] for i in range(3)])
            n += 1
            if not (det == 1):
                raise Refuted(f"rotation matrix about {axis} has determinant {det}", signature="motion:rotate:det", replay=dict(confirmed=True))
        # zero angle = identity
        fz = extract.compile_module_functions(GU, dict(g, np=_TrigNP(NPs, cth, sth, zero=True), AsCoords=as_coords), names=NAMES)
        out = np.asarray(fz["Rotate"](pts, 0, tuple(cen), (F(2), F(1), F(2))))
        n += 1
        if not all(out[i][j] == P[i][j] for i in range(2) for j in range(3)):
            raise Refuted("Rotate by 0 is not the identity", signature="motion:rotate:zero", replay=dict(confirmed=True))
    else:
        for nrm in ((F(1), F(0), F(0)), (F(2), F(1), F(2)), (F(3), F(0), F(4))):
            out = np.asarray(fns["Symmetry"](pts, tuple(cen), nrm))
            n += 1
            if not (d2(out[0], out[1]) == d2(P[0], P[1])):
                raise Refuted(f"Symmetry through the plane of normal {nrm} is not an isometry", signature="motion:symmetry:isometry", replay=dict(confirmed=True))
            back = np.asarray(fns["Symmetry"](out, tuple(cen), nrm))
            n += 1
            if not all(back[i][j] == P[i][j] for i in range(2) for j in range(3)):
                raise Refuted("Symmetry applied twice is not the identity", signature="motion:symmetry:involution", replay=dict(confirmed=True))
            # a point of the plane is fixed; the normal direction is reversed
            pl = np.empty((1, 3), dtype=object)
            for j in range(3):
                pl[0, j] = cen[j] + nrm[j]
            o3 = np.asarray(fns["Symmetry"](pl, tuple(cen), nrm))
            n += 1
            if not all(o3[0][j] == cen[j] - nrm[j] for j in range(3)):
                raise Refuted("Symmetry does not reverse the normal direction", signature="motion:symmetry:normal", replay=dict(confirmed=True))
    return Verdict(DISCHARGED, backend="extracted Geoms._utils functions on Q(t, p, q, c); cos/sin by the rational parametrisation of the circle", sub=n)


# ---------------------------------------------------------------- replays (native)

def _sub(fn, *args):
    """Native replay in a fresh interpreter (the calling obligation has replaced numpy inside the EasyFEA modules)."""
    import json, os, subprocess, sys
    root = os.path.dirname(os.path.dirname(os.path.abspath(__file__)))
    code = f"import json, sys; sys.path.insert(0, {root!r}); from contracts import C08; print('@@' + json.dumps(C08.{fn}(*{args!r}), default=str))"
    try:
        out = subprocess.run([sys.executable, "-c", code], capture_output=True, text=True, timeout=600, cwd=root)
        for line in out.stdout.splitlines():
            if line.startswith("@@"):
                return json.loads(line[2:])
        return dict(confirmed=False, error=(out.stderr or out.stdout)[-400:])
    except Exception as e:
        return dict(confirmed=False, error=repr(e)[:300])


def _replay_recon(et):
    try:
        r = _native_recon(et, None)
        return dict(confirmed=bool(r["bad"]), **{k: v for k, v in r.items() if k != "bad"})
    except Exception as e:
        return dict(confirmed=False, raised=repr(e)[:300])


def _replay_locate(et):
    try:
        err = _native_locate(et, "plain", 0)
        return dict(confirmed=bool(err["err"] > 1e-6 or err["missing"] > 0), **err)
    except Exception as e:
        return dict(confirmed=True, raised=repr(e)[:300])


def _replay_points(et):
    if _dim(et) != 3 and not et.startswith(("TRI", "QUAD")):
        return dict(confirmed=False)
    try:
        ob_points_in_elem(et)
        return dict(confirmed=False, note="native containment on lattice points agrees with exact containment")
    except Refuted as r:
        return dict(confirmed=True, native=str(r)[:400])
    except Exception as e:
        return dict(confirmed=True, raised=repr(e)[:300])


def _replay_normals():
    try:
        r = _native_normals_2d("TRI3", 0)
        return dict(confirmed=bool(abs(r["closure"]) > 1e-9), **r)
    except Exception as e:
        return dict(confirmed=False, raised=repr(e)[:300])


def _replay_mirror():
    try:
        r0 = _native_recon("TETRA4", None)
        r1 = _native_recon("TETRA4", "mirror")
        return dict(confirmed=bool(r1["flux"] < 0 < r0["flux"]), flux_before=r0["flux"], flux_after=r1["flux"], volume=r1["volume"],
                    note="boundary reconstructed from the faces of a TETRA4 prism mesh; flux of x through it before / after mesh.Symmetry")
    except Exception as e:
        return dict(confirmed=False, raised=repr(e)[:300])


def _replay_measure(et, orient):
    try:
        pre, connect = patches.two_element_patch(et, 0, affine=None) if _dim(et) > 1 else (_ref(et)[0], [list(range(len(_ref(et)[0])))])
        A = [[float(v) for v in r] for r in A_POS]
        dim = _dim(et)
        A = [[A[i][j] if (i < dim and j < dim) else float(i == j) for j in range(3)] for i in range(3)]
        if orient < 0:
            A[0] = [-v for v in A[0]]
        co = [[sum(A[i][j] * float(p[j]) for j in range(3)) for i in range(3)] for p in pre]
        m = patches.real_mesh(et, co, connect)
        g = m.groupElem
        got = float({1: g.length, 2: g.area, 3: g.volume}[dim])
        detA = abs(np.linalg.det(np.array(A)))
        want = detA * len(connect) * float(_ref_measure(et))
        return dict(confirmed=bool(abs(got - want) > 1e-9 * want), got=got, want=want)
    except Exception as e:
        return dict(confirmed=False, raised=repr(e)[:300])


# ---------------------------------------------------------------- X: native gmsh meshes

def _polygon(seed, hole=False):
    """star-shaped polygon around a random centre (5-8 vertices, angular gaps in [0.35, 2.0] rad, radii in [0.8, 2]); optional triangular hole of radius 0.25 at the centre."""
    rng = np.random.default_rng(seed)
    k = int(rng.integers(5, 9))
    while True:
        ang = np.sort(rng.uniform(0, 2 * np.pi, k))
        gaps = np.diff(np.append(ang, ang[0] + 2 * np.pi))
        if gaps.min() > 0.35 and gaps.max() < 2.0:
            break
    rad = rng.uniform(0.8, 2.0, k)
    ctr = rng.uniform(-1, 1, 2)
    pts = ctr + np.c_[rad * np.cos(ang), rad * np.sin(ang)]
    holes = [ctr + 0.25 * np.array([[np.cos(a), np.sin(a)] for a in (0.3, 0.3 + 2.1, 0.3 + 4.2)])] if hole else []
    return pts, holes


def _shoelace(p):
    x, y = p[:, 0], p[:, 1]
    return 0.5 * float(np.sum(x * np.roll(y, -1) - np.roll(x, -1) * y))


def _poly_centroid(p):
    x, y = p[:, 0], p[:, 1]
    cr = x * np.roll(y, -1) - np.roll(x, -1) * y
    a = 0.5 * cr.sum()
    return np.array([((x + np.roll(x, -1)) * cr).sum(), ((y + np.roll(y, -1)) * cr).sum()]) / (6 * a), a


def _perimeter(p):
    return float(np.linalg.norm(p - np.roll(p, -1, axis=0), axis=1).sum())


def _gmsh_mesh(et, seed, hole=False, size=0.6, height=None, layers=2):
    from EasyFEA import Mesher, ElemType
    from EasyFEA.Geoms import Point, Points
    pts, holes = _polygon(seed, hole)
    contour = Points([Point(float(x), float(y)) for x, y in pts], size)
    inclusions = [Points([Point(float(x), float(y)) for x, y in h], size / 2, isFilled=False) for h in holes]
    if height is None:
        return Mesher().Mesh_2D(contour, inclusions, ElemType[et]), pts, holes
    return Mesher().Mesh_Extrude(contour, inclusions, [0, 0, height], [layers], ElemType[et]), pts, holes


def _boundary_integrals(mesh, bdim):
    from EasyFEA.FEM._utils import MatrixType
    tot, nint, meas = 0.0, np.zeros(3), 0.0
    for g in mesh.Get_list_groupElem(bdim):
        n = np.asarray(g.Get_normals_e_pg(MatrixType.mass))
        wJ = np.asarray(g.Get_weightedJacobian_e_pg(MatrixType.mass))
        x = np.asarray(g.Get_GaussCoordinates_e_pg(MatrixType.mass))
        tot += float(np.einsum("ep,epd,epd->", wJ, x, n))
        nint += np.einsum("ep,epd->d", wJ, n)
        meas += float(wJ.sum())
    return tot, nint, meas


MOTIONS = ("translate", "rotate", "mirror")


def _move(mesh, how):
    if how == "translate":
        mesh.Translate(0.7, -1.3, 0.0 if mesh.inDim == 2 else 0.45)
    elif how == "lift":        # a plane mesh translated out of the plane z = 0
        mesh.Translate(0.7, -1.3, 0.6)
    elif how == "rotate":
        if mesh.inDim == 2:
            mesh.Rotate(37.0, (0.3, -0.2, 0), (0, 0, 1))
        else:
            mesh.Rotate(37.0, (0.3, -0.2, 0.1), (1, 2, 0.5))
    elif how == "mirror":
        if mesh.inDim == 2:
            mesh.Symmetry((0.3, 0.1, 0), (1, 2, 0))
        else:
            mesh.Symmetry((0.3, 0.1, 0.2), (1, 2, 0.5))
    elif how == "tilt":
        mesh.Rotate(41.0, (0.3, -0.2, 0.0), (1, 2, 0.5))


def ob_gmsh_measure(et, seed, hole):
    dim = _dim(et)
    H = 1.3
    mesh, pts, holes = _gmsh_mesh(et, seed, hole, height=None if dim == 2 else H)
    cA, A = _poly_centroid(pts)
    per = _perimeter(pts)
    area, num = abs(A), cA * A
    for h in holes:
        ch, ah = _poly_centroid(h)
        area -= abs(ah)
        num = num - ch * ah * np.sign(A) * np.sign(ah)
        per += _perimeter(h)
    cen2 = num / (np.sign(A) * area)
    want_measure = area if dim == 2 else area * H
    want_center = np.array([cen2[0], cen2[1], 0.0 if dim == 2 else H / 2])
    want_bnd = per if dim == 2 else 2 * area + per * H
    ref_center = None
    for how in (None,) + MOTIONS + (("tilt",) if dim == 2 else ()):
        if how:
            before = np.asarray(mesh.center).copy()
            _move(mesh, how)
        got = float(mesh.area if dim == 2 else mesh.volume)
        if abs(got - want_measure) > 1e-9 * want_measure:
            raise Refuted(f"{et} polygon seed {seed}{' with hole' if hole else ''} after {how or 'meshing'}: measure {got!r}, exact {want_measure!r}", cex=dict(seed=seed, motion=how),
                          signature=f"gmsh:measure:{et}:{how}", replay=dict(confirmed=True, got=got, want=want_measure))
        bnd = float(mesh.length if dim == 2 else mesh.area)
        if abs(bnd - want_bnd) > 1e-9 * want_bnd:
            raise Refuted(f"{et} polygon seed {seed} after {how or 'meshing'}: boundary measure {bnd!r}, exact {want_bnd!r}", cex=dict(seed=seed, motion=how),
                          signature=f"gmsh:boundary:{et}:{how}", replay=dict(confirmed=True, got=bnd, want=want_bnd))
        if how is None:
            cen = np.asarray(mesh.center)
            if np.abs(cen - want_center).max() > 1e-9:
                raise Refuted(f"{et} polygon seed {seed}: centre {cen.tolist()}, exact centroid {want_center.tolist()}", cex=dict(seed=seed), signature=f"gmsh:center:{et}",
                              replay=dict(confirmed=True))
    return Verdict(DISCHARGED, backend="native gmsh mesh vs closed forms", detail=f"measure {want_measure:.6f}")


def _native_normals_2d(et, seed, hole=False):
    mesh, pts, holes = _gmsh_mesh(et, seed, hole)
    flux, nint, per = _boundary_integrals(mesh, 1)
    return dict(closure=float(np.abs(nint).max()), flux=flux, area=float(mesh.area))


def ob_gmsh_normals2d_closure(et, seed):
    for hole in (False, True):
        mesh, pts, holes = _gmsh_mesh(et, seed, hole)
        for how in (None,) + MOTIONS:
            if how:
                _move(mesh, how)
            flux, nint, per = _boundary_integrals(mesh, 1)
            if np.abs(nint).max() > 1e-9:
                raise Refuted(f"{et} polygon seed {seed} hole={hole} after {how or 'meshing'}: integral of the boundary normal is {nint.tolist()}, not 0", cex=dict(seed=seed, hole=hole, motion=how),
                              signature=f"gmsh:normals2d:closure:{et}", replay=dict(confirmed=True))
            if abs(abs(flux) - 2 * float(mesh.area)) > 1e-8 and not hole:
                raise Refuted(f"{et} polygon seed {seed} after {how or 'meshing'}: |flux of x| = {abs(flux)!r} != 2 area = {2 * float(mesh.area)!r} (normals are not consistently oriented)",
                              cex=dict(seed=seed, motion=how), signature=f"gmsh:normals2d:consistent:{et}", replay=dict(confirmed=True))
    return Verdict(DISCHARGED, backend="native gmsh mesh")


def ob_gmsh_normals2d_outward():
    """Outer boundary of a plain polygon mesh: the flux of x through the boundary normals must be + 2 area."""
    mesh, pts, holes = _gmsh_mesh("TRI3", 0, False)
    flux, nint, per = _boundary_integrals(mesh, 1)
    if flux < 0:
        raise Refuted(f"2-D gmsh mesh (TRI3, polygon seed 0): flux of x through the boundary normals is {flux:.6f} = -2 x area ({float(mesh.area):.6f}): the normals of the boundary "
                      f"segments (ez x tangent of counter-clockwise contours) point INTO the domain", cex=dict(seed=0, elemType="TRI3"), signature="gmsh2d:inward",
                      replay=dict(confirmed=True, flux=flux, area=float(mesh.area)))
    return Verdict(DISCHARGED, backend="native gmsh mesh")


def ob_gmsh_normals3d_closure():
    mesh, pts, holes = _gmsh_mesh("TETRA4", 0, False, height=1.3)
    flux, nint, area = _boundary_integrals(mesh, 2)
    if np.abs(nint).max() > 1e-9:
        raise Refuted(f"3-D extruded gmsh mesh (TETRA4, polygon seed 0): integral of the boundary-surface normals is {np.round(nint, 6).tolist()} (= 2 x base area along the extrusion "
                      f"axis), not 0: the base surface keeps the orientation of the source surface and its normals point INTO the volume", cex=dict(seed=0, elemType="TETRA4"),
                      signature="extrude:closure", replay=dict(confirmed=True, closure=nint.tolist()))
    if abs(flux - 3 * float(mesh.volume)) > 1e-8:
        raise Refuted(f"3-D extruded gmsh mesh: flux {flux!r} != 3 V", signature="extrude:flux", replay=dict(confirmed=True))
    return Verdict(DISCHARGED, backend="native gmsh mesh")


def _native_recon(et, how, seed=0):
    from EasyFEA import Mesh
    from EasyFEA.Utilities.MeshIO import Surface_reconstruction
    mesh, pts, holes = _gmsh_mesh(et, seed, False, height=1.3, size=0.8)
    vol = Mesh({k: g for k, g in mesh.dict_groupElem.items() if g.dim == 3})
    r = Surface_reconstruction(vol)
    if how:
        _move(r, how)
    flux, nint, area = _boundary_integrals(r, 2)
    V = float(r.volume)
    A = abs(_shoelace(pts))
    want_area = 2 * A + _perimeter(pts) * 1.3
    return dict(flux=flux, closure=float(np.abs(nint).max()), volume=V, area=area, want_area=want_area,
                bad=bool(np.abs(nint).max() > 1e-9 or abs(flux - 3 * V) > 1e-8 * V or abs(area - want_area) > 1e-9 * want_area))


def ob_recon(et):
    for how in (None, "translate", "rotate"):
        r = _native_recon(et, how)
        if r["bad"]:
            raise Refuted(f"{et}: boundary reconstructed from the volume faces after {how or 'reconstruction'}: closure {r['closure']:.2e}, flux {r['flux']:.6f} vs 3V {3 * r['volume']:.6f}, "
                          f"area {r['area']:.6f} vs exact {r['want_area']:.6f}", cex=dict(elemType=et, motion=how), signature=f"recon:{et}", replay=dict(confirmed=True, **{k: v for k, v in r.items() if k != 'bad'}))
    return Verdict(DISCHARGED, backend="native Surface_reconstruction on a gmsh prism mesh")


def ob_recon_mirror():
    r = _native_recon("TETRA4", "mirror")
    if r["flux"] < 0 or r["bad"]:
        raise Refuted(f"TETRA4: boundary reconstructed from volume faces, then mesh.Symmetry: flux of x through the normals is {r['flux']:.6f} = -3 V: the normals point INTO the mirrored "
                      f"volume", cex=dict(elemType="TETRA4", motion="mirror"), signature="mirror:flip", replay=dict(confirmed=True, **{k: v for k, v in r.items() if k != 'bad'}))
    return Verdict(DISCHARGED, backend="native")


def ob_embedded(et, seed):
    """2-D mesh tilted out of the plane (surface elements embedded in 3-D): area and centre are carried by the motion, normals are +-R ez consistently."""
    from EasyFEA.FEM._utils import MatrixType
    from EasyFEA.Geoms import Rotate
    mesh, pts, holes = _gmsh_mesh(et, seed, False)
    a0 = float(mesh.area)
    _move(mesh, "tilt")
    if abs(float(mesh.area) - a0) > 1e-9 * a0:
        raise Refuted(f"{et}: area of the tilted (embedded) mesh {float(mesh.area)!r} != {a0!r}", signature=f"embedded:{et}:area", replay=dict(confirmed=True))
    want = Rotate(np.array([[0.0, 0.0, 1.0]]), 41.0, (0, 0, 0), (1, 2, 0.5))[0]
    n = np.asarray(mesh.groupElem.Get_normals_e_pg(MatrixType.mass)).reshape(-1, 3)
    dots = n @ want
    if np.abs(np.abs(dots) - 1).max() > 1e-9 or (dots.min() < 0 < dots.max()):
        raise Refuted(f"{et}: normals of the embedded surface elements are not consistently +-R ez (n.Rez in [{dots.min():.3f}, {dots.max():.3f}])", signature=f"embedded:{et}:normals",
                      replay=dict(confirmed=True))
    return Verdict(DISCHARGED, backend="native gmsh mesh")


# ---------------------------------------------------------------- X: point location

def _poly_fn(order, dim, rng):
    exps = [e for e in itertools.product(range(order + 1), repeat=dim) if sum(e) <= order]
    cf = rng.uniform(0.5, 1.5, len(exps)) * rng.choice([-1, 1], len(exps))
    cf[0] = 7.0        # never zero: an unlocated point (value 0) is detected

    def f(x):
        return sum(c_ * np.prod([x[:, d] ** e[d] for d in range(dim)], axis=0) for c_, e in zip(cf, exps))
    return f


def _native_locate(et, how, seed, S=1.0):
    rng = np.random.default_rng(seed + 11)
    dim = _dim(et)
    mesh, pts_, _ = _gmsh_mesh(et, seed, False, size=0.7, height=None if dim == 2 else 1.3)
    if S != 1.0:
        mesh.coord = S * np.asarray(mesh.coord)         # the same mesh in another unit of length
    g = mesh.groupElem
    c0 = np.asarray(mesh.coord).copy()
    distorted = et.startswith(("QUAD", "HEXA"))
    order = 1 if (distorted and et in SERENDIPITY) else ORDER[et]
    f1 = _poly_fn(order, dim, rng)
    f = f1 if S == 1.0 else (lambda X_: f1(np.asarray(X_) / S))
    # queries built in the reference configuration: interior (image of random reference points), edge midpoints, nodes
    Nf, loc = g._N(), np.asarray(g.Get_Local_Coords(), dtype=float)
    cen = loc.mean(0)
    q = []
    for e in rng.choice(g.Ne, min(g.Ne, 8), replace=False):
        xi = cen + 0.85 * rng.uniform(0, 1) * (loc[rng.integers(len(loc))] - cen)
        Nv = g._Eval_Functions(Nf, xi[None])[0, 0]
        q.append(Nv @ c0[g.connect[e]])
        q.append(0.5 * (c0[g.connect[e][0]] + c0[g.connect[e][1]]))
        q.append(c0[g.connect[e][2]])
    q = np.array(q)
    u = f(c0)             # nodal values of the polynomial in the ORIGINAL coordinates: a rigid motion carries the field with the mesh
    want = f(q)
    if how and how != "plain":
        from EasyFEA.Geoms import Translate, Rotate, Symmetry
        # the field is first evaluated where the mesh is (whatever the location machinery memoises is memoised now), then the mesh moves
        v0 = np.asarray(mesh.Evaluate_dofsValues_at_coordinates(q, u)).ravel()
        if np.abs(v0 - want).max() > 1e-6 * np.abs(want).max():
            return dict(err=float(np.abs(v0 - want).max() / np.abs(want).max()), missing=int((v0 == 0).sum()), order=order, nq=len(q), before_motion=True)
        _move(mesh, how)
        if how == "lift":
            q = Translate(q, 0.7, -1.3, 0.6)
        elif how == "translate":
            q = Translate(q, 0.7, -1.3, 0.0 if mesh.inDim == 2 else 0.45)
        elif how == "rotate":
            q = Rotate(q, 37.0, (0.3, -0.2, 0) if dim == 2 else (0.3, -0.2, 0.1), (0, 0, 1) if dim == 2 else (1, 2, 0.5))
        elif how == "mirror":
            q = Symmetry(q, (0.3, 0.1, 0) if dim == 2 else (0.3, 0.1, 0.2), (1, 2, 0) if dim == 2 else (1, 2, 0.5))
        elif how == "tilt":
            q = Rotate(q, 41.0, (0.3, -0.2, 0.0), (1, 2, 0.5))
    scale = np.abs(want).max()
    v = np.asarray(mesh.Evaluate_dofsValues_at_coordinates(q, u)).ravel()
    v1 = np.array([np.asarray(mesh.Evaluate_dofsValues_at_coordinates(p[None], u)).ravel()[0] for p in q[:6]])
    pair = np.asarray(mesh.Evaluate_dofsValues_at_coordinates(q[:2], u)).ravel()
    err = max(np.abs(v - want).max(), np.abs(v1 - want[:6]).max(), np.abs(pair - want[:2]).max()) / scale
    # the optional list of candidate elements, in any order (the whole mesh listed backwards / shuffled): same values
    for tag, elems in (("reversed", np.arange(g.Ne)[::-1].copy()), ("shuffled", rng.permutation(g.Ne))):
        ve = np.asarray(mesh.Evaluate_dofsValues_at_coordinates(q, u, elems)).ravel()
        ee = float(np.abs(ve - want).max() / scale)
        if ee > max(err, 1e-6):
            return dict(err=ee, missing=int((ve == 0).sum()), order=order, nq=len(q), elements=tag)
    return dict(err=float(err), missing=int((v == 0).sum() + (v1 == 0).sum()), order=order, nq=len(q))


def ob_locate(et, how, seed, S=1.0):
    r = _native_locate(et, how, seed, S)
    if r["missing"] or r["err"] > 1e-6:
        raise Refuted(f"{et} ({how}{'' if S == 1.0 else f', coordinates multiplied by {S:g}'}{', candidate elements listed ' + r['elements'] if r.get('elements') else ''}): evaluating a degree-{r['order']} polynomial nodal field at {r['nq']} located points (interior, edge midpoints, nodes; batch, pairs and single queries): "
                      f"relative error {r['err']:.3e}, {r['missing']} points not located", cex=dict(elemType=et, motion=how, seed=seed), signature=f"locate:{et}:{how}",
                      replay=dict(confirmed=True, **r))
    return Verdict(DISCHARGED, backend="native gmsh mesh", detail=f"err {r['err']:.1e}")


def _native_locate_dense(et, organised, S=1.0, offset=None):
    """finer box meshes: every midpoint of a pair of vertices of an element (edges and, for quadrangles / hexahedra / prisms, diagonals), every element centre and every
    node, queried ONE AT A TIME and all at once: a linear field is reproduced."""
    from EasyFEA import ElemType
    from EasyFEA.Geoms import Domain, Point
    dom = Domain(Point(), Point(S, S), 0.25 * S)
    dim = _dim(et)
    if dim == 2:
        mesh = dom.Mesh_2D([], ElemType[et], isOrganised=organised)
    else:
        mesh = dom.Mesh_Extrude([], [0, 0, S], [4], ElemType[et], isOrganised=organised)
    turn = (lambda X_: X_)
    off = np.zeros(3) if offset is None else np.array(offset, dtype=float) * (1.0 if _dim(et) == 3 else np.array([1.0, 1.0, 0.0]))
    if S != 1.0 or offset is not None:
        # a generic orientation, so that edges are not aligned with the axes and the coordinates carry round-off proportional to the size
        from EasyFEA.Geoms import Rotate as _Rot
        ax = (0, 0, 1) if dim == 2 else (1, 2, 0.5)
        mesh.Rotate(33.0, (0, 0, 0), ax)
        if offset is not None:
            # ... and carried far from the origin: the round-off of the coordinates follows their magnitude, not the size of the elements
            mesh.Translate(*off)
        turn = (lambda X_: _Rot(X_, 33.0, (0, 0, 0), ax) + off)
    co = np.asarray(mesh.coord)
    g = mesh.groupElem
    nv = {"TRI": 3, "QUAD": 4, "TETRA": 4, "HEXA": 8, "PRISM": 6}["".join(ch for ch in et if not ch.isdigit())]
    con = np.asarray(g.connect)[:, :nv]
    pts = {}          # rounded key (to merge the copies of a shared point) -> the point as computed from the node coordinates
    for row in con:
        P = co[row]
        pts.setdefault(tuple(np.round(P.mean(0) / S, 9)), P.mean(0))
        for i in range(nv):
            for j in range(i + 1, nv):
                pts.setdefault(tuple(np.round((P[i] + P[j]) / 2 / S, 9)), (P[i] + P[j]) / 2)
    pts = np.array([pts[k] for k in sorted(pts)])
    rng = np.random.default_rng(2)
    if len(pts) > 350:
        pts = pts[rng.choice(len(pts), 350, replace=False)]
    f = lambda X_: 1 + (2 * (X_[:, 0] - off[0]) - 3 * (X_[:, 1] - off[1]) + 0.5 * (X_[:, 2] - off[2])) / S
    u = f(co)
    want = f(pts)
    single = np.array([float(np.ravel(mesh.Evaluate_dofsValues_at_coordinates(p_[None, :], u))[0]) for p_ in pts])
    batch = np.ravel(mesh.Evaluate_dofsValues_at_coordinates(pts, u))
    # random interior points, in one batch
    rp = np.zeros((800, 3))
    rp[:, :dim] = S * rng.uniform(0.01, 0.99, size=(800, dim))
    rp = np.asarray(turn(rp))
    rb = np.ravel(mesh.Evaluate_dofsValues_at_coordinates(rp, u))
    er = np.abs(rb - f(rp))
    es, eb = np.abs(single - want), np.concatenate([np.abs(batch - want), er])
    k = int(np.argmax(es))
    return dict(nq=int(len(pts)), Ne=int(g.Ne), single_wrong=int((es > 1e-6).sum()), batch_wrong=int((eb > 1e-6).sum()), worst_single=float(es.max()), worst_batch=float(eb.max()),
                worst_point=pts[k].tolist(), got=float(single[k]), expected=float(want[k]))


def ob_locate_dense(et, organised, S=1.0, offset=None):
    r = _native_locate_dense(et, organised, S, offset)
    if r["single_wrong"] or r["batch_wrong"]:
        raise Refuted(f"{et} box mesh ({'structured' if organised else 'unstructured'}, {r['Ne']} elements): a linear nodal field evaluated at {r['nq']} points (edge / diagonal midpoints, element centres) is wrong "
                      f"at {r['single_wrong']} points queried one at a time and {r['batch_wrong']} queried together; e.g. at {r['worst_point']} the value is {r['got']:.6g}, expected {r['expected']:.6g}",
                      cex=dict(elemType=et, organised=organised, point=r["worst_point"]), signature=f"locate:dense:{et}", replay=dict(confirmed=True, **r))
    return Verdict(DISCHARGED, backend="native gmsh mesh", detail=f"{r['nq']} points, worst {max(r['worst_single'], r['worst_batch']):.1e}")


def ob_locate_pixels(et):
    """a batch of query points with integer coordinates (a pixel grid, as digital image correlation hands over): every grid point of the domain -- boundary included, grid listed
    row by row or column by column, origin at 0 or elsewhere -- is located and gives the value the same points give as floats"""
    import contextlib, io
    from EasyFEA import ElemType
    from EasyFEA.Geoms import Domain, Point
    f = lambda X_: 1 + 2 * X_[:, 0] - 3 * X_[:, 1]
    n = 0
    for x0 in (0, 3):
        with contextlib.redirect_stdout(io.StringIO()):
            mesh = Domain(Point(x0, x0), Point(x0 + 4, x0 + 4), 1.3).Mesh_2D([], ElemType[et])
        nodal = f(np.asarray(mesh.coord))
        for indexing in ("xy", "ij"):
            xs, ys = np.meshgrid(np.arange(x0, x0 + 5), np.arange(x0, x0 + 5), indexing=indexing)
            pts = np.stack([xs.ravel(), ys.ravel(), 0 * xs.ravel()], 1)
            v_int = np.asarray(mesh.Evaluate_dofsValues_at_coordinates(pts, nodal)).ravel()
            v_flt = np.asarray(mesh.Evaluate_dofsValues_at_coordinates(pts.astype(float), nodal)).ravel()
            n += 1
            e_int, e_flt = np.abs(v_int - f(pts)), np.abs(v_flt - f(pts))
            if e_flt.max() > 1e-6:
                raise Unsupported("the float queries themselves fail")
            if e_int.max() > 1e-6:
                wrong = pts[e_int > 1e-6][:4, :2].tolist()
                raise Refuted(f"{et}: {int((e_int > 1e-6).sum())} of 25 integer grid points of [{x0},{x0 + 4}]^2 (grid listed with indexing='{indexing}') are evaluated wrongly (e.g. {wrong}, "
                              f"max error {e_int.max():.3g}); the same points as floats are exact", cex=dict(elemType=et, origin=x0, indexing=indexing, points=wrong), signature=f"locate:pixels:{et}",
                              replay=dict(confirmed=True, wrong=int((e_int > 1e-6).sum())))
    # the rectangle [0,4] x [0,3] after a quarter turn: the nodes of a side sit at +-1e-16 of an integer line, the pixels of that line belong to the domain all the same
    with contextlib.redirect_stdout(io.StringIO()):
        mesh = Domain(Point(0, 0), Point(4, 3), 1.0).Mesh_2D([], ElemType[et], isOrganised=True)
    mesh.Rotate(90, (0, 0, 0), (0, 0, 1))
    nodal = f(np.asarray(mesh.coord))
    YY, XX = np.meshgrid(np.arange(0, 5), np.arange(-3, 1), indexing="ij")
    pts = np.stack([XX.ravel(), YY.ravel(), 0 * XX.ravel()], 1)
    v_int = np.asarray(mesh.Evaluate_dofsValues_at_coordinates(pts, nodal)).ravel()
    v_flt = np.asarray(mesh.Evaluate_dofsValues_at_coordinates(pts.astype(float), nodal)).ravel()
    n += 1
    e_int, e_flt = np.abs(v_int - f(pts)), np.abs(v_flt - f(pts))
    if e_flt.max() > 1e-6:
        raise Unsupported("the float queries themselves fail on the turned rectangle")
    if e_int.max() > 1e-6:
        wrong = pts[e_int > 1e-6][:4, :2].tolist()
        raise Refuted(f"{et}: rectangle [0,4] x [0,3] turned by 90 degrees: {int((e_int > 1e-6).sum())} of 20 integer grid points are evaluated wrongly (e.g. {wrong}, max error {e_int.max():.3g}); "
                      f"the same points as floats are exact", cex=dict(elemType=et, points=wrong, motion="Rotate(90)"), signature=f"locate:pixels:{et}:turned", replay=dict(confirmed=True, wrong=int((e_int > 1e-6).sum())))
    return Verdict(DISCHARGED, backend="native gmsh mesh", sub=n)


def ob_locate_twisted(angle_deg):
    """a general hexahedron whose top face is turned by +a and bottom face by -a about the vertical axis (trilinear, not affine; the DETERMINANT of its Jacobian
    is the same at the 2x2x2 Gauss points): the points located in it carry the reference coordinates of the trilinear map, a linear field is reproduced there."""
    from EasyFEA import ElemType, Mesh
    from EasyFEA.FEM import GroupElemFactory
    a = np.deg2rad(angle_deg)
    ref = np.array([[-1, -1, -1], [1, -1, -1], [1, 1, -1], [-1, 1, -1], [-1, -1, 1], [1, -1, 1], [1, 1, 1], [-1, 1, 1]], dtype=float)

    def twist(p):
        r, s_, t = p.T
        return np.stack([r * np.cos(a) - s_ * t * np.sin(a), s_ * np.cos(a) + r * t * np.sin(a), t], 1)
    coord = twist(ref)
    group = GroupElemFactory.Create(ElemType.HEXA8, np.arange(8).reshape(1, 8), coord)
    mesh = Mesh({ElemType.HEXA8: group})
    rng = np.random.default_rng(1)
    xi = rng.uniform(-0.6, 0.6, (40, 3))
    pts = twist(xi)
    f = lambda x: 1 + 2 * x[:, 0] - 3 * x[:, 1] + 0.5 * x[:, 2]
    val = np.asarray(mesh.Evaluate_dofsValues_at_coordinates(pts, f(coord))).reshape(len(pts), -1)[:, 0]
    located = np.asarray(group.Get_Mapping(pts)[0], dtype=int)
    if located.size == 0:
        raise Unsupported("no point located (the in-element test on warped faces is a separate, known finding)")
    err = float(np.abs(val - f(pts))[located].max())
    if err > 1e-6:
        k = located[int(np.argmax(np.abs(val - f(pts))[located]))]
        raise Refuted(f"HEXA8 twisted by +-{angle_deg:g} degrees (one element): at the {located.size} points located in the element a linear nodal field is off by up to {err:.3e} "
                      f"(e.g. at {np.round(pts[k], 4).tolist()}: {val[k]:.6g} instead of {f(pts[k:k+1])[0]:.6g}): the element is taken for an affine one",
                      cex=dict(angle=angle_deg, point=pts[k].tolist()), signature="locate:twisted:HEXA8", replay=dict(confirmed=True, max_err=err, located=int(located.size)))
    return Verdict(DISCHARGED, backend="native", detail=f"{located.size} located points, err {err:.1e}")


def ob_locate_warped(et):
    """general hexahedra / prisms whose faces are NOT planar (interior nodes of a structured box mesh moved at random; the box is still tiled exactly and the Jacobians stay
    positive): every interior point is located and a linear field is reproduced."""
    from EasyFEA import ElemType
    from EasyFEA.Geoms import Domain, Point
    rng = np.random.default_rng(0)
    mesh = Domain(Point(0, 0), Point(1, 1), 0.25).Mesh_Extrude([], [0, 0, 1], [4], ElemType[et], isOrganised=True)
    coord = np.asarray(mesh.coord).copy()
    inner = np.all((coord > 1e-9) & (coord < 1 - 1e-9), axis=1)
    coord[inner] += rng.uniform(-0.05, 0.05, (int(inner.sum()), 3))
    mesh.coord = coord
    if abs(mesh.volume - 1.0) > 1e-12:
        raise Unsupported("the warped mesh does not tile the unit cube")
    pts = rng.uniform(0.02, 0.98, (1500, 3))
    f = lambda P_: 1 + P_[:, 0] + 2 * P_[:, 1] - 3 * P_[:, 2]
    val = np.ravel(mesh.Evaluate_dofsValues_at_coordinates(pts, f(coord)))
    err = np.abs(val - f(pts))
    nbad = int((err > 1e-5).sum())
    if nbad:
        k = int(np.argmax(err))
        raise Refuted(f"{et} mesh with non-planar element faces: {nbad} of {len(pts)} interior points are wrong for a linear field ({int((val[err > 1e-5] == 0).sum())} evaluated as exactly 0, i.e. "
                      f"found in no element); e.g. at {np.round(pts[k], 4).tolist()}: {val[k]:.6g} instead of {f(pts[k:k+1])[0]:.6g}", cex=dict(elemType=et, point=pts[k].tolist()), signature=f"locate:warped:{et}",
                      replay=dict(confirmed=True, wrong=nbad))
    return Verdict(DISCHARGED, backend="native", detail=f"{len(pts)} points")


def ob_normals2d_tilted(et):
    """boundary segments of a plane mesh rotated out of the (x, y) plane: their normals lie in the plane of the surface, close the contour (the integral of the normal vanishes)
    and the flux of the position vector gives +-2 x area, as they do before the rotation."""
    from EasyFEA import ElemType
    from EasyFEA.FEM._utils import MatrixType
    from EasyFEA.Geoms import Points, Point
    mesh = Points([Point(0, 0), Point(3, 0.5), Point(3.5, 2), Point(1, 2.5)], 0.8).Mesh_2D([], ElemType[et])
    area = float(mesh.area)

    def contour(m):
        tot, flux, inplane = np.zeros(3), 0.0, 0.0
        nsurf = np.asarray(m.groupElem.Get_normals_e_pg(MatrixType.mass)).reshape(-1, 3)[0]
        for g in m.Get_list_groupElem(1):
            nrm = np.asarray(g.Get_normals_e_pg(MatrixType.mass))
            wJ = np.asarray(g.Get_weightedJacobian_e_pg(MatrixType.mass))
            xg = np.asarray(g.Get_GaussCoordinates_e_pg(MatrixType.mass))
            tot += np.einsum("ep,epi->i", wJ, nrm)
            flux += float(np.einsum("ep,epi,epi->", wJ, nrm, xg))
            inplane = max(inplane, float(np.abs(nrm.reshape(-1, 3) @ nsurf).max()))
        return tot, flux, inplane
    t0, f0, _ = contour(mesh)
    if np.abs(t0).max() > 1e-10 or abs(abs(f0) - 2 * area) > 1e-9:
        raise Unsupported("contour normals of the untilted mesh do not close")
    mesh.Rotate(40.0, (0, 0, 0), (1, 0.3, 0))
    t1, f1, ip = contour(mesh)
    if np.abs(t1).max() > 1e-9 or abs(abs(f1) - 2 * area) > 1e-8 or ip > 1e-9:
        raise Refuted(f"{et} plane mesh rotated out of the (x, y) plane: integral of the boundary normal {np.round(t1, 5).tolist()} (expected 0), |flux| / 2 = {abs(f1) / 2:.5f} (area {area:.5f}), largest component of a "
                      f"boundary normal along the surface normal {ip:.3f} (expected 0)", cex=dict(elemType=et), signature="normals2d:tilted", replay=dict(confirmed=True, integral=t1.tolist(), flux=f1, out_of_plane=ip))
    return Verdict(DISCHARGED, backend="native")


def ob_locate_distorted(et):
    """Hand-built non-parallelogram QUAD / planar-faced non-parallelepiped HEXA patches: polynomial reproduction at images of reference points."""
    rng = np.random.default_rng(5)
    if et.startswith("QUAD"):
        corners = [[0, 0, 0], [2, 0, 0], [2.6, 1.7, 0], [0.2, 1.0, 0], [4, 0.3, 0], [4.2, 2.2, 0]]
        cells = [[0, 1, 2, 3], [1, 4, 5, 2]]
        base = "QUAD4"
    else:
        # frustum-like hexahedra: top face is a scaled + shifted copy of the bottom face (planar faces, non-parallel sides)
        bot = [[0, 0, 0], [2, 0, 0], [2, 1.5, 0], [0, 1.5, 0], [4, 0, 0], [4, 1.5, 0]]
        top = [[0.3 + 0.7 * x, 0.2 + 0.8 * y, 1.2] for x, y, _ in bot]
        corners = bot + top
        cells = [[0, 1, 2, 3, 6, 7, 8, 9], [1, 4, 5, 2, 7, 10, 11, 8]]
        base = "HEXA8"
    corners = np.array(corners, float)
    ref, inst = _ref(et)
    refb, instb = _ref(base)
    dim = _dim(et)
    Nb = instb._N()
    loc = np.array([[float(v) for v in p[:dim]] for p in ref])
    coords, connect, key = [], [], {}
    for cell in cells:
        row = []
        Nv = np.array([[float(Nb[k, 0](*xi)) for k in range(len(refb))] for xi in loc])
        xs = Nv @ corners[cell]
        for x in xs:
            kx = tuple(np.round(x, 9))
            if kx not in key:
                key[kx] = len(coords)
                coords.append(x)
            row.append(key[kx])
        connect.append(row)
    coords = np.array(coords)
    order = 1 if et in SERENDIPITY else ORDER[et]
    f = _poly_fn(order, dim, rng)
    for flip in (False, True):
        co = coords.copy()
        if flip:
            co[:, 0] *= -1
        mesh = patches.real_mesh(et, co.tolist(), connect)
        g = mesh.groupElem
        Nf = g._N()
        q = []
        for e in range(2):
            for _ in range(7):
                xi = rng.uniform(-0.95, 0.95, dim)
                q.append(g._Eval_Functions(Nf, xi[None])[0, 0] @ co[connect[e]])
            q.append(co[connect[e][0]])
            q.append(0.5 * (co[connect[e][0]] + co[connect[e][1]]))
        q = np.array(q)
        v = np.asarray(mesh.Evaluate_dofsValues_at_coordinates(q, f(co))).ravel()
        want = f(q)
        err = float(np.abs(v - want).max() / np.abs(want).max())
        if err > 1e-6:
            raise Refuted(f"{et} non-parallelogram patch ({'mirrored' if flip else 'plain'}): degree-{order} polynomial evaluated at located points with relative error {err:.3e} "
                          f"(inverse isoparametric map)", cex=dict(elemType=et, mirrored=flip), signature=f"locate:distorted:{et}", replay=dict(confirmed=True, err=err))
    return Verdict(DISCHARGED, backend="native run on hand-built distorted patches")


def ob_points_in_elem(et):
    """Get_pointsInElem on one element with small-integer coordinates against exact rational containment, for every lattice point of a box around it
    (interior, faces, edges, vertices, outside), both orientations."""
    ref, inst = _ref(et)
    dim = _dim(et)
    Aint = {2: [[4, 1, 0], [-1, 3, 0], [0, 0, 1]], 3: [[4, 1, 0], [-1, 3, 1], [1, 0, 4]]}[dim]
    scale = 2 if et.startswith(("QUAD", "HEXA")) or et.startswith("PRISM") else 4
    n = 0
    for flip in (False, True):
        co = [[sum(F(Aint[i][j]) * p[j] for j in range(3)) * scale for i in range(3)] for p in ref]
        if flip:
            co = [[-p[0], p[1], p[2]] for p in co]
        cof = np.array([[float(v) for v in p] for p in co])
        g = common.real_group(et, np.arange(len(co))[None], cof)
        lo, hi = np.floor(cof.min(0)).astype(int) - 1, np.ceil(cof.max(0)).astype(int) + 1
        rng = [range(lo[d], hi[d] + 1) if d < dim else [0] for d in range(3)]
        pts = np.array(list(itertools.product(*rng)), dtype=float)
        idx = set(int(i) for i in g.Get_pointsInElem(pts, 0))
        # exact containment: solve the affine map back to the reference element
        M = [[F(Aint[i][j]) * scale * (-1 if (flip and i == 0) else 1) for j in range(dim)] for i in range(dim)]
        import sympy as sp
        Minv = sp.Matrix(M).inv()
        for k, p in enumerate(pts):
            xi = Minv * sp.Matrix([sp.Rational(int(p[d])) for d in range(dim)])
            xi = [F(int(v.p), int(v.q)) for v in xi]
            if et.startswith("TRI"):
                inside = xi[0] >= 0 and xi[1] >= 0 and xi[0] + xi[1] <= 1
            elif et.startswith("QUAD"):
                inside = all(-1 <= v <= 1 for v in xi)
            elif et.startswith("TETRA"):
                inside = all(v >= 0 for v in xi) and sum(xi) <= 1
            elif et.startswith("HEXA"):
                inside = all(-1 <= v <= 1 for v in xi)
            else:
                inside = xi[0] >= 0 and xi[1] >= 0 and xi[0] + xi[1] <= 1 and -1 <= xi[2] <= 1
            n += 1
            if inside != (k in idx):
                raise Refuted(f"{et} ({'mirrored' if flip else 'positively oriented'}): Get_pointsInElem says point {p.tolist()} is {'inside' if k in idx else 'outside'}, exact containment says "
                              f"{'inside' if inside else 'outside'} (reference coordinates {[str(v) for v in xi]})", cex=dict(point=p.tolist(), mirrored=flip), signature=f"pointsInElem:{et}:{flip}",
                              replay=dict(confirmed=True))
    return Verdict(DISCHARGED, backend="native Get_pointsInElem vs exact rational containment on lattice points", sub=n)


def ob_projector(et):
    from EasyFEA import Mesher, ElemType
    from EasyFEA.FEM import Calc_projector
    from EasyFEA.Geoms import Domain, Point
    import contextlib, io
    dim = _dim(et)
    dom = lambda h: Domain(Point(0, 0), Point(2, 1), h)
    if dim == 2:
        old, new = Mesher().Mesh_2D(dom(0.5), [], ElemType[et]), Mesher().Mesh_2D(dom(0.23), [], ElemType[et])
    else:
        old, new = Mesher().Mesh_Extrude(dom(0.5), [], [0, 0, 1], [2], ElemType[et]), Mesher().Mesh_Extrude(dom(0.3), [], [0, 0, 1], [3], ElemType[et])
    with contextlib.redirect_stdout(io.StringIO()):
        P = Calc_projector(old, new)
    f = lambda x: 7 + 2 * x[:, 0] - 3 * x[:, 1] + 0.5 * x[:, 2]
    got = P @ f(np.asarray(old.coord))
    want = f(np.asarray(new.coord))
    err = float(np.abs(got - want).max())
    rows = np.asarray(P.sum(axis=1)).ravel()
    if err > 1e-6 or np.abs(rows - 1).max() > 1e-6:
        raise Refuted(f"{et}: Calc_projector does not reproduce a linear field (error {err:.3e}; row sums in [{rows.min():.6f}, {rows.max():.6f}])", signature=f"projector:{et}",
                      replay=dict(confirmed=True, err=err))
    return Verdict(DISCHARGED, backend="native run", detail=f"err {err:.1e}")


# ---------------------------------------------------------------- build

def build(tier, seed):
    obs = []
    thorough = tier == "thorough"
    for et in TYPES_1D + TYPES_2D + TYPES_3D:
        obs.append(Ob(f"C08.origin.{et}", ob_origin, (et,), "P", (f"EasyFEA/FEM/Elems::{et}.origin", f"EasyFEA/FEM/Elems::{et}._N"), clause="N_i(origin) == delta_i0"))
    for et in TYPES_3D:
        obs.append(Ob(f"C08.faces.{et}", ob_faces, (et, False), "P", (f"EasyFEA/FEM/Elems::{et}.faces", f"{GE}::_GroupElem.Get_normals_e_pg"),
                      clause="faces table: outward real normals, closure == 0, flux == 3V on the reference element", timeout=600))
        if thorough or et in ("TETRA4", "HEXA8", "PRISM6"):
            obs.append(Ob(f"C08.faces.{et}.mapped", ob_faces, (et, True), "P", (f"EasyFEA/FEM/Elems::{et}.faces", f"{GE}::_GroupElem.Get_normals_e_pg"),
                          clause="same on an affinely mapped element (det > 0)", timeout=900))
    for et in TYPES_2D + TYPES_3D:
        obs.append(Ob(f"C08.surfaces.{et}", ob_surfaces, (et,), "P", (f"EasyFEA/FEM/Elems::{et}.surfaces",), clause="surfaces rows: outward supporting planes == faces (3-D); ccw contour of the whole element (2-D)"))
    for et in ["SEG2", "SEG3", "TRI3", "TRI6", "QUAD4", "QUAD8", "QUAD9"] + (["SEG4", "TRI10"] if thorough else []):
        obs.append(Ob(f"C08.normal.rule.{et}", ob_normal_rule, (et,), "P", (f"{GE}::_GroupElem.Get_normals_e_pg",),
                      clause="unit, orthogonal to tangents, right-handed w.r.t. node order, n(Rx+t) == R n(x)", timeout=900))
    obs.append(Ob("C08.normal.mirror", ob_normal_mirror, ("TRI3",), "P", (f"{GE}::_GroupElem.Get_normals_e_pg", "EasyFEA/FEM/_mesh.py::Mesh.Symmetry"), clause="n(Sx) == S n(x) for reflections S", timeout=600))
    for et in TYPES_1D + TYPES_2D + TYPES_3D:
        heavy = et in ("HEXA20", "HEXA27", "PRISM15", "PRISM18", "TETRA10", "TRI15", "TRI10")
        for orient in (1, -1):
            if heavy and not thorough and orient == -1:
                continue
            obs.append(Ob(f"C08.measure.affine.{et}.{'pos' if orient > 0 else 'neg'}", ob_measure_affine, (et, orient), "P",
                          (f"{GE}::_GroupElem.Get_F_e_pg", f"{GE}::_GroupElem.Get_jacobian_e_pg", f"{GE}::_GroupElem.Integrate_e"),
                          clause="measure == |det A| * reference measure for symbolic A; wJ > 0", timeout=1800))
    obs.append(Ob("C08.measure.general.QUAD4", ob_measure_quad4, (), "P", (f"{GE}::_GroupElem.area",), clause="area == |shoelace| for symbolic node coordinates", timeout=900))
    obs.append(Ob("C08.measure.general.HEXA8", ob_measure_hexa8, (seed,), "B", (f"{GE}::_GroupElem.volume",), bound="3 rational hexahedra", clause="volume == exact integral of det J", timeout=900))
    for kind in ("translate", "rotate", "symmetry"):
        obs.append(Ob(f"C08.motion.{kind}", ob_motion, (kind,), "P", (f"{GU}::{kind.capitalize()}",), clause="isometry; Rotate proper with fixed axis; Symmetry involutive", timeout=600))
    # ---- X
    for et in TYPES_2D + TYPES_3D:
        if not thorough and et in ("TRI15", "HEXA27", "PRISM18", "HEXA20", "TRI10"):
            continue
        obs.append(Ob(f"C08.gmsh.measure.{et}", ob_gmsh_measure, (et, seed % 5, _dim(et) == 2), "X", ("EasyFEA/FEM/_mesh.py::Mesh.area", "EasyFEA/FEM/_mesh.py::Mesh.volume", "EasyFEA/FEM/_mesh.py::Mesh.center"),
                      bound="one seeded random polygon", clause="area/volume/perimeter/surface/centre == closed forms, before and after Translate/Rotate/Symmetry (and tilt)", timeout=900))
    if thorough:
        for s in range(1, 6):
            for et in ("TRI3", "QUAD4", "TRI6", "TETRA4", "PRISM6"):
                obs.append(Ob(f"C08.gmsh.measure.{et}.s{s}", ob_gmsh_measure, (et, s, _dim(et) == 2 and s % 2 == 0), "X", ("EasyFEA/FEM/_mesh.py::Mesh.area",), bound="one seeded random polygon",
                              clause="measures == closed forms under motions", timeout=900))
    for et in ("TRI3", "QUAD4", "TRI6") + (("QUAD8", "QUAD9", "TRI10") if thorough else ()):
        obs.append(Ob(f"C08.gmsh.normals2d.closure.{et}", ob_gmsh_normals2d_closure, (et, 1), "X", (f"{GE}::_GroupElem.Get_normals_e_pg",), bound="one polygon, with and without hole",
                      clause="integral of boundary normals == 0; |flux| == 2 area (consistent orientation), under motions", timeout=900))
    obs.append(Ob("C08.gmsh.normals2d.outward", ob_gmsh_normals2d_outward, (), "X", (f"{GE}::_GroupElem.Get_normals_e_pg", "EasyFEA/FEM/_mesher.py::Mesher.Mesh_2D"), bound="one polygon",
                  clause="flux of x through boundary normals == + 2 area", timeout=600))
    obs.append(Ob("C08.gmsh.normals3d.closure", ob_gmsh_normals3d_closure, (), "X", (f"{GE}::_GroupElem.Get_normals_e_pg", "EasyFEA/FEM/_mesher.py::Mesher.Mesh_Extrude"), bound="one prism",
                  clause="integral of boundary-surface normals == 0 and flux == 3V", timeout=600))
    for et in TYPES_3D:
        if not thorough and et in ("HEXA27", "PRISM18", "HEXA20"):
            continue
        obs.append(Ob(f"C08.recon.{et}", ob_recon, (et,), "X", ("EasyFEA/Utilities/MeshIO.py::Surface_reconstruction",), bound="one prism mesh",
                      clause="reconstructed boundary: closure, flux == 3V, area exact; also after Translate / Rotate", timeout=900))
    obs.append(Ob("C08.recon.mirror", ob_recon_mirror, (), "X", ("EasyFEA/Utilities/MeshIO.py::Surface_reconstruction", "EasyFEA/FEM/_mesh.py::Mesh.Symmetry"), bound="one prism mesh",
                  clause="reconstructed boundary stays outward after Symmetry", timeout=600))
    for et in ("TRI3", "QUAD4", "TRI6") + (("QUAD8", "QUAD9") if thorough else ()):
        obs.append(Ob(f"C08.embedded.{et}", ob_embedded, (et, 2), "X", (f"{GE}::_GroupElem._Get_sysCoord_e", f"{GE}::_GroupElem.Get_F_e_pg"), bound="one tilted polygon mesh",
                      clause="embedded surface: area kept, normals consistently +-R ez", timeout=600))
    for et in TYPES_2D + TYPES_3D:
        hows = ["plain", "mirror"] + (["rotate", "translate"] if thorough or et in ("TRI3", "QUAD4", "TETRA4", "HEXA8") else []) + (["tilt", "lift"] if _dim(et) == 2 and (thorough or et in ("TRI3", "QUAD4", "TRI6")) else [])
        if not thorough and et in ("TRI15", "HEXA27", "PRISM18", "HEXA20"):
            hows = ["plain"]
        for how in hows:
            obs.append(Ob(f"C08.locate.{et}.{how}", ob_locate, (et, how, 3), "X", (f"{GE}::_GroupElem._Get_Mapping", f"{GE}::_GroupElem.Get_pointsInElem", "EasyFEA/FEM/_mesh.py::Mesh.Evaluate_dofsValues_at_coordinates"),
                          bound="one gmsh mesh of a non-parallelogram polygon, 24 queries", clause="polynomial of the element order reproduced (1e-6) at interior / edge / node queries, batch and single",
                          timeout=1200))
    for et, organised in (("TETRA4", True), ("TETRA4", False), ("TRI3", False), ("QUAD4", True), ("HEXA8", True), ("PRISM6", True)) + ((("TETRA10", True), ("TRI6", False), ("PRISM6", False)) if thorough else ()):
        obs.append(Ob(f"C08.locate.dense.{et}.{'structured' if organised else 'unstructured'}", ob_locate_dense, (et, organised), "X", (f"{GE}::_GroupElem._Get_nearby_elements", f"{GE}::_GroupElem._Get_Mapping"),
                      bound="one box mesh (64-800 elements), up to 350 special query points + 800 random interior points", timeout=1200,
                      clause="points on edges / diagonals / element centres, queried singly and in a batch, are located and a linear field is reproduced (1e-6)"))
    for et, organised, S in (("TRI3", False, 1e4), ("TRI3", False, 1e6), ("QUAD4", True, 1e4), ("TETRA4", False, 1e4), ("TRI3", False, 1e-4), ("HEXA8", True, 1e5)):
        obs.append(Ob(f"C08.locate.scaled.{et}.L{S:g}", ob_locate_dense, (et, organised, S), "X", (f"{GE}::_GroupElem.Get_pointsInElem", f"{GE}::_GroupElem._Get_coord_Near"),
                      bound="one box mesh of side L (64-800 elements), up to 350 special query points + 800 random interior points", timeout=1200,
                      clause="point location does not depend on the unit of length: points on edges / diagonals / centres of a mesh of side L are located, a linear field is reproduced"))
    for et, S in (("QUAD4", 1e-3), ("QUAD4", 1e-5), ("QUAD4", 1e4), ("HEXA8", 1e-3), ("TRI6", 1e-3)):
        obs.append(Ob(f"C08.locate.unit.{et}.L{S:g}", ob_locate, (et, "plain", 3, S), "X", (f"{GE}::_GroupElem._Get_Mapping", f"{GE}::_GroupElem.Get_pointsInElem"),
                      bound="one gmsh mesh of a non-parallelogram polygon with its coordinates multiplied by L, 24 queries", timeout=1200,
                      clause="the inverse map of general (non-parallelogram) elements does not depend on the unit of length: polynomial of the element order reproduced (1e-6 relative)"))
    for et, organised in (("TRI3", False), ("TETRA4", False), ("QUAD4", True)):
        obs.append(Ob(f"C08.locate.far.{et}", ob_locate_dense, (et, organised, 1.0, (3e5, -2e5, 1e5)), "X", (f"{GE}::_GroupElem.Get_pointsInElem", f"{GE}::_GroupElem._Get_coord_Near"),
                      bound="one unit box mesh turned by 33 degrees and carried to (3e5, -2e5, 1e5), up to 350 special query points + 800 random interior points", timeout=1200,
                      clause="point location does not depend on where the mesh lies: points on edges / diagonals / centres of a mesh far from the origin are located, a linear field is reproduced"))
    for et in ("TRI3", "QUAD4", "TRI6"):
        obs.append(Ob(f"C08.locate.pixels.{et}", ob_locate_pixels, (et,), "X", (f"{GE}::_GroupElem._Get_coord_Near", "EasyFEA/FEM/_mesh.py::Mesh.Evaluate_dofsValues_at_coordinates"),
                      bound="5 x 5 integer grids on a 4 x 4 domain, two origins, two listing orders", clause="integer-typed query points are located like the same points given as floats", timeout=600))
    for ang in (25.0, 10.0):
        obs.append(Ob(f"C08.locate.twisted.HEXA8.{ang:g}", ob_locate_twisted, (ang,), "X", (f"{GE}::_GroupElem._Get_Mapping",), bound="one twisted hexahedron, 40 interior points", timeout=300,
                      clause="a general hexahedron is not taken for an affine one because its Jacobian determinant coincides at the Gauss points: a linear field is reproduced at the located points"))
    for et in ("HEXA8", "PRISM6"):
        obs.append(Ob(f"C08.locate.warped.{et}", ob_locate_warped, (et,), "X", (f"{GE}::_GroupElem.Get_pointsInElem",), bound="one 64 / 128-element box mesh with perturbed interior nodes, 1500 points", timeout=1200,
                      clause="points inside general elements with non-planar faces are located; a linear field is reproduced"))
    obs.append(Ob("C08.gmsh.normals2d.tilted", ob_normals2d_tilted, ("TRI3",), "X", (f"{GE}::_GroupElem.Get_normals_e_pg",), bound="one quadrilateral domain, one rotation", timeout=600,
                  clause="boundary normals of a plane mesh moved out of the (x, y) plane stay in the plane of the surface and close the contour"))
    for et in ("QUAD4", "QUAD8", "QUAD9", "HEXA8") + (("HEXA20", "HEXA27") if thorough else ()):
        obs.append(Ob(f"C08.locate.distorted.{et}", ob_locate_distorted, (et,), "X", (f"{GE}::_GroupElem._Get_Mapping",), bound="2-element distorted patch, both orientations",
                      clause="inverse isoparametric map on non-parallelogram elements", timeout=1200))
    for et in ("TRI3", "QUAD4", "TETRA4", "HEXA8", "PRISM6") + (("TRI6", "QUAD8", "TETRA10", "HEXA20", "PRISM15") if thorough else ()):
        obs.append(Ob(f"C08.pointsInElem.{et}", ob_points_in_elem, (et,), "X", (f"{GE}::_GroupElem.Get_pointsInElem",), bound="lattice points around one integer-coordinate element, both orientations",
                      clause="containment == exact rational containment (closed element)", timeout=900))
    for et in ("TRI3", "QUAD4", "TETRA4"):
        obs.append(Ob(f"C08.projector.{et}", ob_projector, (et,), "X", ("EasyFEA/FEM/_mesh.py::Calc_projector",), bound="one coarse/fine mesh pair", clause="projector reproduces linear fields, rows sum to 1", timeout=900))
    obs.append(Ob("canary.faces", ob_faces_canary, (), "P", expect=REFUTED))
    obs.append(Ob("canary.motion", ob_motion_canary, (), "P", expect=REFUTED))
    obs += ops.normals_obligations('C08', tier)
    obs.append(ops.selfcheck_ob('C08'))
    return dict(
        obs=obs, level="other", min_obligations=60,
        explanation=("Element tables (origin, faces, surfaces) are decided exactly from the extracted element files; the real normal, jacobian and measure code is run on exact "
                     "rational / symbolic coordinates (every affine image with a symbolic matrix, both orientations; general QUAD4 with symbolic nodes); the rigid motions of "
                     "Geoms are decided from the AST as isometries. gmsh meshes, point location (KD-tree, least squares) and the projector are outside the exact domain and are "
                     "checked by run-time contracts on native runs (bounded, not counted as proved)."),
        trusted_base=ops.GP_TRUST + ["numpy model (npshim) and exact field arithmetic (sympy)", "quadrature tables read as exact rationals (2^-40 slack on identities that involve weights)",
                      "gmsh, scipy.spatial.KDTree, scipy.optimize.least_squares (external)"],
        assumptions=["serendipity elements (QUAD8, HEXA20, PRISM15) only reproduce linear polynomials on non-affine elements (mathematical limit of the element, not of the code)",
                     "hexahedra in the location checks have planar faces; curved elements are out of the property's scope (polygons / polyhedra)",
                     "inverse-map accuracy is scipy least_squares' default tolerance: 1e-6 relative is asserted"],
        functions={"Get_normals_e_pg": extract.get(GE, "_GroupElem.Get_normals_e_pg").describe(), "Get_pointsInElem": extract.get(GE, "_GroupElem.Get_pointsInElem").describe(),
                   "_Get_Mapping": extract.get(GE, "_GroupElem._Get_Mapping").describe(), "Get_F_e_pg": extract.get(GE, "_GroupElem.Get_F_e_pg").describe(),
                   "Rotate": extract.get(GU, "Rotate").describe(), "Symmetry": extract.get(GU, "Symmetry").describe()},
        dropped=["P obligations on element tables: D1-D5; real-code runs: only the module global `np`, Gauss tables and shape-function tables are replaced (symrun)"],
    )
