"""C15 -- saved iterations restore exactly what was saved.

E-tier (AST, all histories by induction over operations):
  C15.fresh.getters      _Get_u_n / _Get_v_n / _Get_a_n return copies (returns_fresh)
  C15.get_results.pure   Get_results writes nothing on self and returns a copy of the in-memory entry
  C15.save.pinned        Save_Iter copies the caller's dict, appends (never rewrites) the history, pins dict-vs-path at write time
  C15.keys[sim]          per simulation class: keys read by Set_Iter from the stored dict are written by Save_Iter
X-tier (bounded histories, native floats, run-time contracts):
  C15.roundtrip[sim,mode] solve/save twice (hyperbolic where offered), change the folder in between, restore iteration 0:
                         u, v, a (and internal variables) equal what was current at save time; Get_results alters nothing;
                         later solves do not alter stored iterations; results queried for iteration i equal those obtained then
  C15.saveload.elastic   Save / Load_Simu round trip: same mesh coordinates, history length and stored fields
"""
from __future__ import annotations

import ast
import copy
import os
import shutil
import tempfile

import itertools

import numpy as np

from vt import eff, extract
from vt.core import Ob, Verdict, Refuted, Unsupported, DISCHARGED, REFUTED
from . import patches

PROP = "C15"
SIMU = "EasyFEA/Simulations/_simu.py"
SIMS = {
    "Elastic": "EasyFEA/Simulations/_elastic.py", "Thermal": "EasyFEA/Simulations/_thermal.py", "Beam": "EasyFEA/Simulations/_beam.py",
    "PhaseField": "EasyFEA/Simulations/_phasefield.py", "InElastic": "EasyFEA/Simulations/_inelastic.py",
    "HyperElastic": "EasyFEA/Simulations/_hyperelastic.py", "WeakForms": "EasyFEA/Simulations/_weakforms.py",
}


# ---------------------------------------------------------------- E-tier

def ob_fresh_getters():
    n = 0
    for g in ("_Get_u_n", "_Get_v_n", "_Get_a_n"):
        fn = extract.get(SIMU, f"_Simu.{g}")
        field = {"_Get_u_n": "__dict_u_n", "_Get_v_n": "__dict_v_n", "_Get_a_n": "__dict_a_n"}[g]
        # every `return` must return a name bound to `<self.field[...]>.copy()` or a fresh constructor call
        bound_fresh = set()
        for node in ast.walk(fn.node):
            if isinstance(node, ast.Assign) and len(node.targets) == 1 and isinstance(node.targets[0], ast.Name):
                src = ast.unparse(node.value)
                if src == f"self.{field}[problemType].copy()":
                    bound_fresh.add(node.targets[0].id)
        for node in ast.walk(fn.node):
            if isinstance(node, ast.Return):
                n += 1
                v = node.value
                ok = (isinstance(v, ast.Name) and v.id in bound_fresh) or (isinstance(v, ast.Call) and "csr_matrix" in ast.unparse(v.func))
                if not ok:
                    raise Refuted(f"_Simu.{g} returns `{ast.unparse(v)}`, not a copy of the stored vector", signature=f"fresh:{g}", replay=_replay_getter(g))
        if not bound_fresh:
            raise Refuted(f"_Simu.{g} never copies the stored vector", signature=f"fresh:{g}", replay=_replay_getter(g))
    return Verdict(DISCHARGED, backend="AST (syntactic form of every return)", sub=n)


def _replay_getter(g):
    try:
        simu = _mk("Elastic")
        a = getattr(simu, g)(simu.problemType)
        a[:] = 7.0
        b = getattr(simu, g)(simu.problemType)
        return dict(confirmed=bool(np.any(b == 7.0)), note="write through the returned array, read again")
    except Exception as e:
        return dict(confirmed=False, error=repr(e))


def ob_get_results_pure():
    fn = extract.get(SIMU, "_Simu.Get_results")
    n = 0
    for p in eff.paths(fn):
        n += 1
        st = [e for e in p if e[0] in ("store", "augstore", "itemstore") and e[1].startswith("self.")]
        if st:
            raise Refuted(f"Get_results writes simulation state: {st}", signature="get_results:pure", replay=dict(confirmed=False))
        calls = [e[1] for e in p if e[0] == "call"]
        if ("branch", "isinstance(entry, str)", False) in p and "entry.copy" not in calls:
            raise Refuted("Get_results returns the stored in-memory dict itself (not a copy)", signature="get_results:copy", replay=_replay_get_results())
        bad = [c for c in calls if c.startswith("self.") and c.split(".")[1] in ("Set_Iter", "_Set_solutions", "_Simu__Update_mesh", "Need_Update")]
        if bad:
            raise Refuted(f"Get_results calls a mutator: {bad}", signature="get_results:pure", replay=dict(confirmed=False))
    return Verdict(DISCHARGED, backend="AST path analysis", sub=n)


def _replay_get_results():
    try:
        simu = _mk("Elastic")
        simu.Solve(); simu.Save_Iter()
        r = simu.Get_results(0)
        r["displacement"] = None
        return dict(confirmed=simu.Get_results(0)["displacement"] is None)
    except Exception as e:
        return dict(confirmed=False, error=repr(e))


def ob_save_pinned():
    fn = extract.get(SIMU, "_Simu.Save_Iter")
    n = 0
    for p in eff.paths(fn):
        n += 1
        calls = [(e[1], e[2]) for e in p if e[0] == "call"]
        if not any(c == "self._Simu__list_results.append" for c, _ in calls):
            raise Refuted("Save_Iter has a path that does not append to the history", signature="save:append", replay=dict(confirmed=False))
        if [e for e in p if e[0] in ("itemstore", "store") and e[1] == "self._Simu__list_results"]:
            raise Refuted("Save_Iter rewrites the history list (earlier entries are not pinned)", signature="save:pinned", replay=dict(confirmed=False))
        if not [e for e in p if e[0] == "augstore" and e[1] == "self._Simu__Niter"]:
            raise Refuted("Save_Iter has a path that does not advance Niter", signature="save:niter", replay=dict(confirmed=False))
        mem = ("branch", "self.folder == ''", True) in p
        arg = [a for c, a in calls if c == "self._Simu__list_results.append"][0]
        if mem and arg != "iter":
            raise Refuted(f"in-memory mode stores `{arg}`", signature="save:mem", replay=dict(confirmed=False))
        if not mem and arg != "path":
            raise Refuted(f"folder mode stores `{arg}`", signature="save:path", replay=dict(confirmed=False))
    # the iteration remembers the mesh the simulation is ON (not the newest mesh of the history)
    ok_idx = False
    for node in ast.walk(fn.node):
        if isinstance(node, ast.Assign) and len(node.targets) == 1 and isinstance(node.targets[0], ast.Subscript) \
                and isinstance(node.targets[0].slice, ast.Constant) and node.targets[0].slice.value == "indexMesh":
            ok_idx = ast.unparse(node.value) == "self.__indexMesh"
            if not ok_idx:
                raise Refuted(f"Save_Iter stores `{ast.unparse(node.value)}` as the iteration's mesh index, expected the current mesh index self.__indexMesh",
                              signature="save:indexMesh", replay=_replay_multimesh())
    if not ok_idx:
        raise Refuted("Save_Iter does not record the mesh index of the iteration", signature="save:indexMesh", replay=_replay_multimesh())
    src = ast.unparse(fn.node)
    if "iter.copy()" not in src:
        raise Refuted("Save_Iter does not copy the caller's dict", signature="save:copy", replay=dict(confirmed=False))
    return Verdict(DISCHARGED, backend="AST path analysis", sub=n)


def _keys(fn, var_names, kind):
    """string keys used as  <var>[key] = ...  (kind='store')  or read  <var>[key] / <var>.get(key)  (kind='load')."""
    out = set()
    for node in ast.walk(fn.node):
        if isinstance(node, ast.Subscript) and isinstance(node.value, ast.Name) and node.value.id in var_names and isinstance(node.slice, ast.Constant) \
                and isinstance(node.slice.value, str):
            if (kind == "store") == isinstance(node.ctx, ast.Store):
                out.add(node.slice.value)
        if kind == "load" and isinstance(node, ast.Call) and isinstance(node.func, ast.Attribute) and node.func.attr == "get" and isinstance(node.func.value, ast.Name) \
                and node.func.value.id in var_names and node.args and isinstance(node.args[0], ast.Constant):
            out.add(node.args[0].value)
    return out


def ob_keys(sim, canary=False):
    path = SIMS[sim]
    save = extract.get(path, f"{sim}.Save_Iter")
    seti = extract.get(path, f"{sim}.Set_Iter")
    base = extract.get(SIMU, "_Simu.Save_Iter")
    written = _keys(save, {"iter"}, "store") | _keys(base, {"iter"}, "store")
    read = _keys(seti, {"results"}, "load") | ({"__canary_key__"} if canary else set())
    # keys addressed through a variable (e.g. results[damageType]) are resolved for the phase-field problem types
    missing = sorted(read - written)
    if missing:
        raise Refuted(f"{sim}.Set_Iter reads keys {missing} that {sim}.Save_Iter never writes", cex=dict(missing=missing), signature=f"keys:{sim}",
                      replay=dict(confirmed=False))
    if not written:
        raise Unsupported("no key written (vacuous)")
    return Verdict(DISCHARGED, backend="AST", sub=len(read), detail=f"written {sorted(written)}, read {sorted(read)}")


# ---------------------------------------------------------------- X-tier: bounded histories

def _mk(sim, variant=None):
    from EasyFEA import Models, Simulations
    if sim == "Elastic":
        coords, connect = patches.star_patch("QUAD4")
        mesh = patches.real_mesh("QUAD4", coords, connect)
        s = Simulations.Elastic(mesh, Models.Elastic.Isotropic(2, E=3.0, v=0.25, planeStress=True, thickness=1.0))
    elif sim == "Thermal":
        coords, connect = patches.star_patch("TRI3")
        mesh = patches.real_mesh("TRI3", coords, connect)
        s = Simulations.Thermal(mesh, Models.Thermal(k=1.5, c=0.8))
    elif sim == "Beam":
        from EasyFEA import Mesher, ElemType
        from EasyFEA.Geoms import Domain, Point, Line
        sect = Mesher().Mesh_2D(Domain(Point(), Point(0.1, 0.1)))
        beam = Models.Beam.Isotropic(2, Line(Point(), Point(2.0)), sect, 210e3, v=0.3)
        structure = Models.Beam.BeamStructure([beam])
        mesh = Mesher().Mesh_Beams([beam], elemType=ElemType.SEG2)
        s = Simulations.Beam(mesh, structure)
    elif sim == "PhaseField":
        coords, connect = patches.star_patch("QUAD4")
        mesh = patches.real_mesh("QUAD4", coords, connect)
        mat = Models.Elastic.Isotropic(2, E=3.0, v=0.25, planeStress=False)
        PF = Models.PhaseField
        kw = dict(solver=PF.SolverType[variant.split(".")[0]]) if variant and not variant.startswith("unload") else {}
        split = PF.SplitType.Bourdin if "Bourdin" in (variant or "") else PF.SplitType.Miehe
        s = Simulations.PhaseField(mesh, PF(mat, split, PF.ReguType.AT2, Gc=1.0, l0=0.5, **kw))
        s._vt_K_follows_d_only = split == PF.SplitType.Bourdin
    elif sim == "HyperElastic":
        coords, connect = patches.star_patch("QUAD4")
        mesh = patches.real_mesh("QUAD4", coords, connect)
        s = Simulations.HyperElastic(mesh, Models.HyperElastic.NeoHookean(2, K=50.0, thickness=1.0), verbosity=False)
    elif sim == "InElastic":
        coords, connect = patches.star_patch("QUAD4")
        mesh = patches.real_mesh("QUAD4", coords, connect)
        # a behaviour that really yields under the loads of _bc, so that internal variables exist and evolve
        IE = Models.InElastic
        s = Simulations.InElastic(mesh, IE.Behavior(2, Models.Elastic.Isotropic(3, E=3.0, v=0.25), yieldSurface=IE.Yield.VonMises(0.003), hardening=IE.IsotropicHardening.Linear(0.4),
                                                    kinematic=IE.KinematicHardening.ArmstrongFrederick(0.6, 5.0)))
    elif sim == "WeakForms":
        from EasyFEA.FEM import Field
        from contracts._wf_forms import computeK, computeC, computeM
        coords, connect = patches.star_patch("TRI3")
        mesh = patches.real_mesh("TRI3", coords, connect)
        field = Field(mesh.groupElem, 1)
        s = Simulations.WeakForms(mesh, Models.WeakForms(field, computeK, computeC, computeM))
    else:
        raise ValueError(sim)
    from EasyFEA import SolverType
    s.solver = SolverType.scipy
    return s


def _bc(s, sim, k):
    mesh = s.mesh
    co = np.asarray(mesh.coord)
    xmin, xmax = co[:, 0].min(), co[:, 0].max()
    n0 = np.where(np.isclose(co[:, 0], xmin))[0]
    n1 = np.where(np.isclose(co[:, 0], xmax))[0]
    if sim not in ("Thermal", "Beam", "WeakForms") and (len(n0) < 2 or len(n1) < 2):
        # sheared patches have a single left-most / right-most node: take the left and right quarter so that the loads really strain the patch
        W = xmax - xmin
        n0 = np.where(co[:, 0] <= xmin + 0.3 * W)[0]
        n1 = np.where(co[:, 0] >= xmax - 0.3 * W)[0]
    s.Bc_Init()
    if sim == "Thermal":
        s.add_dirichlet(n0, [0.0], ["t"])
        s.add_dirichlet(n1, [1.0 + k], ["t"])
    elif sim == "WeakForms":
        s.add_dirichlet(n0, [0.0], ["u"])
        s.add_dirichlet(n1, [1.0 + k], ["u"])
    elif sim == "Beam":
        s.add_dirichlet(n0, [0, 0, 0], ["x", "y", "rz"])
        s.add_neumann(n1, [-0.01 * (k + 1)], ["y"])
    elif sim == "PhaseField":
        s.add_dirichlet(n0, [0, 0], ["x", "y"])
        amp = {0: 0.30, 1: 0.05, 2: 0.15}.get(k, 0.05 * (k + 1)) if getattr(s, "_vt_unload", False) else 0.05 * (k + 1)
        s.add_dirichlet(n1, [amp], ["x"])
    else:
        s.add_dirichlet(n0, [0, 0], ["x", "y"])
        s.add_dirichlet(n1, [0.01 * (k + 1)], ["x"])


def _state(s):
    out = {}
    for pt in s.Get_problemTypes():
        out[f"u:{pt}"] = np.asarray(s._Get_u_n(pt)).copy()
        out[f"v:{pt}"] = np.asarray(s._Get_v_n(pt)).copy()
        out[f"a:{pt}"] = np.asarray(s._Get_a_n(pt)).copy()
    # committed internal variables of history-dependent materials
    z = getattr(s, "_InElastic__zOld", None)
    if isinstance(z, dict):
        for k, v in z.items():
            out[f"z:{k}"] = np.asarray(v).copy()
    # committed history field of the phase-field driving energy (the irreversibility memory of the History solver)
    h = getattr(s, "_PhaseField__old_psiP_e_pg", None)
    if h is not None and np.asarray(h).size:
        out["z:psiP"] = np.asarray(h).copy()
    return out


def _same(a, b, tol=0.0):
    if set(a) != set(b):
        return False, f"keys {sorted(set(a) ^ set(b))}"
    for k in a:
        x, y = np.asarray(a[k]), np.asarray(b[k])
        if x.shape != y.shape or not np.array_equal(x, y):
            return False, f"{k}: max diff {float(np.abs(x - y).max()) if x.shape == y.shape else 'shape'}"
    return True, ""


def _deep_results(s, i):
    r = s.Get_results(i)
    return {k: (copy.deepcopy(v)) for k, v in r.items()}


def _eq_results(a, b):
    if set(a) != set(b):
        return False, f"keys differ {sorted(set(a) ^ set(b))}"
    for k in a:
        x, y = a[k], b[k]
        if isinstance(x, np.ndarray):
            if not (isinstance(y, np.ndarray) and x.shape == y.shape and np.array_equal(x, y)):
                return False, k
        elif isinstance(x, dict):
            for kk in x:
                if not np.array_equal(np.asarray(x[kk]), np.asarray(y[kk])):
                    return False, f"{k}[{kk}]"
        elif isinstance(x, (list, tuple)):
            if len(x) != len(y):
                return False, k
        elif x != y:
            return False, k
    return True, ""


def _derived(s):
    """every advertised result of the current state (arrays and scalars)"""
    out = {}
    for name in s.Results_Available():
        try:
            v = s.Result(name)
        except Exception:
            continue
        if v is None:
            continue
        try:
            out[name] = np.asarray(v, dtype=float).copy()
        except (TypeError, ValueError):
            continue
    # the assembled system read through the public getter belongs to the restored state too (tangent matrix and residual of non-linear simulations)
    try:
        for nm, A in zip("KCMF", s.Get_K_C_M_F()):
            out[f"matrix:{nm}"] = np.asarray(A.toarray() if hasattr(A, "toarray") else A, dtype=float).copy()
    except Exception:
        pass
    return out


def _mats(s):
    out = {}
    try:
        for nm, A in zip("KCMF", s.Get_K_C_M_F()):
            out[f"matrix:{nm}"] = np.asarray(A.toarray() if hasattr(A, "toarray") else A, dtype=float).copy()
    except Exception:
        pass
    return out


def _derived_diff(a, b, tol=1e-9):
    for k in a:
        if k not in b or a[k].shape != b[k].shape:
            return k, float("inf")
        sc = max(float(np.abs(a[k]).max()) if a[k].size else 0.0, 1e-30)
        e = float(np.abs(a[k] - b[k]).max() / sc) if a[k].size else 0.0
        if not (e <= tol):
            return k, e
    return None, 0.0


def ob_roundtrip(sim, mode, dynamic, variant=None):
    tmp = tempfile.mkdtemp(prefix="vt_c15_")
    try:
        s = _mk(sim, variant)
        # variant "unload" (phase field, History solver): staggered scheme iterated on the damage (convOption=0: no energy evaluation refreshes the trial history field at the end of a
        # pass), load path up / down / up -- the committed history field then differs from the driving energy of the current displacement
        unload = "unload" in (variant or "")
        solve_kw = dict(tolConv=1e-2, maxIter=50, convOption=0) if unload else {}
        if unload:
            s._vt_unload = True
        solve = lambda: s.Solve(**solve_kw)
        if mode in ("disk", "switch"):
            s.folder = os.path.join(tmp, "A")
        if dynamic == "parabolic" and sim == "WeakForms":
            s.Solver_Set_Parabolic_Algorithm(dt=0.1, alpha=0.5)
        elif dynamic == "parabolic" and sim != "Thermal":
            # a first-order scheme on a damped mechanical problem: the speed is carried from step to step
            s.Set_Rayleigh_Damping_Coefs(coefM=0.0, coefK=0.2)
            s.Solver_Set_Parabolic_Algorithm(dt=0.1, alpha=0.5)
        elif dynamic == "mixed":
            pass                                   # the first step is static, the time scheme is switched on before the second one
        elif dynamic:
            if sim == "Thermal":
                s.Solver_Set_Parabolic_Algorithm(dt=0.1, alpha=0.5)
            else:
                s.Solver_Set_Hyperbolic_Algorithm(dt=0.05)
        saved_state, saved_results, named, saved_mats = [], [], [], []
        hist = []
        for k in range(3):
            if dynamic == "mixed" and k == 1:
                s.Solver_Set_Hyperbolic_Algorithm(dt=0.05)          # iteration 0 was stored under the static scheme: it carries no speed, no acceleration
            _bc(s, sim, k)
            solve()
            hist.append(f"Solve#{k}")
            s.Save_Iter()
            hist.append(f"Save_Iter#{k}")
            saved_state.append(_state(s))
            saved_results.append(_deep_results(s, k))
            handed = _mats(s)                    # what the public getter hands out right after the solve ...
            s.Need_Update()                      # ... and the system of the state just saved, assembled afresh
            saved_mats.append(_mats(s))
            bad, e = _derived_diff(saved_mats[-1], handed, tol=1e-8)
            # (a strain split makes the stiffness of the staggered scheme depend on the displacement iterate it was linearised about: only compared when K follows the damage alone)
            if bad is not None and not dynamic and (sim != "PhaseField" or getattr(s, "_vt_K_follows_d_only", False)):
                raise Refuted(f"{sim}{'/' + variant if variant else ''}/{mode}: right after Solve#{k} the public getter hands out a {bad} that differs by {e:.3e} (relative) from the system assembled afresh on the "
                              f"returned state: a matrix assembled for an intermediate state of the solve is kept as up to date", cex=dict(history=hist + ["Get_K_C_M_F"], which=bad),
                              signature=f"roundtrip:{sim}:handed:{bad}", replay=dict(confirmed=True, rel_diff=e))
            name = {"Thermal": "thermal", "WeakForms": "u"}.get(sim, "displacement")
            named.append(np.asarray(s.Result(name)).copy())
            if mode == "switch" and k == 0:
                s.folder = os.path.join(tmp, "B")       # later changes of the folder must not disturb earlier entries
                hist.append("folder=B")
            if mode == "switch" and k == 1:
                s.folder = ""
                hist.append("folder=''")
        # (0) right after the history was built, before anything else reads the simulation: go back to iteration 0 and apply the load of step 1 again -- the restored
        # state (and nothing assembled for a later state) is what the step starts from
        if not dynamic and sim in ("Elastic", "InElastic", "HyperElastic", "PhaseField"):
            s.Set_Iter(0)
            _bc(s, sim, 1)
            solve()
            now = _state(s)
            for kk in [q for q in now if q.startswith("u:")]:
                e = float(np.abs(now[kk] - saved_state[1][kk]).max() / (np.abs(saved_state[1][kk]).max() + 1e-30))
                if e > 1e-8:
                    raise Refuted(f"{sim}{'/' + variant if variant else ''}/{mode}: straight after three solved and saved steps, Set_Iter(0) and the load of step 1 again give a {kk.split('.')[-1]} differing from "
                                  f"stored iteration 1 by {e:.3e} (relative): something assembled for the last state is reused", cex=dict(history=hist + ["Set_Iter(0)", "Solve(load 1)"]),
                                  signature=f"roundtrip:{sim}:replay:first", replay=dict(confirmed=True, rel_err=e))
            s.Set_Iter(2)
            _bc(s, sim, 2)
        # (1) reading a stored iteration alters nothing
        before = _state(s)
        for i in range(3):
            s.Get_results(i)
        ok, why = _same(before, _state(s))
        if not ok:
            raise Refuted(f"{sim}/{mode}: Get_results altered the simulation state ({why})", cex=dict(history=hist + ["Get_results(0..2)"]),
                          signature=f"roundtrip:{sim}:get_results_state", replay=dict(confirmed=True))
        # (2) later solves did not alter stored iterations
        for i in range(3):
            ok, why = _eq_results(saved_results[i], _deep_results(s, i))
            if not ok:
                raise Refuted(f"{sim}/{mode}: stored iteration {i} changed after later solves (entry {why})",
                              cex=dict(history=hist), signature=f"roundtrip:{sim}:stored_changed", replay=dict(confirmed=True))
        # (3) restoring iteration i brings back the state that was current when it was saved; every advertised result of the restored iteration is a
        # function of the stored iteration alone: the same whichever iteration was current before the restore
        seen = {}
        for i in (0, 1, 0, 2, 1, 0):
            s.Set_Iter(i)
            # the assembled system read through the public getter is that of the restored state (tangent matrix / residual of non-linear simulations, damaged stiffness)
            bad, e = _derived_diff(saved_mats[i], _mats(s), tol=1e-8)
            if bad is not None:
                raise Refuted(f"{sim}{'/' + variant if variant else ''}/{mode}: after Set_Iter({i}) Get_K_C_M_F() returns a {bad} that differs by {e:.3e} (relative) from the system assembled on that state when it "
                              f"was saved: the matrices of another state are handed out", cex=dict(history=hist + [f"Set_Iter({i})", "Get_K_C_M_F"], which=bad), signature=f"roundtrip:{sim}:system:{bad}",
                              replay=dict(confirmed=True, rel_diff=e))
            dv = _derived(s)
            if i in seen:
                bad, e = _derived_diff(seen[i], dv)
                if bad is not None:
                    raise Refuted(f"{sim}{'/' + variant if variant else ''}/{mode}: Result('{bad}') after Set_Iter({i}) depends on the iteration that was current before the restore "
                                  f"(relative difference {e:.3e} between two restores of the same iteration): assembled matrices of another state are reused",
                                  cex=dict(history=hist + [f"Set_Iter({i}) twice, from different iterations"], result=bad), signature=f"roundtrip:{sim}:derived:{bad}",
                                  replay=dict(confirmed=True, rel_diff=e))
            else:
                seen[i] = dv
            ok, why = _same(saved_state[i], _state(s))
            if not ok:
                raise Refuted(f"{sim}/{mode}{'/dynamic' if dynamic else ''}: after Set_Iter({i}) the state differs from the state current when iteration {i} was saved ({why})",
                              cex=dict(history=hist + [f"Set_Iter({i})"], field=why), signature=f"roundtrip:{sim}:{'dyn' if dynamic else 'static'}:restore:{why.split(':')[0]}",
                              replay=dict(confirmed=True, detail=why))
            name = {"Thermal": "thermal", "WeakForms": "u"}.get(sim, "displacement")
            got = np.asarray(s.Result(name, iter=i))
            if not np.array_equal(got, named[i]):
                raise Refuted(f"{sim}/{mode}: Result('{name}', iter={i}) differs from the value obtained at save time", cex=dict(history=hist),
                              signature=f"roundtrip:{sim}:result", replay=dict(confirmed=True))
        # (3b) quasi-static simulations: restoring iteration 0 and applying the load of step 1 again reproduces stored iteration 1 (the restored state -- fields AND internal
        # variables -- is what the next step starts from), and solving without saving leaves the restored committed variables alone
        if not dynamic and sim in ("Elastic", "InElastic", "HyperElastic", "PhaseField"):
            s.Set_Iter(0)
            restored = _state(s)
            _bc(s, sim, 1)
            solve()
            now = _state(s)
            for key in restored:
                if key.startswith("z:") and not np.array_equal(restored[key], now[key]):
                    raise Refuted(f"{sim}/{mode}: after Set_Iter(0), Solve() without Save_Iter changed the restored internal variables {key}", cex=dict(history=hist + ["Set_Iter(0)", "Solve"]),
                                  signature=f"roundtrip:{sim}:restore:solve_changes_state", replay=dict(confirmed=True))
            for kk in [q for q in now if q.startswith("u:")]:          # every unknown field (displacement, damage, ...)
                e = float(np.abs(now[kk] - saved_state[1][kk]).max() / (np.abs(saved_state[1][kk]).max() + 1e-30))
                if e > 1e-8:
                    raise Refuted(f"{sim}/{mode}: replaying the load of step 1 from restored iteration 0 gives a solution differing from stored iteration 1 by {e:.3e} (relative)",
                                  cex=dict(history=hist + ["Set_Iter(0)", "Solve(load 1)"]), signature=f"roundtrip:{sim}:replay", replay=dict(confirmed=True, rel_err=e))
        # (3c) restore an iteration and save again WITHOUT solving: what is stored is that iteration (fields and internal variables; solver statistics aside)
        s.Set_Iter(0)
        s.Save_Iter()
        hist.append("Set_Iter(0); Save_Iter")
        again = _deep_results(s, -1)
        for key, x in saved_results[0].items():
            if isinstance(x, np.ndarray) and x.dtype.kind in "fc" and x.size > 1:
                y = again.get(key)
                if not (isinstance(y, np.ndarray) and y.shape == x.shape and np.array_equal(x, y)):
                    e = float(np.abs(np.asarray(y) - x).max()) if isinstance(y, np.ndarray) and y.shape == x.shape else float("inf")
                    raise Refuted(f"{sim}{'/' + variant if variant else ''}/{mode}: Set_Iter(0) followed by Save_Iter() (no solve in between) stores a '{key}' that differs from iteration 0 (max difference {e:.3e}): "
                                  f"a trial quantity of the last solve is committed", cex=dict(history=hist, key=key), signature=f"roundtrip:{sim}:resave:{key}", replay=dict(confirmed=True, max_diff=e))
        # (3d) a query is a read: restore an iteration, ask for every advertised result, save again without solving: what is stored is that iteration again
        for it in (0, 1):
            # the queries name the iteration themselves (`Result(name, iter=it)`), from another current iteration: they restore it, then read
            s.Set_Iter(2)
            for name_ in s.Results_Available():           # named results only (assembling the system is how the trial fields are computed: not a query)
                try:
                    s.Result(name_, iter=it)
                    s.Result(name_, nodeValues=False)
                except Exception:
                    pass
            s.Save_Iter()
            hist.append(f"Set_Iter(2); every Result(name, iter={it}); Save_Iter")
            again = _deep_results(s, -1)
            for key, x in saved_results[it].items():
                if isinstance(x, np.ndarray) and x.dtype.kind in "fc" and x.size > 1:
                    y = again.get(key)
                    if not (isinstance(y, np.ndarray) and y.shape == x.shape and np.array_equal(x, y)):
                        e = float(np.abs(np.asarray(y) - x).max()) if isinstance(y, np.ndarray) and y.shape == x.shape else float("inf")
                        raise Refuted(f"{sim}{'/' + variant if variant else ''}/{mode}: from iteration 2, Result(name, iter={it}) for every advertised result, then Save_Iter() (no solve) stores a '{key}' that differs from "
                                      f"iteration {it} (max difference {e:.3e}): asking for a result changes the state of the simulation", cex=dict(history=hist, key=key), signature=f"roundtrip:{sim}:query:{key}",
                                      replay=dict(confirmed=True, max_diff=e))
        # (4) restore an old iteration, solve and save again: the stored iterations 0..2 are still what they were
        s.Set_Iter(0)
        _bc(s, sim, 5)
        solve()
        s.Save_Iter()
        for i in range(3):
            ok, why = _eq_results(saved_results[i], _deep_results(s, i))
            if not ok:
                raise Refuted(f"{sim}/{mode}: stored iteration {i} changed after Set_Iter(0) + Solve + Save_Iter (entry {why})",
                              cex=dict(history=hist + ["Set_Iter(0)", "Solve", "Save_Iter"]), signature=f"roundtrip:{sim}:stored_changed_after_restore", replay=dict(confirmed=True))
        return Verdict(DISCHARGED, backend="native run (run-time contract, exact equality)", detail=f"history {hist}")
    except (Refuted, Unsupported):
        raise
    except Exception as ex:
        # an operation of the history (solve / save / restore / query on a valid sequence) that raises inside the library: the iteration cannot be restored / read
        import traceback
        frames = traceback.extract_tb(ex.__traceback__)
        lib = [f for f in frames if "/EasyFEA/" in f.filename]
        if not lib:
            raise
        mine = [f for f in frames if f.filename.endswith("C15.py")]
        call = mine[-1].line if mine else "?"
        raise Refuted(f"{sim}{'/' + variant if variant else ''}/{mode}: `{call}` raises {type(ex).__name__}: {str(ex)[:160]} ({lib[-1].name}, line {lib[-1].lineno})",
                      cex=dict(call=call), signature=f"roundtrip:{sim}:raises:{lib[-1].name}", replay=dict(confirmed=True, raised=repr(ex)[:200]))
    finally:
        shutil.rmtree(tmp, ignore_errors=True)


def ob_mesh_saveload_mixed():
    """Mesh.Save / Load_Mesh on a mesh with two element groups of the same dimension (TRI3 + QUAD4): the mesh read back lists the same groups in the same order with the
    same connectivity, so that every per-element array of a stored iteration still belongs to its element; also through _Simu.Save / Load_Simu"""
    from EasyFEA import Models, Simulations
    from EasyFEA.FEM._mesh import Load_Mesh
    from .C03 import _mixed_mesh
    tmp = tempfile.mkdtemp(prefix="vt_c15m_")
    try:
        mesh = _mixed_mesh()

        def signature(m):
            return [(str(g.elemType), np.asarray(g.connect).copy()) for g in m.Get_list_groupElem()] + [("all", [str(t) for t in m.dict_groupElem])]

        def centers(m):
            co = np.asarray(m.coord)
            return np.vstack([co[np.asarray(g.connect)].mean(axis=1) for g in m.Get_list_groupElem(m.dim)])
        path = mesh.Save(tmp, "mixed")
        back = Load_Mesh(path)
        a, b = signature(mesh), signature(back)
        if [x[0] for x in a] != [x[0] for x in b] or a[-1] != b[-1] or any(not np.array_equal(x[1], y[1]) for x, y in zip(a[:-1], b[:-1])):
            raise Refuted(f"Mesh.Save / Load_Mesh on a TRI3 + QUAD4 mesh: groups {[x[0] for x in a[:-1]]} (dictionary order {a[-1][1]}) come back as {[x[0] for x in b[:-1]]} (dictionary order {b[-1][1]})",
                          cex=dict(groups=[x[0] for x in a[:-1]]), signature="meshsaveload:mixed:order", replay=dict(confirmed=True))
        if np.abs(centers(mesh) - centers(back)).max() > 0:
            raise Refuted("Mesh.Save / Load_Mesh on a mixed mesh: the elements of the main dimension are not listed in the same order", signature="meshsaveload:mixed:centers", replay=dict(confirmed=True))
        # a stored iteration evaluated per element before and after Save / Load_Simu
        simu = Simulations.Elastic(mesh, Models.Elastic.Isotropic(2, E=3.0, v=0.25, planeStress=True))
        co = np.asarray(mesh.coord)
        simu.add_dirichlet(np.where(np.isclose(co[:, 0], co[:, 0].min()))[0], [0, 0], ["x", "y"])
        simu.add_dirichlet(np.where(np.isclose(co[:, 0], co[:, 0].max()))[0], [0.01], ["x"])
        simu.Solve()
        simu.Save_Iter()
        want = {nm: np.asarray(simu.Result(nm, nodeValues=False)).copy() for nm in ("Svm", "Exx", "Wdef_e")}
        simu.Save(os.path.join(tmp, "S"))
        from EasyFEA.Simulations._simu import Load_Simu
        for label, s2 in (("live after Save", simu), ("Load_Simu", Load_Simu(os.path.join(tmp, "S")))):
            s2.Set_Iter(0)
            for nm, w in want.items():
                g = np.asarray(s2.Result(nm, nodeValues=False))
                if g.shape != w.shape or np.abs(g - w).max() > 1e-12 * max(np.abs(w).max(), 1e-300):
                    raise Refuted(f"mixed TRI3 + QUAD4 mesh, {label}: per-element result {nm} of stored iteration 0 differs from its value at save time (max difference "
                                  f"{np.abs(g - w).max() if g.shape == w.shape else 'shape'}): the elements were re-ordered", cex=dict(result=nm, where=label), signature=f"meshsaveload:mixed:{nm}",
                                  replay=dict(confirmed=True))
        return Verdict(DISCHARGED, backend="native", sub=8)
    finally:
        shutil.rmtree(tmp, ignore_errors=True)


def _multimesh_history():
    """iter0 on mesh A, iter1 on mesh B, back to iter0, solve + save iter2 (on A), then restore 1, 2, 0, 2."""
    from EasyFEA import Models, Simulations, SolverType
    s = _mk("Elastic")
    meshA = s.mesh
    coords, connect = patches.star_patch("QUAD4", affine=([[1.1, 0.2], [0.1, 0.9]], [0.3, 0.0]))
    meshB = patches.real_mesh("QUAD4", coords, connect)
    snaps = {}

    def step(k, load):
        _bc(s, "Elastic", load)
        s.Solve()
        s.Save_Iter()
        s.Need_Update()          # the system of the state just saved, assembled afresh on its mesh
        snaps[k] = dict(state=_state(s), mesh=np.asarray(s.mesh.coord).copy(), sxx=np.asarray(s.Result("Sxx", nodeValues=False)).copy(), mats=_mats(s),
                        wdef=float(s.Result("Wdef")))
    step(0, 0)
    s.mesh = meshB
    step(1, 1)
    s.Set_Iter(0)
    step(2, 3)
    for i in (1, 2, 0, 2):
        s.Set_Iter(i)
        if not np.array_equal(np.asarray(s.mesh.coord), snaps[i]["mesh"]):
            return False, f"after Set_Iter({i}) the simulation is on another mesh than the one iteration {i} was saved on"
        ok, why = _same(snaps[i]["state"], _state(s))
        if not ok:
            return False, f"after Set_Iter({i}) the state differs ({why})"
        if not np.allclose(np.asarray(s.Result("Sxx", nodeValues=False)), snaps[i]["sxx"], rtol=1e-12, atol=1e-14):
            return False, f"Result('Sxx') for iteration {i} differs from the value obtained at save time"
        # the assembled system belongs to the mesh the iteration was saved on (matrices, and the energy / reactions computed with them)
        bad, e = _derived_diff(snaps[i]["mats"], _mats(s), tol=1e-9)
        if bad is not None:
            return False, f"after Set_Iter({i}) switched the mesh, Get_K_C_M_F() returns a {bad} differing by {e:.3e} from the system assembled on that mesh when the iteration was saved"
        K = s.Get_K_C_M_F()[0]
        u = np.asarray(s.displacement)
        if abs(float(s.Result("Wdef")) - 0.5 * float(u @ (K @ u))) > 1e-9 * abs(snaps[i]["wdef"]) or abs(float(s.Result("Wdef")) - snaps[i]["wdef"]) > 1e-9 * abs(snaps[i]["wdef"]):
            return False, f"after Set_Iter({i}) Wdef = {float(s.Result('Wdef')):.6e}, 1/2 u'Ku = {0.5 * float(u @ (K @ u)):.6e}, value at save time {snaps[i]['wdef']:.6e}"
    return True, ""


def _multimesh_enum(L, only=None):
    """every history of length <= L over: S = solve + Save_Iter on the current mesh, M = assign a NEW mesh (same connectivity, other coordinates),
    R<k> = Set_Iter(k), Q<k> = Result(.., iter=k); k ranges over the oldest two and the newest stored iteration.
    After the history every stored iteration is restored (in two orders) on the mesh and with the state current when it was saved."""
    import io, contextlib
    coords, connect = patches.star_patch("QUAD4")
    base = np.array([[float(x) for x in p_] for p_ in coords])

    def mesh_no(k):
        A = np.array([[1.0 + 0.1 * k, 0.05 * k], [0.02 * k, 1.0 + 0.2 * k]])
        co = base.copy()
        co[:, :2] = base[:, :2] @ A.T
        return patches.real_mesh("QUAD4", co.tolist(), connect)
    alphabet = ["S", "M", "R0", "R1", "R-1", "Q0", "Q-1"]
    count = 0
    for n_ in range(2, L + 1):
        for seq in itertools.product(alphabet, repeat=n_ - 1):
            seq = ("S",) + seq
            if only is not None and list(seq) != list(only):
                continue
            if seq.count("S") < 2 or "M" not in seq:
                continue
            s = _mk("Elastic")
            snaps = []
            nmesh = 0
            load = 0
            valid = True
            for op in seq:
                if op == "S":
                    _bc(s, "Elastic", load)
                    load += 1
                    s.Solve()
                    s.Save_Iter()
                    snaps.append(dict(state=_state(s), mesh=np.asarray(s.mesh.coord).copy()))
                elif op == "M":
                    nmesh += 1
                    s.mesh = mesh_no(nmesh)
                else:
                    k = int(op[1:])
                    if k >= len(snaps) or (k < 0 and not snaps):
                        valid = False
                        break
                    if op[0] == "R":
                        s.Set_Iter(k)
                    else:
                        s.Result("Sxx", iter=k)
            if not valid:
                continue
            count += 1
            N = len(snaps)
            for i in list(range(N)) + list(range(N - 1, -1, -1)):
                s.Set_Iter(i)
                if not np.array_equal(np.asarray(s.mesh.coord), snaps[i]["mesh"]):
                    return False, f"history {list(seq)}: after Set_Iter({i}) the simulation is on another mesh than the one iteration {i} was saved on", list(seq), count
                ok, why = _same(snaps[i]["state"], _state(s))
                if not ok:
                    return False, f"history {list(seq)}: after Set_Iter({i}) the state differs ({why})", list(seq), count
    return True, "", None, count


def ob_multimesh_enum(L):
    try:
        ok, why, seq, count = _multimesh_enum(L)
    except Exception as ex:
        import traceback
        raise Refuted(f"multi-mesh histories: {type(ex).__name__}: {ex}", signature="multimesh:enum:raises", replay=dict(confirmed=True, tb=traceback.format_exc()[-500:]))
    if not ok:
        r = _multimesh_enum(L, only=seq)
        raise Refuted(f"several meshes in one history: {why}", cex=dict(history=seq), signature="multimesh:enum", replay=dict(confirmed=not r[0], detail=r[1]))
    if count < 50:
        raise Unsupported(f"only {count} histories enumerated")
    return Verdict(DISCHARGED, backend="native run (exact equality)", sub=count, detail=f"{count} histories of length <= {L}")


def _replay_multimesh():
    try:
        ok, why = _multimesh_history()
        return dict(confirmed=not ok, detail=why)
    except Exception as e:
        return dict(confirmed=True, raised=repr(e)[:300])


def ob_multimesh():
    try:
        ok, why = _multimesh_history()
    except Exception as ex:
        raise Refuted(f"multi-mesh history raises {type(ex).__name__}: {ex}", signature="multimesh:raises", cex=dict(history="A:solve,save; mesh=B; solve,save; Set_Iter(0); solve,save; Set_Iter(1,2,0,2)"),
                      replay=dict(confirmed=True))
    if not ok:
        raise Refuted(f"several meshes in one history: {why}", cex=dict(history="A:solve,save; mesh=B; solve,save; Set_Iter(0); solve,save; Set_Iter(1,2,0,2)"), signature="multimesh",
                      replay=dict(confirmed=True, detail=why))
    return Verdict(DISCHARGED, backend="native run (exact equality)")


def ob_saveload(sim="Elastic"):
    from EasyFEA import Simulations
    import contextlib, io
    tmp = tempfile.mkdtemp(prefix="vt_c15_")
    try:
        s = _mk(sim)
        s.folder = os.path.join(tmp, "S")
        for k in range(2):
            _bc(s, sim, k)
            s.Solve()
            s.Save_Iter()
        s.mesh.groupElem.Set_Nodes_Tag(np.array([0, 1]), "mytag") if hasattr(s.mesh.groupElem, "Set_Nodes_Tag") else None
        try:
            with contextlib.redirect_stdout(io.StringIO()):
                s.Save(s.folder)
                t = Simulations.Load_Simu(s.folder)
        except Exception as ex:
            raise Refuted(f"{sim}: Save / Load_Simu after two solved and saved steps raises {type(ex).__name__}: {str(ex)[:200]}", cex=dict(simulation=sim), signature=f"saveload:{sim}:raises",
                          replay=dict(confirmed=True, error=str(ex)[:200]))
        if t.Niter != s.Niter:
            raise Refuted(f"loaded simulation has {t.Niter} iterations, saved {s.Niter}", signature="saveload:niter", replay=dict(confirmed=True))
        if not np.array_equal(np.asarray(t.mesh.coord), np.asarray(s.mesh.coord)) or not np.array_equal(np.asarray(t.mesh.connect), np.asarray(s.mesh.connect)):
            raise Refuted("loaded mesh differs", signature="saveload:mesh", replay=dict(confirmed=True))
        for i in range(s.Niter):
            ok, why = _eq_results(_deep_results(s, i), _deep_results(t, i))
            if not ok:
                raise Refuted(f"loaded iteration {i} differs ({why})", signature="saveload:results", replay=dict(confirmed=True))
        return Verdict(DISCHARGED, backend="native run (pickle round trip)")
    finally:
        shutil.rmtree(tmp, ignore_errors=True)


def _save_histories(case):
    """histories around Save: two meshes in the history (iteration 0 on A, 1 on B), then
       twice       : Save(F1), Save(F2), Load(F2)
       folder      : Save(F1), simu.folder = F3, Set_Iter(0) (back to the first mesh), Set_Iter(1)
       continue    : Save(F1), solve + Save_Iter, Save(F1) again, Load(F1)
    every stored iteration is restored with its mesh and state, by the live simulation and by the loaded one."""
    from EasyFEA import Simulations
    tmp = tempfile.mkdtemp(prefix="vt_c15_")
    try:
        s = _mk("Elastic")
        coords, connect = patches.star_patch("QUAD4", affine=([[1.1, 0.2], [0.1, 0.9]], [0.3, 0.0]))
        meshB = patches.real_mesh("QUAD4", coords, connect)
        snaps = []

        def step(load):
            _bc(s, "Elastic", load)
            s.Solve()
            s.Save_Iter()
            snaps.append(dict(state=_state(s), mesh=np.asarray(s.mesh.coord).copy()))
        step(0)
        s.mesh = meshB
        step(1)
        F1, F2, F3 = (os.path.join(tmp, f) for f in ("F1", "F2", "F3"))
        s.Save(F1)
        sims = [("live", s)]
        if case == "twice":
            s.Save(F2)
            sims.append(("loaded", Simulations.Load_Simu(F2)))
        elif case == "folder":
            s.folder = F3
        elif case == "continue":
            step(2)
            s.Save(F1)
            sims.append(("loaded", Simulations.Load_Simu(F1)))
        for who, sim in sims:
            if sim.Niter != len(snaps):
                return False, f"{who} simulation has {sim.Niter} iterations, {len(snaps)} were saved"
            for i in list(range(len(snaps))) + [0]:
                sim.Set_Iter(i)
                if not np.array_equal(np.asarray(sim.mesh.coord), snaps[i]["mesh"]):
                    return False, f"{who}: after Set_Iter({i}) the simulation is on another mesh than the one iteration {i} was saved on"
                ok, why = _same(snaps[i]["state"], _state(sim))
                if not ok:
                    return False, f"{who}: after Set_Iter({i}) the state differs ({why})"
        return True, ""
    finally:
        shutil.rmtree(tmp, ignore_errors=True)


def ob_save_histories(case):
    import contextlib, io
    try:
        with contextlib.redirect_stdout(io.StringIO()):
            ok, why = _save_histories(case)
    except Exception as ex:
        raise Refuted(f"history '{case}' around Save raises {type(ex).__name__}: {str(ex)[:200]}", cex=dict(history=case), signature=f"save:{case}:raises", replay=dict(confirmed=True, error=str(ex)[:200]))
    if not ok:
        raise Refuted(f"history '{case}' around Save: {why}", cex=dict(history=case), signature=f"save:{case}", replay=dict(confirmed=True, detail=why))
    return Verdict(DISCHARGED, backend="native run (exact equality)")


DYNAMIC = {"WeakForms": True, "Elastic": True, "Thermal": True, "Beam": True, "HyperElastic": False, "PhaseField": False, "InElastic": False}


def build(tier, seed):
    obs = []
    obs.append(Ob("C15.fresh.getters", ob_fresh_getters, (), "E", tuple(f"{SIMU}::_Simu.{g}" for g in ("_Get_u_n", "_Get_v_n", "_Get_a_n")), clause="state getters return copies"))
    obs.append(Ob("C15.get_results.pure", ob_get_results_pure, (), "E", (f"{SIMU}::_Simu.Get_results",), clause="Get_results writes nothing and returns a copy"))
    obs.append(Ob("C15.save.pinned", ob_save_pinned, (), "E", (f"{SIMU}::_Simu.Save_Iter",), clause="history is append-only; dict-vs-path pinned at write time; caller's dict copied"))
    for sim in SIMS:
        obs.append(Ob(f"C15.keys.{sim}", ob_keys, (sim,), "E", (f"{SIMS[sim]}::{sim}.Save_Iter", f"{SIMS[sim]}::{sim}.Set_Iter"),
                      clause="every key Set_Iter reads is written by Save_Iter"))
    sims = ["Elastic", "Thermal", "Beam", "PhaseField", "InElastic", "HyperElastic", "WeakForms"]
    for sim in sims:
        modes = ["memory", "switch"] if tier == "quick" else ["memory", "disk", "switch"]
        for mode in modes:
            obs.append(Ob(f"C15.roundtrip.{sim}.{mode}", ob_roundtrip, (sim, mode, False), "X", (f"{SIMS[sim]}::{sim}.Save_Iter", f"{SIMS[sim]}::{sim}.Set_Iter", f"{SIMU}::_Simu.Get_results"),
                          bound="3 solve/save steps on a small mesh, one folder schedule", clause="restore / read / stored-iteration immutability", timeout=300))
        if sim in ("Elastic", "Beam", "WeakForms"):
            obs.append(Ob(f"C15.roundtrip.{sim}.mixed", ob_roundtrip, (sim, "memory", "mixed"), "X", (f"{SIMS[sim]}::{sim}.Save_Iter", f"{SIMS[sim]}::{sim}.Set_Iter", f"{SIMU}::_Simu._Set_solutions"),
                          bound="one static step then two Newmark steps, in-memory history", clause="an iteration stored under the static scheme is restored with zero speed and acceleration, whatever the state current before the restore", timeout=300))
        if sim in ("Elastic", "WeakForms"):
            obs.append(Ob(f"C15.roundtrip.{sim}.parabolic", ob_roundtrip, (sim, "memory", "parabolic"), "X", (f"{SIMS[sim]}::{sim}.Save_Iter", f"{SIMS[sim]}::{sim}.Set_Iter"),
                          bound="3 steps of the theta scheme on a damped elastic problem, in-memory history", clause="the speed carried by a first-order scheme is restored with the displacement", timeout=300))
        if sim == "PhaseField":
            obs.append(Ob("C15.roundtrip.PhaseField.unload", ob_roundtrip, (sim, "memory", False, "unload"), "X", (f"{SIMS[sim]}::{sim}.Save_Iter", f"{SIMS[sim]}::{sim}.Set_Iter", f"{SIMS[sim]}::{sim}.Result"),
                          bound="load / unload / reload on a small mesh, History solver, staggered scheme converged on the damage (convOption=0), in-memory history", timeout=300,
                          clause="the committed history field is restored with the iteration it belongs to; a query of results is a read: it changes nothing a later Save_Iter stores"))
            for variant in ("HistoryDamage", "BoundConstrain", "HistoryDamage.Bourdin.unload"):
                obs.append(Ob(f"C15.roundtrip.{sim}.{variant}", ob_roundtrip, (sim, "memory", False, variant), "X", (f"{SIMS[sim]}::{sim}.Save_Iter", f"{SIMS[sim]}::{sim}.Set_Iter"),
                              bound="3 solve/save steps on a small mesh, in-memory history, non-default irreversibility solver", clause="restore / read / stored-iteration immutability; results of a restored iteration do not depend on the previous state", timeout=300))
        if DYNAMIC[sim]:
            obs.append(Ob(f"C15.roundtrip.{sim}.dynamic", ob_roundtrip, (sim, "memory", True), "X", (f"{SIMS[sim]}::{sim}.Save_Iter", f"{SIMS[sim]}::{sim}.Set_Iter"),
                          bound="3 time steps (Newmark / theta scheme), in-memory history", clause="velocity and acceleration are restored with the displacement", timeout=300))
    obs.append(Ob("C15.multimesh.elastic", ob_multimesh, (), "X", (f"{SIMU}::_Simu.Save_Iter", f"{SIMU}::_Simu.Set_Iter", f"{SIMU}::_Simu.__Update_mesh"),
                  bound="one history with two meshes and a restart from an older iteration", clause="each iteration is restored on the mesh it was saved on", timeout=300))
    Lmm = 5 if tier == "quick" else 6
    obs.append(Ob("C15.multimesh.enum", ob_multimesh_enum, (Lmm,), "X", (f"{SIMU}::_Simu.mesh[setter]", f"{SIMU}::_Simu.Save_Iter", f"{SIMU}::_Simu.Set_Iter", f"{SIMU}::_Simu.__Update_mesh"),
                  bound=f"every history of length <= {Lmm} over solve+save / assign a new mesh / Set_Iter(k) / Result(iter=k), one Elastic simulation, 9-node meshes",
                  clause="whatever the interleaving of mesh assignments and restores, each stored iteration is restored on the mesh and with the state current when it was saved", timeout=1500))
    for case in ("twice", "folder", "continue"):
        obs.append(Ob(f"C15.save.history.{case}", ob_save_histories, (case,), "X", (f"{SIMU}::_Simu.Save", f"{SIMU}::_Simu.__Update_mesh", f"{SIMU}::Load_Simu"), bound="one Elastic simulation, two meshes in the history",
                      clause="Save into a second folder / a folder change after Save / Save again after more steps: every stored iteration is still restored with its mesh and state, live and loaded", timeout=300))
    obs.append(Ob("C15.saveload.mesh.mixed", ob_mesh_saveload_mixed, (), "X", ("EasyFEA/FEM/_mesh.py::Mesh.Save", "EasyFEA/FEM/_mesh.py::Load_Mesh", f"{SIMU}::_Simu.Save"), bound="one TRI3 + QUAD4 mesh, one stored iteration",
                  clause="a mesh with two element groups of the same dimension comes back with the same groups, order and connectivity; per-element results of a stored iteration are unchanged by Save / Load_Simu", timeout=300))
    for sim in sims:
        obs.append(Ob(f"C15.saveload.{sim.lower()}", ob_saveload, (sim,), "X", (f"{SIMU}::_Simu.Save", f"{SIMU}::Load_Simu", f"{SIMS[sim]}::{sim}.Results_Get_Iteration_Summary"), bound=f"one {sim} simulation, 2 iterations",
                      clause="Save / Load_Simu round trip preserves mesh, history length and stored fields", timeout=300))
    obs.append(Ob("canary.keys.Elastic", ob_keys, ("Elastic", True), "E", expect=REFUTED))
    functions = {"_Simu.Save_Iter": extract.get(SIMU, "_Simu.Save_Iter").describe(), "_Simu.Get_results": extract.get(SIMU, "_Simu.Get_results").describe(),
                 "_Simu.Set_Iter": extract.get(SIMU, "_Simu.Set_Iter").describe()}
    for sim, pth in SIMS.items():
        functions[f"{sim}.Save_Iter"] = extract.get(pth, f"{sim}.Save_Iter").describe()
        functions[f"{sim}.Set_Iter"] = extract.get(pth, f"{sim}.Set_Iter").describe()
    return dict(
        obs=obs, level="other", min_obligations=20,
        explanation=("Freshness of getters, purity of Get_results, append-only pinned history and Save/Set key coverage are decided on the AST for every "
                     "simulation class (hold for all histories). Exact restoration is checked by bounded native histories per simulation type: three solve/save "
                     "steps, folder changes in between, reads, restores in several orders followed by further solves, static and dynamic."),
        trusted_base=["vt/eff.py path enumeration", "pickle and the file system (load(save(x)) = x) are external and assumed"],
        assumptions=["histories bounded to 3 steps per simulation type, one mesh per history (several meshes in one history not covered)", "MPI_SIZE == 1"],
        functions=functions,
        dropped=["E-tier reads the AST only"],
        not_attempted=["DIC simulations in the dynamic histories"],
    )
