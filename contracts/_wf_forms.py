"""Weak forms written the documented way (decorator at module level) for the WeakForms histories of C15: a simulation holding them must be storable."""
from EasyFEA.FEM import BiLinearForm


@BiLinearForm
def computeK(u, v):
    return 1.5 * u.grad.dot(v.grad)


@BiLinearForm
def computeC(u, v):
    return 0.3 * u.dot(v)


@BiLinearForm
def computeM(u, v):
    return 2.0 * u.dot(v)
