"""C06 -- shape functions interpolate; derivative tables are the true derivatives.

P-tier.  Every element class is re-assembled from the extracted ASTs of Elems/*.py (and the
base-class methods it inherits from _group_elem.py) with float literals read as exact rationals,
instantiated without __init__, and its tables `_N, _dN, _ddN, _dddN, _ddddN, Get_Local_Coords`
(`_Hermitian_*` for the beam families) are evaluated on the generators r, s, t of QQ(r,s,t).
Every clause is an identity between polynomials (or a ground rational equality).
"""
from __future__ import annotations

import time

import numpy as np
from fractions import Fraction

from vt import alg, extract
from vt.alg import Ctx, X
from vt.core import Ob, Verdict, Refuted, Unsupported, DISCHARGED, REFUTED
from . import common

PROP = "C06"
TABLES = ["_N", "_dN", "_ddN", "_dddN", "_ddddN"]
HTABLES = ["_Hermitian_N", "_Hermitian_dN", "_Hermitian_ddN", "_Hermitian_dddN"]
VARS = ["r", "s", "t"]
HERMITE_TOL = Fraction(1, 10 ** 12)


def _tables(elemType, names):
    c = Ctx(VARS, nspare=1)
    obj = common.elem_instance(elemType)
    gid, nPe, dim, order = common.elem_infos(elemType)
    syms = [c.sym(v) for v in VARS[:dim]]
    out = {}
    for t in names:
        tab = getattr(obj, t)()
        if tab is None:
            raise Unsupported(f"{elemType}.{t} returns None")
        rows = []
        for i in range(tab.shape[0]):
            row = []
            for j in range(tab.shape[1]):
                f = tab[i, j]
                v = f(*syms)
                row.append(v if isinstance(v, X) else c.const(v))
            rows.append(row)
        out[t] = rows
    coords = obj.Get_Local_Coords()
    pts = []
    for p in coords:
        if dim == 1 and not hasattr(p, "__len__"):
            p = [p]
        pts.append([Fraction(x) if not isinstance(x, X) else x.ground() for x in list(p)[:dim]])
    return c, out, pts, (nPe, dim, order)


def _at(c, x: X, pt):
    d = {n: Fraction(0) for n in c.names + c.spare}
    for n, v in zip(VARS, pt):
        d[n] = v
    return x.subs_point(d)


def _native_point(elemType, table, i, j, pt, lower=None):
    """Replay on the real class (ordinary import, floats): value of table[i][j] at pt vs central finite
    difference of the lower table in direction j."""
    try:
        g = common.real_group(elemType)
        tab = getattr(g, table)()
        x = [float(v) for v in pt]
        val = float(tab[i, j](*x))
        rec = dict(value=val, point=x)
        if lower is not None:
            low = getattr(g, lower)()
            jj = j if low.shape[1] > 1 else 0
            h = 1e-4
            xp, xm = list(x), list(x)
            xp[j] += h
            xm[j] -= h
            fd = (float(low[i, jj](*xp)) - float(low[i, jj](*xm))) / (2 * h)
            rec.update(finite_difference=fd, confirmed=abs(fd - val) > 1e-5 * max(1.0, abs(fd)))
        return rec
    except Exception as e:
        return dict(confirmed=False, error=repr(e))


def _find_point(c, diff: X, dim, seed=1):
    import random
    rnd = random.Random(seed)
    for _ in range(100):
        pt = [Fraction(rnd.randint(-7, 7), rnd.randint(3, 9)) for _ in range(dim)]
        try:
            if _at(c, diff, pt) != 0:
                return pt
        except ZeroDivisionError:
            pass
    return None


def ob_shape(elemType):
    c, T, pts, (nPe, dim, order) = _tables(elemType, TABLES)
    n = 0
    for t in TABLES:
        want = (nPe, 1 if t == "_N" else dim)
        got = (len(T[t]), len(T[t][0]))
        n += 1
        if got != want:
            raise Refuted(f"{elemType}.{t} has shape {got}, expected {want}", signature=f"{elemType}:shape:{t}",
                          replay=dict(confirmed=True, shape=list(got)))
    if len(pts) != nPe:
        raise Refuted(f"{elemType}.Get_Local_Coords has {len(pts)} nodes, expected {nPe}", signature=f"{elemType}:shape:coords",
                      replay=dict(confirmed=True))
    if len({tuple(p) for p in pts}) != nPe:
        raise Refuted(f"{elemType}.Get_Local_Coords has repeated nodes", signature=f"{elemType}:shape:coords", replay=dict(confirmed=True))
    return Verdict(DISCHARGED, backend="ground", sub=n + 2)


def ob_kronecker(elemType, canary=False):
    c, T, pts, (nPe, dim, order) = _tables(elemType, ["_N"])
    n = 0
    for i in range(nPe):
        for j, p in enumerate(pts):
            v = _at(c, T["_N"][i][0], p)
            want = 1 if i == j else 0
            if canary and i == 0 and j == 1:
                want = 1
            n += 1
            if v != want:
                rep = _native_point(elemType, "_N", i, 0, p)
                rep["confirmed"] = abs(rep.get("value", want) - want) > 1e-9
                raise Refuted(f"{elemType}: N_{i}(node {j}) = {v}, expected {want}",
                              cex=dict(i=i, node=j, point=[str(x) for x in p], value=str(v)),
                              signature=f"{elemType}:kronecker", replay=rep)
    return Verdict(DISCHARGED, backend="exact rational evaluation", sub=n)


def ob_pu(elemType):
    c, T, pts, (nPe, dim, order) = _tables(elemType, ["_N"])
    s = c.const(0)
    for i in range(nPe):
        s = s + T["_N"][i][0]
    d = s - 1
    if not (d == 0):
        pt = _find_point(c, d, dim)
        rep = dict(confirmed=False)
        try:
            g = common.real_group(elemType)
            val = sum(float(f[0](*[float(x) for x in pt])) for f in g._N())
            rep = dict(confirmed=abs(val - 1) > 1e-9, sum_N=val, point=[float(x) for x in pt])
        except Exception as e:
            rep = dict(confirmed=False, error=repr(e))
        raise Refuted(f"{elemType}: sum N_i - 1 = {d}", cex=dict(point=[str(x) for x in (pt or [])]),
                      signature=f"{elemType}:pu", replay=rep)
    return Verdict(DISCHARGED, backend="ring-normal-form", sub=1)


def ob_complete(elemType):
    c, T, pts, (nPe, dim, order) = _tables(elemType, ["_N"])
    syms = [c.sym(v) for v in VARS[:dim]]
    n = 0
    for e in common.monomials(dim, order):
        m = c.const(1)
        for sgen, k in zip(syms, e):
            m = m * sgen ** k
        interp = c.const(0)
        for i, p in enumerate(pts):
            mv = Fraction(1)
            for x, k in zip(p, e):
                mv *= x ** k
            interp = interp + T["_N"][i][0] * mv
        n += 1
        d = interp - m
        if not (d == 0):
            pt = _find_point(c, d, dim)
            raise Refuted(f"{elemType}: interpolant of monomial {e} differs from it by {d}",
                          cex=dict(monomial=list(e), point=[str(x) for x in (pt or [])]), signature=f"{elemType}:complete",
                          replay=_native_complete(elemType, e, pt))
    return Verdict(DISCHARGED, backend="ring-normal-form", sub=n)


def _native_complete(elemType, e, pt):
    try:
        import numpy as np
        g = common.real_group(elemType)
        nodes = np.asarray(g.Get_Local_Coords(), dtype=float).reshape(g.nPe, -1)
        x = [float(v) for v in pt]
        N = [float(f[0](*x)) for f in g._N()]
        mono = lambda p: float(np.prod([p[k] ** e[k] for k in range(len(e))]))
        val = sum(N[i] * mono(nodes[i]) for i in range(g.nPe))
        return dict(confirmed=abs(val - mono(x)) > 1e-9, interpolant=val, exact=mono(x), point=x)
    except Exception as ex:
        return dict(confirmed=False, error=repr(ex))


def ob_deriv(elemType, k, canary=False):
    """table_k[i][j] == d/dx_j table_{k-1}[i][j]  (k=1: d/dx_j N_i)."""
    hi, lo = TABLES[k], TABLES[k - 1]
    c, T, pts, (nPe, dim, order) = _tables(elemType, [hi, lo])
    n = 0
    for i in range(nPe):
        for j in range(dim):
            low = T[lo][i][0] if k == 1 else T[lo][i][j]
            want = low.diff(VARS[j])
            if canary and i == 0 and j == 0:
                want = want + 1
            d = T[hi][i][j] - want
            n += 1
            if not (d == 0):
                pt = _find_point(c, d, dim)
                raise Refuted(f"{elemType}.{hi}[{i}][{j}] differs from the derivative of {lo}: difference {d}",
                              cex=dict(i=i, j=j, point=[str(x) for x in (pt or [])]), signature=f"{elemType}:{hi}",
                              replay=_native_point(elemType, hi, i, j, pt, lower=lo) if pt else None)
    return Verdict(DISCHARGED, backend="ring-normal-form", sub=n)


# ---- Hermite families

def _htables(elemType):
    c = Ctx(VARS, nspare=1)
    obj = common.elem_instance(elemType)
    gid, nPe, dim, order = common.elem_infos(elemType)
    r = c.sym("r")
    out = {}
    for t in HTABLES:
        tab = getattr(obj, t)()
        if tab is None:
            raise Unsupported(f"{elemType}.{t} returns None")
        col = []
        for i in range(tab.shape[0]):
            v = tab[i, 0](r)
            col.append(v if isinstance(v, X) else c.const(v))
        out[t] = col
    pts = [Fraction(x) if not isinstance(x, X) else x.ground() for x in [list(p)[0] if hasattr(p, "__len__") else p for p in obj.Get_Local_Coords()]]
    return c, out, pts, nPe


def ob_hermite_interp(elemType):
    c, T, pts, nPe = _htables(elemType)
    N = T["_Hermitian_N"]
    if len(N) != 2 * nPe:
        raise Refuted(f"{elemType}._Hermitian_N has {len(N)} functions, expected {2*nPe}", signature=f"{elemType}:hshape", replay=dict(confirmed=True))
    n = 0
    worst = Fraction(0)
    for i in range(nPe):
        phi, psi = N[2 * i], N[2 * i + 1]
        dphi, dpsi = phi.diff("r"), psi.diff("r")
        for j, p in enumerate(pts):
            dl = 1 if i == j else 0
            for name, f, want in (("phi", phi, Fraction(dl)), ("phi'", dphi, Fraction(0)), ("psi", psi, Fraction(0)),
                                  ("psi'", dpsi, Fraction(dl, 2))):
                v = _at(c, f, [p])
                n += 1
                worst = max(worst, abs(v - want))
                if abs(v - want) > HERMITE_TOL:
                    raise Refuted(f"{elemType}: {name}_{i}(node {j}) = {float(v)!r}, expected {want} (|diff| > 1e-12)",
                                  cex=dict(function=name, i=i, node=j, value=str(v)), signature=f"{elemType}:hermite:{name}",
                                  replay=_native_hermite(elemType, name, i, float(p), float(want)))
    return Verdict(DISCHARGED, backend="exact rational evaluation, tolerance 1e-12", sub=n, detail=f"max residual {float(worst):.2e}")


def _native_hermite(elemType, name, i, p, want):
    try:
        g = common.real_group(elemType)
        N = g._Hermitian_N()
        dN = g._Hermitian_dN()
        idx = 2 * i + (1 if name.startswith("psi") else 0)
        val = float((dN if name.endswith("'") else N)[idx, 0](p))
        return dict(confirmed=abs(val - want) > 1e-9, value=val, expected=want, point=p,
                    note="derivative clauses replayed on the tabulated first-derivative table")
    except Exception as e:
        return dict(confirmed=False, error=repr(e))


def ob_hermite_deriv(elemType, k):
    c, T, pts, nPe = _htables(elemType)
    hi, lo = HTABLES[k], HTABLES[k - 1]
    n = 0
    worst = Fraction(0)
    for i in range(len(T[hi])):
        d = T[hi][i] - T[lo][i].diff("r")
        s = d.coeff_abs_sum()
        worst = max(worst, s)
        n += 1
        if s > 10 * HERMITE_TOL:
            pt = _find_point(c, d, 1)
            raise Refuted(f"{elemType}.{hi}[{i}] differs from d/dr {lo}[{i}]: sum|coef| = {float(s):.3e}",
                          cex=dict(i=i, point=[str(x) for x in (pt or [])]), signature=f"{elemType}:{hi}",
                          replay=_native_point(elemType, hi, i, 0, pt, lower=lo) if pt else None)
    return Verdict(DISCHARGED, backend="ring-normal-form, coefficient tolerance 1e-11", sub=n, detail=f"max sum|coef| {float(worst):.2e}")


# ---- _Eval_Functions

def ob_eval_functions():
    """out[p, f, n] == functions[n][f](*points[p]) for concrete loop bounds; np.zeros shimmed to dtype=object."""
    import numpy as np

    class NP:
        def __getattr__(self, k):
            return getattr(np, k)

        @staticmethod
        def zeros(shape, *a, **k):
            return np.empty(shape, dtype=object)
    fn = extract.get(common.GROUP_PATH, "_GroupElem._Eval_Functions")
    from vt import sx
    g = sx.module_globals("EasyFEA.FEM._group_elem", np=NP())
    f = extract.compile_fn(fn, g)
    n = 0
    for (nPg, nF, nPe, dim) in ((1, 1, 2, 1), (3, 2, 4, 2), (2, 3, 5, 3), (4, 1, 3, 2)):
        funcs = np.empty((nPe, nF), dtype=object)
        for a in range(nPe):
            for b in range(nF):
                funcs[a, b] = (lambda a, b: (lambda *x: ("F", a, b) + tuple(x)))(a, b)
        pts = np.empty((nPg, dim), dtype=object)
        for p in range(nPg):
            for d in range(dim):
                pts[p, d] = f"x{p}{d}"
        out = f(funcs, pts)
        if out.shape != (nPg, nF, nPe):
            raise Refuted(f"_Eval_Functions returns shape {out.shape}, expected {(nPg, nF, nPe)}", signature="eval:shape", replay=dict(confirmed=True))
        for p in range(nPg):
            for b in range(nF):
                for a in range(nPe):
                    n += 1
                    if out[p, b, a] != ("F", a, b) + tuple(pts[p]):
                        raise Refuted(f"_Eval_Functions[{p},{b},{a}] = {out[p,b,a]}", signature="eval:entry", replay=dict(confirmed=True))
    return Verdict(DISCHARGED, backend="uninterpreted functions, concrete loop bounds", sub=n)


def ob_eval_functions_loops(canary=False):
    """_GroupElem._Eval_Functions for ALL nPg, nF, nPe: the three nested loops fill out[p, f, n] = functions[n, f](*gaussPoints[p]) for every p < nPg, f < nF, n < nPe
    (loop contract: lexicographic fill invariant generated from the AST, verification conditions discharged by z3; see vt/loopvc.py)"""
    import ast as _ast
    import textwrap
    from vt import loopvc
    fn = extract.get(common.GROUP_PATH, "_GroupElem._Eval_Functions")
    node = fn.node
    if canary:
        # the canary tests the VC machinery, not the tree: a fill nest of the accepted shape with the wrong point index on the right-hand side
        src = ("def _Eval_Functions(functions, gaussPoints):\n    nPg = gaussPoints.shape[0]\n    nPe = functions.shape[0]\n    nF = functions.shape[1]\n"
               "    evalFunctions = np.zeros((nPg, nF, nPe))\n    for p in range(nPg):\n        for n, function_nPe in enumerate(functions):\n            for f in range(nF):\n"
               "                evalFunctions[p, f, n] = function_nPe[f](*gaussPoints[n])\n    return evalFunctions\n")
        node = [x for x in _ast.walk(_ast.parse(src)) if isinstance(x, _ast.FunctionDef)][0]
    res = loopvc.verify_fill(node, "functions[n, f](*gaussPoints[p])", (("shape", "gaussPoints", 0), ("shape", "functions", 1), ("shape", "functions", 0)))
    bad = [(nm, st) for nm, st, _ in res if st != "proved"]
    if any(st.startswith("refuted") for _, st in bad):
        nm, st = next((a, b) for a, b in bad if b.startswith("refuted"))
        replay = None
        if not canary:
            try:
                ob_eval_functions()
                replay = dict(confirmed=False, note="the bounded run on 4 concrete bound tuples passes")
            except Refuted as e:
                replay = dict(confirmed=True, native=str(e)[:200])
        raise Refuted(f"_Eval_Functions: verification condition '{nm}' of the fill nest fails: {st[:300]}", signature=f"eval:vc:{nm}", replay=replay)
    if bad:
        raise Unsupported(f"z3 left {bad} undecided")
    return Verdict(DISCHARGED, backend="loop contract (lexicographic fill invariant) + z3", sub=len(res), solver_s=sum(t for *_, t in res))


def ob_eval_dtype(et):
    """the evaluator behind every Get_*_pg: the tables evaluated at points given with an INTEGER dtype (the reference nodes the library itself hands out as int64, the centre
    (0, 0), lattice points) are the tables evaluated at the same points as floats -- the result is a float array, whatever the type of the coordinates"""
    from . import patches
    mesh = patches.two_element_mesh(et)
    g = mesh.groupElem
    loc = np.asarray(g.Get_Local_Coords())
    pts = np.unique(np.round(loc).astype(np.int64), axis=0)            # integer lattice points of the reference element (its integer-valued nodes among them)
    n = 0
    for name in ("_N", "_dN", "_ddN"):
        tab = getattr(g, name)()
        a = np.asarray(g._Eval_Functions(tab, pts))
        b = np.asarray(g._Eval_Functions(tab, pts.astype(float)))
        n += 1
        if a.shape != b.shape or not np.array_equal(a.astype(float), b):
            k = np.argwhere(a.astype(float) != b)[0]
            raise Refuted(f"{et}: {name} evaluated at the integer-typed point {pts[k[0]].tolist()} gives {a[tuple(k)]!r} (dtype {a.dtype}), at the same point as floats {b[tuple(k)]!r}",
                          cex=dict(elemType=et, table=name, point=pts[k[0]].tolist()), signature=f"eval:dtype:{name}", replay=dict(confirmed=True))
    return Verdict(DISCHARGED, backend="native", sub=n)


def _replay_point_accessor(name):
    try:
        import contextlib, io
        from EasyFEA import ElemType
        from EasyFEA.Geoms import Domain, Point
        with contextlib.redirect_stdout(io.StringIO()):
            mesh = Domain(Point(), Point(1, 1), 0.5).Mesh_2D([], ElemType.TRI3)
        g0 = mesh.Get_list_groupElem(0)[0]
        try:
            r = getattr(g0, name)("mass")
            return dict(confirmed=r is not None, returned=repr(r)[:60])
        except Exception as ex:
            return dict(confirmed=True, raised=repr(ex)[:120])
    except Exception as ex:
        return dict(confirmed=False, error=repr(ex)[:120])


def ob_accessor_contract(name, table):
    """the accessor, checked against the CONTRACT of its callee (modular step): Get_<x>_pg(matrixType) returns _Eval_Functions(self._<x>(), Get_gauss(matrixType).coord) -- the table
    of that derivative order, the points of that matrix type, nothing else -- and None for a 0-dimensional group.  With C06._Eval_Functions.loops (all bounds) and the table
    obligations this gives: Get_<x>_pg[p, f, n] == table[n, f](xi_p) for every element type, matrix type and point count."""
    from vt import sx
    fn = extract.get(common.GROUP_PATH, f"_GroupElem.{name}")
    calls = []
    T, G, R = object(), object(), object()

    class _Stub:
        @staticmethod
        def _Eval_Functions(functions, gaussPoints):
            calls.append((functions, gaussPoints))
            return R
    g = sx.module_globals("EasyFEA.FEM._group_elem", _GroupElem=_Stub)
    f = extract.compile_fn(fn, g, exact=False)
    asked = []
    others = {t: (lambda t=t: (_ for _ in ()).throw(Refuted(f"{name} reads the table {t} instead of {table}", signature=f"accessor:{name}:table"))) for t in ("_N", "_dN", "_ddN", "_dddN", "_ddddN") if t != table}
    me = sx.Mock("self", dim=2, elemType="TRI3", Get_gauss=lambda mt: (asked.append(mt), sx.Mock("gauss", coord=G))[1], **{table: (lambda: T)}, **others)
    got = f(me, "some matrix type")
    if got is not R or calls != [(T, G)] or asked != ["some matrix type"]:
        raise Refuted(f"{name}: returns {'the evaluated table' if got is R else 'something else'}; _Eval_Functions called {len(calls)} time(s) "
                      f"{'with the table and the points' if calls == [(T, G)] else 'with other arguments'}; Get_gauss asked for {asked}", signature=f"accessor:{name}:contract", replay=dict(confirmed=False))
    me0 = sx.Mock("self", dim=0, elemType="POINT", Get_gauss=lambda mt: sx.Mock("gauss", coord=G),
                  **{t: (lambda: (_ for _ in ()).throw(NotImplementedError("Element POINT not implemented."))) for t in ("_N", "_dN", "_ddN", "_dddN", "_ddddN")})
    try:
        r0 = f(me0, "rigi")
    except NotImplementedError as ex:
        raise Refuted(f"{name} of a 0-dimensional (POINT) group raises NotImplementedError where the other accessors return None: its guard does not test the dimension", cex=dict(accessor=name, elemType="POINT"),
                      signature=f"accessor:{name}:dim0", replay=_replay_point_accessor(name))
    if r0 is not None:
        raise Refuted(f"{name} of a 0-dimensional group is not None", signature=f"accessor:{name}:dim0", replay=dict(confirmed=False))
    return Verdict(DISCHARGED, backend="extracted accessor on a recording receiver, callee by contract", sub=4)


def ob_hermitian_accessor_contract(name, table):
    """the Hermitian accessors of the Euler-Bernoulli groups against the contract of their callee: Get_Hermitian_<x>_pg() == _Eval_Functions(self._Hermitian_<x>(), Get_gauss(MatrixType.beam).coord)
    for a 1-dimensional group (the beam quadrature, whatever the caller assembles), None otherwise"""
    from vt import sx
    from EasyFEA.FEM._utils import MatrixType
    path = "EasyFEA/FEM/Elems/_beam.py"
    fn = extract.get(path, f"_EulerBernoulli.{name}")
    calls, asked = [], []
    T, G, R = object(), object(), object()

    class _Stub:
        @staticmethod
        def _Eval_Functions(functions, gaussPoints):
            calls.append((functions, gaussPoints))
            return R
    g = sx.module_globals("EasyFEA.FEM.Elems._beam", _GroupElem=_Stub)
    f = extract.compile_fn(fn, g, exact=False)
    tabs = ("_Hermitian_N", "_Hermitian_dN", "_Hermitian_ddN", "_Hermitian_dddN")
    others = {t: (lambda t=t: (_ for _ in ()).throw(Refuted(f"{name} reads the table {t} instead of {table}", signature=f"accessor:{name}:table"))) for t in tabs if t != table}
    me = sx.Mock("self", dim=1, Get_gauss=lambda mt: (asked.append(mt), sx.Mock("gauss", coord=G))[1], **{table: (lambda: T)}, **others)
    got = f(me)
    if got is not R or calls != [(T, G)] or asked != [MatrixType.beam]:
        raise Refuted(f"{name}: returns {'the evaluated table' if got is R else 'something else'}; _Eval_Functions called {len(calls)} time(s) "
                      f"{'with the table and the points' if calls == [(T, G)] else 'with other arguments'}; Get_gauss asked for {asked} (expected the beam quadrature)",
                      signature=f"accessor:{name}:contract", replay=dict(confirmed=False))
    if f(sx.Mock("self", dim=2)) is not None:
        raise Refuted(f"{name} of a group that is not 1-dimensional is not None", signature=f"accessor:{name}:dim", replay=dict(confirmed=False))
    return Verdict(DISCHARGED, backend="extracted accessor on a recording receiver, callee by contract", sub=4)


def ob_accessors(et):
    """the public accessors serve the tables: Get_N_pg, Get_dN_pg, Get_ddN_pg, Get_dddN_pg, Get_ddddN_pg (matrixType) == the tabulated functions _N ... _ddddN
    evaluated at the integration points of that matrix type -- for every derivative order, whether or not the derivative vanishes for this element."""
    from . import patches
    from EasyFEA.FEM._utils import MatrixType
    mesh = patches.two_element_mesh(et)
    g = mesh.groupElem
    n = 0
    for mt in (MatrixType.rigi, MatrixType.mass):
        pts = np.asarray(g.Get_gauss(mt).coord)
        for k, (acc, tab) in enumerate((("Get_N_pg", "_N"), ("Get_dN_pg", "_dN"), ("Get_ddN_pg", "_ddN"), ("Get_dddN_pg", "_dddN"), ("Get_ddddN_pg", "_ddddN"))):
            table = getattr(g, tab)()
            got = getattr(g, acc)(mt)
            if got is None:
                raise Refuted(f"{et}.{acc}({mt}) returns None", signature=f"accessor:{et}:{acc}", replay=dict(confirmed=True))
            got = np.asarray(got)
            table = np.asarray(table, dtype=object)
            want = np.array([[[float(table[i_, f_](*pts[p_])) for i_ in range(table.shape[0])] for f_ in range(table.shape[1])] for p_ in range(pts.shape[0])])
            n += 1
            if got.shape != want.shape or not np.allclose(got, want, rtol=1e-13, atol=1e-13):
                bad = float(np.abs(got - want).max()) if got.shape == want.shape else None
                raise Refuted(f"{et}.{acc}({mt.name if hasattr(mt, 'name') else mt}) differs from the table {tab} evaluated at the integration points (shape {got.shape} vs {want.shape}, max difference {bad})",
                              cex=dict(elemType=et, accessor=acc, matrixType=str(mt)), signature=f"accessor:{et}:{acc}", replay=dict(confirmed=True, max_diff=bad))
    return Verdict(DISCHARGED, backend="native run: accessors vs the tables evaluated point by point", sub=n)


def build(tier, seed):
    obs = []
    funcs = {}
    for et in common.LAGRANGE:
        path = common.elem_file(et)
        fk = tuple(f"{path}::{et}.{t}" for t in TABLES + ["Get_Local_Coords"])
        obs.append(Ob(f"C06.{et}.shape", ob_shape, (et,), "P", fk, clause="tables have nPe rows and dim columns; nPe distinct nodes"))
        obs.append(Ob(f"C06.{et}.kronecker", ob_kronecker, (et,), "P", fk[:1] + fk[-1:], clause="N_i(x_j) = delta_ij at the element's own nodes"))
        obs.append(Ob(f"C06.{et}.pu", ob_pu, (et,), "P", fk[:1], clause="sum_i N_i == 1 identically"))
        obs.append(Ob(f"C06.{et}.complete", ob_complete, (et,), "P", fk[:1] + fk[-1:], clause="sum_i m(x_i) N_i == m for every monomial of total degree <= order"))
        for k in (1, 2, 3, 4):
            obs.append(Ob(f"C06.{et}.d{k}", ob_deriv, (et, k), "P", (fk[k], fk[k - 1]),
                          clause=f"{TABLES[k]}[i][j] == d/dx_j {TABLES[k-1]}[i][j] identically"))
        for t in TABLES + ["Get_Local_Coords"]:
            try:
                funcs[f"{et}.{t}"] = extract.get(path, f"{et}.{t}").describe()
            except Unsupported:
                pass
    for et in common.LAGRANGE:
        obs.append(Ob(f"C06.{et}.accessors", ob_accessors, (et,), "B", tuple(f"{common.GROUP_PATH}::_GroupElem.{a}" for a in ("Get_N_pg", "Get_dN_pg", "Get_ddN_pg", "Get_dddN_pg", "Get_ddddN_pg")),
                      bound="integration points of the stiffness and mass rules", clause="Get_d^kN_pg(matrixType) == table d^kN evaluated at the integration points, k = 0..4"))
    bpath = common.elem_file(common.HERMITE[0])
    for et in common.HERMITE:
        fk = tuple(f"{bpath}::{et}.{t}" for t in HTABLES)
        obs.append(Ob(f"C06.{et}.hermite", ob_hermite_interp, (et,), "P", fk[:1],
                      clause="phi_i(x_j)=delta_ij, phi_i'(x_j)=0, psi_i(x_j)=0, 2 psi_i'(x_j)=delta_ij (tolerance 1e-12, exact evaluation)"))
        for k in (1, 2, 3):
            obs.append(Ob(f"C06.{et}.hd{k}", ob_hermite_deriv, (et, k), "P", (fk[k], fk[k - 1]),
                          clause=f"{HTABLES[k]} == d/dr {HTABLES[k-1]} (sum |coef| of the difference <= 1e-11)"))
        for t in HTABLES:
            funcs[f"{et}.{t}"] = extract.get(bpath, f"{et}.{t}").describe()
    for name, table in (("Get_N_pg", "_N"), ("Get_dN_pg", "_dN"), ("Get_ddN_pg", "_ddN"), ("Get_dddN_pg", "_dddN"), ("Get_ddddN_pg", "_ddddN")):
        obs.append(Ob(f"C06.accessor.contract.{name}", ob_accessor_contract, (name, table), "P", (f"{common.GROUP_PATH}::_GroupElem.{name}", f"{common.GROUP_PATH}::_GroupElem._Eval_Functions"),
                      clause=f"{name}(matrixType) == _Eval_Functions({table}(), Get_gauss(matrixType).coord) (callee by its contract); None for dim 0"))
    for name, table in (("Get_Hermitian_N_pg", "_Hermitian_N"), ("Get_Hermitian_dN_pg", "_Hermitian_dN"), ("Get_Hermitian_ddN_pg", "_Hermitian_ddN"), ("Get_Hermitian_dddN_pg", "_Hermitian_dddN")):
        obs.append(Ob(f"C06.accessor.contract.{name}", ob_hermitian_accessor_contract, (name, table), "P", (f"EasyFEA/FEM/Elems/_beam.py::_EulerBernoulli.{name}", f"{common.GROUP_PATH}::_GroupElem._Eval_Functions"),
                      clause=f"{name}() == _Eval_Functions({table}(), Get_gauss(MatrixType.beam).coord) for a 1-dimensional group (callee by its contract); None otherwise"))
    obs.append(Ob("C06._Eval_Functions.loops", ob_eval_functions_loops, (), "P", (f"{common.GROUP_PATH}::_GroupElem._Eval_Functions",),
                  clause="forall nPg, nF, nPe: out[p, f, n] == functions[n, f](*gaussPoints[p]) for every index within the bounds, shape (nPg, nF, nPe): loop contract, 8 verification conditions"))
    obs.append(Ob("canary.eval.loops", ob_eval_functions_loops, (True,), "P", expect=REFUTED))
    for et in ("SEG3", "TRI6", "QUAD4", "QUAD8", "HEXA20", "PRISM6"):
        obs.append(Ob(f"C06.eval.dtype.{et}", ob_eval_dtype, (et,), "X", (f"{common.GROUP_PATH}::_GroupElem._Eval_Functions",), bound="integer lattice points of the reference element, tables N, dN, ddN",
                      clause="tables evaluated at integer-typed coordinates == at the same coordinates as floats (the loop contract assumes np.zeros(shape) allocates floats)"))
    obs.append(Ob("C06._Eval_Functions", ob_eval_functions, (), "B", (f"{common.GROUP_PATH}::_GroupElem._Eval_Functions",),
                  bound="(nPg,nF,nPe,dim) in {(1,1,2,1),(3,2,4,2),(2,3,5,3),(4,1,3,2)}",
                  clause="out[p,f,n] == functions[n][f](*points[p])"))
    funcs["_GroupElem._Eval_Functions"] = extract.get(common.GROUP_PATH, "_GroupElem._Eval_Functions").describe()
    funcs["_GroupElem._Init_Functions"] = extract.get(common.GROUP_PATH, "_GroupElem._Init_Functions").describe()
    obs.append(Ob("canary.TRI6.kronecker", ob_kronecker, ("TRI6", True), "P", expect=REFUTED))
    obs.append(Ob("canary.QUAD8.d1", ob_deriv, ("QUAD8", 1, True), "P", expect=REFUTED))
    return dict(
        obs=obs, level="proof", min_obligations=19 * 8 + 4 * 4 + 1,
        explanation=("All 19 Lagrange element classes and the 4 Hermite beam families are re-assembled from the ASTs of "
                     "Elems/*.py (inherited tables through the real MRO, _Init_Functions from _group_elem.py), float literals read "
                     "as exact rationals, and every table entry is evaluated on the generators of QQ(r,s,t). Kronecker property, "
                     "partition of unity, polynomial completeness and all four derivative tables are decided as polynomial "
                     "identities (all points of the reference element and beyond). Hermite families: exact evaluation with the "
                     "stated 1e-12 tolerance because the order-3/4 tables are typed as 15-digit decimals."),
        trusted_base=["Python semantics of lambdas/arithmetic; numpy object arrays used only as containers of lambdas",
                      "float literals read as the decimal rationals they spell; `/` on ints exact",
                      "sympy 1.14 polynomial normal form and differentiation",
                      "element metadata (nPe, dim, order) read from GroupElemFactory.DICT_GMSH_DATA of the working tree"],
        assumptions=["machine arithmetic treated as mathematical", "Hermite clauses hold within 1e-12 (exactly evaluated), not exactly",
                     "_Eval_Functions: proved for all loop bounds by a loop contract (C06._Eval_Functions.loops); the run at 4 concrete bound tuples is kept as the native cross-check of that obligation"],
        functions=funcs,
        dropped=["D1 decorators except property/staticmethod/classmethod/abstractmethod", "D2 annotations", "D3 docstrings",
                 "D4 float literals -> exact rationals, `/` `**` exact", "__init__ skipped (object.__new__ + private fields nPe, dim, order)"],
    )
