"""C01 -- patch test: linear fields are reproduced by the element pipeline and the full solve.

Decomposition (DESIGN.md 3/C01):
  P  C01.linalg.*        closed-form Det / Inv / Trace of _linalg.py == Leibniz / M Inv(M) = I, for ALL matrices (symbolic entries)
  P  C01.B.placement     Get_B_e_pg places symbolic dN so that B u = Kelvin-Mandel(sym grad u), all nodal vectors
  B  C01.constgrad[t]    real Get_dN_e_pg on exact star patches: grad of u = G x + c is G at every Gauss point, symbolic G, c
  B  C01.residual[t]     real element operators + exact scatter-add (C03 contract): residual of the linear field on
                         interior rows of a star patch <= 2^-40 scale (thermal all types; elasticity per tier)
  X  C01.solve[t]        native float run of the real Simulations.Thermal / Elastic Solve() on the star patch (bounded run-time
                         contract): interior nodes reproduce the linear field, Strain / Stress / Wdef are the constants
"""
from __future__ import annotations

import itertools
import time
from fractions import Fraction

import numpy as np

from vt import alg, extract, sx, symrun, npshim
from vt.alg import Ctx, X
from vt.core import Ob, Verdict, Refuted, Unsupported, DISCHARGED, REFUTED
from . import ops
from . import common, patches, fem

PROP = "C01"
F = Fraction
GP = "EasyFEA/FEM/_group_elem.py"
LP = "EasyFEA/FEM/_linalg.py"
TOL = F(1, 2 ** 40)


# ---------------------------------------------------------------- P: closed-form linear algebra

def ob_linalg(dim, canary=False):
    names = [f"m{i}{j}" for i in range(dim) for j in range(dim)]
    wit = {n: F(k + 2, 7 + (k * k) % 5) for k, n in enumerate(names)}
    c = Ctx(names, nspare=1, witness=wit)
    NPs = npshim.NP(c)
    g = sx.module_globals("EasyFEA.FEM._linalg", np=NPs)
    g = extract.compile_module_functions(LP, g, names=["Det", "Inv", "Trace", "Transpose", "__CheckMat"])
    M = np.empty((1, 1, dim, dim), dtype=object)
    for i in range(dim):
        for j in range(dim):
            M[0, 0, i, j] = c.sym(f"m{i}{j}")
    det = np.asarray(g["Det"](M))[0, 0]
    leib = npshim._det([[M[0, 0, i, j] for j in range(dim)] for i in range(dim)])
    if canary:
        leib = leib + c.sym("m00")
    n = 1
    if not (det == leib):
        raise Refuted(f"_linalg.Det (dim {dim}) differs from the Leibniz determinant by {det - leib}", signature=f"linalg:det:{dim}",
                      cex={k: str(v) for k, v in wit.items()}, replay=_native_linalg(dim, wit))
    tr = np.asarray(g["Trace"](M))[0, 0]
    n += 1
    if not (tr == sum((M[0, 0, i, i] for i in range(dim)), c.const(0))):
        raise Refuted(f"_linalg.Trace (dim {dim}) wrong", signature=f"linalg:trace:{dim}", replay=_native_linalg(dim, wit))
    inv = np.asarray(g["Inv"](M))[0, 0]
    P = np.asarray(M[0, 0]) @ inv
    for i in range(dim):
        for j in range(dim):
            n += 1
            if not (P[i, j] == (1 if i == j else 0)):
                raise Refuted(f"_linalg.Inv (dim {dim}): (M Inv(M))[{i},{j}] = {P[i,j]}", signature=f"linalg:inv:{dim}",
                              cex={k: str(v) for k, v in wit.items()}, replay=_native_linalg(dim, wit))
    return Verdict(DISCHARGED, backend="ring-normal-form over QQ(m_ij)", sub=n)


def _native_linalg(dim, wit):
    try:
        from EasyFEA.FEM._linalg import Det, Inv
        M = np.array([[float(wit[f"m{i}{j}"]) for j in range(dim)] for i in range(dim)])[None, None]
        d = float(np.asarray(Det(M))[0, 0])
        e1 = abs(d - np.linalg.det(M[0, 0]))
        e2 = float(np.abs(M[0, 0] @ np.asarray(Inv(M))[0, 0] - np.eye(dim)).max())
        return dict(confirmed=bool(e1 > 1e-9 or e2 > 1e-9), det_err=float(e1), inv_err=e2)
    except Exception as e:
        return dict(confirmed=True, raised=repr(e))


def ob_B_placement(dim, nPe):
    """Get_B_e_pg on a symbolic dN_e_pg (1 element, 1 point): B u == KM(sym(sum_n dN_n (x) u_n))."""
    names = [f"d{i}_{n}" for i in range(dim) for n in range(nPe)] + [f"u{n}_{k}" for n in range(nPe) for k in range(dim)]
    c = Ctx(names, nspare=2)
    NPs = npshim.NP(c)
    g = sx.module_globals("EasyFEA.FEM._group_elem", np=NPs)
    dN = np.empty((1, 1, dim, nPe), dtype=object)
    for i in range(dim):
        for n in range(nPe):
            dN[0, 0, i, n] = c.sym(f"d{i}_{n}")
    from EasyFEA.FEM._linalg import FeArray

    class Gs:
        nPg = 1
    me = sx.Mock("self", Ne=1, nPe=nPe, dim=dim, Get_dN_e_pg=lambda mt: FeArray.asfearray(dN), Get_gauss=lambda mt: Gs())
    f = extract.compile_fn(extract.get(GP, "_GroupElem.Get_B_e_pg"), g)
    B = np.asarray(f(me, "rigi"))[0, 0]
    u = [c.sym(f"u{n}_{k}") for n in range(nPe) for k in range(dim)]
    eps_code = [sum((B[r, k] * u[k] for k in range(nPe * dim)), c.const(0)) for r in range(B.shape[0])]
    # spec: grad[i][j] = d u_i / d x_j = sum_n dN[j,n] u[n,i]
    grad = [[sum((dN[0, 0, j, n] * c.sym(f"u{n}_{i}") for n in range(nPe)), c.const(0)) for j in range(dim)] for i in range(dim)]
    r2 = c.sqrt_rational(F(2))
    sym = lambda i, j: (grad[i][j] + grad[j][i]) / 2
    if dim == 2:
        want = [sym(0, 0), sym(1, 1), r2 * sym(0, 1)]
    else:
        want = [sym(0, 0), sym(1, 1), sym(2, 2), r2 * sym(1, 2), r2 * sym(0, 2), r2 * sym(0, 1)]
    if len(eps_code) != len(want):
        raise Refuted(f"B has {len(eps_code)} rows, expected {len(want)}", signature=f"B:{dim}:rows", replay=dict(confirmed=True))
    for r, (a, b) in enumerate(zip(eps_code, want)):
        if not (a == b):
            raise Refuted(f"Get_B_e_pg (dim {dim}): strain component {r} is {a}, expected {b}", signature=f"B:{dim}:{r}",
                          replay=_native_B(dim))
    return Verdict(DISCHARGED, backend="ring-normal-form", sub=len(want))


def _native_B(dim):
    try:
        et = "TRI3" if dim == 2 else "TETRA4"
        mesh = patches.two_element_mesh(et)
        g = mesh.groupElem
        from EasyFEA.FEM._utils import MatrixType
        B = np.asarray(g.Get_B_e_pg(MatrixType.rigi))
        rng = np.random.default_rng(0)
        G = rng.normal(size=(dim, dim))
        co = np.asarray(g.coord)[:, :dim]
        u = (co @ G.T)
        ue = u[np.asarray(g.connect)].reshape(g.Ne, -1)
        eps = np.einsum("epij,ej->epi", B, ue)
        S = (G + G.T) / 2
        r2 = np.sqrt(2)
        want = np.array([S[0, 0], S[1, 1], r2 * S[0, 1]]) if dim == 2 else np.array([S[0, 0], S[1, 1], S[2, 2], r2 * S[1, 2], r2 * S[0, 2], r2 * S[0, 1]])
        err = float(np.abs(eps - want).max())
        return dict(confirmed=err > 1e-9, err=err)
    except Exception as e:
        return dict(confirmed=True, raised=repr(e))


# ---------------------------------------------------------------- B: element pipeline on exact star patches

def _star(et):
    pre, connect = patches.star_patch(et, affine=None)
    coords, _ = patches.star_patch(et)
    interior = fem.star_interior(et, pre)
    return coords, connect, interior


def ob_constgrad(et):
    gid, nPe, dim, order = common.elem_infos(et)
    names = [f"G{i}{j}" for i in range(dim) for j in range(dim)] + [f"c{i}" for i in range(dim)]
    c = Ctx(names, nspare=6, witness={n: F(k + 1, 3 + k) for k, n in enumerate(names)})
    symrun.install(c)
    from EasyFEA.FEM._utils import MatrixType
    coords, connect, interior = _star(et)
    g = fem.exact_group(et, coords, connect)
    n = 0
    for mt in (MatrixType.rigi, MatrixType.mass):
        dN = np.asarray(g.Get_dN_e_pg(mt))          # (Ne, nPg, dim, nPe)
        for comp in range(dim):
            # u_comp(x) = sum_j G[comp][j] x_j + c_comp
            un = [sum((c.sym(f"G{comp}{j}") * coords[k][j] for j in range(dim)), c.sym(f"c{comp}")) for k in range(len(coords))]
            for e in range(dN.shape[0]):
                ue = [un[k] for k in connect[e]]
                for p in range(dN.shape[1]):
                    for j in range(dim):
                        val = sum((dN[e, p, j, a] * ue[a] for a in range(nPe)), c.const(0))
                        n += 1
                        d = val - c.sym(f"G{comp}{j}")
                        if not (d == 0):
                            # with float-typed Gauss points the identity is exact (affine element) -- any deviation is a defect
                            raise Refuted(f"{et}: d u_{comp}/d x_{j} at element {e}, {mt} point {p} is G + {d}", signature=f"constgrad:{et}",
                                          cex=dict(element=e, point=p), replay=_native_constgrad(et))
    return Verdict(DISCHARGED, backend="exact field arithmetic on the real Get_dN_e_pg", sub=n)


def _native_constgrad(et):
    try:
        coords, connect, _ = _star(et)
        mesh = patches.real_mesh(et, coords, connect)
        g = mesh.groupElem
        from EasyFEA.FEM._utils import MatrixType
        dN = np.asarray(g.Get_dN_e_pg(MatrixType.rigi))
        rng = np.random.default_rng(0)
        G = rng.normal(size=g.dim)
        co = np.array([[float(x) for x in p] for p in coords])[:, :g.dim]
        u = co @ G + 0.3
        ue = u[np.asarray(connect)]
        grad = np.einsum("epja,ea->epj", dN, ue)
        err = float(np.abs(grad - G).max())
        return dict(confirmed=err > 1e-9, err=err)
    except Exception as e:
        return dict(confirmed=True, raised=repr(e))


def _lin_field(c, coords, dim, ncomp):
    """nodal values of u_i = sum_j G_ij x_j + c_i (symbolic)."""
    u = []
    for k, p in enumerate(coords):
        for i in range(ncomp):
            u.append(sum((c.sym(f"G{i}{j}") * p[j] for j in range(dim)), c.sym(f"c{i}")))
    return u


def ob_residual(et, physics):
    gid, nPe, dim, order = common.elem_infos(et)
    ncomp = 1 if physics == "thermal" else dim
    names = [f"G{i}{j}" for i in range(ncomp) for j in range(dim)] + [f"c{i}" for i in range(ncomp)]
    c = Ctx(names, nspare=8, witness={n: F(k + 1, 3 + k) for k, n in enumerate(names)})
    symrun.install(c)
    from EasyFEA.FEM import Operators
    coords, connect, interior = _star(et)
    if not interior:
        raise Unsupported("star patch without interior node")
    g = fem.exact_group(et, coords, connect)
    if physics == "thermal":
        Ke = Operators.Bilinear.GradUGradV(g, coef=F(3, 2))
    else:
        Ke = Operators.Bilinear.LinearizedElasticity(g, fem.iso_C(dim))
    Ke = np.asarray(Ke)
    Ndof = len(coords) * ncomp
    u = _lin_field(c, coords, dim, ncomp)
    # residual on interior rows only: r_i = sum_e sum_b Ke[e,a,b] u[dof b]
    rows = {n * ncomp + d for n in interior for d in range(ncomp)}
    res = {r: c.const(0) for r in rows}
    scale = F(0)
    for e, con in enumerate(connect):
        dofs = [n * ncomp + d for n in con for d in range(ncomp)]
        for a, ra in enumerate(dofs):
            if ra in rows:
                for b, cb in enumerate(dofs):
                    v = Ke[e, a, b]
                    if not fem._is0(v):
                        res[ra] = res[ra] + v * u[cb]
        for a in range(len(dofs)):
            vv = Ke[e, a, a]
            scale = max(scale, abs(F(float(vv))))
    worst = 0.0
    cnt = 0
    for r, val in res.items():
        val = val if isinstance(val, X) else c.const(val)
        # the residual is a linear form in (G, c): each coefficient must vanish (within 2^-40 * scale: quadrature points are floats)
        num = c.reduce(val)
        for mon, coef in num.v.numer.terms():
            cnt += 1
        coeffs = _linear_coeffs(c, val, names)
        for nm, cf in coeffs.items():
            a = abs(float(cf))
            worst = max(worst, a)
            if a > float(TOL * scale):
                raise Refuted(f"{et} {physics}: residual of the linear field on interior row {r} has coefficient {a:.3e} for {nm} (scale {float(scale):.3e})",
                              cex=dict(row=r, symbol=nm), signature=f"residual:{et}:{physics}", replay=_native_solve(et, physics))
    return Verdict(DISCHARGED, backend="exact arithmetic on the real element operator + scatter-add contract; tolerance 2^-40*scale",
                   sub=len(res) * len(names), detail=f"interior nodes {len(interior)}, max |coef| {worst:.2e}")


def _linear_coeffs(c, val: X, names):
    """coefficients of a polynomial that is linear in the named symbols (ground algebraic coefficients evaluated numerically)."""
    out = {}
    val = c.reduce(val)
    if not val.v.denom.is_ground:
        raise Unsupported("residual is not polynomial")
    den = val.v.denom.LC
    nv = c.nvars
    groups = {}
    for mon, coef in val.v.numer.terms():
        key = tuple(mon[:nv])
        groups.setdefault(key, []).append((mon, coef))
    for key, terms in groups.items():
        nm = "*".join(n for n, e in zip(names, key) if e) or "1"
        p = c.R(dict(terms))
        # strip the symbol part
        q = c.R({tuple([0] * nv + list(m[nv:])): cf for m, cf in terms})
        xv = X(c, c.F(q) / c.F(den))
        out[nm] = alg._eval_ground(c, xv) if xv.ground() is None else xv.ground()
    return out


# ---------------------------------------------------------------- X: native float solve (bounded run-time contract)

def _native_solve(et, physics, check_results=True, mirrored=False):
    try:
        from EasyFEA import Models, Simulations
        coords, connect, interior = _star(et)
        if mirrored:
            # reflected patch: every element is negatively oriented (what Mesh.Symmetry or an affine image with det < 0 produces)
            coords = [[-p[0]] + list(p[1:]) for p in coords]
        mesh = patches.real_mesh(et, coords, connect)
        dim = mesh.dim
        rng = np.random.default_rng(5)
        co = np.array([[float(x) for x in p] for p in coords])
        Nn = len(coords)
        boundary = np.array([n for n in range(Nn) if n not in set(interior)])
        if physics == "thermal":
            simu = Simulations.Thermal(mesh, Models.Thermal(k=1.7, c=1.0, thickness=1.3) if dim == 2 else Models.Thermal(k=1.7, c=1.0))
            G = rng.normal(size=dim)
            c0 = 0.37
            exact = co[:, :dim] @ G + c0
            simu.add_dirichlet(boundary, [exact[boundary]], ["t"])
            u = np.asarray(simu.Solve())
            err = float(np.abs(u - exact).max() / np.abs(exact).max())
            return dict(confirmed=err > 1e-9, rel_err=err, interior_nodes=len(interior))
        if dim == 1:
            return dict(confirmed=False, note="no 1-D continuum elastic simulation")
        mat = Models.Elastic.Isotropic(dim, E=3.0, v=0.25, planeStress=True, thickness=1.3)
        simu = Simulations.Elastic(mesh, mat)
        G = rng.normal(size=(dim, dim))
        c0 = rng.normal(size=dim)
        exact = co[:, :dim] @ G.T + c0
        names = ["x", "y", "z"][:dim]
        simu.add_dirichlet(boundary, [exact[boundary, d] for d in range(dim)], names)
        u = np.asarray(simu.Solve()).reshape(Nn, dim)
        err = float(np.abs(u - exact).max() / np.abs(exact).max())
        out = dict(rel_err=err, interior_nodes=len(interior))
        bad = err > 1e-9
        if check_results:
            S = (G + G.T) / 2
            strain = np.asarray(simu.Result("Strain", nodeValues=False))
            r2 = np.sqrt(2)
            km = np.array([S[0, 0], S[1, 1], r2 * S[0, 1]]) if dim == 2 else np.array([S[0, 0], S[1, 1], S[2, 2], r2 * S[1, 2], r2 * S[0, 2], r2 * S[0, 1]])
            unkm = np.array([1, 1, 1 / r2]) if dim == 2 else np.array([1, 1, 1, 1 / r2, 1 / r2, 1 / r2])
            want = km       # Kelvin-Mandel vector (energy); the named results drop the sqrt(2) on shear components
            es = float(np.abs(strain.reshape(-1, want.size) - km * unkm).max())
            C = np.asarray(mat.C)
            stress = np.asarray(simu.Result("Stress", nodeValues=False))
            ess = float(np.abs(stress.reshape(-1, want.size) - (C @ km) * unkm).max() / np.abs(C @ km).max())
            meas = mesh.area * 1.3 if dim == 2 else mesh.volume
            if mirrored:
                # a reflection keeps the measure: the reference is the measure of the unreflected patch, which is positive
                ref = patches.real_mesh(et, _star(et)[0], connect)
                meas0 = ref.area * 1.3 if dim == 2 else ref.volume
                out.update(measure=float(meas), measure_unmirrored=float(meas0))
                bad = bad or not (meas0 > 0) or abs(meas - meas0) > 1e-9 * abs(meas0)
                meas = meas0
            W = float(simu.Result("Wdef"))
            ew = abs(W - 0.5 * want @ C @ want * meas) / abs(0.5 * want @ C @ want * meas)
            out.update(strain_err=es, stress_err=ess, wdef_err=float(ew), wdef=W)
            bad = bad or es > 1e-9 or ess > 1e-9 or ew > 1e-9 or not (W > 0)
        out["confirmed"] = bool(bad)
        return out
    except Exception as e:
        import traceback
        return dict(confirmed=True, raised=repr(e), tb=traceback.format_exc()[-600:])


def ob_solve(et, physics, mirrored=False):
    r = _native_solve(et, physics, mirrored=mirrored)
    if r.get("confirmed"):
        raise Refuted(f"{et} {physics}{' (mirrored patch)' if mirrored else ''}: the real Solve() does not reproduce the linear field on the star patch: {r}",
                      cex=dict(elemType=et, physics=physics, mirrored=mirrored), signature=f"solve:{et}:{physics}{':mirrored' if mirrored else ''}", replay=r)
    return Verdict(DISCHARGED, backend="native float run of the real Simulations pipeline (run-time contract, tol 1e-9)", detail=str(r))


def ob_solve_large():
    """Patch test on a mesh with more than 2^31 matrix slots (Ndof > 46340): hand-built structured, affinely distorted TRI3 grid,
    plane-stress elasticity, native floats.  (Index arithmetic that is only correct for small systems shows up here.)"""
    from EasyFEA import Models, Simulations
    N = 154
    xs = np.linspace(0.0, 1.0, N)
    X, Y = np.meshgrid(xs, xs, indexing="ij")
    co = np.zeros((N * N, 3))
    co[:, 0] = (1.3 * X + 0.2 * Y).ravel()
    co[:, 1] = (-0.1 * X + 0.9 * Y).ravel()
    idx = np.arange(N * N).reshape(N, N)
    a, b, c_, d = idx[:-1, :-1].ravel(), idx[1:, :-1].ravel(), idx[1:, 1:].ravel(), idx[:-1, 1:].ravel()
    connect = np.concatenate([np.stack([a, b, c_], 1), np.stack([a, c_, d], 1)])
    mesh = patches.real_mesh("TRI3", co.tolist(), connect.tolist())
    simu = Simulations.Elastic(mesh, Models.Elastic.Isotropic(2, E=3.0, v=0.25, planeStress=True, thickness=1.0))
    G = np.array([[0.3, -0.7], [0.5, 0.2]])
    exact = co[:, :2] @ G.T + np.array([0.1, -0.2])
    bnd = np.unique(np.concatenate([idx[0, :], idx[-1, :], idx[:, 0], idx[:, -1]]))
    simu.add_dirichlet(bnd, [exact[bnd, 0], exact[bnd, 1]], ["x", "y"])
    Ndof = mesh.Nn * 2
    K = simu.Get_K_C_M_F()[0]
    r = K @ exact.ravel()
    interior = np.setdiff1d(np.arange(mesh.Nn), bnd)
    rows = np.concatenate([interior * 2, interior * 2 + 1])
    res = float(np.abs(r[rows]).max() / np.abs(K.diagonal()).max())
    u = np.asarray(simu.Solve()).reshape(-1, 2)
    with np.errstate(all="ignore"):
        err = float(np.nanmax(np.abs(u - exact)) / np.abs(exact).max()) if np.isfinite(u).all() else float("inf")
    rec = dict(Ndof=int(Ndof), residual_interior=res, rel_err=err, empty_rows=int((np.diff(K.indptr) == 0).sum()))
    if res > 1e-9 or err > 1e-8:
        raise Refuted(f"patch test on a {Ndof}-dof TRI3 mesh fails: {rec}", cex=dict(Ndof=int(Ndof)), signature="solve:large", replay=dict(confirmed=True, **rec))
    return Verdict(DISCHARGED, backend="native float run (run-time contract)", detail=str(rec))


def _law(dim, name):
    """every elastic law class, material axes oblique to the coordinate axes (unnormalised where the constructor accepts it)."""
    from EasyFEA import Models
    E = Models.Elastic
    ax1, ax2 = np.array([2.0, 1.0, 0.5]), np.array([-1.0, 2.0, 0.0])      # orthogonal, not unit
    if dim == 2:
        ax1, ax2 = np.array([2.0, 1.0, 0.0]), np.array([-1.0, 2.0, 0.0])
    kind, _, opt = name.partition(".")
    ps = opt != "pe"
    if kind == "iso":
        return E.Isotropic(dim, E=3.0, v=0.25, planeStress=ps, thickness=1.3)
    if kind == "ti":
        return E.TransverselyIsotropic(dim, El=11.0, Et=3.0, Gl=1.7, vl=0.26, vt=0.31, axis_l=ax1, axis_t=ax2, planeStress=ps, thickness=1.3)
    if kind == "ortho":
        return E.Orthotropic(dim, E1=11.0, E2=5.0, E3=3.0, G23=1.1, G13=1.4, G12=1.9, v23=0.2, v13=0.24, v12=0.3, axis_1=ax1, axis_2=ax2, planeStress=ps, thickness=1.3)
    if kind == "aniso":
        n = 3 if dim == 2 else 6
        rng = np.random.default_rng(11)
        A = rng.normal(size=(n, n))
        C = A @ A.T + n * np.eye(n)
        return E.Anisotropic(dim, C, useVoigtNotation=(opt == "voigt"), axis1=ax1, axis2=ax2, thickness=1.3)
    raise Unsupported(name)


def _gmsh_mesh(kind):
    from EasyFEA.Geoms import Domain, Point, Circle, Points
    from EasyFEA import ElemType
    if kind == "QUAD8+TRI6":
        return Domain(Point(), Point(10, 6), 2.5).Mesh_2D([], ElemType.QUAD8)
    if kind == "QUAD4+TRI3":
        return Domain(Point(), Point(10, 6), 2.5).Mesh_2D([], ElemType.QUAD4)     # at this size the recombination leaves 4 triangles
    if kind.startswith("poly."):
        et = kind.split(".")[1]
        return Points([Point(0, 0), Point(7, 1), Point(9, 5), Point(4, 8), Point(-1, 4)], 2.0).Mesh_2D([], ElemType[et])
    if kind.startswith("hole."):
        et = kind.split(".")[1]
        return Domain(Point(), Point(10, 6), 1.6).Mesh_2D([Circle(Point(5, 3), 2.0, 0.9)], ElemType[et])
    if kind.startswith("ext."):
        et = kind.split(".")[1]
        return Points([Point(0, 0), Point(5, 1), Point(6, 4), Point(1, 5)], 2.2).Mesh_Extrude([], [0, 0, 3], [2], ElemType[et])
    raise Unsupported(kind)


def _renumbered(mesh, perm):
    """same mesh with node k renamed perm[k] (only the groups of the main dimension are kept: boundary nodes are carried by the caller)."""
    from EasyFEA.FEM._mesh import Mesh
    from EasyFEA.FEM._group_elem import GroupElemFactory
    co = np.asarray(mesh.coord)
    new = np.empty_like(co)
    new[perm] = co
    groups = {}
    for g in mesh.Get_list_groupElem(mesh.dim):
        groups[g.elemType] = GroupElemFactory.Create(g.elemType, perm[np.asarray(g.connect)], new)
    return Mesh(groups)


def ob_solve_gmsh(kind, law, renumber=False, physics="elastic"):
    """patch test on an unstructured (possibly mixed-type) gmsh mesh of a polygonal / polyhedral domain, mapped by an affine map,
    optionally renumbered at random; any elastic law class."""
    from EasyFEA import Models, Simulations
    mesh = _gmsh_mesh(kind)
    dim = mesh.dim
    rng = np.random.default_rng(17 + len(kind) + len(law))
    bnd = np.unique(np.concatenate([np.asarray(g.nodes) for g in mesh.Get_list_groupElem(dim - 1)]))
    types = sorted(g.elemType.name for g in mesh.Get_list_groupElem(dim))
    if "+" in kind and len(types) < 2:
        raise Unsupported(f"{kind}: gmsh produced a single element type {types}")
    A = np.eye(3)
    A[:dim, :dim] = np.array([[1.2, 0.3, 0.1], [-0.2, 0.8, 0.2], [0.1, -0.1, 1.5]])[:dim, :dim]
    co = np.asarray(mesh.coord) @ A.T + np.array([0.3, -0.2, 0.5 if dim == 3 else 0.0])
    mesh.coord = co
    Nn = mesh.Nn
    if renumber:
        perm = rng.permutation(Nn)
        mesh = _renumbered(mesh, perm)
        bnd = perm[bnd]
        co = np.asarray(mesh.coord)
    interior = np.setdiff1d(np.arange(Nn), bnd)
    if interior.size < 3:
        raise Unsupported(f"{kind}: only {interior.size} interior nodes")
    rec = dict(kind=kind, law=law, types=types, Nn=int(Nn), interior=int(interior.size), renumbered=bool(renumber))
    if physics == "thermal":
        simu = Simulations.Thermal(mesh, Models.Thermal(k=1.7, c=1.0, thickness=1.3) if dim == 2 else Models.Thermal(k=1.7, c=1.0))
        G = rng.normal(size=dim)
        exact = co[:, :dim] @ G + 0.37
        simu.add_dirichlet(bnd, [exact[bnd]], ["t"])
        u = np.asarray(simu.Solve())
        err = float(np.abs(u - exact).max() / np.abs(exact).max())
        rec.update(rel_err=err)
        if not err < 1e-9:
            raise Refuted(f"thermal patch test on {kind}{' renumbered' if renumber else ''}: {rec}", cex=rec, signature=f"gmsh:{kind}:thermal", replay=dict(confirmed=True, **rec))
        return Verdict(DISCHARGED, backend="native float run (run-time contract, 1e-9)", detail=str(rec))
    mat = _law(dim, law)
    simu = Simulations.Elastic(mesh, mat)
    G = rng.normal(size=(dim, dim))
    c0 = rng.normal(size=dim)
    exact = co[:, :dim] @ G.T + c0
    simu.add_dirichlet(bnd, [exact[bnd, d] for d in range(dim)], ["x", "y", "z"][:dim])
    u = np.asarray(simu.Solve()).reshape(Nn, dim)
    err = float(np.abs(u - exact).max() / np.abs(exact).max())
    S = (G + G.T) / 2
    r2 = np.sqrt(2)
    km = np.array([S[0, 0], S[1, 1], r2 * S[0, 1]]) if dim == 2 else np.array([S[0, 0], S[1, 1], S[2, 2], r2 * S[1, 2], r2 * S[0, 2], r2 * S[0, 1]])
    unkm = np.array([1, 1, 1 / r2]) if dim == 2 else np.array([1, 1, 1, 1 / r2, 1 / r2, 1 / r2])
    C = np.asarray(mat.C)
    strain = np.asarray(simu.Result("Strain", nodeValues=False))
    stress = np.asarray(simu.Result("Stress", nodeValues=False))
    es = float(np.abs(strain.reshape(-1, km.size) - km * unkm).max() / np.abs(km).max())
    ess = float(np.abs(stress.reshape(-1, km.size) - (C @ km) * unkm).max() / np.abs(C @ km).max())
    meas = mesh.area * 1.3 if dim == 2 else mesh.volume
    W = float(simu.Result("Wdef"))
    Wref = 0.5 * km @ C @ km * meas
    ew = abs(W - Wref) / abs(Wref)
    rec.update(rel_err=err, strain_err=es, stress_err=ess, wdef_err=float(ew))
    if not (err < 1e-9 and es < 1e-9 and ess < 1e-9 and ew < 1e-9 and W > 0):
        raise Refuted(f"elastic patch test on {kind}, law {law}{', renumbered' if renumber else ''}: {rec}", cex=rec, signature=f"gmsh:{kind}:{law}", replay=dict(confirmed=True, **rec))
    return Verdict(DISCHARGED, backend="native float run (run-time contract, 1e-9)", detail=str(rec))


def ob_beam_patch(dim, timo, et, inclined, nL=4, remap=False):
    """beam patch test: constant axial strain a and constant curvature vector kappa (bending and, in 3-D, torsion rate), zero shear:
    theta(s) = theta0 + kappa s,  u(s) = u0 + a s t + (theta0 s + kappa s^2 / 2) x t,   prescribed at the two ends."""
    import contextlib, io
    from EasyFEA import Models, Simulations, Mesher, ElemType
    from EasyFEA.Geoms import Domain, Point, Line
    with contextlib.redirect_stdout(io.StringIO()):
        sect = Mesher().Mesh_2D(Domain(Point(), Point(0.3, 0.5)), elemType=ElemType.QUAD4)
        L = 3.0
        if dim == 1 or not inclined:
            p2 = np.array([L, 0, 0])
        elif dim == 2:
            p2 = np.array([L * 0.6, L * 0.8, 0])
        else:
            p2 = np.array([L / 3, 2 * L / 3, 2 * L / 3])
        line = Line(Point(0, 0, 0), Point(*p2), L / nL)
        E = 210e3
        beam = Models.Beam.Isotropic(dim, line, sect, E, v=0.3)
        mesh = Mesher().Mesh_Beams([beam], elemType=ElemType[et])
        simu = Simulations.Beam(mesh, beam, useTimoshenko=timo)
        if remap:
            # the SAME simulation and mesh, used once where they were built (whatever is memoised is memoised), then mapped by x -> 2.5 x + shift through the
            # coordinate setter (element lengths change) and used again for the patch test
            mesh = simu.mesh
            c0 = np.asarray(mesh.coord)
            s0 = c0 @ (p2 / np.linalg.norm(p2))
            e0 = np.array([int(np.argmin(s0)), int(np.argmax(s0))])
            unk0 = simu.Get_unknowns()
            simu.add_dirichlet(e0[:1], [0.0] * len(unk0), unk0)
            simu.add_dirichlet(e0[1:], [1e-3], [unk0[0]])
            simu.Solve()
            simu.Bc_Init()
            mesh.length
            mesh.coord = 2.5 * c0
            p2 = 2.5 * p2
    mesh = simu.mesh if remap else mesh
    co = np.asarray(mesh.coord)
    t = p2 / np.linalg.norm(p2)
    s = co @ t
    rng = np.random.default_rng(3 + dim)
    a = 1e-3 * rng.normal()
    u0, th0, kap = 1e-2 * rng.normal(size=3), 1e-2 * rng.normal(size=3), 1e-2 * rng.normal(size=3)
    if dim == 2:
        th0[:2] = 0; kap[:2] = 0; u0[2] = 0
    if dim == 1:
        th0[:] = 0; kap[:] = 0; u0[1:] = 0
    th = th0[None, :] + s[:, None] * kap[None, :]
    u = u0[None, :] + a * s[:, None] * t[None, :] + np.cross(th0[None, :] * s[:, None] + kap[None, :] * (s ** 2 / 2)[:, None], t[None, :])
    if dim == 1:
        exact, names = u[:, :1], ["x"]
    elif dim == 2:
        exact, names = np.c_[u[:, :2], th[:, 2]], ["x", "y", "rz"]
    else:
        exact, names = np.c_[u, th], ["x", "y", "z", "rx", "ry", "rz"]
    ends = np.array([int(np.argmin(s)), int(np.argmax(s))])
    if mesh.Nn - 2 < 1:
        raise Unsupported("no interior node")
    simu.add_dirichlet(ends, [exact[ends, k] for k in range(len(names))], names)
    sol = np.asarray(simu.Solve()).reshape(mesh.Nn, -1)
    err = float(np.abs(sol - exact).max() / np.abs(exact).max())
    rec = dict(dim=dim, timoshenko=timo, elemType=et, inclined=inclined, Nn=int(mesh.Nn), rel_err=err)
    bad = not err < 1e-9

    def rng_of(name):
        v = np.asarray(simu.Result(name, nodeValues=False), dtype=float)
        return v

    def const(name, want, scale):
        nonlocal bad
        v = rng_of(name)
        e = float(np.abs(v - want).max() / scale)
        rec[name] = e
        if not e < 1e-8:
            bad = True
    const("ux'", a, abs(a))
    A = 0.3 * 0.5
    const("N", E * A * a, abs(E * A * a))
    if dim >= 2:
        kt = float(kap @ t)
        kn = float(np.sqrt(max(kap @ kap - kt ** 2, 0.0)))
        if dim == 2:
            const("rz'", kap[2], abs(kap[2]))
            const("Ty", 0.0, abs(E * A * a))
        else:
            const("rx'", kt, np.linalg.norm(kap))
            bend = np.sqrt(rng_of("ry'") ** 2 + rng_of("rz'") ** 2)
            e = float(np.abs(bend - kn).max() / np.linalg.norm(kap))
            rec["|(ry',rz')|"] = e
            bad = bad or not e < 1e-8
            const("Ty", 0.0, abs(E * A * a))
            const("Tz", 0.0, abs(E * A * a))
    if bad:
        raise Refuted(f"beam patch test (constant axial strain and curvature) fails: {rec}", cex=rec, signature=f"beam:{dim}:{timo}:{et}:{inclined}", replay=dict(confirmed=True, **rec))
    return Verdict(DISCHARGED, backend="native float run (run-time contract, 1e-9 / 1e-8)", detail=str(rec))


ELASTIC_QUICK = ["TRI3", "TRI6", "QUAD4", "QUAD8", "TETRA4", "HEXA8", "PRISM6"]
ELASTIC_THOROUGH = ["TRI10", "QUAD9", "TETRA10", "PRISM15"]


def build(tier, seed):
    obs = []
    fl = lambda q: f"{LP}::{q}"
    for dim in (1, 2, 3):
        obs.append(Ob(f"C01.linalg.dim{dim}", ob_linalg, (dim,), "P", (fl("Det"), fl("Inv"), fl("Trace")),
                      clause="Det == Leibniz determinant, Trace == sum of diagonal, M @ Inv(M) == I for all matrices", timeout=120))
    for dim, nPe in ((2, 3), (3, 4)):
        obs.append(Ob(f"C01.B.placement.dim{dim}", ob_B_placement, (dim, nPe), "P", (f"{GP}::_GroupElem.Get_B_e_pg",),
                      clause="B u == Kelvin-Mandel(sym grad u) for symbolic dN and nodal vectors (block structure is nPe-uniform)", timeout=120))
    fpipe = tuple(f"{GP}::_GroupElem.{q}" for q in ("Get_F_e_pg", "Get_invF_e_pg", "Get_dN_e_pg", "Get_jacobian_e_pg", "Get_weightedJacobian_e_pg"))
    types = common.LAGRANGE
    heavy = {"HEXA20", "HEXA27", "PRISM18", "TRI15", "PRISM15"}
    for et in types:
        if tier == "quick" and et in heavy:
            continue
        obs.append(Ob(f"C01.constgrad.{et}", ob_constgrad, (et,), "B", fpipe, bound="star patch (2^dim elements, affine exact-rational geometry), symbolic G and c",
                      clause="gradient of u = G x + c at every Gauss point (rigi and mass rules) == G", timeout=600))
    for et in types:
        if tier == "quick" and et in heavy:
            continue
        obs.append(Ob(f"C01.residual.{et}.thermal", ob_residual, (et, "thermal"), "B", fpipe + ("EasyFEA/FEM/Operators/Bilinear.py::GradUGradV",),
                      bound="star patch, exact geometry, symbolic linear field", clause="interior rows of K u_lin vanish (<= 2^-40 scale)", timeout=900))
    el = ELASTIC_QUICK + (ELASTIC_THOROUGH if tier == "thorough" else [])
    for et in el:
        obs.append(Ob(f"C01.residual.{et}.elastic", ob_residual, (et, "elastic"), "B",
                      fpipe + (f"{GP}::_GroupElem.Get_B_e_pg", "EasyFEA/FEM/Operators/Bilinear.py::LinearizedElasticity"),
                      bound="star patch, isotropic rational C, symbolic linear field", clause="interior rows of K u_lin vanish (<= 2^-40 scale)", timeout=1500))
    for et in types:
        obs.append(Ob(f"C01.solve.{et}.thermal", ob_solve, (et, "thermal"), "X", ("EasyFEA/Simulations/_thermal.py::Thermal", "EasyFEA/Simulations/_simu.py::_Simu.Solve"),
                      bound="one star patch per type, one random linear field, floats", clause="Solve() returns the linear field at interior nodes (1e-9)", timeout=300))
        if common.elem_infos(et)[2] >= 2:
            obs.append(Ob(f"C01.solve.{et}.elastic", ob_solve, (et, "elastic"), "X", ("EasyFEA/Simulations/_elastic.py::Elastic", "EasyFEA/Simulations/_simu.py::_Simu.Solve"),
                          bound="one star patch per type, one random linear field, floats",
                          clause="Solve() returns the linear field; Strain/Stress/Wdef are the constants (1e-9)", timeout=300))
            obs.append(Ob(f"C01.solve.{et}.elastic.mirrored", ob_solve, (et, "elastic", True), "X", ("EasyFEA/FEM/_group_elem.py::_GroupElem.Get_jacobian_e_pg", "EasyFEA/Simulations/_elastic.py::Elastic"),
                          bound="reflected star patch (every element negatively oriented), one random linear field, floats",
                          clause="same on the mirror image: linear field, constant Strain/Stress and a POSITIVE Wdef (1e-9)", timeout=300))
    GM = "EasyFEA/Models/Elastic/_laws.py"
    cases = [("poly.TRI3", "iso.ps", False), ("poly.TRI6", "iso.pe", True), ("poly.QUAD4", "ti.ps", True), ("poly.QUAD8", "ti.pe", False), ("hole.TRI10", "ortho.ps", False),
             ("hole.QUAD9", "ortho.pe", True), ("hole.TRI3", "aniso.km", True), ("poly.TRI6", "aniso.voigt", False), ("QUAD8+TRI6", "ortho.ps", False), ("QUAD8+TRI6", "iso.pe", True),
             ("QUAD4+TRI3", "ti.ps", True), ("QUAD4+TRI3", "aniso.km", False), ("ext.TETRA4", "iso", True), ("ext.TETRA10", "ti", False), ("ext.HEXA8", "ortho", True),
             ("ext.PRISM6", "aniso.km", False), ("ext.PRISM15", "aniso.voigt", True), ("ext.HEXA20", "ti", True)]
    if tier == "thorough":
        cases += [(k, l, not r) for k, l, r in cases] + [("hole.TRI15", "ti.ps", True), ("ext.HEXA27", "ortho", False), ("ext.PRISM18", "iso", True), ("poly.QUAD9", "aniso.km", True)]
    for kind, law, ren in cases:
        obs.append(Ob(f"C01.gmsh.{kind}.{law}{'.renumbered' if ren else ''}", ob_solve_gmsh, (kind, law, ren), "X",
                      (f"{GM}::{ {'iso': 'Isotropic', 'ti': 'TransverselyIsotropic', 'ortho': 'Orthotropic', 'aniso': 'Anisotropic'}[law.split('.')[0]] }", "EasyFEA/Simulations/_elastic.py::Elastic", "EasyFEA/Simulations/_simu.py::_Simu.Solve"),
                      bound="one unstructured gmsh mesh (polygon / plate with hole / extruded quadrilateral; mixed types where named) under one affine map, one random linear field, oblique unnormalised material axes, floats",
                      clause="Solve() returns the linear field at every interior node; Strain / Stress / Wdef are the constants of the field (1e-9), for this law class, on the affine image, under random renumbering", timeout=600))
    for kind, ren in (("QUAD8+TRI6", True), ("poly.TRI3", True), ("ext.PRISM6", True), ("QUAD4+TRI3", False)):
        obs.append(Ob(f"C01.gmsh.{kind}.thermal{'.renumbered' if ren else ''}", ob_solve_gmsh, (kind, "-", ren, "thermal"), "X", ("EasyFEA/Simulations/_thermal.py::Thermal", "EasyFEA/Simulations/_simu.py::_Simu.Solve"),
                      bound="one unstructured gmsh mesh under one affine map, one random linear field, floats", clause="Solve() returns the linear temperature at every interior node (1e-9)", timeout=600))
    for dim in (1, 2, 3):
        for timo in (False, True):
            for et in ("SEG2", "SEG3") + (("SEG4", "SEG5") if tier == "thorough" else ()):
                for inclined in ((False, True) if dim > 1 else (False,)):
                    obs.append(Ob(f"C01.beam.{dim}d.{'timoshenko' if timo else 'bernoulli'}.{et}{'.inclined' if inclined else ''}", ob_beam_patch, (dim, timo, et, inclined), "X",
                                  ("EasyFEA/Simulations/_beam.py::Beam.Construct_local_matrix_system", "EasyFEA/FEM/Elems/_beam.py::_Timoshenko.Get_beam_B_e_pg" if timo else "EasyFEA/FEM/Elems/_beam.py::_Euler_Bernoulli.Get_beam_B_e_pg"),
                                  bound="one 4-element beam, one random state (axial strain, curvature vector, rigid part), floats",
                                  clause="constant axial strain / curvature prescribed at the ends is returned at every interior node; ux', curvatures, N are the constants, shear forces vanish", timeout=300))
    for dim, timo, et, inclined in ((2, False, "SEG2", False), (2, False, "SEG3", True), (3, False, "SEG2", True), (2, True, "SEG2", True), (3, True, "SEG3", False)):
        obs.append(Ob(f"C01.beam.{dim}d.{'timoshenko' if timo else 'bernoulli'}.{et}{'.inclined' if inclined else ''}.remapped", ob_beam_patch, (dim, timo, et, inclined, 4, True), "X",
                      ("EasyFEA/Simulations/_beam.py::Beam.Construct_local_matrix_system", "EasyFEA/FEM/_group_elem.py::_GroupElem.length_e", "EasyFEA/FEM/_group_elem.py::_GroupElem.coord[setter]"),
                      bound="one 4-element beam solved once, then mapped by x -> 2.5 x through the coordinate setter and patch-tested", timeout=300,
                      clause="the beam patch test holds on a mesh that was used before and then affinely mapped in place (nothing computed on the old geometry survives)"))
    obs.append(Ob("C01.solve.large.TRI3.elastic", ob_solve_large, (), "X", ("EasyFEA/Simulations/_simu.py::_Simu.Assembly", "EasyFEA/Simulations/_simu.py::_Simu.Solve"),
                  bound="one structured 154x154-node TRI3 mesh (47432 dofs > 46340), one linear field, floats",
                  clause="interior residual of the linear field vanishes and Solve() reproduces it on a system with more than 2^31 matrix positions", timeout=600))
    obs.append(Ob("canary.linalg.det", ob_linalg, (3, True), "P", expect=REFUTED, timeout=120))
    functions = {q: extract.get(GP, f"_GroupElem.{q}").describe() for q in ("Get_F_e_pg", "Get_invF_e_pg", "Get_dN_e_pg", "Get_B_e_pg", "Get_jacobian_e_pg")}
    for q in ("Det", "Inv", "Trace"):
        functions[q] = extract.get(LP, q).describe()
    GP_GROUPS = {'B', 'pipeline'}
    obs += ops.obligations('C01', tier, GP_GROUPS)
    obs.append(ops.selfcheck_ob('C01'))
    return dict(
        obs=obs, level="other", min_obligations=40,
        explanation=("Element-level identities are proved for all values (closed-form Det/Inv, B placement). The isoparametric pipeline "
                     "and the element operators are the REAL functions run natively on exact field elements on star patches of every element "
                     "type (one interior vertex node, affine exact-rational geometry, symbolic gradient and offset): gradients are exactly G, "
                     "interior residuals vanish within 2^-40. The full Solve() (assembly, elimination, external sparse solver, post-processing) "
                     "is exercised natively in floats as a bounded run-time contract."),
        trusted_base=ops.GP_TRUST + ["numpy model vt/npshim.py + vt/symrun.py patches (allocators, sqrt, abs, Gauss points lifted exactly, exact shape tables from C06)",
                      "scatter-add assembly by C03's contract; Dirichlet elimination by C04's contract; external sparse solve assumed (A x = b)",
                      "sympy normal form"],
        assumptions=["bounded: one star patch per element type (2^dim elements), affine geometry; not all meshes",
                     "Gauss points are the code's floats read exactly; quadrature-dependent clauses use tolerance 2^-40 x scale",
                     "X-tier solve obligations are sampled native runs (1 field per type), not proof"],
        functions={**functions, **ops.functions_under_contract(GP_GROUPS)},
        dropped=["B/X tiers run the imported code unmodified; only module globals `np` (and Gauss.coord/weights, element tables) are replaced"],
        not_attempted=["beam patch tests (constant axial strain / curvature)", "anisotropic / transversely isotropic laws in the patch", "mixed-type patches", "node renumbering (by C03's permutation lemma)"],
    )
