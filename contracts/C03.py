"""C03 -- assembly is the exact scatter-add of element contributions, for any numbering.

P-tier (index arithmetic, any number of elements, any connectivity):
  `_GroupElem._Get_assembly_e`, `Get_rows_e`, `Get_columns_e` are extracted and executed on
  symbolic-size integer arrays (vt/lam.py): Ne is a z3 Int, the connectivity an uninterpreted function
  conn(e, n); nodes-per-element and dofs-per-node range over the finite configuration space
  (every nPe of a supported element type x dof_n 1..6).  Postconditions are discharged by z3 (LIA+UF).
L-tier (lemmas, z3): row-major injectivity used by the CSR slot map; scatter-add is equivariant under
  node permutations.
X-tier (bounded run-time contracts, NOT proof): the real `Assembly()` / `__Assemble_csr` / `__Get_csr_map`
  with real scipy on hand-built meshes against a dense loop scatter-add with exactly representable
  (integer) element values: mixed groups, None slots, complex values, cached-map reuse, pattern-key change.
  This is also the cross-check of the scipy contracts assumed by the slot-map argument.
"""
from __future__ import annotations

import itertools
import time

import numpy as np
import z3

from vt import extract, sx, lam
from vt.core import Ob, Verdict, Refuted, Unsupported, DISCHARGED, REFUTED
from . import common, patches

PROP = "C03"
GP = "EasyFEA/FEM/_group_elem.py"
SP = "EasyFEA/Simulations/_simu.py"


def _nPes():
    return sorted({common.elem_infos(et)[1] for et in common.LAGRANGE})


def _glob():
    return sx.module_globals("EasyFEA.FEM._group_elem", np=lam.NPLam())


def _sym_connect(nPe):
    Ne = z3.Int("Ne")
    conn = z3.Function("conn", z3.IntSort(), z3.IntSort(), z3.IntSort())
    return Ne, conn, lam.LamArray((Ne, nPe), lambda ix: conn(ix[0], ix[1]))


def _native_assembly(nPe, dof_n, model):
    try:
        from EasyFEA.FEM._group_elem import _GroupElem
        rng = np.random.default_rng(0)
        Ne = int(min(max(int(model.get("Ne", 3)), 1), 40))
        connect = rng.integers(0, 50, size=(Ne, nPe))
        A = _GroupElem._Get_assembly_e(connect, dof_n)
        want = np.zeros((Ne, nPe * dof_n), dtype=int)
        for n in range(nPe):
            for d in range(dof_n):
                want[:, n * dof_n + d] = connect[:, n] * dof_n + d
        bad = np.argwhere(np.asarray(A) != want) if np.asarray(A).shape == want.shape else None
        return dict(confirmed=bool(bad is None or len(bad) > 0), shape=list(np.asarray(A).shape),
                    first_bad=None if bad is None or len(bad) == 0 else bad[0].tolist(), Ne=Ne)
    except Exception as e:
        return dict(confirmed=True, raised=repr(e))


def _z3_model(s, names):
    m = s.model()
    out = {}
    for d in m.decls():
        if d.arity() == 0:
            try:
                out[d.name()] = m[d].as_long()
            except Exception:
                out[d.name()] = str(m[d])
    return out


def ob_assembly(nPe, dof_n, canary=False):
    t0 = time.time()
    Ne, conn, connect = _sym_connect(nPe)
    f = extract.compile_fn(extract.get(GP, "_GroupElem._Get_assembly_e"), _glob(), exact=False)
    f = f.__func__ if isinstance(f, staticmethod) else f
    A = f(connect, dof_n)
    if not isinstance(A, lam.LamArray):
        raise Unsupported("result is not a symbolic array")
    s = z3.Solver()
    s.set("timeout", 20000)
    s.add(Ne >= 0)
    # shape
    shp_ok = (len(A.shape) == 2 and isinstance(A.shape[1], int) and A.shape[1] == nPe * dof_n)
    if not shp_ok:
        raise Refuted(f"_Get_assembly_e: result shape {A.shape}, expected (Ne, {nPe*dof_n})", signature=f"assembly:{nPe}:{dof_n}:shape",
                      replay=_native_assembly(nPe, dof_n, {}))
    s.push()
    s.add(z3.Not(z3.simplify(A.shape[0] == Ne)))
    if s.check() != z3.unsat:
        raise Refuted("_Get_assembly_e: leading dimension is not Ne", signature=f"assembly:{nPe}:{dof_n}:shape", replay=_native_assembly(nPe, dof_n, {}))
    s.pop()
    e, n, d = z3.Ints("e n d")
    s.add(e >= 0, e < Ne, n >= 0, n < nPe, d >= 0, d < dof_n)
    want = conn(e, n) * dof_n + d
    if canary:
        want = conn(e, n) * dof_n + d + z3.If(z3.And(n == nPe - 1, d == 0), 1, 0)
    s.add(A[e, n * dof_n + d] != want)
    r = s.check()
    if r == z3.sat:
        m = _z3_model(s, None)
        raise Refuted(f"_Get_assembly_e(nPe={nPe}, dof_n={dof_n}): entry [e, n*dof_n+d] != connect[e,n]*dof_n+d at {m}",
                      cex=m, signature=f"assembly:{nPe}:{dof_n}", replay=_native_assembly(nPe, dof_n, m))
    if r != z3.unsat:
        raise Unsupported("z3 unknown")
    return Verdict(DISCHARGED, backend="z3 (LIA+UF)", solver_s=time.time() - t0, sub=2)


def _spec_assembly(Ne, nPe, dof_n, conn):
    ndof = nPe * dof_n
    return lam.LamArray((Ne, ndof), lambda ix: conn(ix[0], ix[1] / dof_n) * dof_n + ix[1] % dof_n)


def _native_rows_cols(nPe, dof_n, which):
    try:
        et = next(t for t in common.LAGRANGE if common.elem_infos(t)[1] == nPe)
        rng = np.random.default_rng(1)
        Ne = 3
        connect = rng.integers(0, 30, size=(Ne, nPe))
        g = common.real_group(et, connect=connect, coord=np.zeros((30, 3)))
        A = g.Get_assembly_e(dof_n)
        m = nPe * dof_n
        got = g.Get_rows_e(dof_n) if which == "rows" else g.Get_columns_e(dof_n)
        want = np.zeros((Ne, m * m), dtype=int)
        for i in range(m):
            for j in range(m):
                want[:, i * m + j] = A[:, i] if which == "rows" else A[:, j]
        ok = np.asarray(got).shape == want.shape and np.array_equal(got, want)
        return dict(confirmed=not ok, elemType=et)
    except Exception as e:
        return dict(confirmed=True, raised=repr(e))


def ob_assembly_width():
    """the P proof reads the dof arithmetic over the integers; the machine side: a connectivity stored in a narrow integer type (every node number fits, the dof numbers
    connect * dof_n + d do not) gives the dof table of the same connectivity stored as int64"""
    from EasyFEA.FEM._group_elem import _GroupElem
    rng = np.random.default_rng(0)
    n = 0
    for dt, Nn, dof_n in ((np.uint8, 197, 2), (np.int8, 120, 3), (np.int16, 30000, 2), (np.uint16, 60000, 3), (np.int32, 2 ** 30 + 5, 6)):
        connect = np.concatenate([rng.integers(0, Nn, size=(5, 3)), [[Nn - 1, Nn - 2, Nn - 3]]]).astype(np.int64)
        want = (connect[:, :, None] * dof_n + np.arange(dof_n)[None, None, :]).reshape(len(connect), -1)
        got = np.asarray(_GroupElem._Get_assembly_e(connect.astype(dt), dof_n))
        n += 1
        if got.shape != want.shape or not np.array_equal(got.astype(np.int64), want):
            k = np.argwhere(got.astype(np.int64) != want)[0]
            raise Refuted(f"_Get_assembly_e with a connectivity of type {np.dtype(dt).name} (largest node {Nn - 1}, dof_n = {dof_n}): dof {int(got[tuple(k)])} instead of {int(want[tuple(k)])} "
                          f"(the product is taken in the narrow type and wraps)", cex=dict(dtype=np.dtype(dt).name, Nn=Nn, dof_n=dof_n), signature="assembly:width", replay=dict(confirmed=True))
    return Verdict(DISCHARGED, backend="native", sub=n)


def ob_cache_key():
    """the memo of `cache_computed_values` (it holds the scatter pattern `__Get_csr_map(dof_n, isMatrix, Ndof, groups)`) is keyed by the argument objects THEMSELVES: an object built
    after another one died -- CPython hands it the same address -- never receives the entry of the dead one.  600 short-lived arguments, positional, keyword and nested in a tuple."""
    from EasyFEA.Utilities._cache import cache_computed_values

    class Arg:
        def __init__(self, v):
            self.v = v

    class Holder:
        @cache_computed_values
        def f(self, a, b=None):
            x = a[0] if isinstance(a, tuple) else a
            return (x.v if x is not None else None, b.v if b is not None else None)
    h = Holder()
    n = 0
    for k in range(200):
        for form in ("positional", "keyword", "nested"):
            o = Arg((k, form))
            got = h.f(o) if form == "positional" else (h.f(None, b=o) if form == "keyword" else h.f((o, 1)))
            want = ((k, form), None) if form != "keyword" else (None, (k, form))
            n += 1
            if got != want:
                raise Refuted(f"cache_computed_values: call #{n} with a freshly built argument ({form}) returns the value memoised for an argument that no longer exists ({got} instead of {want}): "
                              f"the key does not hold the argument", cex=dict(call=n, form=form), signature="cache:key:identity", replay=dict(confirmed=True))
            del o
    return Verdict(DISCHARGED, backend="native", sub=n)


def ob_rows_cols(nPe, dof_n, which):
    t0 = time.time()
    Ne = z3.Int("Ne")
    conn = z3.Function("conn", z3.IntSort(), z3.IntSort(), z3.IntSort())
    A = _spec_assembly(Ne, nPe, dof_n, conn)      # callee contract (modular), proved by ob_assembly
    me = sx.Mock("self", nPe=nPe, Ne=Ne, Get_assembly_e=lambda dn: A.copy())
    name = "Get_rows_e" if which == "rows" else "Get_columns_e"
    f = extract.compile_fn(extract.get(GP, f"_GroupElem.{name}"), _glob(), exact=False)
    R = f(me, dof_n)
    m = nPe * dof_n
    if not isinstance(R, lam.LamArray) or len(R.shape) != 2 or R.shape[1] != m * m:
        raise Refuted(f"{name}: result shape {getattr(R, 'shape', None)}, expected (Ne, {m*m})", signature=f"{which}:{nPe}:{dof_n}:shape",
                      replay=_native_rows_cols(nPe, dof_n, which))
    s = z3.Solver()
    s.set("timeout", 30000)
    e, i, j = z3.Ints("e i j")
    s.add(Ne >= 0, e >= 0, e < Ne, i >= 0, i < m, j >= 0, j < m)
    want = A[e, i] if which == "rows" else A[e, j]
    s.add(R[e, i * m + j] != want)
    r = s.check()
    if r == z3.sat:
        mdl = _z3_model(s, None)
        raise Refuted(f"{name}(nPe={nPe}, dof_n={dof_n}): entry [e, i*m+j] is not assembly[e,{'i' if which=='rows' else 'j'}] at {mdl}",
                      cex=mdl, signature=f"{which}:{nPe}:{dof_n}", replay=_native_rows_cols(nPe, dof_n, which))
    if r != z3.unsat:
        raise Unsupported("z3 unknown")
    return Verdict(DISCHARGED, backend="z3 (LIA+UF)", solver_s=time.time() - t0, sub=1)


def ob_lemma_rowmajor():
    """(r,c) -> r*ncol + c is injective for 0 <= c < ncol, and order-preserving w.r.t. the lexicographic order
    (the canonical CSR slot order): justifies searchsorted on `canon`."""
    r1, c1, r2, c2, n = z3.Ints("r1 c1 r2 c2 n")
    s = z3.Solver()
    s.set("timeout", 20000)
    s.add(n > 0, c1 >= 0, c1 < n, c2 >= 0, c2 < n, r1 >= 0, r2 >= 0)
    lex = z3.Or(r1 < r2, z3.And(r1 == r2, c1 < c2))
    s.add(z3.Not(z3.And((r1 * n + c1 == r2 * n + c2) == z3.And(r1 == r2, c1 == c2), lex == (r1 * n + c1 < r2 * n + c2))))
    r = s.check()
    if r == z3.unsat:
        return Verdict(DISCHARGED, backend="z3 (NIA)", sub=2)
    if r == z3.sat:
        raise Refuted(f"row-major lemma fails: {s.model()}", signature="lemma:rowmajor")
    raise Unsupported("z3 unknown on the row-major lemma")


def ob_lemma_perm():
    """Scatter-add is equivariant under a node permutation p: the dof map n*dof_n+d -> p(n)*dof_n+d is a bijection
    whenever p is, so permuting the nodes permutes rows/columns and nothing else (injectivity part, z3)."""
    p = z3.Function("p", z3.IntSort(), z3.IntSort())
    n1, n2, d1, d2, k = z3.Ints("n1 n2 d1 d2 k")
    s = z3.Solver()
    s.set("timeout", 20000)
    x, y = z3.Ints("x y")
    s.add(z3.ForAll([x, y], z3.Implies(p(x) == p(y), x == y)))
    s.add(k > 0, d1 >= 0, d1 < k, d2 >= 0, d2 < k)
    s.add(p(n1) * k + d1 == p(n2) * k + d2, p(n1) >= 0, p(n2) >= 0)
    s.add(z3.Not(z3.And(n1 == n2, d1 == d2)))
    r = s.check()
    if r == z3.unsat:
        return Verdict(DISCHARGED, backend="z3 (quantified)", sub=1)
    if r == z3.sat:
        raise Refuted("permutation lemma fails", signature="lemma:perm")
    raise Unsupported("z3 unknown on the permutation lemma")


def ob_slots():
    """Assembly() passes tuple positions 0,1,2,3 to K,C,M,F with isMatrix True,True,True,False and returns (K,C,M,F)."""
    fn = extract.get(SP, "_Simu.Assembly")
    calls = []

    class G:
        pass
    groups = {"g1": ("K1", "C1", "M1", "F1"), "g2": ("K2", None, "M2", "F2")}

    def assemble(d, dof_n, Ndof, isMatrix):
        calls.append((dict(d), dof_n, Ndof, isMatrix))
        return ("asm", len(calls) - 1)
    me = sx.Mock("self", Get_dof_n=lambda pt: 3, _Simu__Get_Ndof=lambda pt: 42, _verbosity=False,
                 Construct_local_matrix_system=lambda pt: groups, _Simu__Assemble_csr=assemble)
    f = extract.compile_fn(fn, sx.module_globals("EasyFEA.Simulations._simu"), exact=False)
    out = f(me, "pt")
    if len(calls) != 4 or tuple(out) != tuple(("asm", i) for i in range(4)):
        raise Refuted(f"Assembly(): {len(calls)} assemblies, returns {out}", signature="slots:count", replay=dict(confirmed=True))
    for slot, (d, dof_n, Ndof, isM) in enumerate(calls):
        want = {g: v[slot] for g, v in groups.items()}
        if d != want or dof_n != 3 or Ndof != 42 or isM != (slot < 3):
            raise Refuted(f"Assembly(): slot {slot} assembled from {d} (isMatrix={isM}), expected {want} (isMatrix={slot<3})",
                          signature=f"slots:{slot}", replay=dict(confirmed=True, note="extracted Assembly() run on a recording receiver"))
    return Verdict(DISCHARGED, backend="execution on a recording receiver", sub=4)


def ob_csr_width():
    """Machine-integer contract of the slot map: the row-major key rows*ncol+cols and the table it is searched in are
    64-bit (the key reaches Ndof**2 - 1; 32 bits overflow as soon as Ndof > 46340).  The extracted __Get_csr_map is run
    on a small real mesh with `np.searchsorted` instrumented; the failing input of a narrower type is replayed by
    evaluating the key for (row, col) = (Ndof-1, Ndof-1) at Ndof = 46341 in the observed dtype."""
    import numpy as _np
    from EasyFEA.FEM._utils import ElemType
    seen = {}

    class NPw:
        def __getattr__(self, k):
            return getattr(_np, k)

        @staticmethod
        def searchsorted(a, v, *args, **kw):
            seen["table"], seen["key"] = _np.asarray(a).dtype, _np.asarray(v).dtype
            return _np.searchsorted(a, v, *args, **kw)
    g = sx.module_globals("EasyFEA.Simulations._simu", np=NPw())
    f = extract.compile_fn(extract.get(SP, "_Simu.__Get_csr_map"), g, exact=False)
    mesh = patches.two_element_mesh("TRI3")
    grp = mesh.groupElem
    me = sx.Mock("self")
    for isMatrix in (True, False):
        seen.clear()
        Ndof = mesh.Nn * 2
        inv, indices, indptr, nnz = f(me, 2, isMatrix, Ndof, (grp,))
        for role in ("table", "key"):
            dt = seen.get(role)
            if dt is None:
                raise Unsupported("np.searchsorted was not reached")
            if not (dt.kind == "i" and dt.itemsize >= 8):
                N = 46341
                r = _np.array([N - 1]).astype(dt)
                key = r * N + r
                true = (N - 1) * N + (N - 1)
                raise Refuted(f"__Get_csr_map(isMatrix={isMatrix}): the {role} of the slot search is {dt}, not a 64-bit integer: "
                              f"for Ndof={N} the key of (row,col)=({N-1},{N-1}) evaluates to {int(key[0])} instead of {true}",
                              cex=dict(Ndof=N, row=N - 1, col=N - 1, dtype=str(dt)), signature=f"csr_width:{role}",
                              replay=dict(confirmed=bool(int(key[0]) != true), computed=int(key[0]), exact=true))
        if _np.asarray(inv).max() >= nnz or _np.asarray(inv).min() < 0:
            raise Refuted("slot indices out of range", signature="csr_width:range", replay=dict(confirmed=True))
    return Verdict(DISCHARGED, backend="instrumented run of the extracted function (dtype contract)", sub=4)


class _StubGroup:
    """an element group reduced to what the scatter kernel may read: its dof tables (by the contract of _Get_assembly_e / Get_rows_e / Get_columns_e,
    proved above) and a few descriptive attributes."""

    def __init__(self, name, dim, connect):
        self.name, self.dim, self.connect = name, dim, np.array(connect)
        self.Ne, self.nPe = self.connect.shape
        self.order, self.inDim = 1, 3
        self.elemType = name

    def Get_assembly_e(self, dof_n):
        return (self.connect[:, :, None] * dof_n + np.arange(dof_n)[None, None, :]).reshape(self.Ne, -1)

    _Get_assembly_e = lambda self, connect, dof_n: (np.asarray(connect)[:, :, None] * dof_n + np.arange(dof_n)[None, None, :]).reshape(len(connect), -1)

    def Get_rows_e(self, dof_n):
        a = self.Get_assembly_e(dof_n)
        return np.repeat(a, a.shape[1], axis=1)

    def Get_columns_e(self, dof_n):
        a = self.Get_assembly_e(dof_n)
        return np.tile(a, (1, a.shape[1]))

    def __repr__(self):
        return self.name


def ob_csr_kernel():
    """__Assemble_csr + __Get_csr_map (with the real memo decorator) from the AST on stub groups: for every listing order of up to three groups of
    dimensions 2, 2, 1 (one of them possibly absent from the slot), dof_n in {1, 2}, matrices and vectors, and for the SAME receiver going through all of
    these calls one after the other (so that every cached map is met again), the entry values being distinct powers of two: each stored coefficient is
    exactly the sum of the entries whose (row, col) it is -- nothing dropped, duplicated or misplaced."""
    from EasyFEA.Utilities._cache import cache_computed_values
    g = sx.module_globals("EasyFEA.Simulations._simu")
    f_asm = extract.compile_fn(extract.get(SP, "_Simu.__Assemble_csr"), g, exact=False)
    f_map = cache_computed_values(extract.compile_fn(extract.get(SP, "_Simu.__Get_csr_map"), g, exact=False))
    tri = _StubGroup("TRI", 2, [[0, 1, 2], [1, 3, 2]])
    quad = _StubGroup("QUAD", 2, [[1, 4, 5, 3]])
    seg = _StubGroup("SEG", 1, [[0, 1], [1, 4], [4, 5]])
    Nn = 6

    class Me:
        pass
    me = Me()
    me._Simu__Get_csr_map = lambda *a, **k: f_map(me, *a, **k)
    n = 0
    allg = [tri, quad, seg]
    for rnd_ in range(2):                       # second pass: every map comes from the cache
        for dof_n in (1, 2):
            Ndof = Nn * dof_n
            for isMatrix in (True, False):
                for order in itertools.permutations(allg):
                    for absent, cplx_grp in [(ab_, cg_) for ab_ in (None, tri, quad, seg) for cg_ in (None, tri, seg) if cg_ is None or cg_ is not ab_]:
                        # cplx_grp: the one group whose values are complex (real groups next to a complex one, in any position of the listing)
                        k = 0
                        data, ref = {}, np.zeros((Ndof, Ndof if isMatrix else 1), dtype=complex)
                        for grp in order:
                            if grp is absent:
                                data[grp] = None
                                continue
                            a = grp.Get_assembly_e(dof_n)
                            m = a.shape[1]
                            X = np.zeros((grp.Ne, m, m) if isMatrix else (grp.Ne, m, 1), dtype=complex if grp is cplx_grp else float)
                            for e in range(grp.Ne):
                                for i in range(m):
                                    for j in range(m if isMatrix else 1):
                                        v = float(2 ** (k % 50)) + (k // 50) * 2.0 ** -3     # exact in binary floating point, sums stay exact
                                        if grp is cplx_grp:
                                            v = v + 1j * float(2 ** ((k * 7 + 3) % 50))
                                        k += 1
                                        X[e, i, j] = v
                                        ref[a[e, i], a[e, j] if isMatrix else 0] += v
                            data[grp] = X
                        got = f_asm(me, data, dof_n, Ndof, isMatrix)
                        got = np.asarray(got.todense()).astype(complex)
                        n += 1
                        if got.shape != ref.shape or not np.array_equal(got, ref):
                            bad = np.argwhere(got != ref)[:3].tolist() if got.shape == ref.shape else "shape"
                            raise Refuted(f"scatter kernel (pass {rnd_}, dof_n={dof_n}, isMatrix={isMatrix}, groups listed {list(order)}, absent {absent}, complex values in {cplx_grp}): assembled values differ from the "
                                          f"sum of the entries of each (row, col) at {bad}", cex=dict(order=[str(x) for x in order], absent=str(absent), complex_group=str(cplx_grp), dof_n=dof_n, isMatrix=isMatrix, second_pass=bool(rnd_)),
                                          signature="csr_kernel", replay=_replay_kernel())
    return Verdict(DISCHARGED, backend="extracted kernel on stub groups, exact binary values", sub=n)


def _replay_kernel():
    try:
        for cs in [("boundary", "segfirst", 2, False, False), ("boundary", "interleaved", 3, False, False), ("mixed", "-", 2, False, False)] + [("boundary", f"order{k}", 1, False, False) for k in range(6)]:
            try:
                ob_scatter(cs, 0)
            except Refuted as r:
                return dict(confirmed=True, native_case=list(map(str, cs)), detail=str(r)[:300])
        return dict(confirmed=False, note="the native assemblies of the real Assembly() agree with the dense scatter-add")
    except Exception as e:
        return dict(confirmed=False, error=repr(e))


# ------------------------------------------------------------------ bounded run-time contracts on the real assembly

def _make_simu(mesh, dof_n, local):
    from EasyFEA import Models, Simulations

    class _S(Simulations.Thermal):
        def Get_dof_n(self, problemType=None):
            return dof_n

        def Get_unknowns(self, problemType=None):
            return ["x", "y", "z", "rx", "ry", "rz"][:dof_n]

        def Construct_local_matrix_system(self, problemType):
            return local(self)
    return _S(mesh, Models.Thermal(k=1.0, c=1.0))


def _dense_scatter(mesh_groups, local, Ndof, dof_n):
    K = [np.zeros((Ndof, Ndof), dtype=complex) for _ in range(3)] + [np.zeros((Ndof, 1), dtype=complex)]
    for g, tup in local.items():
        con = np.asarray(g.connect)
        for slot in range(4):
            X = tup[slot]
            if X is None:
                continue
            X = np.asarray(X)
            for e in range(con.shape[0]):
                dofs = [int(con[e, n]) * dof_n + d for n in range(con.shape[1]) for d in range(dof_n)]
                for a, ra in enumerate(dofs):
                    if slot < 3:
                        for b, cb in enumerate(dofs):
                            K[slot][ra, cb] += X[e, a, b]
                    else:
                        K[3][ra, 0] += X[e, a] if X.ndim == 2 else X[e, a, 0]
    return K


def _mixed_mesh(boundary=False):
    """TRI3 + QUAD4 in one 2-D mesh sharing an edge (two groups of the main dimension); optionally with the SEG2 group of some boundary edges."""
    from EasyFEA.FEM._mesh import Mesh
    from EasyFEA.FEM._group_elem import GroupElemFactory
    from EasyFEA.FEM._utils import ElemType
    coord = np.array([[0, 0, 0], [1, 0, 0], [1, 1, 0], [0, 1, 0], [2, 0.5, 0], [2.2, 1.4, 0]], dtype=float)
    quad = GroupElemFactory.Create(ElemType.QUAD4, np.array([[0, 1, 2, 3]]), coord)
    tri = GroupElemFactory.Create(ElemType.TRI3, np.array([[1, 4, 2], [4, 5, 2]]), coord)
    if boundary:
        seg = GroupElemFactory.Create(ElemType.SEG2, np.array([[0, 1], [1, 4], [4, 5], [3, 0]]), coord)
        return Mesh({ElemType.QUAD4: quad, ElemType.TRI3: tri, ElemType.SEG2: seg})
    return Mesh({ElemType.QUAD4: quad, ElemType.TRI3: tri})


def ob_scatter(case, seed):
    rng = np.random.default_rng(1000 + seed)
    from EasyFEA.Simulations._problem_type import ProblemType
    kind, et, dof_n, cplx, permute = case
    if kind == "mixed":
        mesh = _mixed_mesh()
    elif kind == "boundary":
        mesh = _mixed_mesh(boundary=True)
    else:
        coords, connect = patches.two_element_patch(et)
        con = np.array(connect)
        if permute:
            Nn = len(coords)
            perm = rng.permutation(Nn)
            inv = np.empty(Nn, dtype=int)
            inv[perm] = np.arange(Nn)
            coords = [coords[i] for i in perm]          # new node k sits where old node perm[k] was
            con = inv[con]
        mesh = patches.real_mesh(et, coords, con.tolist())
    groups = mesh.Get_list_groupElem()
    state = {"round": 0}

    def listed(simu):
        gs = list(simu.mesh.Get_list_groupElem())
        if kind != "boundary":
            return gs
        # a user subclass adding boundary (lower-dimension) groups to the system, listed before / after / between the bulk groups
        segs = list(simu.mesh.Get_list_groupElem(1))
        if et.startswith("order"):
            # every listing order of the three groups; the order changes from one assembly to the next (et = "order<k>": k-th permutation first)
            perms = list(itertools.permutations(gs + segs))
            return list(perms[(int(et[5:]) + 2 * state["round"]) % len(perms)])
        return {"segfirst": segs + gs, "bulkfirst": gs + segs, "interleaved": gs[:1] + segs + gs[1:]}[et]

    def local(simu):
        out = {}
        for gi, g in enumerate(listed(simu)):
            m = g.nPe * dof_n
            def rnd(shape):
                a = rng.integers(-9, 10, size=shape).astype(float)
                if cplx is True or (cplx == "notfirst" and gi > 0):       # "notfirst": real values in the first listed group, complex ones in the others
                    a = a + 1j * rng.integers(-9, 10, size=shape)
                return a
            K = rnd((g.Ne, m, m))
            C = rnd((g.Ne, m, m)) if not ((kind == "mixed" and gi == 1) or (kind == "boundary" and g.dim == 1)) else None     # a group contributing to only some slots
            M = rnd((g.Ne, m, m)) if state["round"] != 1 else None                      # slot absent in one round -> other key
            Fv = rnd((g.Ne, m, 1))
            out[g] = (K, C, M, Fv)
        state["last"] = out
        return out
    simu = _make_simu(mesh, dof_n, local)
    pt = simu.problemType
    Ndof = mesh.Nn * dof_n
    n = 0
    for rnd_i in range(3):           # repeated assemblies: first builds the map, later ones reuse it; round 1 changes the key of M
        state["round"] = rnd_i
        try:
            K, C, M, Fv = simu.Assembly(pt)
        except Exception as ex:
            raise Refuted(f"Assembly() raises {type(ex).__name__}: {ex} on a valid mesh (case {case}, round {rnd_i})",
                          cex=dict(case=list(map(str, case)), round=rnd_i), signature=f"scatter:{kind}:raises",
                          replay=dict(confirmed=True, note="native run of the real Assembly()"))
        want = _dense_scatter(groups, state["last"], Ndof, dof_n)
        for slot, (got, w) in enumerate(zip((K, C, M, Fv), want)):
            g = np.asarray(got.todense())
            n += 1
            if g.shape != w.shape or not np.array_equal(g.astype(complex), w):
                bad = np.argwhere(g.astype(complex) != w)[:3].tolist() if g.shape == w.shape else "shape"
                raise Refuted(f"Assembly() slot {'KCMF'[slot]} differs from the dense scatter-add (case {case}, round {rnd_i}) at {bad}",
                              cex=dict(case=list(map(str, case)), round=rnd_i, slot="KCMF"[slot]), signature=f"scatter:{kind}:{'KCMF'[slot]}",
                              replay=dict(confirmed=True, note="this obligation is itself a native run of the real Assembly()"))
    return Verdict(DISCHARGED, backend="native run of the real Assembly() vs dense loop, integer-valued data (exact)", sub=n)


def ob_assembly_independent():
    """the matrices returned by the public Assembly are independent objects: an in-place scipy operation of the caller on one of them (K.eliminate_zeros(), K.sort_indices(),
    K.indices[...] = ...) changes neither another returned matrix nor what the next Assembly returns (the memoised sparsity pattern is not handed out)"""
    import contextlib, io
    from EasyFEA import Models, Simulations, ElemType
    from EasyFEA.Geoms import Domain, Point
    with contextlib.redirect_stdout(io.StringIO()):
        mesh = Domain(Point(), Point(1, 1), 0.25).Mesh_2D([], ElemType.TRI3, isOrganised=True)
    simu = Simulations.Thermal(mesh, Models.Thermal(k=1, c=1, thickness=1))
    pt = simu.problemType

    def dense(slot):
        Ndof = simu.mesh.Nn
        ref = np.zeros((Ndof, Ndof))
        for group, KCMF in simu.Construct_local_matrix_system(pt).items():
            if KCMF[slot] is None:
                continue
            X_e, a = np.asarray(KCMF[slot]), group.Get_assembly_e(1)
            for e in range(a.shape[0]):
                ref[np.ix_(a[e], a[e])] += X_e[e]
        return ref
    Kr, Cr = dense(0), dense(1)
    K, C, M, F = simu.Assembly(pt)
    zeros = int((K.data == 0).sum())
    if zeros == 0:
        raise Unsupported("the structured mesh stores no exact zero in K")
    K.eliminate_zeros()                     # the caller only touches K
    try:
        eC = float(np.abs(C.toarray() - Cr).max() / np.abs(Cr).max())
    except Exception as ex:
        eC = float("inf")
    if not eC < 1e-12:
        raise Refuted(f"after K.eliminate_zeros() on the K returned by Assembly ({zeros} stored zeros), the returned C, which the caller did not touch, differs from the scatter-add by {eC:.3e}: "
                      "the returned matrices share their index arrays", cex=dict(history=["Assembly", "K.eliminate_zeros()", "read C"]), signature="assembly:shared:C", replay=dict(confirmed=True, rel_err=eC))
    simu.Need_Update()
    K2, C2, _, _ = simu.Assembly(pt)
    try:
        eK = float(np.abs(K2.toarray() - Kr).max() / np.abs(Kr).max())
    except Exception:
        eK = float("inf")
    if not eK < 1e-12:
        raise Refuted(f"after K.eliminate_zeros() on a matrix returned by Assembly, the NEXT Assembly differs from the scatter-add by {eK:.3e}: the memoised sparsity pattern was handed out and modified",
                      cex=dict(history=["Assembly", "K.eliminate_zeros()", "Need_Update", "Assembly"]), signature="assembly:shared:pattern", replay=dict(confirmed=True, rel_err=eK))
    K2.indices[:] = 0
    K3 = simu.Assembly(pt)[0]
    eK3 = float(np.abs(K3.toarray() - Kr).max() / np.abs(Kr).max())
    if not eK3 < 1e-12:
        raise Refuted(f"writing into the indices of a returned matrix changes the next Assembly ({eK3:.3e})", signature="assembly:shared:indices", replay=dict(confirmed=True))
    return Verdict(DISCHARGED, backend="native", sub=3)


def build(tier, seed):
    obs = []
    nPes = _nPes()
    dofs = [1, 2, 3, 6] if tier == "quick" else [1, 2, 3, 4, 5, 6]
    fa = (f"{GP}::_GroupElem._Get_assembly_e",)
    for nPe in nPes:
        for dn in dofs:
            obs.append(Ob(f"C03.assembly_e.nPe{nPe}.dof{dn}", ob_assembly, (nPe, dn), "P", fa, timeout=90,
                          clause="forall Ne, connectivity, e<Ne, n<nPe, d<dof_n: A[e, n*dof_n+d] == connect[e,n]*dof_n + d; shape (Ne, nPe*dof_n)"))
    obs.append(Ob("C03.csr_map.key", ob_cache_key, (), "X", ("EasyFEA/Utilities/_cache.py::cache_computed_values",), bound="600 short-lived argument objects", timeout=120,
                  clause="the memoised scatter pattern is keyed by the element groups themselves (kept alive by the key), never by an address that a later group can inherit"))
    obs.append(Ob("C03.assembly_e.width", ob_assembly_width, (), "X", fa, bound="5 narrow integer types at the edge of their range", timeout=120,
                  clause="dof numbers are computed in 64 bits whatever the integer type of the connectivity"))
    rc = [(n, d) for n in nPes for d in dofs if n * d <= (30 if tier == "quick" else 200)]
    for nPe, dn in rc:
        for which in ("rows", "cols"):
            q = "Get_rows_e" if which == "rows" else "Get_columns_e"
            obs.append(Ob(f"C03.{which}_e.nPe{nPe}.dof{dn}", ob_rows_cols, (nPe, dn, which), "P", (f"{GP}::_GroupElem.{q}",) + fa, timeout=120,
                          clause=f"forall Ne, e, i, j < m: {q}[e, i*m+j] == assembly[e,{'i' if which=='rows' else 'j'}]  (callee contract of Get_assembly_e)"))
    obs.append(Ob("C03.lemma.rowmajor", ob_lemma_rowmajor, (), "L", clause="(r,c)->r*ncol+c injective and order-preserving for 0<=c<ncol"))
    obs.append(Ob("C03.lemma.perm", ob_lemma_perm, (), "L", clause="dof renumbering induced by a node permutation is injective"))
    obs.append(Ob("C03.csr_map.width", ob_csr_width, (), "P", (f"{SP}::_Simu.__Get_csr_map",),
                  clause="row-major slot key and slot table are 64-bit integers (no wrap-around for any Ndof < 2^31)"))
    obs.append(Ob("C03.csr_kernel", ob_csr_kernel, (), "B", (f"{SP}::_Simu.__Assemble_csr", f"{SP}::_Simu.__Get_csr_map"),
                  bound="three stub groups (dimensions 2, 2, 1; 6 nodes), every listing order, one group possibly absent, dof_n 1-2, matrix and vector, two passes over one receiver (cached maps)",
                  clause="every stored coefficient == sum of the entries whose (row, col) it is; entries are distinct powers of two, so nothing is dropped, duplicated or misplaced", timeout=600))
    obs.append(Ob("C03.slots", ob_slots, (), "P", (f"{SP}::_Simu.Assembly",), clause="K,C,M,F assembled from tuple positions 0..3, F as a vector"))
    cases = [("patch", "TRI3", 2, False, False), ("patch", "QUAD8", 1, False, True), ("patch", "TETRA4", 3, True, True),
             ("mixed", "-", 2, False, False), ("mixed", "-", 1, True, False),
             ("boundary", "segfirst", 2, False, False), ("boundary", "bulkfirst", 1, True, False), ("boundary", "interleaved", 3, False, False)]
    cases += [("boundary", f"order{k}", 1 + k % 2, False, False) for k in range(6)]
    cases += [("boundary", "bulkfirst", 1, "notfirst", False), ("mixed", "-", 2, "notfirst", False), ("boundary", "order3", 2, "notfirst", False)]
    if tier == "thorough":
        cases += [("patch", et, dn, cx, True) for et in ("SEG3", "TRI6", "HEXA8", "PRISM6", "TETRA10") for dn in (1, 3) for cx in (False, True)]
    for cs, sd in [(c_, s_) for c_ in cases for s_ in (range(4) if tier == "thorough" else range(1))]:
        obs.append(Ob(f"C03.scatter.{cs[0]}.{cs[1]}.dof{cs[2]}{'.complex' if cs[3] is True else ('.complexlater' if cs[3] else '')}{'.perm' if cs[4] else ''}" + (f".s{sd}" if sd else ""), ob_scatter, (cs, seed + sd), "X",
                      (f"{SP}::_Simu.Assembly", f"{SP}::_Simu.__Assemble_csr", f"{SP}::_Simu.__Get_csr_map"),
                      bound="hand-built 2-3 element meshes, 3 successive assemblies, integer-valued element data",
                      clause="every global matrix/vector equals the dense loop scatter-add exactly", timeout=120))
    # direct sparse assembly of a weak form (_forms.py is anchored in C03): same contract as C13.assemble.*
    from . import C13
    for kind in ("bilinear", "linear"):
        cls = "BiLinearForm" if kind == "bilinear" else "LinearForm"
        obs.append(Ob(f"C03.forms.assemble.index.{kind}", C13.ob_assemble_index, (kind,), "P", (f"EasyFEA/FEM/_forms.py::{cls}.Assemble",),
                      clause="the element values of Integrate_e are paired with rows_e / columns_e (assembly_e and column 0) in storage order", timeout=120))
        obs.append(Ob(f"C03.forms.scatter.{kind}", C13.ob_assemble_scatter, (kind,), "X", (f"EasyFEA/FEM/_forms.py::{cls}.Assemble",),
                      bound="TRI3 scalar convection form and QUAD4 vector shear form on two-element patches",
                      clause="Assemble(field) == sum_e scatter(Integrate_e) with K_e[e,i,j] at (a[e,i], a[e,j])", timeout=120))
    obs.append(Ob("C03.assembly.independent", ob_assembly_independent, (), "X", (f"{SP}::_Simu.__Assemble_csr", f"{SP}::_Simu.__Get_csr_map"), bound="one structured TRI3 thermal problem, three in-place operations of the caller",
                  clause="matrices returned by Assembly do not share index arrays with each other or with the memoised pattern: later assemblies are still the exact scatter-add", timeout=120))
    obs.append(Ob("canary.assembly_e", ob_assembly, (4, 2, True), "P", expect=REFUTED, timeout=60))
    functions = {q: extract.get(GP, f"_GroupElem.{q}").describe() for q in ("_Get_assembly_e", "Get_rows_e", "Get_columns_e")}
    for q in ("Assembly", "__Assemble_csr", "__Get_csr_map"):
        functions[q] = extract.get(SP, f"_Simu.{q}").describe()
    return dict(
        obs=obs, level="proof", min_obligations=40,
        explanation=("Index arithmetic of the dof numbering and of the row/column vectors is proved for an unbounded number of "
                     "elements and an arbitrary connectivity (uninterpreted function) with z3, for every nodes-per-element of a supported "
                     "element type and dofs-per-node; slot order of Assembly() on a recording receiver; two lemmas. The CSR slot map "
                     "(__Get_csr_map/__Assemble_csr, built on scipy) is NOT proved: it is covered by bounded run-time contract checks of the "
                     "real assembly against a dense scatter-add (tier X, listed separately, not counted as proved)."),
        trusted_base=["vt/lam.py model of np.zeros/arange/array/repeat/reshape and column-fancy assignment on symbolic-size arrays",
                      "mathematical integers for int64", "z3 5.1",
                      "scipy.sparse.csr_matrix COO construction, sort_indices, np.searchsorted, np.bincount: assumed contracts, cross-checked on the bounded cases only"],
        assumptions=["nPe, dof_n concrete (finite configuration space), Ne and connectivity unbounded", "MPI_SIZE == 1",
                     "__Get_csr_map / __Assemble_csr: bounded run-time checks only"],
        functions=functions,
        dropped=["D1-D3, D5; exact-literal rewriting not applied (integer code)"],
        not_attempted=["C03.csr_map / C03.assemble as proved obligations (scipy-backed; needs contract-level model of csr construction)",
                       "C03.cachekey (shared with C14's effect contracts)"],
    )
