"""C09 -- distributed loads are integrated to the correct resultant force and moment.

  L  C09.lemma.resultant       (from C06/C07) sum_n N_n == 1  =>  sum of nodal forces == sum_p wJ_p f(x_p); with linear completeness the first moments too
  P  C09.pointload             __Bc_pointLoad: the nodal values sum to the given total (symbolic total, any node count 1..6)
  B  C09.exclusive.<mesh>      Get_Elements_Nodes(nodes, exclusively=True) == {elements all of whose nodes are selected}: EXHAUSTIVE over every node
                               subset of small meshes (pure integer function; enumeration is complete for those meshes) -- bounded in the mesh
  X  C09.load.<type>.<kind>    real add_lineLoad / add_surfLoad / add_volumeLoad / add_pressureLoad on gmsh meshes of a box (boundary groups as the
                               mesher generates them, prisms with mixed TRI/QUAD boundary): resultant and first moments equal the closed-form
                               integrals x thickness in 2-D, for constant, nodal-array and polynomial-in-position intensities; stray nodes
                               (not bounding a loaded element) contribute nothing; pressure resultant = p x area x n
"""
from __future__ import annotations

import itertools
from fractions import Fraction

import numpy as np

from vt import alg, extract, sx, npshim
from vt.alg import Ctx, X
from vt.core import Ob, Verdict, Refuted, Unsupported, DISCHARGED, REFUTED
from . import ops
from . import common, patches

PROP = "C09"
F = Fraction
SP = "EasyFEA/Simulations/_simu.py"
GP = "EasyFEA/FEM/_group_elem.py"


def ob_lemma():
    """sum_n w f N_n = w f  follows from partition of unity (C06.*.pu); stated and checked as an implication in z3 over reals for an
    arbitrary finite number of shape values (universally quantified through free constants, n = 1..6)."""
    import z3
    t = 0
    for n in range(1, 7):
        N = [z3.Real(f"N{i}") for i in range(n)]
        w, f = z3.Reals("w f")
        s = z3.Solver()
        s.add(z3.Sum(N) == 1)
        s.add(z3.Sum([w * f * Ni for Ni in N]) != w * f)
        if s.check() != z3.unsat:
            raise Refuted("resultant lemma fails", signature="lemma")
        t += 1
    return Verdict(DISCHARGED, backend="z3 (QF_NRA)", sub=t)


def ob_pointload(canary=False):
    n = 0
    for Nn in range(1, 7):
        c = Ctx(["Fx", "Fy"], nspare=1)
        NPs = npshim.NP(c)
        g = sx.module_globals("EasyFEA.Simulations._simu", np=NPs)
        nodes = np.arange(Nn) * 2
        coord = np.zeros((20, 3))

        def evaluate(coord_n, value, option="nodes"):
            out = np.empty((coord_n.shape[0],), dtype=object)
            for i in range(out.shape[0]):
                out[i] = value
            return out
        me = sx.Mock("self", mesh=sx.Mock("mesh", coord=coord), _Simu__Bc_evaluate=evaluate,
                     Bc_dofs_nodes=lambda nodes, unknowns, pt: np.array([n_ * 2 + d for n_ in nodes for d in range(len(unknowns))]))
        f = extract.compile_fn(extract.get(SP, "_Simu.__Bc_pointLoad"), g)
        vals, dofs = f(me, "pt", nodes, [c.sym("Fx"), c.sym("Fy")], ["x", "y"])
        vals = np.asarray(vals).reshape(Nn, 2)
        for d, nm in enumerate(("Fx", "Fy")):
            tot = sum((v for v in vals[:, d]), c.const(0))
            want = c.sym(nm) + (1 if canary else 0)
            n += 1
            if not (tot == want):
                raise Refuted(f"__Bc_pointLoad on {Nn} nodes: values sum to {tot}, expected the given total {want}", cex=dict(nodes=Nn), signature="pointload",
                              replay=dict(confirmed=True, note="extracted function evaluated symbolically"))
        if list(dofs) != [n_ * 2 + d for n_ in nodes for d in range(2)]:
            raise Refuted("__Bc_pointLoad: dofs do not follow the (node, unknown) order of the values", signature="pointload:dofs", replay=dict(confirmed=True))
    return Verdict(DISCHARGED, backend="ring-normal-form", sub=n)


# ---------------------------------------------------------------- exhaustive: exclusive element selection

def ob_load_simtypes(sim, et):
    """every simulation type that accepts distributed loads: volume load (whole mesh) and surface load (the face x = L) with a constant and a linear density, thickness 0.25 in 2-D:
    resultant == integral of the density (x thickness) and first moments about the origin, for the first unknown of the simulation."""
    from EasyFEA import Models, Simulations
    from EasyFEA.FEM import Field, BiLinearForm
    mesh = _mesh(et)
    dim = mesh.dim
    th = 0.25 if dim == 2 else 1.0

    def build():
        if sim == "Thermal":
            return Simulations.Thermal(mesh, Models.Thermal(k=1.0, c=1.0, thickness=th) if dim == 2 else Models.Thermal(k=1.0, c=1.0)), "t"
        if sim == "WeakForms":
            return Simulations.WeakForms(mesh, Models.WeakForms(Field(mesh.groupElem, 1), BiLinearForm(lambda u, v: u.grad.dot(v.grad)), thickness=th)), "u"
        if sim == "WeakForms.vector":
            return Simulations.WeakForms(mesh, Models.WeakForms(Field(mesh.groupElem, dim), BiLinearForm(lambda u, v: u.grad.ddot(v.grad)), thickness=th)), "x"
        if sim == "HyperElastic":
            return Simulations.HyperElastic(mesh, Models.HyperElastic.NeoHookean(dim, K=10.0, thickness=th) if dim == 2 else Models.HyperElastic.NeoHookean(dim, K=10.0), verbosity=False), "x"
        if sim == "PhaseField":
            mat = Models.Elastic.Isotropic(dim, planeStress=False, thickness=th) if dim == 2 else Models.Elastic.Isotropic(dim)
            return Simulations.PhaseField(mesh, Models.PhaseField(mat, Models.PhaseField.SplitType.Bourdin, Models.PhaseField.ReguType.AT2, Gc=1.0, l0=0.3)), "x"
        if sim == "InElastic":
            IE = Models.InElastic
            return Simulations.InElastic(mesh, IE.Behavior(dim, Models.Elastic.Isotropic(3, E=3.0, v=0.25), yieldSurface=IE.Yield.VonMises(1.0), thickness=th) if dim == 2 else
                                         IE.Behavior(dim, Models.Elastic.Isotropic(3, E=3.0, v=0.25), yieldSurface=IE.Yield.VonMises(1.0))), "x"
        raise Unsupported(sim)
    co = np.asarray(mesh.coord)
    n = 0
    dens = {"const": (lambda x, y, z: 2.0 + 0 * x), "linear": (lambda x, y, z: 1.0 + 2.0 * x + 3.0 * y)}
    import sympy as sp
    X_, Y_, Z_ = sp.symbols("x y z")
    for dname, f in dens.items():
        fs = sp.Integer(2) if dname == "const" else 1 + 2 * X_ + 3 * Y_
        for kind in ("volume", "surf"):
            try:
                simu, unk = build()
            except TypeError as ex:
                raise Unsupported(f"{sim}: constructor signature ({ex})")
            if kind == "volume":
                nodes = mesh.nodes
                if dim == 2:
                    tot = [sp.integrate(sp.integrate(g_ * fs, (X_, 0, L)), (Y_, 0, H)) * sp.Rational(1, 4) for g_ in (1, X_, Y_)]
                else:
                    tot = [sp.integrate(sp.integrate(sp.integrate(g_ * fs, (X_, 0, L)), (Y_, 0, H)), (Z_, 0, D)) for g_ in (1, X_, Y_)]
                val = f if dname == "linear" else 2.0
                try:
                    simu.add_volumeLoad(nodes, [val], [unk])
                except Exception as ex:
                    raise Refuted(f"{sim} on {et}: add_volumeLoad(nodes, [density], ['{unk}']) raises {type(ex).__name__}: {ex}", cex=dict(simulation=sim, elemType=et), signature=f"simtypes:{sim}:volume:raises",
                                  replay=dict(confirmed=True, error=str(ex)[:200]))
            else:
                nodes = np.where(np.isclose(co[:, 0], L))[0]
                if dim == 2:
                    tot = [sp.integrate((g_ * fs).subs(X_, L), (Y_, 0, H)) * sp.Rational(1, 4) for g_ in (1, X_, Y_)]
                else:
                    tot = [sp.integrate(sp.integrate((g_ * fs).subs(X_, L), (Y_, 0, H)), (Z_, 0, D)) for g_ in (1, X_, Y_)]
                val = f if dname == "linear" else 2.0
                simu.add_surfLoad(nodes, [val], [unk])
            pt = simu.problemType if sim != "PhaseField" else simu.ProblemTypes.elastic
            F = simu.Bc_vector_Neumann(pt) if sim == "PhaseField" else simu.Bc_vector_Neumann()
            F = np.asarray(F.todense()).ravel() if hasattr(F, "todense") else np.asarray(F).ravel()
            dn = F.size // mesh.Nn
            Fx = F.reshape(mesh.Nn, dn)[:, 0]
            got = [float(Fx.sum()), float(Fx @ co[:, 0]), float(Fx @ co[:, 1])]
            want = [float(t_) for t_ in tot]
            n += 3
            e = max(abs(g_ - w_) for g_, w_ in zip(got, want)) / max(abs(w_) for w_ in want)
            if e > 1e-9:
                raise Refuted(f"{sim} on {et} (thickness {th}): {kind} load with a {dname} density: resultant and first moments {np.round(got, 6).tolist()}, exact {np.round(want, 6).tolist()}",
                              cex=dict(simulation=sim, elemType=et, load=kind, density=dname, thickness=th), signature=f"simtypes:{sim}:{kind}", replay=dict(confirmed=True, got=got, want=want))
    return Verdict(DISCHARGED, backend="native run vs closed-form integrals", sub=n)


def ob_load_curved(et):
    """line load on the curved (second-order) boundary of a disk: the nodal forces of a constant density sum to density x thickness x length of the boundary AS MESHED
    (each quadratic edge integrated from its own parametrisation, independently of the library)."""
    from EasyFEA import ElemType, Models, Simulations
    from EasyFEA.Geoms import Circle, Point
    from numpy.polynomial.legendre import leggauss
    mesh = Circle(Point(), 2.0, 0.5).Mesh_2D([], ElemType[et])
    th = 0.7
    simu = Simulations.Elastic(mesh, Models.Elastic.Isotropic(2, planeStress=True, thickness=th))
    co = np.asarray(mesh.coord)
    r = np.linalg.norm(co[:, :2], axis=1)
    nodes = np.where(np.isclose(r, 1.0, atol=1e-6))[0]
    if nodes.size < 6:
        raise Unsupported("boundary nodes not found")
    # length of the meshed boundary: every boundary segment element from its own shape functions
    length = 0.0
    for g in mesh.Get_list_groupElem(1):
        # |dx/dxi| of a curved edge is not a polynomial: the reference uses the Gauss-Legendre rule with the library's number of points (numpy's nodes and weights),
        # so the comparison is exact up to rounding and does not depend on the quadrature error, which the property leaves to the rule
        from EasyFEA import MatrixType
        xg, wg = leggauss(int(np.asarray(g.Get_weight_pg(MatrixType.mass)).size))
        loc = np.asarray(g.Get_Local_Coords(), dtype=float).ravel()
        dN = g._dN()
        for row in np.asarray(g.connect):
            if not np.isin(row, nodes).all():
                continue
            P = co[row]
            for x_, w_ in zip(xg, wg):
                xi = 0.5 * (x_ + 1) * (loc.max() - loc.min()) + loc.min()
                d = sum(float(dN[i, 0](xi)) * P[i] for i in range(len(row)))
                length += w_ * 0.5 * (loc.max() - loc.min()) * np.linalg.norm(d)
    worst = 0.0
    for kind, fac in (("line", 1.0), ("surf", th)):   # in 2-D add_lineLoad is a force per length, add_surfLoad a force per area of the edge (x thickness)
        simu.Bc_Init()
        getattr(simu, f"add_{kind}Load")(nodes, [3.0], ["x"])
        F = simu.Bc_vector_Neumann()
        F = np.asarray(F.todense()).ravel() if hasattr(F, "todense") else np.asarray(F).ravel()
        got = float(F.reshape(-1, 2)[:, 0].sum())
        want = 3.0 * fac * length
        e = abs(got - want) / want
        worst = max(worst, e)
        if e > 1e-9:
            raise Refuted(f"{et} disk: a constant add_{kind}Load on the curved boundary sums to {got:.9f}; density x {'thickness x ' if kind == 'surf' else ''}length of the meshed boundary = {want:.9f} "
                          f"(length {length:.9f}; the sum corresponds to a length of {got / (3.0 * fac):.9f}): relative error {e:.3e}", cex=dict(elemType=et, load=kind), signature=f"load:curved:{et}",
                          replay=dict(confirmed=True, got=got, want=want))
    return Verdict(DISCHARGED, backend="native run vs independent arc-length quadrature", detail=f"err {worst:.1e}")


def ob_load_curved3d(et):
    """surface load on the curved lateral face of a cylinder meshed with second-order elements: the nodal forces of a constant density sum to density x area of the face AS MESHED
    (tangent vectors from the shape-function derivatives at the rule's points, cross product computed here)."""
    from EasyFEA import ElemType, Models, Simulations, MatrixType
    from EasyFEA.Geoms import Circle, Point
    mesh = Circle(Point(), 2.0, 0.7).Mesh_Extrude([], [0, 0, 1.0], [2], ElemType[et])
    simu = Simulations.Elastic(mesh, Models.Elastic.Isotropic(3))
    co = np.asarray(mesh.coord)
    nodes = np.where(np.isclose(np.linalg.norm(co[:, :2], axis=1), 1.0, atol=1e-6))[0]
    area = 0.0
    for g in mesh.Get_list_groupElem(2):
        gauss = g.Get_gauss(MatrixType.mass)
        pts, w = np.asarray(gauss.coord, dtype=float), np.asarray(gauss.weights, dtype=float).ravel()
        dN = g._dN()
        for row in np.asarray(g.connect):
            if not np.isin(row, nodes).all():
                continue
            P = co[row]
            for pt, w_ in zip(pts, w):
                t1 = sum(float(dN[i, 0](*pt[:2])) * P[i] for i in range(len(row)))
                t2 = sum(float(dN[i, 1](*pt[:2])) * P[i] for i in range(len(row)))
                area += w_ * np.linalg.norm(np.cross(t1, t2))
    if area < 1.0:
        raise Unsupported("lateral face not found")
    simu.add_surfLoad(nodes, [3.0], ["z"])
    F = np.asarray(simu.Bc_vector_Neumann()).ravel()
    got = float(F.reshape(-1, 3)[:, 2].sum())
    want = 3.0 * area
    e = abs(got - want) / want
    if e > 1e-9:
        raise Refuted(f"{et} cylinder: a constant add_surfLoad on the curved lateral face sums to {got:.9f}; density x area of the meshed face = {want:.9f} (area {area:.9f}; the sum corresponds to an area of "
                      f"{got / 3.0:.9f}; exact cylinder {2 * np.pi:.9f}): relative error {e:.3e}", cex=dict(elemType=et), signature=f"load:curved3d:{et}", replay=dict(confirmed=True, got=got, want=want))
    return Verdict(DISCHARGED, backend="native run vs independent surface-element quadrature", detail=f"err {e:.1e}")


def ob_load_none(et):
    """a node selection that bounds no element of the loaded dimension (a single node, two opposite corners, interior nodes): the load contributes nothing --
    no exception, zero Neumann vector -- for line, surface, volume and pressure loads; a later valid load is unaffected."""
    mesh = _mesh(et)
    dim = mesh.dim
    co = np.asarray(mesh.coord)
    corners = [int(np.argmin(np.abs(co - np.array(p_)).sum(1))) for p_ in ([0, 0, 0], [L, H, D if dim == 3 else 0])]
    n = 0
    for sel_name, sel in (("single node", corners[:1]), ("two opposite corners", corners)):
        for kind in ("line", "surf", "volume", "pressure"):
            if kind == "volume" and dim == 2:
                pass
            simu = _simu(mesh, 0.7)
            unk = ["x", "y", "z"][:dim]
            try:
                if kind == "line":
                    simu.add_lineLoad(np.array(sel), [1.0] * dim, unk)
                elif kind == "surf":
                    simu.add_surfLoad(np.array(sel), [1.0] * dim, unk)
                elif kind == "volume":
                    simu.add_volumeLoad(np.array(sel), [1.0] * dim, unk)
                else:
                    simu.add_pressureLoad(np.array(sel), 2.0)
                F = simu.Bc_vector_Neumann()
                F = np.asarray(F.todense()).ravel() if hasattr(F, "todense") else np.asarray(F).ravel()
            except Exception as ex:
                raise Refuted(f"{et}: a {kind} load on a selection that bounds no element ({sel_name}: nodes {sel}) raises {type(ex).__name__}: {ex} instead of contributing nothing",
                              cex=dict(elemType=et, load=kind, nodes=sel), signature=f"load_none:{kind}", replay=dict(confirmed=True, error=str(ex)[:200]))
            n += 1
            if np.abs(F).max(initial=0.0) != 0.0:
                raise Refuted(f"{et}: a {kind} load on nodes {sel} that bound no element contributes {np.abs(F).max():.3e}", cex=dict(elemType=et, load=kind, nodes=sel),
                              signature=f"load_none:{kind}:value", replay=dict(confirmed=True))
    return Verdict(DISCHARGED, backend="native run", sub=n)


def _beam_lineload(dim, timo, et, inclined, form, unknown, nL=3):
    import contextlib, io
    from EasyFEA import Models, Simulations, Mesher, ElemType
    from EasyFEA.Geoms import Domain, Point, Line
    with contextlib.redirect_stdout(io.StringIO()):
        sect = Mesher().Mesh_2D(Domain(Point(), Point(0.3, 0.5)), elemType=ElemType.QUAD4)
        L = 3.0
        if dim == 1 or not inclined:
            p2 = np.array([L, 0, 0])
        elif dim == 2:
            p2 = np.array([L * 0.6, L * 0.8, 0])
        else:
            p2 = np.array([L / 3, 2 * L / 3, 2 * L / 3])
        line = Line(Point(0, 0, 0), Point(*p2), L / nL)
        beam = Models.Beam.Isotropic(dim, line, sect, 210e3, v=0.3)
        mesh = Mesher().Mesh_Beams([beam], elemType=ElemType[et])
        simu = Simulations.Beam(mesh, beam, useTimoshenko=timo)
    co = np.asarray(mesh.coord)
    t = p2 / np.linalg.norm(p2)
    s = co @ t
    nodes = mesh.nodes
    q0, q1 = 2.0, 0.7
    if form == "const":
        val = q0
    elif form == "func":
        val = lambda x, y, z: q0 + q1 * (x * t[0] + y * t[1] + z * t[2])
    elif form == "array":
        val = q0 + q1 * s[nodes]
    else:     # "array_perm": the selection is not listed in ascending node number (far end first, rolled); values[i] belongs to nodes[i]
        nodes = np.roll(np.asarray(nodes)[::-1], 1)
        val = q0 + q1 * s[nodes]
    q = (lambda ss: q0 + 0 * ss) if form == "const" else (lambda ss: q0 + q1 * ss)
    simu.add_lineLoad(nodes, [val], [unknown])
    F = simu.Bc_vector_Neumann()
    F = np.asarray(F.todense()).ravel() if hasattr(F, "todense") else np.asarray(F).ravel()
    dn = simu.Get_dof_n()
    F = F.reshape(mesh.Nn, dn)
    unk = simu.Get_unknowns()
    rot = unknown.startswith("r")
    ev = np.eye(3)[{"x": 0, "y": 1, "z": 2}[unknown[-1]]]
    from numpy.polynomial.legendre import leggauss
    xg, wg = leggauss(6)
    ss, ww = (xg + 1) / 2 * L, wg * L / 2
    tot = float(np.sum(ww * q(ss)))
    if rot:       # distributed couple about a global axis: no resultant force, resultant moment = integral
        Rex, Mex = np.zeros(3), ev * tot
    else:
        Rex = ev * tot
        Mex = np.sum([w * np.cross(si * t, ev * q(si)) for si, w in zip(ss, ww)], axis=0)
    f, m = np.zeros((mesh.Nn, 3)), np.zeros((mesh.Nn, 3))
    for i, u in enumerate(unk):
        if u in "xyz":
            f[:, "xyz".index(u)] = F[:, i]
        else:
            m[:, ["rx", "ry", "rz"].index(u)] = F[:, i]
    R = f.sum(0)
    M = np.cross(co, f).sum(0) + m.sum(0)
    return R, Rex, M, Mex


def ob_beam_lineload(dim, timo, inclined):
    """line loads on beams (Euler-Bernoulli: Hermitian consistent loads with nodal couples; Timoshenko: Lagrange): for every unknown the simulation
    accepts, constant / linear-function / linear-nodal-array intensities: resultant force == integral of the density along the GLOBAL direction of the
    unknown, resultant moment about the origin (nodal forces x lever arms + nodal couples) == moment of the density."""
    n = 0
    unknowns = {1: ["x"], 2: ["x", "y", "rz"], 3: ["x", "y", "z", "rx", "ry", "rz"]}[dim]
    for et in ("SEG2", "SEG3"):
        for form in ("const", "func", "array", "array_perm"):
            for unknown in unknowns:
                try:
                    R, Rex, M, Mex = _beam_lineload(dim, timo, et, inclined, form, unknown)
                except Exception as ex:
                    raise Refuted(f"add_lineLoad on a {dim}-D {'Timoshenko' if timo else 'Euler-Bernoulli'} {et} beam, unknown {unknown}, {form} intensity raises {type(ex).__name__}: {ex}",
                                  cex=dict(dim=dim, timoshenko=timo, elemType=et, inclined=inclined, form=form, unknown=unknown), signature=f"beamload:{dim}:{timo}:raises", replay=dict(confirmed=True))
                n += 2
                sc = max(np.abs(Rex).max(), np.abs(Mex).max(), 1.0)
                eR, eM = float(np.abs(R - Rex).max() / sc), float(np.abs(M - Mex).max() / sc)
                if not (eR < 1e-9 and eM < 1e-9):
                    raise Refuted(f"{dim}-D {'Timoshenko' if timo else 'Euler-Bernoulli'} {et} beam{' (inclined)' if inclined else ''}, line load on '{unknown}' ({form}): resultant {np.round(R, 6).tolist()} vs "
                                  f"integral of the density {np.round(Rex, 6).tolist()}; moment {np.round(M, 6).tolist()} vs {np.round(Mex, 6).tolist()}",
                                  cex=dict(dim=dim, timoshenko=timo, elemType=et, inclined=inclined, form=form, unknown=unknown), signature=f"beamload:{dim}:{timo}:{inclined}",
                                  replay=dict(confirmed=True, err_resultant=eR, err_moment=eM))
    return Verdict(DISCHARGED, backend="native run vs 6-point Gauss integrals of the density", sub=n)


def ob_exclusive(meshname):
    from EasyFEA.FEM._group_elem import GroupElemFactory
    from EasyFEA.FEM._utils import ElemType
    if meshname == "tri_fan":
        coords, connect = patches.star_patch("TRI3")
        et = "TRI3"
    elif meshname == "quad_star":
        coords, connect = patches.star_patch("QUAD4")
        et = "QUAD4"
    elif meshname == "seg_chain":
        coords = [[F(i), F(0), F(0)] for i in range(6)]
        connect = [[i, i + 1] for i in range(5)]
        et = "SEG2"
    elif meshname == "tet_pair":
        coords, connect = patches.two_element_patch("TETRA4")
        et = "TETRA4"
    elif meshname == "seg3_chain":
        # higher-order elements: an element is loaded only when ALL its nodes (vertices and mid nodes) are selected
        coords = [[F(i, 2), F(0), F(0)] for i in range(7)]
        connect = [[0, 2, 1], [2, 4, 3], [4, 6, 5]]
        et = "SEG3"
    elif meshname in ("tri6_pair", "quad8_pair", "tet10_pair"):
        et = {"tri6_pair": "TRI6", "quad8_pair": "QUAD8", "tet10_pair": "TETRA10"}[meshname]
        coords, connect = patches.two_element_patch(et)
    else:
        raise ValueError(meshname)
    co = np.array([[float(x) for x in p] for p in coords])
    extra = 3                                   # nodes of the mesh that this group does not use
    co = np.vstack([co, np.zeros((extra, 3))])
    g = GroupElemFactory.Create(ElemType[et], np.array(connect), co)
    Nn = co.shape[0]
    n = 0
    if Nn <= 17:
        subsets = (sub for r in range(1, Nn + 1) for sub in itertools.combinations(range(Nn), r))
    else:
        # too many subsets for an exhaustive sweep: every subset that misses at most 2 nodes of the group, every subset of at most 2 nodes, and the
        # vertices-only selections of each element (with and without the rest of the other elements)
        used = sorted({k for row in connect for k in row})
        fam = set()
        for r in (0, 1, 2):
            for miss in itertools.combinations(used, r):
                fam.add(tuple(k for k in used if k not in miss))
            for few in itertools.combinations(range(Nn), r + 1):
                fam.add(tuple(few))
        nv = {"SEG3": 2, "TRI6": 3, "QUAD8": 4, "TETRA10": 4}[et]
        for row in connect:
            fam.add(tuple(sorted(row[:nv])))
            fam.add(tuple(sorted(set(row[:nv]) | {k for other in connect if other is not row for k in other})))
        subsets = (sub for sub in sorted(fam) if sub)
    for sub in subsets:
        if True:
            s = set(sub)
            want = sorted(e for e, row in enumerate(connect) if set(row) <= s)
            try:
                got = sorted(int(e) for e in g.Get_Elements_Nodes(np.array(sub), exclusively=True))
            except Exception as ex:
                raise Refuted(f"Get_Elements_Nodes raises {type(ex).__name__}: {ex} for nodes {sub}", cex=dict(nodes=list(sub), mesh=meshname), signature=f"exclusive:{meshname}:raises",
                              replay=dict(confirmed=True))
            n += 1
            if got != want:
                raise Refuted(f"{meshname}: Get_Elements_Nodes({list(sub)}, exclusively=True) = {got}, elements fully covered by the selection are {want}",
                              cex=dict(nodes=list(sub), mesh=meshname), signature=f"exclusive:{meshname}", replay=dict(confirmed=True, got=got, want=want))
    return Verdict(DISCHARGED, backend=f"exhaustive enumeration of all {n} non-empty node subsets (native run)", sub=n)


# ---------------------------------------------------------------- X: resultants and moments on gmsh meshes

L, H, D = 1.2, 0.8, 0.5


def _mesh(et):
    from EasyFEA import ElemType
    from EasyFEA.Geoms import Domain, Point
    dim = common.elem_infos(et)[2]
    dom = Domain(Point(0, 0), Point(L, H), 0.4)
    if dim == 2:
        return dom.Mesh_2D([], ElemType[et])
    return dom.Mesh_Extrude([], [0, 0, D], [2], ElemType[et])


def _simu(mesh, th):
    from EasyFEA import Models, Simulations
    dim = mesh.dim
    mat = Models.Elastic.Isotropic(dim, E=3.0, v=0.25, planeStress=True, thickness=th)
    return Simulations.Elastic(mesh, mat)


def _poly(a):
    return lambda x, y, z: a[0] + a[1] * x + a[2] * y + a[3] * z + a[4] * y * y + a[5] * y * z


def _int_poly_face_xL(a, dim):
    """closed-form integral of the polynomial and of its first moments (about the origin) on the face x = L: 2-D -> segment y in [0,H]; 3-D -> [0,H]x[0,D]."""
    import sympy as sp
    x, y, z = sp.symbols("x y z")
    f = a[0] + a[1] * x + a[2] * y + a[3] * z + a[4] * y * y + a[5] * y * z
    f = f.subs(x, L)
    if dim == 2:
        f = f.subs(z, 0)
        I = lambda g_: float(sp.integrate(g_, (y, 0, H)))
    else:
        I = lambda g_: float(sp.integrate(sp.integrate(g_, (y, 0, H)), (z, 0, D)))
    return I(f), I(f * y), I(f * z) if dim == 3 else 0.0


def _int_poly_volume(a, dim):
    import sympy as sp
    x, y, z = sp.symbols("x y z")
    f = a[0] + a[1] * x + a[2] * y + a[3] * z + a[4] * y * y + a[5] * y * z
    if dim == 2:
        f = f.subs(z, 0)
        I = lambda g_: float(sp.integrate(sp.integrate(g_, (x, 0, L)), (y, 0, H)))
    else:
        I = lambda g_: float(sp.integrate(sp.integrate(sp.integrate(g_, (x, 0, L)), (y, 0, H)), (z, 0, D)))
    return I(f), I(f * x), I(f * y)


def _resultants(simu, dim):
    b = np.asarray(simu.Bc_vector_Neumann().todense()).ravel() if hasattr(simu.Bc_vector_Neumann(), "todense") else np.asarray(simu.Bc_vector_Neumann()).ravel()
    Nn = simu.mesh.Nn
    f = b.reshape(Nn, -1)
    co = np.asarray(simu.mesh.coord)
    return f, co


def ob_load(et, kind, seed):
    rng = np.random.default_rng(100 + seed)
    mesh = _mesh(et)
    dim = mesh.dim
    th = 1.3 if dim == 2 else 1.0
    order = common.elem_infos(et)[3]
    tol = 1e-10
    a = rng.uniform(-1, 1, size=6)
    if order == 1:
        a[4] = a[5] = 0.0      # "polynomial functions of position up to the quadrature order": linear intensity x linear shape function for first-order faces
    a2 = rng.uniform(-1, 1, size=6)
    a2[4] = a2[5] = 0.0
    nodes_face = mesh.Nodes_Conditions(lambda x, y, z: x == L)
    n = 0

    def check(label, simu, comp, want_R, want_My=None, want_Mz=None, scale=1.0):
        nonlocal n
        f, co = _resultants(simu, dim)
        R = f[:, comp].sum()
        n += 1
        sc = max(abs(want_R), scale, 1e-12)
        if abs(R - want_R) > tol * sc:
            raise Refuted(f"{et} {kind} [{label}]: resultant along component {comp} is {R:.12g}, analytical integral{' x thickness' if dim == 2 else ''} is {want_R:.12g}",
                          cex=dict(elemType=et, kind=kind, load=label), signature=f"load:{kind}:{label}:resultant", replay=dict(confirmed=True, got=float(R), expected=float(want_R)))
        if want_My is not None:
            My = (f[:, comp] * co[:, 1]).sum()
            n += 1
            if abs(My - want_My) > tol * max(abs(want_My), scale, 1e-12):
                raise Refuted(f"{et} {kind} [{label}]: first moment (weight y) is {My:.12g}, analytical {want_My:.12g}", cex=dict(elemType=et, kind=kind, load=label),
                              signature=f"load:{kind}:{label}:moment", replay=dict(confirmed=True, got=float(My), expected=float(want_My)))
        if want_Mz is not None and dim == 3:
            Mz = (f[:, comp] * co[:, 2]).sum()
            n += 1
            if abs(Mz - want_Mz) > tol * max(abs(want_Mz), scale, 1e-12):
                raise Refuted(f"{et} {kind} [{label}]: first moment (weight z) is {Mz:.12g}, analytical {want_Mz:.12g}", cex=dict(elemType=et, kind=kind, load=label),
                              signature=f"load:{kind}:{label}:moment", replay=dict(confirmed=True, got=float(Mz), expected=float(want_Mz)))
        # loads act only on the selected face / region
        return f, co

    if kind == "face":       # surfLoad: edge load in 2-D (x thickness), face load in 3-D
        I0, Iy, Iz = _int_poly_face_xL(a, dim)
        simu = _simu(mesh, th)
        simu.add_surfLoad(nodes_face, [_poly(a)], ["y"])
        f, co = check("polynomial", simu, 1, I0 * th, Iy * th, Iz * th)
        if np.abs(f[co[:, 0] < L - 1e-9]).max() > 1e-14:
            raise Refuted(f"{et} face load puts forces on nodes outside the loaded face", signature="load:face:support", replay=dict(confirmed=True))
        # constant, two components at once
        simu = _simu(mesh, th)
        simu.add_surfLoad(nodes_face, [2.5, -1.5], ["x", "y"])
        area = H * (D if dim == 3 else 1.0)
        check("constant", simu, 0, 2.5 * area * th, 2.5 * area * th * H / 2, 2.5 * area * th * D / 2)
        check("constant", simu, 1, -1.5 * area * th)
        # nodal array (values of a linear function at the selected nodes): integrated through the shape functions
        co_all = np.asarray(mesh.coord)
        arr = _poly(a2)(co_all[nodes_face, 0], co_all[nodes_face, 1], co_all[nodes_face, 2])
        J0, Jy, Jz = _int_poly_face_xL(a2, dim)
        simu = _simu(mesh, th)
        simu.add_surfLoad(nodes_face, [arr], ["x"])
        check("nodal array", simu, 0, J0 * th, Jy * th, Jz * th)
        # the same nodal array with the selection listed in another order (reversed, rolled): values[i] belongs to nodes[i]
        perm = np.roll(np.arange(len(nodes_face))[::-1], 2)
        simu = _simu(mesh, th)
        simu.add_surfLoad(np.asarray(nodes_face)[perm], [np.asarray(arr)[perm]], ["x"])
        check("nodal array, selection not sorted by node number", simu, 0, J0 * th, Jy * th, Jz * th)
        # stray nodes: add nodes that do not bound any loaded element (isolated nodes of the opposite face and one interior-ish node)
        stray = mesh.Nodes_Conditions(lambda x, y, z: (x == 0) & (y == 0))
        sel = np.unique(np.concatenate([nodes_face, stray[:1]]))
        simu = _simu(mesh, th)
        simu.add_surfLoad(sel, [2.5], ["x"])
        f, co = check("constant + stray node", simu, 0, 2.5 * area * th)
        if np.abs(f[stray[:1]]).max() != 0:
            raise Refuted(f"{et}: a selected node that bounds no loaded element receives a force", signature="load:face:stray", replay=dict(confirmed=True))
    elif kind == "line3d":   # lineLoad on an edge of the 3-D box / on the 2-D boundary without thickness? (2-D: add_lineLoad is the edge load without thickness scaling)
        if dim == 3:
            nodes_edge = mesh.Nodes_Conditions(lambda x, y, z: (x == L) & (z == 0))
            simu = _simu(mesh, th)
            simu.add_lineLoad(nodes_edge, [lambda x, y, z: 1.0 + 2.0 * y], ["z"])
            want = H + H * H
            check("linear on an edge", simu, 2, want, H * H / 2 + 2 * H ** 3 / 3)
        else:
            simu = _simu(mesh, th)
            simu.add_lineLoad(nodes_face, [lambda x, y, z: 1.0 + 2.0 * y], ["y"])
            check("linear on an edge (no thickness factor: force per unit length)", simu, 1, H + H * H, H * H / 2 + 2 * H ** 3 / 3)
    elif kind == "volume":
        nodes_all = mesh.nodes
        I0, Ix, Iy = _int_poly_volume(a2, dim)
        simu = _simu(mesh, th)
        simu.add_volumeLoad(nodes_all, [_poly(a2)], ["y"])
        f, co = _resultants(simu, dim)
        check("linear body force", simu, 1, I0 * th, Iy * th)
        Mx = (f[:, 1] * co[:, 0]).sum()
        n += 1
        if abs(Mx - Ix * th) > tol * max(abs(Ix * th), 1.0):
            raise Refuted(f"{et} volume load: first moment (weight x) {Mx:.12g} vs {Ix*th:.12g}", signature="load:volume:moment", replay=dict(confirmed=True))
        simu = _simu(mesh, th)
        simu.add_volumeLoad(nodes_all, [-9.81], ["y"])
        vol = L * H * (D if dim == 3 else 1.0)
        check("constant body force", simu, 1, -9.81 * vol * th)
    elif kind == "pressure":
        simu = _simu(mesh, th)
        p = 3.5
        simu.add_pressureLoad(nodes_face, p)
        f, co = _resultants(simu, dim)
        area = H * (D if dim == 3 else 1.0)
        R = f.sum(axis=0)
        n += 1
        want = np.zeros(f.shape[1])
        # a positive pressure pushes on the body: resultant = -p * area * outward normal (outward normal of x = L is +x); magnitude p*area*thickness along the normal
        if abs(abs(R[0]) - p * area * th) > tol * p * area * th or np.abs(R[1:]).max() > tol * p * area * th:
            raise Refuted(f"{et} pressure on the planar face x=L: resultant {R.tolist()}, expected magnitude {p*area*th:.12g} along the face normal (x)",
                          cex=dict(elemType=et), signature="load:pressure", replay=dict(confirmed=True, resultant=R.tolist()))
        # the pressure handed over as a 0-d / 1-element array (the value of a load history): it is the caller's, applying the load again gives the same resultant
        for parr in (np.array(p), np.array([p])):
            for rep in range(2):
                simu = _simu(mesh, th)
                simu.add_pressureLoad(nodes_face, parr)
                f, co = _resultants(simu, dim)
                R = f.sum(axis=0)
                n += 1
                if float(np.ravel(parr)[0]) != p or abs(abs(R[0]) - p * area * th) > tol * p * area * th:
                    raise Refuted(f"{et} pressure given as a numpy array of shape {parr.shape}, application #{rep + 1}: resultant {R.tolist()}, expected magnitude {p*area*th:.12g}; the caller's "
                                  f"array now holds {np.ravel(parr).tolist()} (given {p})", cex=dict(elemType=et, pressure_shape=list(parr.shape), application=rep + 1), signature="load:pressure:array",
                                  replay=dict(confirmed=True, resultant=R.tolist(), callers_value=np.ravel(parr).tolist()))
    else:
        raise ValueError(kind)
    return Verdict(DISCHARGED, backend="native run of the real load integration on a gmsh mesh vs closed-form integrals (1e-10)", sub=n)


def build(tier, seed):
    obs = []
    obs.append(Ob("C09.lemma.resultant", ob_lemma, (), "L", clause="partition of unity => nodal forces of one integration point sum to w f"))
    obs.append(Ob("C09.pointload", ob_pointload, (), "P", (f"{SP}::_Simu.__Bc_pointLoad",), clause="a concentrated load distributes its total over the selected nodes"))
    for m in (["tri_fan", "seg_chain", "tet_pair", "seg3_chain", "tri6_pair", "quad8_pair"] if tier == "quick" else ["tri_fan", "quad_star", "seg_chain", "tet_pair", "seg3_chain", "tri6_pair", "quad8_pair", "tet10_pair"]):
        obs.append(Ob(f"C09.exclusive.{m}", ob_exclusive, (m,), "B", (f"{GP}::_GroupElem.Get_Elements_Nodes",), bound="one small mesh + 3 unused nodes; ALL node subsets",
                      clause="returns exactly the elements all of whose nodes are selected", timeout=900))
    types2 = ["TRI3", "QUAD4", "TRI6", "QUAD8"]
    types3 = ["TETRA4", "HEXA8", "PRISM6"] if tier == "quick" else ["TETRA4", "TETRA10", "HEXA8", "HEXA20", "PRISM6", "PRISM15"]
    fl = (f"{SP}::_Simu.__Bc_Integration_Dim", f"{SP}::_Simu.add_surfLoad", f"{SP}::_Simu.add_lineLoad", f"{SP}::_Simu.add_volumeLoad", f"{SP}::_Simu.add_pressureLoad",
          f"{GP}::_GroupElem.Get_Elements_Nodes")
    for et in types2 + types3:
        for kind, sd in [(k_, s_) for k_ in ("face", "line3d", "volume", "pressure") for s_ in (range(4) if tier == "thorough" else range(1))]:
            obs.append(Ob(f"C09.load.{et}.{kind}" + (f".s{sd}" if sd else ""), ob_load, (et, kind, seed + sd), "X", fl, bound="one gmsh box mesh, random polynomial coefficients (seeded), floats",
                          clause="resultant and first moments equal the closed-form integrals (x thickness in 2-D); stray nodes contribute nothing", timeout=600))
    for dim in (1, 2, 3):
        for timo in (False, True):
            for inclined in ((False, True) if dim > 1 else (False,)):
                obs.append(Ob(f"C09.beam.lineload.{dim}d.{'timoshenko' if timo else 'bernoulli'}{'.inclined' if inclined else ''}", ob_beam_lineload, (dim, timo, inclined), "X",
                              ("EasyFEA/Simulations/_beam.py::Beam.add_lineLoad", "EasyFEA/FEM/Elems/_beam.py::_Euler_Bernoulli.Get_beam_N_e_pg"),
                              bound="one 3-element beam, SEG2 and SEG3, constant / linear function / linear nodal array, every unknown", timeout=600,
                              clause="nodal forces and couples of a line load on a beam: resultant == integral of the density along the global direction of the unknown; moment about the origin == moment of the density"))
    for et in ("TRI3", "QUAD8", "TETRA4", "HEXA8"):
        obs.append(Ob(f"C09.load.none.{et}", ob_load_none, (et,), "X", (f"{SP}::_Simu._Bc_Add_Neumann", f"{SP}::_Simu.__Bc_Integration_Dim"), bound="one gmsh box mesh, two selections x four load kinds",
                      clause="loads on nodes that do not bound any element of the loaded dimension contribute nothing (no exception, zero vector)", timeout=300))
    for sim in ("Thermal", "WeakForms", "WeakForms.vector", "HyperElastic", "PhaseField", "InElastic"):
        for et in ("TRI3", "QUAD8", "TETRA4"):
            if sim in ("InElastic", "PhaseField") and et == "QUAD8" and tier == "quick":
                continue
            obs.append(Ob(f"C09.load.sim.{sim}.{et}", ob_load_simtypes, (sim, et), "X", (f"{SP}::_Simu.add_volumeLoad", f"{SP}::_Simu.add_surfLoad"), bound="one gmsh box mesh, thickness 0.25 in 2-D, constant and linear densities",
                          clause="volume and surface loads of every simulation type: resultant and first moments == closed-form integrals (x thickness in 2-D)", timeout=600))
    for et in ("TRI3", "TRI6"):
        obs.append(Ob(f"C09.load.curved.{et}", ob_load_curved, (et,), "X", (f"{SP}::_Simu.add_lineLoad", f"{GP}::_GroupElem.Get_F_e_pg"), bound="one disk mesh", timeout=300,
                      clause="line load on a curved boundary: nodal forces sum to density x thickness x length of the boundary as meshed"))
    for et in ("TETRA4", "TETRA10", "HEXA20", "PRISM15"):
        obs.append(Ob(f"C09.load.curved3d.{et}", ob_load_curved3d, (et,), "X", (f"{SP}::_Simu.add_surfLoad", f"{GP}::_GroupElem.Get_jacobian_e_pg"), bound="one cylinder mesh", timeout=300,
                      clause="surface load on a curved face: nodal forces sum to density x area of the face as meshed"))
    obs.append(Ob("canary.pointload", ob_pointload, (True,), "P", expect=REFUTED))
    functions = {q: extract.get(SP, f"_Simu.{q}").describe() for q in ("__Bc_Integration_Dim", "__Bc_pointLoad", "__Bc_pressureload", "add_surfLoad", "add_lineLoad", "add_volumeLoad")}
    functions["Get_Elements_Nodes"] = extract.get(GP, "_GroupElem.Get_Elements_Nodes").describe()
    GP_GROUPS = {'operators.load'}
    obs += ops.obligations('C09', tier, GP_GROUPS)
    obs += ops.load_obligations('C09', tier)
    obs.append(ops.selfcheck_ob('C09'))
    return dict(
        obs=obs, level="other", min_obligations=20,
        explanation=("The resultant lemma ties the clause to C06/C07. The point-load split is decided symbolically from the extracted source. Exclusive element selection is "
                     "enumerated exhaustively over all node subsets of small meshes. Resultants, first moments, thickness factor, stray nodes and pressure are run-time "
                     "contracts of the real load API on gmsh-generated box meshes (boundary groups as generated, prism meshes with mixed boundary) against closed-form integrals."),
        trusted_base=ops.GP_TRUST + ["C06 partition of unity / linear completeness, C07 exactness of the rules", "gmsh mesher (external) for the X-tier meshes", "sympy integration for the closed forms"],
        assumptions=["box domains with straight faces; polynomial intensities up to the rule's degree; one thickness value", "beam line loads: bounded native runs on one beam (C09.beam.lineload.*)"],
        functions={**functions, **ops.functions_under_contract(GP_GROUPS)},
        dropped=["P: D1-D5; X: imported code unmodified"],
        not_attempted=[],
    )
