"""C12 -- finite-element arrays compute the per-element, per-Gauss-point tensor operation.

  P  C12.keeps_axes          _KeepsFeAxes(axis, ndim) == "every reduced axis is a tensor axis", all axis forms, ndim <= 6 (exhaustive, finite)
  P  C12.subscript.dot/ddot  generated einsum strings contract exactly the last/first one (two) indices and keep the order, all rank pairs 0..4
  P  C12.broadcast           decision table of FeArray.broadcast over (Ne, nPg, shape, tensor_ndim)
  B  C12.sym.*               real FeArray operators on arrays of DISTINCT SYMBOLS (polynomial identity per entry) on the collision shapes
                             Ne = nPg = dim = 2: + - * /, @, dot, ddot, T
  X  C12.ops.*               exhaustive shape grid (Ne, nPg, dim in {1,2,3}, ranks 0..4, all collisions), integer-valued data (exact):
                             every ufunc / operator / reducer / dispatched numpy function vs the explicit per-(e,p) numpy loop, both
                             operand orders, FeArray / ndarray / scalar / Field operands; result type FeArray iff the (Ne, nPg) axes survive
"""
from __future__ import annotations

import itertools
from fractions import Fraction

import numpy as np

from vt import alg, extract, sx
from vt.alg import Ctx, X
from . import ops
from vt.core import Ob, Verdict, Refuted, Unsupported, DISCHARGED, REFUTED

PROP = "C12"
LP = "EasyFEA/FEM/_linalg.py"
F = Fraction


# ---------------------------------------------------------------- P: helpers

def ob_keeps_axes(canary=False):
    g = sx.module_globals("EasyFEA.FEM._linalg")
    f = extract.compile_fn(extract.get(LP, "_KeepsFeAxes"), g, exact=False)
    n = 0
    for ndim in range(2, 7):
        axes_all = list(range(-ndim, ndim))
        cands = [None] + axes_all + [tuple(c) for k in (2, 3) for c in itertools.combinations(axes_all, k)]
        for ax in cands:
            if ax is None:
                want = False
            else:
                t = ax if isinstance(ax, tuple) else (ax,)
                norm = [a % ndim for a in t]
                want = all(a >= (3 if canary else 2) for a in norm)
            got = f(ax, ndim)
            n += 1
            if bool(got) != want:
                raise Refuted(f"_KeepsFeAxes(axis={ax}, ndim={ndim}) = {got}, expected {want}", cex=dict(axis=ax, ndim=ndim), signature="keeps_axes",
                              replay=_replay_reducer(ax, ndim))
    return Verdict(DISCHARGED, backend="exhaustive enumeration (finite domain)", sub=n)


def _replay_reducer(ax, ndim):
    try:
        from EasyFEA.FEM._linalg import FeArray
        a = FeArray.asfearray(np.arange(2 ** ndim, dtype=float).reshape((2,) * ndim))
        r = a.sum(axis=ax)
        t = ax if isinstance(ax, tuple) else (ax,)
        keeps = all((x % ndim) >= 2 for x in t)
        return dict(confirmed=bool(isinstance(r, FeArray) != (keeps and getattr(r, "ndim", 0) >= 2)), type=type(r).__name__)
    except Exception as e:
        return dict(confirmed=True, raised=repr(e))


def _parse(sub):
    lhs, out = sub.split("->")
    a, b = lhs.split(",")
    strip = lambda s: s.replace("...", "")
    return strip(a), strip(b), strip(out)


def ob_subscript(kind):
    """for all ranks r1, r2 in 0..4 for which the operation is defined (dot: r1,r2 >= 1; ddot: r1,r2 >= 2):
    both operands carry the ellipsis, the contracted indices are the last k of the left and the first k of the right operand,
    free indices appear once in the output in left-then-right order."""
    from EasyFEA.FEM._linalg import FeArray
    k = 1 if kind == "dot" else 2
    fn = getattr(FeArray, f"_{kind}_subscript")
    n = 0
    for r1 in range(k, 5):
        for r2 in range(k, 5):
            try:
                sub = fn(r1, r2)
            except Exception as ex:
                raise Refuted(f"_{kind}_subscript({r1},{r2}) raises {type(ex).__name__}: {ex} (ranks 0-4 are in the property's domain)",
                              cex=dict(ndim1=r1, ndim2=r2), signature=f"subscript:{kind}:raises:{r1}:{r2}", replay=_replay_contract(kind, r1, r2))
            n += 1
            a, b, out = _parse(sub)
            ok = (sub.count("...") == 3 and len(a) == r1 and len(b) == r2 and len(set(a)) == r1 and len(set(b)) == r2
                  and a[r1 - k:] == b[:k] and set(a[: r1 - k]).isdisjoint(b[k:]) and out == a[: r1 - k] + b[k:])
            if not ok:
                raise Refuted(f"_{kind}_subscript({r1},{r2}) = '{sub}' does not contract the last {k} index(es) of the left with the first {k} of the right operand",
                              cex=dict(ndim1=r1, ndim2=r2, subscript=sub), signature=f"subscript:{kind}:{r1}:{r2}", replay=_replay_contract(kind, r1, r2))
    return Verdict(DISCHARGED, backend="string analysis of the generated subscripts, all rank pairs", sub=n)


def _replay_contract(kind, r1, r2):
    try:
        from EasyFEA.FEM._linalg import FeArray
        rng = np.random.default_rng(0)
        a = FeArray.asfearray(rng.integers(-5, 6, size=(2, 3) + (2,) * r1).astype(float))
        b = FeArray.asfearray(rng.integers(-5, 6, size=(2, 3) + (2,) * r2).astype(float))
        got = np.asarray(getattr(a, kind)(b))
        k = 1 if kind == "dot" else 2
        want = np.array([[np.tensordot(np.asarray(a)[e, p], np.asarray(b)[e, p], axes=k) for p in range(3)] for e in range(2)])
        return dict(confirmed=bool(got.shape != want.shape or not np.array_equal(got, want)))
    except Exception as e:
        return dict(confirmed=True, raised=repr(e))


def ob_broadcast():
    """FeArray.broadcast: result has leading (Ne, nPg), entry [e,p] equals the documented reading of the input, for every accepted
    shape class; tensor_ndim > 0 reads the leading axes strictly and rejects anything else."""
    from EasyFEA.FEM._linalg import FeArray
    n = 0
    for Ne, nPg in itertools.product((1, 2, 3), repeat=2):
        for tail in ((), (2,), (3,), (2, 2), (3, 3)):
            tnd = len(tail)
            base = np.arange(1, 1 + int(np.prod(tail, dtype=int)), dtype=float).reshape(tail) if tail else np.array(7.0)
            # tensor_ndim given: (), (Ne,), (Ne, nPg) leading axes
            if tnd > 0:
                for lead in ((), (Ne,), (Ne, nPg)):
                    val = np.broadcast_to(base, lead + tail).copy()
                    val = val + (np.arange(val.size).reshape(val.shape) * 100 if lead else 0)
                    out = FeArray.broadcast(val, Ne, nPg, tensor_ndim=tnd)
                    n += 1
                    if not isinstance(out, FeArray) or out.shape != (Ne, nPg) + tail:
                        raise Refuted(f"broadcast(shape {val.shape}, Ne={Ne}, nPg={nPg}, tensor_ndim={tnd}) -> {getattr(out,'shape',None)}", signature="broadcast:shape",
                                      cex=dict(shape=list(val.shape), Ne=Ne, nPg=nPg, tensor_ndim=tnd), replay=dict(confirmed=True))
                    for e in range(Ne):
                        for p in range(nPg):
                            want = val if lead == () else (val[e] if lead == (Ne,) else val[e, p])
                            if not np.array_equal(np.asarray(out)[e, p], want):
                                raise Refuted(f"broadcast(tensor_ndim={tnd}) entry [{e},{p}] wrong for leading axes {lead}", signature="broadcast:value",
                                              cex=dict(shape=list(val.shape), Ne=Ne, nPg=nPg, tensor_ndim=tnd), replay=dict(confirmed=True))
                # strictness: a leading axis that is neither (), (Ne,), (Ne,nPg) is rejected (this is the disambiguation the docstring promises)
                bad = np.zeros((Ne + 5,) + tail)
                try:
                    FeArray.broadcast(bad, Ne, nPg, tensor_ndim=tnd)
                    raise Refuted(f"broadcast accepts leading axes {(Ne+5,)} with tensor_ndim={tnd}", signature="broadcast:strict", replay=dict(confirmed=True))
                except ValueError:
                    n += 1
        # scalars and fields with tensor_ndim = 0
        for sc in (3, 2.5, np.float64(1.5), np.int64(4)):
            out = FeArray.broadcast(sc, Ne, nPg)
            n += 1
            if not (isinstance(out, float) and out == float(sc)):
                raise Refuted(f"broadcast(scalar {sc!r}) -> {out!r}", signature="broadcast:scalar", replay=dict(confirmed=True))
        full = np.arange(Ne * nPg, dtype=float).reshape(Ne, nPg)
        out = FeArray.broadcast(full, Ne, nPg)
        n += 1
        if not (isinstance(out, FeArray) and np.array_equal(np.asarray(out), full)):
            raise Refuted("broadcast of a full (Ne,nPg) field is not the field", signature="broadcast:field", replay=dict(confirmed=True))
        if Ne != nPg:
            pe = np.arange(Ne, dtype=float) + 1
            out = np.asarray(FeArray.broadcast(pe, Ne, nPg))
            n += 1
            if out.shape != (Ne, nPg) or not all(np.all(out[e] == pe[e]) for e in range(Ne)):
                raise Refuted("broadcast of a per-element (Ne,) coefficient is wrong", signature="broadcast:per_element", cex=dict(Ne=Ne, nPg=nPg), replay=dict(confirmed=True))
            pp = np.arange(nPg, dtype=float) + 1
            out = np.asarray(FeArray.broadcast(pp, Ne, nPg))
            n += 1
            if out.shape != (Ne, nPg) or not all(np.all(out[:, p] == pp[p]) for p in range(nPg)):
                raise Refuted("broadcast of a per-point (nPg,) coefficient is wrong", signature="broadcast:per_point", cex=dict(Ne=Ne, nPg=nPg), replay=dict(confirmed=True))
    return Verdict(DISCHARGED, backend="enumeration of the shape classes (Ne, nPg in 1..3)", sub=n)


# ---------------------------------------------------------------- B: symbolic entries on the collision shape

def _symarr(c, name, shape):
    a = np.empty(shape, dtype=object)
    for idx in np.ndindex(shape):
        a[idx] = c.sym(name + "".join(map(str, idx)))
    return a


def ob_sym(op):
    """Ne = nPg = dim = 2 (every axis length collides), entries are distinct symbols: each result entry is a polynomial identity."""
    from EasyFEA.FEM._linalg import FeArray
    D = 2
    ranks = {"add": (2, 1), "mul": (1, 2), "sub": (2, 2), "div": (2, 0), "matmul22": (2, 2), "matmul21": (2, 1), "matmul12": (1, 2), "dot": (2, 2),
             "dot41": (4, 1), "ddot": (2, 2), "ddot42": (4, 2), "T": (2, 0), "const_left": (2, 2), "const_right": (1, 2)}[op]
    r1, r2 = ranks
    names = []
    sa, sb = (D, D) + (D,) * r1, (D, D) + (D,) * r2
    for idx in np.ndindex(sa):
        names.append("a" + "".join(map(str, idx)))
    for idx in np.ndindex(sb):
        names.append("b" + "".join(map(str, idx)))
    c = Ctx(names, nspare=1)
    A, B = _symarr(c, "a", sa), _symarr(c, "b", sb)
    fa, fb = FeArray.asfearray(A), FeArray.asfearray(B)
    per = None
    if op == "add":
        got, per = fa + fb, lambda x, y: x + y
    elif op == "sub":
        got, per = fa - fb, lambda x, y: x - y
    elif op == "mul":
        got, per = fa * fb, lambda x, y: x * y
    elif op == "div":
        got, per = fa / fb, lambda x, y: x / y
    elif op.startswith("matmul"):
        got, per = fa @ fb, lambda x, y: x @ y
    elif op in ("dot", "dot41"):
        got, per = fa.dot(fb), lambda x, y: np.tensordot(x, y, axes=1)
    elif op in ("ddot", "ddot42"):
        got, per = fa.ddot(fb), lambda x, y: np.tensordot(x, y, axes=2)
    elif op == "T":
        got, per = fa.T, lambda x, y: x.T
    elif op == "const_left":
        Bc = B[0, 0]              # a plain (2,2) array: constant tensor, although its shape equals (Ne, nPg)
        got, per = Bc * fa, lambda x, y: B[0, 0] * x
    elif op == "const_right":
        Bc = B[0, 0]
        got, per = fa * Bc, lambda x, y: x * B[0, 0]
    got_arr = np.asarray(got)
    n = 0
    if not isinstance(got, FeArray):
        raise Refuted(f"{op}: result is {type(got).__name__}, expected FeArray (the (Ne,nPg) axes survive)", signature=f"sym:{op}:type", replay=dict(confirmed=True))
    for e in range(D):
        for p in range(D):
            want = np.asarray(per(A[e, p], B[e, p]), dtype=object)
            g = got_arr[e, p]
            if np.shape(g) != np.shape(want):
                raise Refuted(f"{op}: entry [{e},{p}] has shape {np.shape(g)}, per-point operation gives {np.shape(want)}", signature=f"sym:{op}:shape", replay=dict(confirmed=True))
            for idx in np.ndindex(np.shape(want)):
                n += 1
                x, y = (g[idx], want[idx]) if np.shape(want) else (g, want[()])
                x = x if isinstance(x, X) else c.const(x)
                y = y if isinstance(y, X) else c.const(y)
                if not (x == y):
                    raise Refuted(f"{op}: entry [{e},{p}]{idx} = {x}, per-point tensor operation gives {y}", cex=dict(op=op, e=e, p=p, index=list(idx)),
                                  signature=f"sym:{op}", replay=dict(confirmed=True, note="symbolic entries: the mismatch is an identity failure; see C12.ops for the float run"))
    return Verdict(DISCHARGED, backend="ring-normal-form per entry (distinct symbols)", sub=n)


# ---------------------------------------------------------------- X: exhaustive shape grid with integer data

def _rand(rng, shape):
    return rng.integers(1, 9, size=shape).astype(float)


def _tensor_shapes(dim, rank):
    return (dim,) * rank


BIN_UFUNCS = ["add", "subtract", "multiply", "divide", "maximum", "minimum", "power", "hypot", "arctan2", "copysign", "fmod", "greater", "less_equal", "equal"]
UN_UFUNCS = ["negative", "abs", "sqrt", "exp", "log", "sin", "cos", "square", "sign", "floor"]
REDUCERS = ["sum", "prod", "mean", "max", "min", "std", "var", "any", "all", "argmax", "argmin"]


def ob_ops(Ne, nPg, dim, seed):
    from EasyFEA.FEM._linalg import FeArray, Det, Inv, Trace, Transpose, TensorProd, Norm
    from EasyFEA.FEM import _linalg
    rng = np.random.default_rng(seed * 1000 + Ne * 100 + nPg * 10 + dim)
    n = 0
    sig0 = f"ops:{Ne}x{nPg}x{dim}"

    def fail(what, **cex):
        raise Refuted(f"(Ne,nPg,dim)=({Ne},{nPg},{dim}): {what}", cex=dict(Ne=Ne, nPg=nPg, dim=dim, **cex), signature=f"{sig0}:{what.split(':')[0]}",
                      replay=dict(confirmed=True, note="this obligation is a native run of the real FeArray"))

    def same(got, want, what, **cex):
        g, w = np.asarray(got), np.asarray(want)
        if g.shape != w.shape or not np.allclose(g, w, rtol=1e-13, atol=0, equal_nan=True):
            fail(f"{what}: values differ from the per-(e,p) operation (shape {g.shape} vs {w.shape})", **cex)

    def loop(f, *ops):
        """explicit per-(e,p) evaluation; ops are ('fe', array) or ('const', value)."""
        rows = []
        for e in range(Ne):
            row = []
            for p in range(nPg):
                args = [o[1][e, p] if o[0] == "fe" else o[1] for o in ops]
                row.append(f(*args))
            rows.append(row)
        return np.array(rows)

    # elementwise ufuncs: field-field (all rank pairs 0..2 + a rank-4), field-constant, constant-field, scalar
    rank_pairs = [(0, 0), (0, 1), (1, 0), (1, 1), (0, 2), (2, 0), (1, 2), (2, 1), (2, 2), (2, 4), (4, 2)] if dim <= 2 else [(0, 0), (0, 1), (1, 1), (0, 2), (1, 2), (2, 1), (2, 2)]
    for r1, r2 in rank_pairs:
        a = _rand(rng, (Ne, nPg) + _tensor_shapes(dim, r1))
        b = _rand(rng, (Ne, nPg) + _tensor_shapes(dim, r2))
        cst = _rand(rng, _tensor_shapes(dim, r2)) if r2 else 3.0
        fa, fb = FeArray.asfearray(a), FeArray.asfearray(b)
        for name in BIN_UFUNCS:
            uf = getattr(np, name)
            with np.errstate(all="ignore"):
                got = uf(fa, fb)
                n += 1
                if not isinstance(got, FeArray):
                    fail(f"ufunc {name}: field-field result is {type(got).__name__}, not FeArray", ranks=[r1, r2])
                same(got, loop(uf, ("fe", a), ("fe", b)), f"ufunc {name} field(rank {r1})-field(rank {r2})", ranks=[r1, r2])
                got = uf(fa, cst)
                n += 1
                same(got, loop(uf, ("fe", a), ("const", cst)), f"ufunc {name} field(rank {r1})-constant(rank {r2})", ranks=[r1, r2])
                if not isinstance(got, FeArray):
                    fail(f"ufunc {name}: field-constant result is not a FeArray", ranks=[r1, r2])
                got = uf(cst, fa)
                n += 1
                same(got, loop(uf, ("const", cst), ("fe", a)), f"ufunc {name} constant(rank {r2})-field(rank {r1})", ranks=[r1, r2])
        # python operators, both orders
        for opn, f in (("+", lambda x, y: x + y), ("-", lambda x, y: x - y), ("*", lambda x, y: x * y), ("/", lambda x, y: x / y), ("**", lambda x, y: x ** y)):
            n += 2
            same(f(fa, fb), loop(f, ("fe", a), ("fe", b)), f"operator {opn} field-field", ranks=[r1, r2])
            same(f(cst, fa), loop(f, ("const", cst), ("fe", a)), f"operator {opn} constant-field (reflected)", ranks=[r1, r2])
    for r in (0, 1, 2):
        a = _rand(rng, (Ne, nPg) + _tensor_shapes(dim, r))
        fa = FeArray.asfearray(a)
        for name in UN_UFUNCS:
            uf = getattr(np, name)
            got = uf(fa)
            n += 1
            if not isinstance(got, FeArray):
                fail(f"ufunc {name}: unary result is not a FeArray", rank=r)
            same(got, uf(a), f"ufunc {name} unary", rank=r)
        # out= and where= do not recurse and keep the values
        out = FeArray.asfearray(np.zeros_like(a))
        np.add(fa, fa, out=out)
        n += 1
        same(out, a + a, "ufunc add with out=", rank=r)
    # ufuncs with several outputs: every output is the per-(e,p) result and a FeArray
    for r in (0, 1, 2):
        a = _rand(rng, (Ne, nPg) + _tensor_shapes(dim, r))
        b = _rand(rng, (Ne, nPg) + _tensor_shapes(dim, r))
        fa, fb = FeArray.asfearray(a), FeArray.asfearray(b)
        cases = [("divmod field-field", lambda: np.divmod(fa, fb), np.divmod(a, b)), ("divmod field-scalar", lambda: np.divmod(fa, 3.0), np.divmod(a, 3.0)),
                 ("divmod scalar-field", lambda: np.divmod(7.0, fa), np.divmod(7.0, a)), ("modf", lambda: np.modf(fa / 3), np.modf(a / 3)), ("frexp", lambda: np.frexp(fa), np.frexp(a))]
        for label, call, want in cases:
            try:
                got = call()
            except Exception as ex:
                fail(f"ufunc {label}: raises {type(ex).__name__}: {ex} (rank {r})", rank=r)
            n += 1
            if not (isinstance(got, tuple) and len(got) == len(want)):
                fail(f"ufunc {label}: returns {type(got).__name__}, expected a tuple of {len(want)} outputs", rank=r)
            for k_, (g_, w_) in enumerate(zip(got, want)):
                same(g_, w_, f"ufunc {label} output {k_}", rank=r)
                if not isinstance(g_, FeArray):
                    fail(f"ufunc {label}: output {k_} is not a FeArray", rank=r)
    # a plain array on the LEFT of @ is a constant tensor too (constant-field order of the matrix product)
    for r1, r2 in [(2, 2), (2, 1), (1, 2), (1, 1)]:
        b = _rand(rng, (Ne, nPg) + _tensor_shapes(dim, r2))
        ca = _rand(rng, _tensor_shapes(dim, r1))
        fb = FeArray.asfearray(b)
        try:
            got = ca @ fb
        except Exception as ex:
            fail(f"matmul constant(rank {r1}) @ field(rank {r2}): raises {type(ex).__name__}: {ex}", ranks=[r1, r2])
        n += 1
        same(got, loop(lambda x, y: x @ y, ("const", ca), ("fe", b)), f"matmul constant(rank {r1}) @ field(rank {r2})", ranks=[r1, r2])
        if not isinstance(got, FeArray):
            fail(f"matmul constant(rank {r1}) @ field(rank {r2}): result is not a FeArray", ranks=[r1, r2])
    # reductions that are not in numpy's short list of reducers: the type follows the same rule (FeArray iff the (Ne, nPg) axes survive)
    for r in (1, 2):
        a = _rand(rng, (Ne, nPg) + _tensor_shapes(dim, r))
        fa = FeArray.asfearray(a)
        nd = a.ndim
        extra = [("np.add.reduce", lambda x, ax: np.add.reduce(x, axis=ax)), ("np.multiply.reduce", lambda x, ax: np.multiply.reduce(x, axis=ax)), ("np.maximum.reduce", lambda x, ax: np.maximum.reduce(x, axis=ax)),
                 ("np.nansum", lambda x, ax: np.nansum(x, axis=ax)), ("np.nanmax", lambda x, ax: np.nanmax(x, axis=ax)), ("np.nanmean", lambda x, ax: np.nanmean(x, axis=ax)),
                 ("np.ptp", lambda x, ax: np.ptp(x, axis=ax)), ("np.count_nonzero", lambda x, ax: np.count_nonzero(x, axis=ax)), ("np.linalg.norm", lambda x, ax: np.linalg.norm(x, axis=ax))]
        for label, call in extra:
            for ax in range(-nd, nd):
                want = call(a, ax)
                got = call(fa, ax)
                n += 1
                same(got, want, f"reduction {label} axis={ax}", rank=r, axis=ax)
                keeps = (ax % nd) >= 2 and np.ndim(want) >= 2
                if isinstance(got, FeArray) != keeps:
                    fail(f"reduction {label} axis={ax} on rank {r}: result type {type(got).__name__}, FeArray expected iff the (Ne,nPg) axes survive ({keeps})", rank=r, axis=ax)
    # products: @, dot, ddot, T
    for r1, r2 in [(1, 1), (2, 2), (1, 2), (2, 1), (2, 4), (4, 2), (4, 1), (3, 1), (1, 3), (3, 2)]:
        a = _rand(rng, (Ne, nPg) + _tensor_shapes(dim, r1))
        b = _rand(rng, (Ne, nPg) + _tensor_shapes(dim, r2))
        cb = _rand(rng, _tensor_shapes(dim, r2))
        fa, fb = FeArray.asfearray(a), FeArray.asfearray(b)
        for label, rhs, spec in (("field", fb, ("fe", b)), ("constant", cb, ("const", cb))):
            try:
                got = fa.dot(rhs)
            except Exception as ex:
                fail(f"dot: raises {type(ex).__name__}: {ex} for ranks ({r1},{r2}) [{label}]", ranks=[r1, r2])
            n += 1
            same(got, loop(lambda x, y: np.tensordot(x, y, axes=1), ("fe", a), spec), f"dot field(rank {r1})-{label}(rank {r2})", ranks=[r1, r2])
            if not isinstance(got, FeArray):
                fail("dot: result is not a FeArray", ranks=[r1, r2])
            if r1 <= 2 and r2 <= 2:
                got = fa @ rhs
                n += 1
                want = loop(lambda x, y: x @ y, ("fe", a), spec)
                same(got, want, f"matmul field(rank {r1})-{label}(rank {r2})", ranks=[r1, r2])
            if r1 >= 2 and r2 >= 2:
                try:
                    got = fa.ddot(rhs)
                except Exception as ex:
                    fail(f"ddot: raises {type(ex).__name__}: {ex} for ranks ({r1},{r2}) [{label}]", ranks=[r1, r2])
                n += 1
                same(got, loop(lambda x, y: np.tensordot(x, y, axes=2), ("fe", a), spec), f"ddot field(rank {r1})-{label}(rank {r2})", ranks=[r1, r2])
    for r in (0, 1, 2, 3, 4):
        a = _rand(rng, (Ne, nPg) + _tensor_shapes(dim, r))
        fa = FeArray.asfearray(a)
        got = fa.T
        n += 1
        want = loop(lambda x: np.transpose(x) if r >= 2 else x, ("fe", a))
        same(got, want, f"T rank {r}", rank=r)
        if not isinstance(got, FeArray):
            fail("T: result is not a FeArray", rank=r)
    # reducers: method and dispatched function; type survives exactly when the reduced axes are tensor axes
    for r in (0, 1, 2):
        a = _rand(rng, (Ne, nPg) + _tensor_shapes(dim, r))
        fa = FeArray.asfearray(a)
        nd = a.ndim
        axes = [None] + list(range(-nd, nd)) + ([(-1, -2)] if r == 2 else []) + ([(0, 1)] if True else [])
        for name in REDUCERS:
            for ax in axes:
                if name in ("argmax", "argmin") and isinstance(ax, tuple):
                    continue
                want = getattr(np, name)(a, axis=ax) if ax is not None else getattr(np, name)(a)
                for how, call in (("method", lambda: getattr(fa, name)(axis=ax) if ax is not None else getattr(fa, name)()),
                                  ("function", lambda: getattr(np, name)(fa, axis=ax) if ax is not None else getattr(np, name)(fa))):
                    got = call()
                    n += 1
                    same(got, want, f"reducer {name} ({how}) axis={ax}", rank=r, axis=ax)
                    t = ax if isinstance(ax, tuple) else ((ax,) if ax is not None else None)
                    keeps = t is not None and all((x % nd) >= 2 for x in t) and np.ndim(want) >= 2
                    if isinstance(got, FeArray) != keeps:
                        fail(f"reducer {name} ({how}) axis={ax} on rank {r}: result type {type(got).__name__}, FeArray expected iff the (Ne,nPg) axes survive ({keeps})", rank=r, axis=ax)
        # reshape / ravel typing
        got = fa.reshape((Ne, nPg, -1))
        n += 1
        if not isinstance(got, FeArray) and a.ndim >= 2:
            fail("reshape: keeping (Ne,nPg) loses the FeArray type")
        got = fa.reshape(-1)
        n += 1
        if isinstance(got, FeArray):
            fail("reshape: flattening keeps the FeArray type")
        got = fa.ravel()
        n += 1
        if isinstance(got, FeArray):
            fail("ravel keeps the FeArray type")
    # dispatched numpy functions
    a = _rand(rng, (Ne, nPg, dim, dim))
    b = _rand(rng, (Ne, nPg, dim, dim))
    fa, fb = FeArray.asfearray(a), FeArray.asfearray(b)
    got = np.einsum("...ij,...jk->...ik", fa, fb)
    n += 1
    same(got, a @ b, "np.einsum on fields")
    if not isinstance(got, FeArray):
        fail("np.einsum: result on the (Ne,nPg) axes is not a FeArray")
    got = np.where(fa > fb, fa, fb)
    n += 1
    same(got, np.where(a > b, a, b), "np.where on fields")
    got = np.swapaxes(fa, -1, -2)
    n += 1
    same(got, np.swapaxes(a, -1, -2), "np.swapaxes")
    # closed-form matrix functions
    if dim <= 3:
        m = _rand(rng, (Ne, nPg, dim, dim)) + 10 * np.eye(dim)
        fm = FeArray.asfearray(m)
        n += 4
        same(Det(fm), np.linalg.det(m), "Det")
        g, w = np.asarray(Inv(fm)), np.linalg.inv(m)
        if g.shape != w.shape or not np.allclose(g, w, rtol=1e-10):
            fail("Inv: differs from the per-point inverse")
        same(Trace(fm), np.trace(m, axis1=-2, axis2=-1), "Trace")
        same(Transpose(fm), np.swapaxes(m, -1, -2), "Transpose")
        for f_, nm in ((Det, "Det"), (Inv, "Inv"), (Trace, "Trace"), (Transpose, "Transpose")):
            if not isinstance(f_(fm), FeArray):
                fail(f"{nm}: result is not a FeArray")
        v1, v2 = _rand(rng, (Ne, nPg, dim)), _rand(rng, (Ne, nPg, dim))
        n += 3
        same(TensorProd(FeArray.asfearray(v1), FeArray.asfearray(v2)), loop(np.multiply.outer, ("fe", v1), ("fe", v2)), "TensorProd vectors")
        same(TensorProd(fa, fb), loop(np.multiply.outer, ("fe", a), ("fe", b)), "TensorProd matrices")
        same(TensorProd(fa, fb, symmetric=True), loop(lambda x, y: 0.5 * (np.einsum("ik,jl->ijkl", x, y) + np.einsum("il,jk->ijkl", x, y)), ("fe", a), ("fe", b)),
             "TensorProd symmetric")
        same(Norm(fa, axis=(-2, -1)), np.linalg.norm(a, axis=(-2, -1)), "Norm")
        # a plain array next to a field is a constant tensor, on either side
        c2, c1 = _rand(rng, (dim, dim)), _rand(rng, (dim,))
        for nm_, f_, want_ in (("TensorProd(constant, field) matrices", lambda: TensorProd(c2, fa), lambda: loop(np.multiply.outer, ("c", c2), ("fe", a))),
                               ("TensorProd(field, constant) matrices", lambda: TensorProd(fa, c2), lambda: loop(np.multiply.outer, ("fe", a), ("c", c2))),
                               ("TensorProd(constant, field) vectors", lambda: TensorProd(c1, FeArray.asfearray(v1)), lambda: loop(np.multiply.outer, ("c", c1), ("fe", v1))),
                               ("TensorProd(field, constant) vectors", lambda: TensorProd(FeArray.asfearray(v1), c1), lambda: loop(np.multiply.outer, ("fe", v1), ("c", c1))),
                               ("TensorProd(field, constant) symmetric", lambda: TensorProd(fa, c2, symmetric=True),
                                lambda: loop(lambda x, y: 0.5 * (np.einsum("ik,jl->ijkl", x, y) + np.einsum("il,jk->ijkl", x, y)), ("fe", a), ("c", c2)))):
            n += 1
            try:
                got_ = f_()
            except Exception as ex_:
                fail(f"{nm_}: raises {type(ex_).__name__}: {ex_}")
            same(got_, want_(), nm_)
            if not isinstance(got_, FeArray):
                fail(f"{nm_}: result is not a FeArray")
    # size-1 leading axes: a per-element field (Ne,1,...) against a per-point field (1,nPg,...) runs at (Ne,nPg)
    leads = [(Ne, 1), (1, nPg), (Ne, nPg), (1, 1)]
    for la in leads:
        for lb in leads:
            full = np.broadcast_shapes(la, lb)
            for r1, r2 in [(0, 0), (1, 1), (2, 2), (2, 1), (0, 2), (1, 2)]:
                a = _rand(rng, la + _tensor_shapes(dim, r1))
                b = _rand(rng, lb + _tensor_shapes(dim, r2))
                A = np.broadcast_to(a, full + a.shape[2:])
                B = np.broadcast_to(b, full + b.shape[2:])
                fa, fb = FeArray.asfearray(a), FeArray.asfearray(b)

                def floop(f):
                    return np.array([[f(A[e, p], B[e, p]) for p in range(full[1])] for e in range(full[0])])

                def chk(got, want, what):
                    nonlocal n
                    n += 1
                    same(got, want, f"{what} with leading axes {la} x {lb}", ranks=[r1, r2], leading=[list(la), list(lb)])
                    if not isinstance(got, FeArray):
                        fail(f"{what}: result of leading axes {la} x {lb} is {type(got).__name__}, not a FeArray", ranks=[r1, r2], leading=[list(la), list(lb)])
                    # the result keeps acting as a field of its tensor rank: against a scalar field of the full leading shape
                    w = _rand(rng, full)
                    n += 1
                    gw = np.asarray(want)
                    same(FeArray.asfearray(w) * got, w.reshape(full + (1,) * (gw.ndim - 2)) * gw, f"{what} then scalar field * result, leading axes {la} x {lb}",
                         ranks=[r1, r2], leading=[list(la), list(lb)])

                for opn, f in (("+", lambda x, y: x + y), ("-", lambda x, y: x - y), ("*", lambda x, y: x * y), ("/", lambda x, y: x / y)):
                    chk(f(fa, fb), floop(f), f"operator {opn}")
                chk(np.maximum(fa, fb), floop(np.maximum), "ufunc maximum")
                if r1 >= 1 and r2 >= 1:
                    chk(fa.dot(fb), floop(lambda x, y: np.tensordot(x, y, axes=1)), "dot")
                    chk(fa @ fb, floop(lambda x, y: x @ y), "matmul")
                if r1 == 2 and r2 == 2:
                    chk(fa.ddot(fb), floop(lambda x, y: np.tensordot(x, y, axes=2)), "ddot")
                    chk(np.einsum("...ij,...jk->...ik", fa, fb), floop(lambda x, y: x @ y), "np.einsum")
                    chk(np.where(fa > fb, fa, fb), floop(lambda x, y: np.where(x > y, x, y)), "np.where")
                    chk(np.matmul(fa, fb), floop(lambda x, y: x @ y), "np.matmul")
                    m = fa + 10 * np.eye(dim)
                    chk(np.linalg.solve(m, fb), floop(lambda x, y: np.linalg.solve(x + 10 * np.eye(dim), y)), "np.linalg.solve")
                if r1 == r2 and r1 >= 1 and la == lb:
                    chk(np.concatenate((fa, fb), axis=-1), floop(lambda x, y: np.concatenate((x, y), axis=-1)), "np.concatenate")
    # a plain array is always a constant tensor, even when its shape equals (Ne, nPg)
    s = _rand(rng, (Ne, nPg))
    fs = FeArray.asfearray(_rand(rng, (Ne, nPg, Ne, nPg)))
    got = fs * s
    n += 1
    same(got, np.asarray(fs) * s[None, None], "plain (Ne,nPg)-shaped array acts as a constant tensor")
    # Field operands
    try:
        from . import patches
        from EasyFEA.FEM._field import Field
        mesh = patches.two_element_mesh("TRI3")
        fld = Field(mesh.groupElem, 1)
        val = fld()
        fv = FeArray.asfearray(_rand(rng, np.shape(val)))
        n += 2
        same(fv * fld, np.asarray(fv) * np.asarray(val), "FeArray * Field")
        same(fld * fv, np.asarray(val) * np.asarray(fv), "Field * FeArray")
        # every arithmetic operator, both operand orders, with a finite-element array, a python scalar and a numpy scalar on the other side
        import operator
        nz = np.asarray(val) + 3.0                      # Field values shifted away from zero for the divisions
        for opn, op in (("+", operator.add), ("-", operator.sub), ("*", operator.mul), ("/", operator.truediv)):
            for other, oname in ((fv + 5, "FeArray"), (2.5, "python scalar"), (np.float64(1.5), "numpy scalar"), (np.asarray(fv)[0, 0] * 0 + 3.0 if np.ndim(val) > 2 else np.float64(3.0), "plain constant array")):
                o = np.asarray(other)
                base = np.asarray(val)
                if opn == "/":
                    # divide by / into non-zero values
                    continue_ = False
                n += 2
                try:
                    left = op(fld, other)
                    right = op(other, fld)
                except ZeroDivisionError:
                    continue
                with np.errstate(all="ignore"):
                    wl, wr = op(base, o), op(o, base)
                ok = np.isfinite(wl).all() and np.isfinite(wr).all()
                if not ok:
                    continue
                same(left, wl, f"Field {opn} {oname}")
                same(right, wr, f"{oname} {opn} Field")
        # matrix products with a vector Field, a constant matrix on either side (a non-symmetric one: W @ u and u @ W differ)
        for et_, nc in (("TRI3", 2), ("TETRA4", 3), ("TETRA4", 2)):
            g_ = patches.two_element_mesh(et_).groupElem
            vf = Field(g_, nc)
            vf._Set_current_active_node(1)
            vf._Set_current_active_dof(nc - 1)
            base = np.asarray(vf())
            W = np.arange(1.0, nc * nc + 1).reshape(nc, nc) + np.triu(np.ones((nc, nc)), 1) * 3
            FW = FeArray.asfearray(_rand(rng, base.shape[:2] + (nc, nc)))
            n += 4
            same(W @ vf, np.einsum("ij,epj->epi", W, base), f"constant matrix @ vector Field ({et_}, {nc} components)")
            same(vf @ W, np.einsum("epi,ij->epj", base, W), f"vector Field @ constant matrix ({et_}, {nc} components)")
            same(FW @ vf, np.einsum("epij,epj->epi", np.asarray(FW), base), f"FeArray matrix @ vector Field ({et_}, {nc} components)")
            same(vf @ FW, np.einsum("epi,epij->epj", base, np.asarray(FW)), f"vector Field @ FeArray matrix ({et_}, {nc} components)")
    except ImportError:
        pass
    return Verdict(DISCHARGED, backend="native run of the real FeArray vs explicit per-(e,p) loops, integer-valued data", sub=n)


def ob_function_forms(Ne, nPg, dim):
    """numpy functions called on fields follow the rule of the operators: np.matmul(a, b) is `a @ b` for every rank pair (constant or field on either side), and a reducer is
    typed by the axes it consumes whichever way its arguments are passed (np.linalg.norm(x, ord, axis) positionally)"""
    from EasyFEA.FEM._linalg import FeArray
    rng = np.random.default_rng(Ne * 100 + nPg * 10 + dim)
    fld = lambda *t: FeArray.asfearray(rng.normal(size=(Ne, nPg) + t))
    cst = lambda *t: rng.normal(size=t)
    n = 0
    pairs = [("constant matrix, vector field", cst(dim, dim), fld(dim), "ij,epj->epi"), ("matrix field, vector field", fld(dim, dim), fld(dim), "epij,epj->epi"),
             ("vector field, vector field", fld(dim), fld(dim), "epi,epi->ep"), ("vector field, constant matrix", fld(dim), cst(dim, dim), "epi,ij->epj"),
             ("matrix field, matrix field", fld(dim, dim), fld(dim, dim), "epij,epjk->epik"), ("matrix field, constant matrix", fld(dim, dim), cst(dim, dim), "epij,jk->epik"),
             ("constant vector, matrix field", cst(dim), fld(dim, dim), "i,epij->epj"), ("vector field, matrix field", fld(dim), fld(dim, dim), "epi,epij->epj")]
    for what, a, b, subs in pairs:
        want = np.einsum(subs, np.asarray(a), np.asarray(b))
        forms = [("a @ b", lambda: a @ b), ("np.matmul(a, b)", lambda: np.matmul(a, b)), ("np.dot(a, b)", lambda: np.dot(a, b))]
        if hasattr(np.linalg, "matmul"):
            forms.append(("np.linalg.matmul(a, b)", lambda: np.linalg.matmul(a, b)))
        for form, f in forms:
            try:
                got = f()
            except Exception as ex:
                raise Refuted(f"{form} ({what}; Ne={Ne}, nPg={nPg}, dim={dim}) raises {type(ex).__name__}: {ex}", cex=dict(Ne=Ne, nPg=nPg, dim=dim, operands=what), signature=f"function:matmul:{form}:raises",
                              replay=dict(confirmed=True))
            n += 1
            if np.shape(got) != want.shape or not np.allclose(np.asarray(got), want, rtol=1e-12, atol=1e-12) or not isinstance(got, FeArray):
                raise Refuted(f"{form} ({what}; Ne={Ne}, nPg={nPg}, dim={dim}): shape {np.shape(got)}, type {type(got).__name__}; the product at every (e, p) has shape {want.shape}"
                              + ("" if np.shape(got) != want.shape else f", max difference {np.abs(np.asarray(got) - want).max():.3e}"),
                              cex=dict(Ne=Ne, nPg=nPg, dim=dim, operands=what, form=form), signature=f"function:matmul:{form}", replay=dict(confirmed=True))
    v = fld(dim)
    for what, f, axis in (("norm(v, 1, -1)", lambda: np.linalg.norm(v, 1, -1), -1), ("norm(v, ord=1, axis=-1)", lambda: np.linalg.norm(v, ord=1, axis=-1), -1),
                          ("norm(v, 2, 0)", lambda: np.linalg.norm(v, 2, 0), 0), ("norm(v, ord=2, axis=0)", lambda: np.linalg.norm(v, ord=2, axis=0), 0),
                          ("norm(v, None, 1)", lambda: np.linalg.norm(v, None, 1), 1)):
        got = f()
        n += 1
        keeps = axis in (-1, 2)
        if isinstance(got, FeArray) != keeps:
            raise Refuted(f"np.linalg.{what} on a vector field (Ne={Ne}, nPg={nPg}, dim={dim}) returns {type(got).__name__} of shape {np.shape(got)}: the reduction "
                          f"{'keeps' if keeps else 'consumes'} the (Ne, nPg) axes", cex=dict(Ne=Ne, nPg=nPg, dim=dim, call=what), signature="function:norm:type", replay=dict(confirmed=True))
    # keyword arguments do not change the rule of np.matmul
    for what, a, b, subs in pairs[:2]:
        want = np.einsum(subs, np.asarray(a), np.asarray(b))
        buf = FeArray.asfearray(np.zeros(want.shape))
        for form, f in (("np.matmul(a, b, dtype=float)", lambda: np.matmul(a, b, dtype=float)), ("np.matmul(a, b, out=buffer)", lambda: np.matmul(a, b, out=buf))):
            try:
                got = f()
            except Exception as ex:
                raise Refuted(f"{form} ({what}; Ne={Ne}, nPg={nPg}, dim={dim}) raises {type(ex).__name__}: {ex}", cex=dict(Ne=Ne, nPg=nPg, dim=dim, operands=what), signature=f"function:matmul:{form}:raises",
                              replay=dict(confirmed=True))
            n += 1
            if np.shape(got) != want.shape or not np.allclose(np.asarray(got), want, rtol=1e-12, atol=1e-12):
                raise Refuted(f"{form} ({what}; Ne={Ne}, nPg={nPg}, dim={dim}): shape {np.shape(got)}; `a @ b`, the product at every (e, p), has shape {want.shape}"
                              + ("" if np.shape(got) != want.shape else f", max difference {np.abs(np.asarray(got) - want).max():.3e}"),
                              cex=dict(Ne=Ne, nPg=nPg, dim=dim, operands=what, form=form), signature=f"function:matmul:{form}", replay=dict(confirmed=True))
    # a scalar field given as the `where=` mask of an elementwise function selects whole tensors at the points where it holds
    Mw, sw = fld(dim, dim), fld()
    buf = FeArray.asfearray(np.full((Ne, nPg, dim, dim), -7.0))
    try:
        got = np.add(Mw, 1.0, where=(sw > 0), out=buf)
    except Exception as ex:
        raise Refuted(f"np.add(matrix field, 1.0, where=(scalar field > 0), out=buffer) raises {type(ex).__name__}: {ex}", cex=dict(Ne=Ne, nPg=nPg, dim=dim), signature="function:where:raises", replay=dict(confirmed=True))
    want = np.where((np.asarray(sw) > 0)[:, :, None, None], np.asarray(Mw) + 1.0, -7.0)
    n += 1
    if np.shape(got) != want.shape or not np.array_equal(np.asarray(got), want):
        raise Refuted(f"np.add(matrix field, 1.0, where=(scalar field > 0), out=buffer) (Ne={Ne}, nPg={nPg}, dim={dim}): the mask is not applied point by point (max difference "
                      f"{np.abs(np.asarray(got) - want).max() if np.shape(got) == want.shape else 'shape'})", cex=dict(Ne=Ne, nPg=nPg, dim=dim), signature="function:where:value", replay=dict(confirmed=True))
    # ... whatever the order and the kind of the operands (a constant first, a constant vector against a matrix field)
    cv = cst(dim)
    for what, f, ref in (("np.multiply(2.0, matrix field, where=mask, out=buffer)", lambda b_: np.multiply(2.0, Mw, where=(sw > 0), out=b_), 2.0 * np.asarray(Mw)),
                         ("np.add(constant vector, matrix field, where=mask, out=buffer)", lambda b_: np.add(cv, Mw, where=(sw > 0), out=b_), cv + np.asarray(Mw)),
                         ("np.subtract(matrix field, 1.0, where=mask, out=buffer)", lambda b_: np.subtract(Mw, 1.0, where=(sw > 0), out=b_), np.asarray(Mw) - 1.0)):
        buf = FeArray.asfearray(np.full((Ne, nPg, dim, dim), -7.0))
        try:
            got = f(buf)
        except Exception as ex:
            raise Refuted(f"{what} raises {type(ex).__name__}: {ex}", cex=dict(Ne=Ne, nPg=nPg, dim=dim, call=what), signature="function:where:raises", replay=dict(confirmed=True))
        want = np.where((np.asarray(sw) > 0)[:, :, None, None], ref, -7.0)
        n += 1
        if np.shape(got) != want.shape or not np.array_equal(np.asarray(got), want):
            raise Refuted(f"{what} (Ne={Ne}, nPg={nPg}, dim={dim}): the mask is not applied point by point (max difference "
                          f"{np.abs(np.asarray(got) - want).max() if np.shape(got) == want.shape else 'shape'})", cex=dict(Ne=Ne, nPg=nPg, dim=dim, call=what), signature="function:where:value", replay=dict(confirmed=True))
    # explicit axes are the caller's statement of which axes are multiplied: numpy's own meaning, not the rank rule
    A_, B_ = fld(dim, dim), fld(dim, dim)
    try:
        got = np.matmul(A_, B_, axes=[(-1, -2), (-2, -1), (-2, -1)])
    except Exception as ex:
        raise Refuted(f"np.matmul(A, B, axes=[(-1,-2),(-2,-1),(-2,-1)]) on matrix fields raises {type(ex).__name__}: {ex}", signature="function:matmul:axes:raises", replay=dict(confirmed=True))
    want = np.einsum("epji,epjk->epik", np.asarray(A_), np.asarray(B_))
    n += 1
    if np.shape(got) != want.shape or not np.allclose(np.asarray(got), want, rtol=1e-12, atol=1e-12):
        raise Refuted(f"np.matmul(A, B, axes=[(-1,-2),(-2,-1),(-2,-1)]) on matrix fields (Ne={Ne}, nPg={nPg}, dim={dim}) is not A^T B at every point: the axes argument is ignored "
                      f"(max difference {np.abs(np.asarray(got) - want).max() if np.shape(got) == want.shape else 'shape'})", cex=dict(Ne=Ne, nPg=nPg, dim=dim), signature="function:matmul:axes", replay=dict(confirmed=True))
    for what, f in (("M.ravel('F')", lambda: M_r.ravel("F")), ("M.ravel()", lambda: M_r.ravel())):
        M_r = fld(dim)
        try:
            got = f()
        except Exception as ex:
            raise Refuted(f"{what} on a vector field raises {type(ex).__name__}: {ex}", cex=dict(call=what), signature="function:ravel:raises", replay=dict(confirmed=True))
        n += 1
        ref = np.asarray(M_r).ravel("F" if "F" in what else "C")
        if isinstance(got, FeArray) or not np.array_equal(np.asarray(got), ref):
            raise Refuted(f"{what} on a vector field returns {type(got).__name__} {np.shape(got)}", signature="function:ravel:value", replay=dict(confirmed=True))
    # a field given as `out=` takes part in the alignment: a scalar field written into a matrix-field buffer fills every component of the tensor at (e, p)
    buf = FeArray.asfearray(np.full((Ne, nPg, dim, dim), -7.0))
    try:
        got = np.multiply(sw, 2.0, out=buf)
    except Exception as ex:
        raise Refuted(f"np.multiply(scalar field, 2.0, out=matrix-field buffer) raises {type(ex).__name__}: {ex}", cex=dict(Ne=Ne, nPg=nPg, dim=dim), signature="function:out:raises", replay=dict(confirmed=True))
    want = np.broadcast_to((2.0 * np.asarray(sw))[:, :, None, None], (Ne, nPg, dim, dim))
    n += 1
    if np.shape(got) != want.shape or not np.array_equal(np.asarray(got), want):
        raise Refuted(f"np.multiply(scalar field, 2.0, out=matrix-field buffer) (Ne={Ne}, nPg={nPg}, dim={dim}): the buffer does not hold 2 s[e, p] in every component at (e, p) (max difference "
                      f"{np.abs(np.asarray(got) - want).max() if np.shape(got) == want.shape else 'shape'})", cex=dict(Ne=Ne, nPg=nPg, dim=dim), signature="function:out:value", replay=dict(confirmed=True))
    # fields of different tensor extents joined along a tensor axis
    a2, b3 = fld(2), fld(dim)
    try:
        got = np.concatenate([a2, b3], axis=-1)
    except Exception as ex:
        raise Refuted(f"np.concatenate([field (.., 2), field (.., {dim})], axis=-1) raises {type(ex).__name__}: {ex}", cex=dict(Ne=Ne, nPg=nPg, dim=dim), signature="function:concatenate:raises", replay=dict(confirmed=True))
    n += 1
    if not isinstance(got, FeArray) or got.shape != (Ne, nPg, 2 + dim):
        raise Refuted(f"np.concatenate of two vector fields along the tensor axis returns {type(got).__name__} {np.shape(got)}", signature="function:concatenate:type", replay=dict(confirmed=True))
    # the transpose of a field of rank < 2 is the field (as .T), never an exchange of the Gauss-point axis with a component axis
    from EasyFEA.FEM._linalg import Transpose
    for fe_ in (fld(dim), fld()):
        got = Transpose(fe_)
        n += 1
        if np.shape(got) != fe_.shape or not np.array_equal(np.asarray(got), np.asarray(fe_)):
            raise Refuted(f"Transpose(field of shape {fe_.shape}) returns shape {np.shape(got)}" + ("" if np.shape(got) != fe_.shape else " with permuted values") + f": a field of rank {fe_.ndim - 2} is its own transpose (as .T)",
                          cex=dict(Ne=Ne, nPg=nPg, dim=dim, shape=list(fe_.shape)), signature="function:Transpose:rank", replay=dict(confirmed=True))
    # reductions that are not ndarray methods: typed by the axes they consume, never by a coincidence of extents
    M = fld(dim, dim)
    red = [("np.quantile(M, 0.5, axis=0)", lambda: np.quantile(M, 0.5, axis=0), False), ("np.quantile(M, 0.5, axis=-1)", lambda: np.quantile(M, 0.5, axis=-1), True),
           ("np.percentile(M, 50, axis=1)", lambda: np.percentile(M, 50, axis=1), False), ("np.percentile(M, 50, 2)", lambda: np.percentile(M, 50, 2), True),
           ("np.nanquantile(M, 0.5, axis=0)", lambda: np.nanquantile(M, 0.5, axis=0), False),
           ("np.trace(M)", lambda: np.trace(M), False), ("np.trace(M, axis1=2, axis2=3)", lambda: np.trace(M, axis1=2, axis2=3), True),
           ("np.take(M, 0, axis=0)", lambda: np.take(M, 0, axis=0), False), ("np.cumsum(M, axis=-1)", lambda: np.cumsum(M, axis=-1), True),
           ("np.cumsum(M, 0)", lambda: np.cumsum(M, 0), False), ("np.cumsum(M, axis=0)", lambda: np.cumsum(M, axis=0), False), ("np.sort(M, 0)", lambda: np.sort(M, 0), False), ("np.sort(M)", lambda: np.sort(M), True),
           ("M.cumsum(0)", lambda: M.cumsum(0), False), ("M.cumsum(-1)", lambda: M.cumsum(-1), True), ("M.trace()", lambda: M.trace(), False), ("M.trace(0, 2, 3)", lambda: M.trace(0, 2, 3), True),
           ("M.flatten()", lambda: M.flatten(), False), ("np.add.accumulate(M, 0)", lambda: np.add.accumulate(M, 0), False), ("np.add.accumulate(M, -1)", lambda: np.add.accumulate(M, -1), True),
           ("np.swapaxes(M, 0, 1)", lambda: np.swapaxes(M, 0, 1), False), ("np.swapaxes(M, 2, 3)", lambda: np.swapaxes(M, 2, 3), True), ("np.transpose(M)", lambda: np.transpose(M), False),
           ("M.transpose()", lambda: M.transpose(), False), ("M.transpose(0, 1, 3, 2)", lambda: M.transpose(0, 1, 3, 2), True), ("M.swapaxes(0, 1)", lambda: M.swapaxes(0, 1), False),
           ("np.moveaxis(M, 0, 1)", lambda: np.moveaxis(M, 0, 1), False), ("np.stack([M, M], axis=0)", lambda: np.stack([M, M], axis=0), False), ("np.stack([M, M], axis=-1)", lambda: np.stack([M, M], axis=-1), True),
           ("np.flip(M, 0)", lambda: np.flip(M, 0), False), ("np.roll(M, 1, 0)", lambda: np.roll(M, 1, 0), False), ("np.roll(M, 1, -1)", lambda: np.roll(M, 1, -1), True)]
    from EasyFEA.FEM._linalg import Norm
    red += [("np.sum(a=M, axis=-1)", lambda: np.sum(a=M, axis=-1), True), ("np.mean(a=M, axis=0)", lambda: np.mean(a=M, axis=0), False), ("np.max(a=M, axis=1)", lambda: np.max(a=M, axis=1), False),
            ("np.linalg.norm(x=M, axis=-1)", lambda: np.linalg.norm(x=M, axis=-1), True), ("Norm(M, axis=0)", lambda: Norm(M, axis=0), False), ("Norm(M, axis=1)", lambda: Norm(M, axis=1), False),
            ("Norm(M, axis=-1)", lambda: Norm(M, axis=-1), True), ("Norm(M, axis=(-2, -1))", lambda: Norm(M, axis=(-2, -1)), True), ("Norm(v)", lambda: Norm(v), False)]
    for what, f, keeps in red:
        try:
            got = f()
        except Exception as ex:
            raise Refuted(f"{what} on a field (Ne={Ne}, nPg={nPg}, dim={dim}) raises {type(ex).__name__}: {str(ex)[:120]}", cex=dict(Ne=Ne, nPg=nPg, dim=dim, call=what), signature="function:reducer:raises",
                          replay=dict(confirmed=True))
        n += 1
        if isinstance(got, FeArray) != keeps:
            raise Refuted(f"{what} on a matrix field (Ne={Ne}, nPg={nPg}, dim={dim}) returns {type(got).__name__} of shape {np.shape(got)}: the operation "
                          f"{'keeps' if keeps else 'consumes / works along'} the (Ne, nPg) axes", cex=dict(Ne=Ne, nPg=nPg, dim=dim, call=what), signature="function:reducer:type", replay=dict(confirmed=True))
    return Verdict(DISCHARGED, backend="native vs per-point einsum", sub=n)


def build(tier, seed):
    obs = []
    fl = lambda q: f"{LP}::{q}"
    for shp in ((3, 3, 3), (5, 3, 3), (2, 2, 2), (4, 2, 3)):
        obs.append(Ob("C12.function.forms.%dx%dx%d" % shp, ob_function_forms, shp, "X", (fl("FeArray.__array_ufunc__"), fl("FeArray.__array_function__"), fl("FeArray.__matmul__"), fl("FeArray.__rmatmul__")),
                      bound="one (Ne, nPg, dim), 8 operand kinds, random values", clause="np.matmul(a, b) == a @ b == the product at every (e, p); np.linalg.norm typed by the consumed axes, positional or keyword arguments"))
    obs.append(Ob("C12.keeps_axes", ob_keeps_axes, (), "P", (fl("_KeepsFeAxes"),), clause="_KeepsFeAxes(axis, ndim) <=> every reduced axis is a tensor axis (ndim <= 6, axis int/tuple/None)"))
    for kind in ("dot", "ddot"):
        obs.append(Ob(f"C12.subscript.{kind}", ob_subscript, (kind,), "P", (fl(f"FeArray._{kind}_subscript"),),
                      clause="einsum subscript contracts last/first index(es), keeps order, defined for every rank pair up to 4"))
    obs.append(Ob("C12.broadcast", ob_broadcast, (), "P", (fl("FeArray.broadcast"),), clause="coefficient broadcasting: scalars, per-element, per-point, full fields, tensor_ndim strict"))
    for op in ("add", "sub", "mul", "div", "matmul22", "matmul21", "matmul12", "dot", "dot41", "ddot", "ddot42", "T", "const_left", "const_right"):
        obs.append(Ob(f"C12.sym.{op}", ob_sym, (op,), "B", (fl("FeArray.__array_ufunc__"), fl("FeArray.__matmul__"), fl("FeArray.dot"), fl("FeArray.ddot"), fl("FeArray.T")),
                      bound="Ne = nPg = dim = 2 (all axis lengths collide), distinct symbolic entries", clause="entry [e,p] == tensor operation on a[e,p], b[e,p] as polynomial identities", timeout=300))
    grid = list(itertools.product((1, 2, 3), repeat=3))
    if tier == "quick":
        grid = [(2, 2, 2), (3, 3, 3), (1, 1, 1), (1, 2, 2), (2, 1, 2), (2, 2, 1), (3, 2, 2), (2, 3, 3), (1, 3, 3), (3, 1, 2)]
    for Ne, nPg, dim, sd in [(*g_, s_) for g_ in grid for s_ in (range(3) if tier == "thorough" else range(1))]:
        obs.append(Ob(f"C12.ops.{Ne}x{nPg}x{dim}" + (f".s{sd}" if sd else ""), ob_ops, (Ne, nPg, dim, seed + sd), "X",
                      (fl("FeArray.__array_ufunc__"), fl("FeArray.__array_function__"), fl("FeArray.__matmul__"), fl("FeArray.dot"), fl("FeArray.ddot"), fl("Det"), fl("Inv"), fl("TensorProd")),
                      bound="ranks 0-4, 14 binary + 10 unary ufuncs, 11 reducers x all axes, both operand orders; integer-valued data",
                      clause="every operation equals the per-(e,p) tensor operation; FeArray type iff the leading axes survive", timeout=600))
    obs.append(Ob("canary.keeps_axes", ob_keeps_axes, (True,), "P", expect=REFUTED))
    functions = {q: extract.get(LP, q).describe() for q in ("_KeepsFeAxes", "FeArray._align", "FeArray.__array_ufunc__", "FeArray.__array_function__", "FeArray.__matmul__",
                                                         "FeArray._dot_subscript", "FeArray._ddot_subscript", "FeArray.dot", "FeArray.ddot", "FeArray.broadcast", "Det", "Inv", "Trace", "TensorProd")}
    obs += ops.fearray_obligations('C12', tier)
    obs.append(ops.selfcheck_ob('C12'))
    return dict(
        obs=obs, level="other", min_obligations=20,
        explanation=("Index-bookkeeping helpers are decided exhaustively (finite domains). The operators are the real FeArray methods: on the fully colliding "
                     "shape with distinct symbolic entries every result entry is a polynomial identity; on the whole shape grid (all collisions, ranks 0-4, both "
                     "operand orders, FeArray / ndarray / scalar / Field operands, ufuncs, reducers, dispatched functions) they are compared with explicit per-(e,p) "
                     "loops on integer-valued data, including the result-type rule."),
        trusted_base=ops.GP_TRUST + ["numpy's own tensordot / einsum / ufuncs as the per-point oracle", "sympy normal form"],
        assumptions=["grid bounded to Ne, nPg, dim <= 3; integer-valued sample data for the X-tier (operations do not branch on values)"],
        functions=functions,
        dropped=["B/X tiers run the imported FeArray unmodified"],
    )
