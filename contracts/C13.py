"""C13 -- user-written weak forms assemble the same matrices as the built-in operators.

  P  C13.assemble.index        BiLinearForm.Assemble / LinearForm.Assemble build their (row, column) vectors from the index functions whose
                               contracts are proved in C03, with the right shapes: executed from the AST on a recording receiver
  B  C13.exact.<type>.<form>   the REAL Integrate_e run on exact values (2-element patches) equals the real built-in operator entry by entry
  X  C13.form.<type>.<form>    a grammar of forms (u v, grad u . grad v, grad u . A . grad v, position-dependent coefficient, Sym_Grad : C : Sym_Grad,
                               trace / transpose variants, vector mass u.v, linear forms f v and f . v) against UV / GradUGradV / GradU_A_GradV /
                               LinearizedElasticity / Linear.V with the same quadrature (native floats, 1e-12)
  X  C13.assemble.<type>       form.Assemble == scatter-add of form.Integrate_e (bilinear and linear)
  X  C13.simu.*                Simulations.WeakForms of heat conduction / linear elasticity returns the solution of the dedicated simulation,
                               static, parabolic and hyperbolic use
"""
from __future__ import annotations

import itertools
from fractions import Fraction

import numpy as np

from vt import alg, extract, sx, symrun
from vt.alg import Ctx, X
from vt.core import Ob, Verdict, Refuted, Unsupported, DISCHARGED, REFUTED
from . import ops
from . import common, patches, fem

PROP = "C13"
F = Fraction
FP = "EasyFEA/FEM/_forms.py"
FD = "EasyFEA/FEM/_field.py"


# ---------------------------------------------------------------- P: index vectors of Assemble

def ob_assemble_index(kind, canary=False):
    import numpy as _np
    g = sx.module_globals("EasyFEA.FEM._forms")
    captured = {}

    def csr(arg, shape=None):
        vals, (rows, cols) = arg
        captured.update(vals=vals, rows=rows, cols=cols, shape=shape)
        return "matrix"
    g["csr_matrix"] = csr
    dof_n, nPe, Ne, Ncoords = 2, 3, 4, 9
    m = nPe * dof_n

    class G:
        pass
    grp = sx.Mock("groupElem", Ncoords=Ncoords, nPe=nPe, Ne=Ne,
                  Get_rows_e=lambda dn: _np.full((Ne, m * m), 1000) + _np.arange(Ne * m * m).reshape(Ne, m * m),
                  Get_columns_e=lambda dn: _np.full((Ne, m * m), 2000) + _np.arange(Ne * m * m).reshape(Ne, m * m),
                  Get_assembly_e=lambda dn: _np.arange(Ne * m).reshape(Ne, m) % (Ncoords * dof_n))
    field = sx.Mock("field", dof_n=dof_n, groupElem=grp)
    cls = "BiLinearForm" if kind == "bilinear" else "LinearForm"
    data = _np.arange(Ne * m * (m if kind == "bilinear" else 1), dtype=float).reshape((Ne, m, m) if kind == "bilinear" else (Ne, m, 1))
    me = sx.Mock("self", Integrate_e=lambda field=None: data)
    f = extract.compile_fn(extract.get(FP, f"{cls}.Assemble"), g, exact=False)
    try:
        out = f(me, field)
    except Exception as ex:
        raise Refuted(f"{cls}.Assemble raises {type(ex).__name__}: {ex} on element data of the shape Integrate_e returns", signature=f"assemble:{kind}:raises",
                      replay=_replay_assemble(kind))
    Ndof = Ncoords * dof_n
    want_shape = (Ndof, Ndof) if kind == "bilinear" else (Ndof, 1)
    n = 0
    if captured.get("shape") != want_shape or canary:
        raise Refuted(f"{cls}.Assemble builds a matrix of shape {captured.get('shape')}, expected {want_shape}", signature=f"assemble:{kind}:shape", replay=_replay_assemble(kind))
    rows, cols, vals = (_np.asarray(captured[k]) for k in ("rows", "cols", "vals"))
    if not (rows.size == cols.size == vals.size == data.size):
        raise Refuted(f"{cls}.Assemble: {vals.size} values, {rows.size} rows, {cols.size} columns", signature=f"assemble:{kind}:sizes", replay=_replay_assemble(kind))
    if kind == "bilinear":
        ok = _np.array_equal(rows, grp.Get_rows_e(dof_n).ravel()) and _np.array_equal(cols, grp.Get_columns_e(dof_n).ravel())
    else:
        ok = _np.array_equal(rows, grp.Get_assembly_e(dof_n).ravel()) and _np.all(cols == 0)
    if not ok or not _np.array_equal(vals, data.ravel()):
        raise Refuted(f"{cls}.Assemble does not pair the element values with the dof indices of C03's contract "
                      f"({'rows_e / columns_e' if kind == 'bilinear' else 'assembly_e and column 0'})", signature=f"assemble:{kind}:indices", replay=_replay_assemble(kind))
    return Verdict(DISCHARGED, backend="extracted function on a recording receiver", sub=4)


def ob_form_after_motion(et):
    """the SAME form object integrated over the SAME field before and after the mesh is moved through the public API (rotation, stretch through the coordinate setter):
    both integrations equal the built-in operator on the geometry current at that time (nothing of the first integration may survive in the form or the field)"""
    from EasyFEA.FEM import Field, BiLinearForm
    from EasyFEA.FEM import Operators
    from EasyFEA.FEM._utils import MatrixType
    mesh = patches.two_element_mesh(et)
    grp = mesh.groupElem
    dim = grp.dim
    fld = Field(grp, 1, MatrixType.rigi) if "matrixType" in Field.__init__.__code__.co_varnames else Field(grp, 1)
    form = BiLinearForm(lambda u, v: u.grad.dot(v.grad))
    # a coefficient that depends on the position of the integration points (read through the field): it follows the mesh too
    from EasyFEA.FEM._linalg import FeArray
    kfun = lambda x, y, z: 1.0 + 0.3 * x - 0.2 * y + 0.1 * z

    def kform(u, v):
        x, y, z = u.Get_coords()
        return FeArray.asfearray(kfun(np.asarray(x), np.asarray(y), np.asarray(z))) * u.dot(v)
    form_k = BiLinearForm(kform)
    n = 0

    def compare(tag):
        got = np.asarray(form.Integrate_e(field=fld))
        mt = getattr(fld, "matrixType", MatrixType.rigi)
        want = np.asarray(Operators.Bilinear.GradUGradV(mesh.groupElem, 1.0, mt))
        e = float(np.abs(got - want).max() / np.abs(want).max())
        if e > 1e-10:
            raise Refuted(f"{et}: the diffusion form integrated {tag} differs from GradUGradV on the current geometry by {e:.3e} (relative): data of an earlier integration is reused",
                          cex=dict(elemType=et, history=tag), signature=f"form:motion:{tag.split()[0]}", replay=dict(confirmed=True, rel_err=e))
        got = np.asarray(form_k.Integrate_e(field=fld))
        xg = np.asarray(mesh.groupElem.Get_GaussCoordinates_e_pg(mt))
        want = np.asarray(Operators.Bilinear.UV(mesh.groupElem, FeArray.asfearray(kfun(xg[..., 0], xg[..., 1], xg[..., 2])), 1, mt))
        e = float(np.abs(got - want).max() / np.abs(want).max())
        if e > 1e-10:
            raise Refuted(f"{et}: the form k(x, y, z) u v (coefficient read at field.Get_coords()) integrated {tag} differs from UV with the coefficient at the current integration points by {e:.3e} "
                          f"(relative): coordinates of an earlier integration are reused", cex=dict(elemType=et, history=tag), signature=f"form:motion:coords:{tag.split()[0]}", replay=dict(confirmed=True, rel_err=e))
    compare("first")
    n += 1
    if dim == 2:
        mesh.Rotate(30.0, (0.1, 0.2, 0.0), (0, 0, 1))
    else:
        mesh.Rotate(30.0, (0.1, 0.2, 0.0), (1, 2, 0.5))
    compare("after Rotate")
    n += 1
    c = np.asarray(mesh.coord).copy()
    c[:, 0] = 1.6 * c[:, 0] + 0.3 * c[:, 1]
    mesh.coord = c
    compare("after a stretch through mesh.coord")
    n += 1
    return Verdict(DISCHARGED, backend="native form vs built-in operator", sub=n)


def ob_form_complex(kind):
    """complex-valued forms (Helmholtz-type operator grad u . grad v - k^2 u v with complex k, complex source): Integrate_e / Assemble / the simulation keep the imaginary part"""
    from EasyFEA.FEM import Field, BiLinearForm, LinearForm, Operators
    from EasyFEA.FEM._utils import MatrixType
    mesh = patches.two_element_mesh("TRI3")
    grp = mesh.groupElem
    fld = Field(grp, 1)
    mt = getattr(fld, "matrixType", MatrixType.mass)
    k2 = (2 + 0.5j) ** 2
    if kind == "bilinear":
        form = BiLinearForm(lambda u, v: u.grad.dot(v.grad) - k2 * (u * v))
        want = np.asarray(Operators.Bilinear.GradUGradV(grp, 1.0, mt)) - k2 * np.asarray(Operators.Bilinear.UV(grp, 1.0, 1, mt))
    else:
        form = LinearForm(lambda v: (1 + 2j) * v)
        want = (1 + 2j) * np.asarray(Operators.Linear.V(grp, 1.0, 1, mt))
    got = np.asarray(form.Integrate_e(field=fld))
    e = float(np.abs(got.reshape(want.shape) - want).max() / np.abs(want).max())
    if e > 1e-12:
        raise Refuted(f"complex {kind} form: Integrate_e (dtype {got.dtype}) differs from the complex combination of the built-in operators by {e:.3e}: the imaginary part "
                      f"(max {np.abs(want.imag).max():.3e}) is {'dropped' if not np.iscomplexobj(got) else 'wrong'}", cex=dict(kind=kind), signature=f"form:complex:{kind}", replay=dict(confirmed=True, rel_err=e))
    A = form.Assemble(fld)
    if not np.iscomplexobj(A.toarray()) or abs(np.abs(A.toarray().imag).sum() - np.abs(want.imag).sum()) > 1e-9 * np.abs(want.imag).sum() and kind == "linear":
        raise Refuted(f"complex {kind} form: Assemble returns dtype {A.dtype}", cex=dict(kind=kind), signature=f"form:complex:{kind}:assemble", replay=dict(confirmed=True))
    return Verdict(DISCHARGED, backend="native form vs built-in operators", sub=2)


def ob_assemble_scatter(kind):
    """X: Form.Assemble == dense scatter-add of Integrate_e's element arrays, on non-symmetric forms"""
    r = _replay_assemble(kind)
    if r.get("confirmed"):
        raise Refuted(f"{'BiLinearForm' if kind == 'bilinear' else 'LinearForm'}.Assemble is not the scatter-add of the element arrays: {r}", signature=f"assemble:{kind}:scatter", replay=r)
    return Verdict(DISCHARGED, backend="native forms on two-element patches", detail=str(r.get("cases"))[:300], sub=2)


def _replay_assemble(kind):
    """native: Form.Assemble against the dense scatter-add K[a[e,i], a[e,j]] += K_e[e,i,j] of Integrate_e's output (non-symmetric convection form, vector shear form)"""
    try:
        from EasyFEA.FEM import Field, BiLinearForm, LinearForm
        out = dict(confirmed=False, cases=[])
        for et, dof_n in (("TRI3", 1), ("QUAD4", 2)):
            mesh = patches.two_element_mesh(et)
            grp = mesh.groupElem
            fld = Field(grp, dof_n)
            if kind == "bilinear":
                bvec, Wc = np.array([1.0, -0.5]), np.array([[0.3, 1.1], [-0.7, 0.2]])
                form = BiLinearForm((lambda u, v: (u.grad.dot(bvec)) * v) if dof_n == 1 else (lambda u, v: (u.grad @ bvec).dot(v) + (Wc @ u).dot(v)))
            else:
                fvec = np.array([2.0, 3.0])
                form = LinearForm((lambda v: 2.0 * v) if dof_n == 1 else (lambda v: v.dot(fvec)))
            A = form.Assemble(fld)
            Ke = np.asarray(form.Integrate_e(field=fld))
            asm = np.asarray(grp.Get_assembly_e(dof_n))
            Ndof = grp.Ncoords * dof_n
            ref = np.zeros((Ndof, Ndof if kind == "bilinear" else 1))
            for e in range(grp.Ne):
                for i in range(asm.shape[1]):
                    if kind == "bilinear":
                        for j in range(asm.shape[1]):
                            ref[asm[e, i], asm[e, j]] += Ke[e, i, j]
                    else:
                        ref[asm[e, i], 0] += Ke[e].ravel()[i]
            err = float(np.abs(A.toarray() - ref).max())
            asym = float(np.abs(ref - ref.T).max()) if kind == "bilinear" else None
            out["cases"].append(dict(elem=et, dof_n=dof_n, max_abs_difference=err, asymmetry_of_reference=asym))
            if err > 1e-12 * max(1.0, float(np.abs(ref).max())):
                out["confirmed"] = True
        return out
    except Exception as e:
        return dict(confirmed=True, raised=f"{type(e).__name__}: {e}"[:300])


# ---------------------------------------------------------------- forms grammar

def _forms(dim, lam, mu, A, coef_fun, scheme="mass"):
    """name -> (dof_n, bilinear form, reference operator (groupElem, field) -> (Ne, m, m))"""
    from EasyFEA.FEM import Sym_Grad, Trace, Transpose
    from EasyFEA.FEM import Operators
    from EasyFEA.FEM._linalg import FeArray
    from EasyFEA.FEM._utils import MatrixType
    mt = MatrixType[scheme]
    Id = np.eye(dim)
    # Kelvin-Mandel isotropic C for the reference operator
    n = 3 if dim == 2 else 6
    C = np.zeros((n, n))
    C[:dim, :dim] = lam
    C[np.arange(dim), np.arange(dim)] = lam + 2 * mu
    C[np.arange(dim, n), np.arange(dim, n)] = 2 * mu

    def S(u):
        Eps = Sym_Grad(u)
        return 2 * mu * Eps + lam * Trace(Eps) * Id

    def coef_at(field):
        x, y, z = field.Get_coords()
        return coef_fun(np.asarray(x), np.asarray(y), np.asarray(z))
    bvec = np.array([1.0, 0.5, -0.75])[:dim]
    Wc = (np.arange(1.0, dim * dim + 1).reshape(dim, dim) * np.array([1.0, -2.0, 0.5])[:dim]) + np.triu(np.ones((dim, dim)), 1)
    out = {
        "mass": (1, lambda u, v: u.dot(v), lambda g, f: Operators.Bilinear.UV(g, 1.0, 1, mt)),
        "mass_coef": (1, lambda u, v: 2.5 * u.dot(v), lambda g, f: Operators.Bilinear.UV(g, 2.5, 1, mt)),
        "mass_product": (1, lambda u, v: u * v, lambda g, f: Operators.Bilinear.UV(g, 1.0, 1, mt)),
        "mass_product_rev": (1, lambda u, v: 0.5 * v * u * 3.0, lambda g, f: Operators.Bilinear.UV(g, 1.5, 1, mt)),
        "grad": (1, lambda u, v: u.grad.dot(v.grad), lambda g, f: Operators.Bilinear.GradUGradV(g, 1.0, mt)),
        "grad_A": (1, lambda u, v: u.grad.dot(A @ v.grad) if False else (u.grad @ A).dot(v.grad), lambda g, f: Operators.Bilinear.GradU_A_GradV(g, A, matrixType=mt) if hasattr(Operators.Bilinear, "GradU_A_GradV") else None),
        "grad_x": (1, lambda u, v: FeArray.asfearray(coef_at(u)) * u.grad.dot(v.grad), lambda g, f: Operators.Bilinear.GradUGradV(g, FeArray.asfearray(coef_at(f)), mt)),
        "elastic": (dim, lambda u, v: S(u).ddot(Sym_Grad(v)), lambda g, f: Operators.Bilinear.LinearizedElasticity(g, C, mt)),
        "elastic_T": (dim, lambda u, v: Sym_Grad(v).ddot(S(u)), lambda g, f: Operators.Bilinear.LinearizedElasticity(g, C, mt)),
        "elastic_transpose": (dim, lambda u, v: (2 * mu * 0.5 * (u.grad + Transpose(u.grad)) + lam * Trace(u.grad) * Id).ddot(0.5 * (v.grad + v.grad.T)),
                              lambda g, f: Operators.Bilinear.LinearizedElasticity(g, C, mt)),
        "vector_mass": (dim, lambda u, v: u.dot(v), lambda g, f: Operators.Bilinear.UV(g, 1.0, dim, mt)),
        "vector_mass_rho": (dim, lambda u, v: 3.0 * u.dot(v), lambda g, f: Operators.Bilinear.UV(g, 3.0, dim, mt)),
        # NON-SYMMETRIC forms: no built-in operator exists, the reference is the same quadrature written out from the group's own N, dN and wJ, with the Galerkin
        # orientation K[test, trial] = a(trial, test) that K u = F needs (row of the test function)
        "convection": (1, lambda u, v: (u.grad.dot(bvec)) * v, lambda g, f: _quad_convection(g, bvec, mt, 1)),
        "convection_diffusion": (1, lambda u, v: 0.7 * u.grad.dot(v.grad) + v * (u.grad.dot(bvec)), lambda g, f: 0.7 * np.asarray(Operators.Bilinear.GradUGradV(g, 1.0, mt)) + _quad_convection(g, bvec, mt, 1)),
        "vector_convection": (dim, lambda u, v: (u.grad @ bvec).dot(v), lambda g, f: _quad_convection(g, bvec, mt, dim)),
        # a constant non-symmetric matrix acting on the field itself (gyroscopic / Coriolis-like coupling), on either side of the Field object and of its value
        "vector_coupling": (dim, lambda u, v: (Wc @ u).dot(v), lambda g, f: _quad_coupling(g, Wc, mt)),
        "vector_coupling_value": (dim, lambda u, v: (Wc @ u()).dot(v()), lambda g, f: _quad_coupling(g, Wc, mt)),
        "vector_coupling_right": (dim, lambda u, v: (u @ Wc).dot(v), lambda g, f: _quad_coupling(g, Wc.T, mt)),
        "vector_coupling_test": (dim, lambda u, v: u.dot(Wc @ v), lambda g, f: _quad_coupling(g, Wc.T, mt)),
    }
    return out


def _quad_convection(g, b, mt, dof_n):
    """K[e, test, trial] = sum_p wJ (b . grad N_trial) N_test  (same component for vector fields), dofs interleaved (node-major)."""
    N = np.asarray(g.Get_N_pg(mt))[:, 0, :]                      # (nPg, nPe)
    dN = np.asarray(g.Get_dN_e_pg(mt))                           # (Ne, nPg, dim, nPe)
    wJ = np.asarray(g.Get_weightedJacobian_e_pg(mt))
    bd = np.einsum("d,epdn->epn", b[:dN.shape[2]], dN)           # b . grad N_trial
    Ks = np.einsum("ep,pi,epj->eij", wJ, N, bd)                  # i test, j trial
    if dof_n == 1:
        return Ks
    nPe = N.shape[1]
    K = np.zeros((Ks.shape[0], nPe * dof_n, nPe * dof_n))
    for c in range(dof_n):
        K[:, c::dof_n, c::dof_n] = Ks
    return K


def _quad_coupling(g, W, mt):
    """K[e, (i, a), (j, b)] = sum_p wJ N_i N_j W[a, b]: the form (W u) . v with test component a and trial component b, dofs interleaved (node-major)."""
    N = np.asarray(g.Get_N_pg(mt))[:, 0, :]
    wJ = np.asarray(g.Get_weightedJacobian_e_pg(mt))
    M = np.einsum("ep,pi,pj->eij", wJ, N, N)
    return np.einsum("eij,ab->eiajb", M, W).reshape(M.shape[0], N.shape[1] * W.shape[0], N.shape[1] * W.shape[0])


def _geometry(et):
    coords, connect = patches.two_element_patch(et)
    return patches.real_mesh(et, coords, connect)


def ob_form(et, name, scheme="mass"):
    """`scheme`: the integration scheme the field is built on (the default mass scheme, or the stiffness scheme `rigi` of the built-in stiffness operators): the form is
    integrated with that scheme and compared with the built-in operator at the same scheme."""
    from EasyFEA.FEM import Field, BiLinearForm
    from EasyFEA.FEM._utils import MatrixType
    mesh = _geometry(et)
    g = mesh.groupElem
    dim = g.dim
    A = np.array([[2.0, 0.3, 0.1], [-0.5, 1.5, -0.2], [0.7, 0.4, 1.1]])[:dim, :dim]          # NOT symmetric: grad u . A . grad v differs from its transpose
    forms = _forms(dim, 1.2, 0.8, A, lambda x, y, z: 1.0 + 0.5 * x + 0.25 * y * y, scheme)
    dof_n, form, ref = forms[name]
    if dof_n > g.inDim:
        raise Unsupported("dof_n larger than the embedding dimension")
    field = Field(g, dof_n, MatrixType[scheme])
    try:
        got = np.asarray(BiLinearForm(form).Integrate_e(field))
    except Exception as ex:
        raise Refuted(f"{et} form '{name}': Integrate_e raises {type(ex).__name__}: {ex}", cex=dict(elemType=et, form=name), signature=f"form:{name}:raises", replay=dict(confirmed=True))
    want = ref(g, field)
    if want is None:
        raise Unsupported("reference operator not available")
    want = np.asarray(want)
    if got.shape != want.shape:
        raise Refuted(f"{et} form '{name}': shape {got.shape}, operator gives {want.shape}", signature=f"form:{name}:shape", cex=dict(elemType=et, form=name), replay=dict(confirmed=True))
    err = float(np.abs(got - want).max() / np.abs(want).max())
    if err > 1e-12:
        idx = np.unravel_index(np.argmax(np.abs(got - want)), got.shape)
        raise Refuted(f"{et} form '{name}': element matrices differ from the built-in operator by {err:.3e} (relative) at entry {tuple(int(i) for i in idx)}: "
                      f"form {got[idx]:.6g}, operator {want[idx]:.6g}", cex=dict(elemType=et, form=name, entry=[int(i) for i in idx]),
                      signature=f"form:{name}", replay=dict(confirmed=True, rel_err=err, form_value=float(got[idx]), operator_value=float(want[idx])))
    return Verdict(DISCHARGED, backend="native float run of the real forms vs the real operators (1e-12)", detail=f"rel err {err:.1e}")


def ob_linear_form(et, name):
    from EasyFEA.FEM import Field, LinearForm
    from EasyFEA.FEM import Operators
    from EasyFEA.FEM._utils import MatrixType
    mesh = _geometry(et)
    g = mesh.groupElem
    dim = g.dim
    fvec = np.array([1.5, -0.7, 0.4])[:dim]
    if name == "scalar":
        dof_n, form = 1, (lambda v: 2.0 * v)
        want = np.asarray(Operators.Linear.V(g, 2.0, 1, MatrixType.mass))
    elif name == "vector":
        dof_n, form = dim, (lambda v: v.dot(fvec))
        base = np.asarray(Operators.Linear.V(g, 1.0, dim, MatrixType.mass))          # (Ne, nPe*dim, dim): row i carries N_node(i) in component dof(i)
        want = base @ fvec if base.ndim == 3 else base * np.tile(fvec, g.nPe)[None, :]
    else:
        raise ValueError(name)
    field = Field(g, dof_n, MatrixType.mass)
    try:
        got = np.asarray(LinearForm(form).Integrate_e(field))
    except Exception as ex:
        raise Refuted(f"{et} linear form '{name}': Integrate_e raises {type(ex).__name__}: {ex}", signature=f"lform:{name}:raises", cex=dict(elemType=et), replay=dict(confirmed=True))
    got = got.reshape(got.shape[0], -1)
    want = want.reshape(want.shape[0], -1)
    err = float(np.abs(got - want).max() / np.abs(want).max()) if got.shape == want.shape else float("inf")
    if err > 1e-12:
        raise Refuted(f"{et} linear form '{name}': element vectors differ from Linear.V by {err:.3e}", signature=f"lform:{name}", cex=dict(elemType=et), replay=dict(confirmed=True, rel_err=err))
    return Verdict(DISCHARGED, backend="native float run (1e-12)")


def ob_assemble(et):
    from EasyFEA.FEM import Field, BiLinearForm, LinearForm
    from EasyFEA.FEM._utils import MatrixType
    mesh = _geometry(et)
    g = mesh.groupElem
    n = 0
    for dof_n, bform, lform in ((1, lambda u, v: u.grad.dot(v.grad) + u.dot(v), lambda v: 2.0 * v),):
        field = Field(g, dof_n, MatrixType.mass)
        for kind, form in (("bilinear", BiLinearForm(bform)), ("linear", LinearForm(lform))):
            De = np.asarray(form.Integrate_e(field))
            try:
                A = form.Assemble(field)
            except Exception as ex:
                raise Refuted(f"{et}: {type(form).__name__}.Assemble raises {type(ex).__name__}: {ex}", signature=f"assemble:{kind}:raises", cex=dict(elemType=et),
                              replay=dict(confirmed=True))
            A = np.asarray(A.todense())
            Ndof = g.Ncoords * dof_n
            want = np.zeros((Ndof, Ndof)) if kind == "bilinear" else np.zeros((Ndof, 1))
            con = np.asarray(g.connect)
            for e in range(g.Ne):
                dofs = [int(con[e, k]) * dof_n + d for k in range(g.nPe) for d in range(dof_n)]
                for a, ra in enumerate(dofs):
                    if kind == "bilinear":
                        for b, cb in enumerate(dofs):
                            want[ra, cb] += De[e, a, b]
                    else:
                        want[ra, 0] += De[e, a].ravel()[0]
            n += 1
            if A.shape != want.shape or np.abs(A - want).max() > 1e-13 * np.abs(want).max():
                raise Refuted(f"{et}: {type(form).__name__}.Assemble differs from the scatter-add of Integrate_e", signature=f"assemble:{kind}", cex=dict(elemType=et), replay=dict(confirmed=True))
    return Verdict(DISCHARGED, backend="native float run vs dense scatter-add", sub=n)


def ob_exact(et, name):
    """exact arithmetic: the real Integrate_e on exact values == the real operator, entry by entry."""
    gid, nPe, dim, order = common.elem_infos(et)
    c = Ctx([], nspare=10)
    symrun.install(c)
    from EasyFEA.FEM import Field, BiLinearForm
    from EasyFEA.FEM import Operators
    from EasyFEA.FEM._utils import MatrixType
    coords, connect = patches.two_element_patch(et)
    g = fem.exact_group(et, coords, connect)
    if name == "grad":
        field = Field(g, 1, MatrixType.mass)
        got = np.asarray(BiLinearForm(lambda u, v: u.grad.dot(v.grad)).Integrate_e(field))
        want = np.asarray(Operators.Bilinear.GradUGradV(g, F(1), MatrixType.mass))
    elif name == "mass":
        field = Field(g, 1, MatrixType.mass)
        got = np.asarray(BiLinearForm(lambda u, v: u.dot(v)).Integrate_e(field))
        want = np.asarray(Operators.Bilinear.UV(g, F(1), 1, MatrixType.mass))
    elif name == "vector_mass":
        field = Field(g, dim, MatrixType.mass)
        got = np.asarray(BiLinearForm(lambda u, v: u.dot(v)).Integrate_e(field))
        want = np.asarray(Operators.Bilinear.UV(g, F(1), dim, MatrixType.mass))
    else:
        raise ValueError(name)
    n = 0
    for idx in np.ndindex(want.shape):
        n += 1
        d = got[idx] - want[idx]
        if not fem._is0(d):
            raise Refuted(f"{et} exact form '{name}': entry {idx} differs from the operator by {float(d):.3e}", signature=f"exact:{name}", cex=dict(elemType=et, entry=list(idx)),
                          replay=dict(confirmed=False, note="see C13.form for the float run"))
    return Verdict(DISCHARGED, backend="exact arithmetic on the real forms and operators", sub=n)


def ob_evaluate_frame():
    """Field.Evaluate_e / Evaluate_n leave the field as they found it: on every normal-exit path the evaluation-mode flag is reset to False
    after the user function ran (otherwise the next Integrate_e differentiates stored dof values instead of the active shape function)."""
    from vt import eff
    n = 0
    fn = extract.get(FD, "Field.Evaluate_e")
    for p in eff.paths(fn):
        n += 1
        idx_call = [i for i, e in enumerate(p) if e[0] == "call" and e[1] == "function"]
        sets = [(i, e) for i, e in enumerate(p) if e[0] == "store" and e[1] == "self._Field__is_currently_evaluated"]
        if not idx_call:
            continue
        after = [i for i, e in sets if i > idx_call[-1]]
        if not after:
            raise Refuted("Field.Evaluate_e has a normal-exit path that does not reset the evaluation-mode flag after evaluating the function",
                          cex=dict(path=[f"{e[0]}:{e[1]}" for e in p if e[0] != "branch"]), signature="evaluate:frame", replay=_replay_evaluate())
    # the value stored last must be False
    import ast as _ast
    vals = [(_ast.unparse(nd.value), nd.lineno) for nd in _ast.walk(fn.node) if isinstance(nd, _ast.Assign) and _ast.unparse(nd.targets[0]) == "self.__is_currently_evaluated"]
    if not vals or sorted(vals, key=lambda t: t[1])[-1][0] != "False":
        raise Refuted("Field.Evaluate_e does not end with the evaluation-mode flag lowered", signature="evaluate:frame", replay=_replay_evaluate())
    return Verdict(DISCHARGED, backend="AST path analysis", sub=n)


def _replay_evaluate():
    try:
        from EasyFEA.FEM import Field, BiLinearForm, Sym_Grad
        mesh = _geometry("QUAD4")
        g = mesh.groupElem
        fld = Field(g, 2)
        form = BiLinearForm(lambda u, v: Sym_Grad(u).ddot(Sym_Grad(v)))
        K0 = np.asarray(form.Integrate_e(fld))
        fld.Evaluate_e(lambda u: Sym_Grad(u), np.arange(g.Ncoords * 2, dtype=float), returnMeanValues=False)
        fld.Evaluate_e(lambda u: Sym_Grad(u), np.arange(g.Ncoords * 2, dtype=float), returnMeanValues=True)
        fld.Evaluate_e(lambda u: Sym_Grad(u), np.arange(g.Ncoords * 2, dtype=float), returnMeanValues=False)
        K1 = np.asarray(form.Integrate_e(fld))
        err = float(np.abs(K1 - K0).max() / np.abs(K0).max())
        return dict(confirmed=err > 1e-12, rel_change_of_K_e_after_Evaluate_e=err)
    except Exception as e:
        return dict(confirmed=True, raised=repr(e)[:300])


def _replay_evaluate_exception():
    try:
        from EasyFEA.FEM import Field, BiLinearForm, Sym_Grad
        mesh = _geometry("QUAD4")
        g = mesh.groupElem
        fld = Field(g, 2)
        form = BiLinearForm(lambda u, v: Sym_Grad(u).ddot(Sym_Grad(v)))
        K0 = np.asarray(form.Integrate_e(fld))
        U = np.arange(g.Ncoords * 2, dtype=float)

        def wrong(u):
            raise ValueError("mistake in the user's post-processing function")
        out = {}
        for nm, f in (("raises", wrong), ("returns a plain array", lambda u: np.asarray(Sym_Grad(u)))):
            try:
                fld.Evaluate_e(f, U)
            except (ValueError, AssertionError):
                pass
            K1 = np.asarray(form.Integrate_e(fld))
            out[nm] = float(np.abs(K1 - K0).max() / np.abs(K0).max())
        return dict(confirmed=max(out.values()) > 1e-12, rel_change_of_K_e=out)
    except Exception as e:
        return dict(confirmed=False, raised=repr(e)[:300])


def ob_evaluate_exception():
    """Field.Evaluate_e leaves the field as it found it on EXCEPTIONAL exits too: the user function (and the type check of its result) run inside a `try` whose `finally`
    lowers the evaluation-mode flag. Otherwise a post-processing function that raises once (caught by the user, or in an interactive session) silently changes every form
    integrated afterwards on that field. AST contract + the native sequence."""
    import ast as _ast
    fn = extract.get(FD, "Field.Evaluate_e")
    parents = {}
    for nd in _ast.walk(fn.node):
        for ch in _ast.iter_child_nodes(nd):
            parents[ch] = nd
    calls = [nd for nd in _ast.walk(fn.node) if isinstance(nd, _ast.Call) and isinstance(nd.func, _ast.Name) and nd.func.id == "function"]
    if not calls:
        raise Unsupported("Field.Evaluate_e no longer calls `function`: contract to be rewritten")

    def lowers(stmts):
        return any(isinstance(x, _ast.Assign) and _ast.unparse(x.targets[0]) == "self.__is_currently_evaluated" and _ast.unparse(x.value) == "False" for st in stmts for x in _ast.walk(st))
    for c in calls:
        nd, ok = c, False
        while nd in parents:
            par = parents[nd]
            if isinstance(par, _ast.Try) and nd in par.body and lowers(par.finalbody):
                ok = True
                break
            nd = par
        raised_before = [x for x in _ast.walk(fn.node) if isinstance(x, _ast.Assign) and _ast.unparse(x.targets[0]) == "self.__is_currently_evaluated" and _ast.unparse(x.value) == "True" and x.lineno < c.lineno]
        if raised_before and not ok:
            r = _replay_evaluate_exception()
            raise Refuted("Field.Evaluate_e raises the evaluation-mode flag and calls the user function outside any try/finally lowering it: a function that raises leaves the field in evaluation mode"
                          + (f"; natively, the element matrices of a form integrated afterwards change by {r.get('rel_change_of_K_e')}" if r.get("confirmed") else ""),
                          cex=dict(sequence=["Integrate_e", "Evaluate_e(function that raises) caught", "Integrate_e"]), signature="evaluate:exception", replay=r)
    r = _replay_evaluate_exception()
    if r.get("confirmed"):
        raise Refuted(f"Integrate_e changes after a Field.Evaluate_e whose function failed: {r}", signature="evaluate:exception", replay=r)
    if "raised" in r:
        raise Unsupported(f"native sequence failed: {r}")
    return Verdict(DISCHARGED, backend="AST structure + native run", detail=str(r))


def ob_evaluate_sequence(et):
    """run-time: Integrate_e gives the same element matrices before and after post-processing calls on the same field."""
    r = _replay_evaluate()
    if r.get("confirmed"):
        raise Refuted(f"Integrate_e changes after Field.Evaluate_e on the same field: {r}", cex=dict(sequence=["Integrate_e", "Evaluate_e(mean=False)", "Evaluate_e(mean=True)", "Evaluate_e(mean=False)", "Integrate_e"]),
                      signature="evaluate:sequence", replay=r)
    return Verdict(DISCHARGED, backend="native run", detail=str(r))


def _patch_bc(mesh, et, pre):
    """all boundary nodes of the star patch: a non-linear displacement / temperature field is prescribed there."""
    interior = set(fem.star_interior(et, pre))
    return np.array([n for n in range(len(pre)) if n not in interior])


def ob_simu(physics, et, algo):
    from EasyFEA import Models, Simulations, SolverType
    from EasyFEA.FEM import Field, BiLinearForm, Sym_Grad, Trace
    pre, connect = patches.star_patch(et, affine=None)
    mesh1 = patches.real_mesh(et, [[float(x) for x in p] for p in pre], connect)
    mesh2 = patches.real_mesh(et, [[float(x) for x in p] for p in pre], connect)
    dim = mesh1.dim
    bnd = _patch_bc(mesh1, et, pre)
    co = np.asarray(mesh1.coord)
    th = 1.3 if dim == 2 else 1.0
    if physics == "thermal":
        ref = Simulations.Thermal(mesh1, Models.Thermal(k=1.7, c=0.9, thickness=th))
        field = Field(mesh2.groupElem, 1)
        K = BiLinearForm(lambda u, v: 1.7 * u.grad.dot(v.grad))
        Cf = BiLinearForm(lambda u, v: 0.9 * u.dot(v))
        wf = Simulations.WeakForms(mesh2, Models.WeakForms(field, K, computeC=Cf, thickness=th))
        unk_ref, unk_wf = ["t"], ["u"]
        vals = [0.3 * co[bnd, 0] ** 2 - 0.2 * co[bnd, 0] * co[bnd, 1] + 0.1]
    else:
        mat = Models.Elastic.Isotropic(dim, E=3.0, v=0.25, planeStress=False, thickness=th)
        lam, mu = mat.get_lambda(), mat.get_mu()
        ref = Simulations.Elastic(mesh1, mat)
        field = Field(mesh2.groupElem, dim)
        Id = np.eye(dim)

        def S(u):
            Eps = Sym_Grad(u)
            return 2 * mu * Eps + lam * Trace(Eps) * Id
        K = BiLinearForm(lambda u, v: S(u).ddot(Sym_Grad(v)))
        M = BiLinearForm(lambda u, v: u.dot(v))
        wf = Simulations.WeakForms(mesh2, Models.WeakForms(field, K, computeM=M, thickness=th))
        unk_ref = unk_wf = ["x", "y", "z"][:dim]
        vals = [0.05 * co[bnd, 0] ** 2 + 0.02 * co[bnd, 1], -0.03 * co[bnd, 0] * co[bnd, 1], 0.01 * co[bnd, 2] ** 2 + 0.02 * co[bnd, 0]][:dim]
    for s in (ref, wf):
        s.solver = SolverType.scipy
    if algo == "parabolic":
        for s in (ref, wf):
            s.Solver_Set_Parabolic_Algorithm(dt=0.1, alpha=0.5)
    elif algo == "hyperbolic":
        for s in (ref, wf):
            s.Solver_Set_Hyperbolic_Algorithm(dt=0.05)
    for s, unk in ((ref, unk_ref), (wf, unk_wf)):
        s.add_dirichlet(bnd, list(vals), unk)
    worst = 0.0
    for step in range(2 if algo != "elliptic" else 1):
        a = np.asarray(ref.Solve())
        b = np.asarray(wf.Solve())
        worst = max(worst, float(np.abs(a - b).max() / max(np.abs(a).max(), 1e-30)))
        if algo != "elliptic":
            ref.Save_Iter()
            wf.Save_Iter()
    if algo != "elliptic":
        # a restart: both simulations go back to their first stored step and march on -- displacement, speed and acceleration stay those of the dedicated simulation
        for s in (ref, wf):
            s.Set_Iter(0)
        for step in range(2):
            a = np.asarray(ref.Solve())
            b = np.asarray(wf.Solve())
            worst = max(worst, float(np.abs(a - b).max() / max(np.abs(a).max(), 1e-30)))
    if worst > 1e-10:
        raise Refuted(f"WeakForms {physics} ({algo}) on {et}: solution differs from the dedicated simulation by {worst:.3e}", cex=dict(elemType=et, algo=algo),
                      signature=f"simu:{physics}:{algo}", replay=dict(confirmed=True, rel_err=worst))
    return Verdict(DISCHARGED, backend="native float run of both simulations (1e-10)", detail=f"rel {worst:.1e}")


def ob_field_consistent(et, dof_n=None):
    """a Field means the same tensor in its two modes: the combination sum_i U_i * expr(basis function i) equals expr evaluated on the dof values U, for the field's gradient,
    (grad u) b and the symmetric gradient (square gradients only; every expression is linear in u). dof_n: number of components (default: the dimension of the elements;
    1 = scalar field, whose gradient is a vector in both modes)."""
    from EasyFEA.FEM import Field
    from EasyFEA.FEM._utils import MatrixType
    from EasyFEA.FEM._linalg import Transpose
    mesh = _geometry(et)
    g = mesh.groupElem
    dim = g.dim
    nc = dim if dof_n is None else dof_n
    fld = Field(g, nc, MatrixType.mass)
    rng = np.random.default_rng(3)
    U = rng.normal(size=mesh.Nn * nc)
    b = np.array([1.0, 0.5, -0.75])[:dim]
    exprs = {"grad u": lambda u: u.grad, "(grad u) b": lambda u: u.grad @ b, "u": lambda u: u(), "3 u": lambda u: 3.0 * u}
    if nc == dim:
        exprs["grad u + grad u'"] = lambda u: u.grad + Transpose(u.grad)
    # independent reference for the plain gradient: d u_c / d x_j from the shape-function derivatives
    dN = np.asarray(g.Get_dN_e_pg(MatrixType.mass))
    Ue = U.reshape(-1, nc)[np.asarray(g.connect)]
    G = np.einsum("epjn,enc->epcj", dN, Ue)
    Nv = np.einsum("pn,enc->epc", np.asarray(g.Get_N_pg(MatrixType.mass))[:, 0, :], Ue)
    ref = {"grad u": G[:, :, 0, :] if nc == 1 else G, "(grad u) b": (G @ b)[:, :, 0] if nc == 1 else G @ b, "u": Nv, "3 u": 3.0 * Nv}
    n = 0
    for nm, ex in exprs.items():
        try:
            ev = np.asarray(fld.Evaluate_e(ex, U, returnMeanValues=False))
        except Exception as exn:
            raise Refuted(f"{et}, field with {nc} component(s): `{nm}` evaluated on dof values raises {type(exn).__name__}: {exn}", cex=dict(expression=nm, dof_n=nc),
                          signature=f"field:consistent:{nm}:{nc}", replay=dict(confirmed=True))
        acc = None
        for i in range(g.nPe):
            for c in range(nc):
                fld._Set_current_active_node(i)
                fld._Set_current_active_dof(c)
                gb = np.asarray(ex(fld))
                w = U.reshape(-1, nc)[np.asarray(g.connect)[:, i], c]
                term = gb * w.reshape((-1,) + (1,) * (gb.ndim - 1))
                acc = term if acc is None else acc + term
        n += 1
        if nm in ref and acc.shape[0] == 1 and ref[nm].shape[0] != 1 and acc.shape[1:] == ref[nm].shape[1:]:
            acc = np.broadcast_to(acc, ref[nm].shape)
        if nm in ref and (acc.shape != ref[nm].shape or np.abs(acc - ref[nm]).max() > 1e-12 * np.abs(ref[nm]).max()):
            raise Refuted(f"{et}, field with {nc} component(s): `{nm}` written on the basis functions is not d u_c / d x_j (shape {acc.shape} against {ref[nm].shape})", cex=dict(expression=nm, dof_n=nc),
                          signature=f"field:basis:{nm}:{nc}", replay=dict(confirmed=True))
        if ev.shape != acc.shape:
            raise Refuted(f"{et}, field with {nc} component(s): `{nm}` has shape {acc.shape} on the basis functions and {ev.shape} once evaluated on the dof values "
                          f"(evaluated values {np.round(ev[0, 0].ravel(), 4).tolist()} against {np.round(acc[0, 0].ravel(), 4).tolist()}): a form and its post-processing do not mean the same tensor",
                          cex=dict(expression=nm, dof_n=nc), signature=f"field:consistent:{nm}:{nc}", replay=dict(confirmed=True))
        e = float(np.abs(ev - acc).max() / (np.abs(ev).max() + 1e-30))
        if e > 1e-12:
            tr = ev.ndim == 4 and ev.shape[-1] == ev.shape[-2] and np.abs(ev - acc.transpose(0, 1, 3, 2)).max() < 1e-12 * np.abs(ev).max()
            raise Refuted(f"{et}: `{nm}` written on the basis functions and combined with the dof values differs from the same expression evaluated on the dof values by {e:.3e}"
                          + (" (it is its transpose)" if tr else "") + ": a form and its post-processing do not mean the same tensor", cex=dict(expression=nm, dof_n=nc),
                          signature=f"field:consistent:{nm}" + ("" if dof_n is None else f":{nc}"), replay=dict(confirmed=True, rel_err=e))
    return Verdict(DISCHARGED, backend="native run", sub=n)


def ob_simu_embedded(et, placing):
    """heat conduction written as weak forms on a mesh that is not in its canonical position (a segment mesh inclined in the plane / in space, a plate tilted out of the
    plane) with a thickness != 1: the assembled K and C equal those of the dedicated simulation (which applies the thickness when the ELEMENTS are two-dimensional)."""
    from EasyFEA import Models, Simulations
    from EasyFEA.FEM import Field, BiLinearForm
    th = 0.6

    def placed():
        mesh = patches.two_element_mesh(et)
        co = np.asarray(mesh.coord).copy()
        a, b_ = 0.6, 0.9
        Rz = np.array([[np.cos(a), -np.sin(a), 0], [np.sin(a), np.cos(a), 0], [0, 0, 1]])
        Rx = np.array([[1, 0, 0], [0, np.cos(b_), -np.sin(b_)], [0, np.sin(b_), np.cos(b_)]])
        R = {"inplane": Rz, "space": Rz @ Rx, "canonical": np.eye(3)}[placing]
        mesh.coord = co @ R.T + np.array([0.3, -0.2, 0.1 if placing == "space" else 0.0])
        return mesh
    m1, m2 = placed(), placed()
    ref = Simulations.Thermal(m1, Models.Thermal(k=1.7, c=0.9, thickness=th))
    ref.rho = 1.0
    wf = Simulations.WeakForms(m2, Models.WeakForms(Field(m2.groupElem, 1), BiLinearForm(lambda u, v: 1.7 * u.grad.dot(v.grad)), computeC=BiLinearForm(lambda u, v: 0.9 * u.dot(v)), thickness=th))
    for s_ in (ref, wf):
        s_.Solver_Set_Parabolic_Algorithm(dt=0.1)
    Kr, Cr = (np.asarray(M_.toarray()) for M_ in ref.Get_K_C_M_F()[:2])
    Kw, Cw = (np.asarray(M_.toarray()) for M_ in wf.Get_K_C_M_F()[:2])
    eK, eC = float(np.abs(Kr - Kw).max() / np.abs(Kr).max()), float(np.abs(Cr - Cw).max() / np.abs(Cr).max())
    if eK > 1e-12 or eC > 1e-12:
        raise Refuted(f"weak-form heat conduction on a {et} mesh placed '{placing}' (element dimension {m1.dim}, space dimension {m1.inDim}), thickness {th}: K differs from the dedicated simulation's by "
                      f"{eK:.3e}, C by {eC:.3e} (relative)", cex=dict(elemType=et, placing=placing, thickness=th), signature=f"simu:embedded:{m1.dim}:{placing}", replay=dict(confirmed=True, err_K=eK, err_C=eC))
    return Verdict(DISCHARGED, backend="native run", detail=f"K {eK:.1e}, C {eC:.1e}")


def ob_simu_convection(et):
    """weak-form simulation of a NON-SYMMETRIC problem with a solution inside the finite-element space: -0.7 lap u + b.grad u = f with u linear.  Galerkin reproduces it exactly
    (the exact solution satisfies every discrete equation), whatever the mesh -- if and only if the matrix rows belong to the test functions."""
    from EasyFEA import Mesher, ElemType, Models, Simulations
    from EasyFEA.FEM import Field, BiLinearForm, LinearForm
    from EasyFEA.Geoms import Domain, Point
    import contextlib, io
    dim = common.elem_infos(et)[2]
    with contextlib.redirect_stdout(io.StringIO()):
        if dim == 2:
            mesh = Mesher().Mesh_2D(Domain(Point(), Point(2, 1), 0.4), [], ElemType[et])
        else:
            mesh = Mesher().Mesh_Extrude(Domain(Point(), Point(2, 1), 0.5), [], [0, 0, 1], [2], ElemType[et])
    b = np.array([1.0, 0.5, -0.75])[:dim]
    g = np.array([2.0, -1.0, 0.5])[:dim]
    co = np.asarray(mesh.coord)
    ex = 1.0 + co[:, :dim] @ g
    f = float(b @ g)
    K = BiLinearForm(lambda u, v: 0.7 * u.grad.dot(v.grad) + (u.grad.dot(b)) * v)
    Fl = LinearForm(lambda v: f * v)
    groups = [x for x in mesh.Get_list_groupElem(dim)]
    if len(groups) != 1:
        raise Unsupported("mixed mesh")
    sim = Simulations.WeakForms(mesh, Models.WeakForms(Field(mesh.groupElem, 1), K, computeF=Fl))
    lo, hi = co[:, :dim].min(0), co[:, :dim].max(0)
    onb = np.where((np.isclose(co[:, :dim], lo) | np.isclose(co[:, :dim], hi)).any(1))[0]
    sim.add_dirichlet(onb, [ex[onb]], ["u"])
    with contextlib.redirect_stdout(io.StringIO()):
        u = np.asarray(sim.Solve()).ravel()
    err = float(np.abs(u - ex).max() / np.abs(ex).max())
    if err > 1e-10:
        raise Refuted(f"{et}: weak-form convection-diffusion with the exact solution u = 1 + g.x in the element space is not reproduced (relative error {err:.3e}): the rows of the assembled "
                      f"matrix do not belong to the test functions", cex=dict(elemType=et), signature="simu:convection", replay=dict(confirmed=True, rel_err=err))
    return Verdict(DISCHARGED, backend="native weak-form simulation vs manufactured solution", detail=f"err {err:.1e}")


def build(tier, seed):
    obs = []
    for kind in ("bilinear", "linear"):
        cls = "BiLinearForm" if kind == "bilinear" else "LinearForm"
        obs.append(Ob(f"C13.assemble.index.{kind}", ob_assemble_index, (kind,), "P", (f"{FP}::{cls}.Assemble",),
                      clause="values paired with rows_e/columns_e (bilinear) or assembly_e and column 0 (linear); shape (Ndof,Ndof) / (Ndof,1)"))
    types = ["TRI3", "QUAD4", "TRI6", "TETRA4"] if tier == "quick" else ["SEG3", "TRI3", "TRI6", "TRI10", "QUAD4", "QUAD8", "QUAD9", "TETRA4", "TETRA10", "HEXA8", "PRISM6"]
    names = ["mass", "mass_coef", "mass_product", "mass_product_rev", "convection", "convection_diffusion", "vector_convection", "vector_coupling", "vector_coupling_value", "vector_coupling_right", "vector_coupling_test", "grad", "grad_A", "grad_x", "elastic", "elastic_T", "elastic_transpose", "vector_mass", "vector_mass_rho"]
    for et in types:
        dim = common.elem_infos(et)[2]
        for nm in names:
            if dim == 1 and nm.startswith(("elastic", "vector", "grad_A")):
                continue
            obs.append(Ob(f"C13.form.{et}.{nm}", ob_form, (et, nm), "X", (f"{FP}::BiLinearForm.Integrate_e", f"{FD}::Field.__call__", f"{FD}::Field.grad"),
                          bound="2-element patch, one coefficient set, floats", clause="Integrate_e == built-in operator with the same quadrature (1e-12)", timeout=300))
        if et in ("TRI3", "TRI6", "QUAD4", "QUAD8", "TETRA4", "TETRA10", "HEXA8", "SEG3"):
            for nm in ("mass", "grad", "grad_x", "elastic", "vector_mass", "convection_diffusion"):
                if nm not in names or (dim == 1 and nm.startswith(("elastic", "vector"))):
                    continue
                obs.append(Ob(f"C13.form.{et}.{nm}.rigi", ob_form, (et, nm, "rigi"), "X", (f"{FP}::BiLinearForm.Integrate_e", f"{FD}::Field.copy", f"{FD}::Field.grad"),
                              bound="2-element patch, field built on the stiffness integration scheme, floats", clause="Integrate_e on a field of the stiffness scheme == built-in operator at that scheme (1e-12)", timeout=300))
        for nm in ("scalar", "vector"):
            if dim == 1 and nm == "vector":
                continue
            obs.append(Ob(f"C13.lform.{et}.{nm}", ob_linear_form, (et, nm), "X", (f"{FP}::LinearForm.Integrate_e", f"{FD}::Field.__call__"),
                          bound="2-element patch, floats", clause="LinearForm.Integrate_e == Linear.V (per dof component for vector fields)", timeout=300))
        obs.append(Ob(f"C13.assemble.{et}", ob_assemble, (et,), "X", (f"{FP}::BiLinearForm.Assemble", f"{FP}::LinearForm.Assemble"), bound="2-element patch, floats",
                      clause="Assemble == scatter-add of Integrate_e", timeout=300))
    for et in (["TRI3", "QUAD4"] if tier == "quick" else ["TRI3", "TRI6", "QUAD4", "TETRA4"]):
        for nm in ("grad", "mass", "vector_mass"):
            obs.append(Ob(f"C13.exact.{et}.{nm}", ob_exact, (et, nm), "B", (f"{FP}::BiLinearForm.Integrate_e", f"{FD}::Field.__call__", f"{FD}::Field.grad"),
                          bound="2-element patch, exact rational geometry", clause="entrywise equality in exact arithmetic", timeout=600))
    for physics, et, algo in (("thermal", "TRI3", "elliptic"), ("thermal", "QUAD4", "parabolic"), ("elastic", "TRI3", "elliptic"), ("elastic", "QUAD4", "hyperbolic"),
                              ("elastic", "TETRA4", "elliptic")):
        obs.append(Ob(f"C13.simu.{physics}.{et}.{algo}", ob_simu, (physics, et, algo), "X", ("EasyFEA/Simulations/_weakforms.py::WeakForms.Construct_local_matrix_system",),
                      bound="star patch, 1-2 steps, floats", clause="WeakForms simulation == dedicated simulation (1e-10)", timeout=300))
    for et, placing in (("SEG2", "inplane"), ("SEG3", "space"), ("SEG2", "canonical"), ("TRI3", "space"), ("QUAD4", "space"), ("TRI6", "inplane")):
        obs.append(Ob(f"C13.simu.embedded.{et}.{placing}", ob_simu_embedded, (et, placing), "X", ("EasyFEA/Simulations/_weakforms.py::WeakForms.Construct_local_matrix_system",),
                      bound="2-element patch rotated in the plane / in space, one thickness", clause="weak-form K and C == the dedicated heat-conduction simulation's, wherever the mesh lies", timeout=120))
    for et in (("TRI3", "QUAD8", "TETRA4") if tier == "quick" else ("TRI3", "TRI6", "QUAD4", "QUAD8", "TETRA4", "HEXA8", "PRISM6")):
        obs.append(Ob(f"C13.simu.convection.{et}", ob_simu_convection, (et,), "X", (f"{FP}::BiLinearForm.Integrate_e", "EasyFEA/Simulations/_weakforms.py::WeakForms.Construct_local_matrix_system"),
                      bound="one gmsh mesh", clause="non-symmetric weak form: a solution inside the element space is reproduced (rows belong to test functions)", timeout=600))
    for et in ("TRI3", "QUAD4", "TETRA4"):
        obs.append(Ob(f"C13.field.consistent.{et}", ob_field_consistent, (et,), "X", (f"{FD}::Field.grad", f"{FD}::Field.__call__", f"{FD}::Field.Evaluate_e"), bound="2-element patch, one random state",
                      clause="sum_i U_i expr(basis_i) == expr(evaluated field) for grad u, (grad u) b, grad u + grad u'", timeout=300))
    for et, nc in (("TRI3", 1), ("QUAD4", 1), ("TETRA4", 1), ("SEG2", 1), ("TETRA4", 2), ("HEXA8", 2)):
        obs.append(Ob(f"C13.field.consistent.{et}.{nc}c", ob_field_consistent, (et, nc), "X", (f"{FD}::Field.grad", f"{FD}::Field.Evaluate_e"), bound="2-element patch, one random state",
                      clause="scalar fields and fields whose number of components differs from the dimension: grad u means d u_c / d x_j in both modes", timeout=300))
    obs.append(Ob("C13.evaluate.frame", ob_evaluate_frame, (), "E", (f"{FD}::Field.Evaluate_e",), clause="Evaluate_e restores the field's mode on every normal exit"))
    obs.append(Ob("C13.evaluate.exception", ob_evaluate_exception, (), "E", (f"{FD}::Field.Evaluate_e",), clause="Evaluate_e restores the field's mode on exceptional exits of the user function too"))
    obs.append(Ob("C13.evaluate.sequence", ob_evaluate_sequence, ("QUAD4",), "X", (f"{FD}::Field.Evaluate_e", f"{FP}::BiLinearForm.Integrate_e"), bound="one 5-call sequence on one field",
                  clause="post-processing a field does not change what forms integrate afterwards", timeout=120))
    for kind in ("bilinear", "linear"):
        obs.append(Ob(f"C13.assemble.scatter.{kind}", ob_assemble_scatter, (kind,), "X", (f"{FP}::{'BiLinearForm' if kind == 'bilinear' else 'LinearForm'}.Assemble",),
                      bound="TRI3 scalar convection form and QUAD4 vector shear form on two-element patches", clause="Assemble(field) == sum_e scatter(Integrate_e) with K_e[e,i,j] at (a[e,i], a[e,j])"))
    for kind in ("bilinear", "linear"):
        obs.append(Ob(f"C13.form.complex.{kind}", ob_form_complex, (kind,), "X", (f"{FP}::{'BiLinearForm' if kind == 'bilinear' else 'LinearForm'}.Integrate_e",), bound="two-element TRI3 patch, one complex coefficient",
                      clause="a complex-valued form keeps its imaginary part through Integrate_e and Assemble"))
    for et in ("TRI3", "QUAD4", "TRI6", "TETRA4"):
        obs.append(Ob(f"C13.form.motion.{et}", ob_form_after_motion, (et,), "X", (f"{FP}::BiLinearForm.Integrate_e", "EasyFEA/FEM/_field.py::Field.copy"), bound="two-element patch, one rotation, one stretch",
                      clause="the same form and field integrated again after the mesh moved == the built-in operator on the new geometry"))
    obs.append(Ob("canary.assemble.index", ob_assemble_index, ("bilinear", True), "P", expect=REFUTED))
    functions = {q: extract.get(FP, q).describe() for q in ("BiLinearForm.Integrate_e", "BiLinearForm.Assemble", "LinearForm.Integrate_e", "LinearForm.Assemble")}
    functions["Field.__call__"] = extract.get(FD, "Field.__call__").describe()
    functions["Field.grad"] = extract.get(FD, "Field.grad", "getter").describe()
    obs += ops.form_obligations('C13', tier)
    obs.append(ops.selfcheck_ob('C13'))
    return dict(
        obs=obs, level="other", min_obligations=30,
        explanation=("Assemble index pairing is decided from the extracted source against C03's index contracts. Element integration is the real form machinery: in exact "
                     "arithmetic for three basic forms, and as run-time contracts for a grammar of ten bilinear and two linear forms per element type against the real built-in "
                     "operators with the same quadrature; weak-form simulations against the dedicated thermal / elastic simulations (static, parabolic, hyperbolic)."),
        trusted_base=ops.GP_TRUST + ["C03 index contracts", "built-in operators as oracle (their own contracts are C01/C02)", "vt/symrun.py"],
        assumptions=["grammar bounded to the listed forms; 2-element patches; floats with 1e-12"],
        functions=functions,
        dropped=["imported code unmodified for B/X tiers"],
    )
