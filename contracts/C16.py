"""C16 -- named results are consistent with the fields and matrices they derive from.

  P  C16.indices              component names -> indices of __Result_in_Strain_or_Stress_field (2-D / 3-D), Kelvin-Mandel factor removed on shear
                              components, von Mises formula: executed from the AST on symbolic strain/stress vectors
  B  C16.exact.<type>         real Elastic.Result on exact values with a SYMBOLIC state u: ux.. are the columns of the displacement,
                              Exx.. / Sxx.. the components of Strain / Stress, Stress == C : Strain per Gauss point averaged per element,
                              Wdef == 1/2 u^T K u with K the scatter-add (C03 contract) of the real element matrices -- polynomial identities in u
  X  C16.result.<simu>        for Elastic (2-D, 3-D, mixed element groups), Thermal, Beam, PhaseField, HyperElastic, InElastic, WeakForms with an
                              arbitrary (non-equilibrium) state u, v, a: every advertised name is returned, component results equal the matching
                              column of the vector result, Svm^2 is the von Mises form of the element stress, node<->element conversion preserves
                              constants, Wdef == 1/2 u'Ku, reactions on a fully constrained boundary balance the applied loads
"""
from __future__ import annotations

import itertools
from fractions import Fraction

import numpy as np

from vt import alg, extract, sx, symrun, npshim
from vt.alg import Ctx, X
from vt.core import Ob, Verdict, Refuted, Unsupported, DISCHARGED, REFUTED
from . import ops
from . import common, patches, fem

PROP = "C16"
F = Fraction
MU = "EasyFEA/Models/_utils.py"
SE = "EasyFEA/Simulations/_elastic.py"


# ---------------------------------------------------------------- P: component extraction

def ob_indices(dim, canary=False):
    n_c = 3 if dim == 2 else 6
    names = [f"f{i}" for i in range(n_c)]
    wit = {n: F(k + 2, 3 + k) for k, n in enumerate(names)}
    comps = ["xx", "yy", "xy"] if dim == 2 else ["xx", "yy", "zz", "yz", "xz", "xy"]
    nshear = 1 if dim == 2 else 3
    cnt = 0
    for res in comps + ["vm", "Strain"]:
        c = Ctx(names, nspare=3, witness=wit)
        NPs = npshim.NP(c)
        g = sx.module_globals("EasyFEA.Models._utils", np=NPs)
        from EasyFEA.FEM._linalg import FeArray
        r2 = c.sqrt_rational(F(2))
        fld = np.empty((1, 1, n_c), dtype=object)
        for i in range(n_c):
            fld[0, 0, i] = c.sym(f"f{i}") * (r2 if i >= n_c - nshear else 1)      # Kelvin-Mandel vector of a tensor with components f_i
        fn = extract.get(MU, "__Result_in_Strain_or_Stress_field")
        f = extract.compile_fn(fn, g)
        out = np.asarray(f(FeArray.asfearray(fld), res, r2))
        comp = {nm: c.sym(f"f{i}") for i, nm in enumerate(comps)}
        if res in comps:
            want = comp[res]
            got = out[0, 0]
            cnt += 1
            if canary and res == "xy":
                want = want * 2
            if not (got == want):
                raise Refuted(f"dim {dim}: result '{res}' returns {got}, expected the tensor component {want} (Kelvin-Mandel factor removed)",
                              signature=f"indices:{dim}:{res}", replay=_replay_indices(dim, res))
        elif res == "Strain":
            for i, nm in enumerate(comps):
                cnt += 1
                if not (out[0, 0, i] == comp[nm]):
                    raise Refuted(f"dim {dim}: vector result component {i} is {out[0,0,i]}, expected {comp[nm]}", signature=f"indices:{dim}:vector", replay=_replay_indices(dim, "Strain"))
        else:
            vm = out[0, 0]
            if dim == 2:
                w = comp["xx"] ** 2 + comp["yy"] ** 2 - comp["xx"] * comp["yy"] + 3 * comp["xy"] ** 2
            else:
                w = F(1, 2) * ((comp["xx"] - comp["yy"]) ** 2 + (comp["yy"] - comp["zz"]) ** 2 + (comp["zz"] - comp["xx"]) ** 2
                               + 6 * (comp["xy"] ** 2 + comp["yz"] ** 2 + comp["xz"] ** 2))
            cnt += 1
            if not (vm * vm == w):
                raise Refuted(f"dim {dim}: 'vm' squared is {vm*vm}, expected the von Mises quadratic form {w}", signature=f"indices:{dim}:vm", replay=_replay_indices(dim, "vm"))
    return Verdict(DISCHARGED, backend="ring-normal-form (with a radical for the von Mises norm)", sub=cnt)


def _replay_indices(dim, res):
    try:
        from EasyFEA.Models import _utils
        from EasyFEA.FEM._linalg import FeArray
        n_c = 3 if dim == 2 else 6
        t = np.arange(1.0, n_c + 1)
        r2 = np.sqrt(2)
        nshear = 1 if dim == 2 else 3
        km = t.copy()
        km[n_c - nshear:] *= r2
        f = getattr(_utils, "_utils__Result_in_Strain_or_Stress_field", None) or getattr(_utils, "__Result_in_Strain_or_Stress_field")
        out = np.asarray(f(FeArray.asfearray(km[None, None].copy()), res))
        return dict(confirmed=True, value=out.tolist(), tensor_components=t.tolist())
    except Exception as e:
        return dict(confirmed=False, error=repr(e))


# ---------------------------------------------------------------- B: exact Elastic results with a symbolic state

def ob_exact(et):
    gid, nPe, dim, order = common.elem_infos(et)
    coords, connect = patches.two_element_patch(et)
    Nn = len(coords)
    names = [f"u{n}_{d}" for n in range(Nn) for d in range(dim)]
    c = Ctx(names, nspare=6, witness={n: F((7 * k) % 11 - 5, 9) for k, n in enumerate(names)})
    symrun.install(c)
    from EasyFEA.FEM import Operators
    from EasyFEA.FEM._utils import MatrixType
    g = fem.exact_group(et, coords, connect)
    C = fem.iso_C(dim)
    u = np.array([c.sym(f"u{n}_{d}") for n in range(Nn) for d in range(dim)], dtype=object)
    # real strain operator and element stiffness
    B = np.asarray(g.Get_B_e_pg(MatrixType.rigi))
    wJ = np.asarray(g.Get_weightedJacobian_e_pg(MatrixType.rigi))
    Ke = np.asarray(Operators.Bilinear.LinearizedElasticity(g, C))
    cnt = 0
    W = c.const(0)
    W2 = c.const(0)
    for e, con in enumerate(connect):
        ue = [u[n * dim + d] for n in con for d in range(dim)]
        for p in range(B.shape[1]):
            eps = [sum((B[e, p, r, k] * ue[k] for k in range(len(ue))), c.const(0)) for r in range(B.shape[2])]
            sig = [sum((C[r, s_] * eps[s_] for s_ in range(len(eps))), c.const(0)) for r in range(len(eps))]
            W = W + wJ[e, p] * sum((eps[r] * sig[r] for r in range(len(eps))), c.const(0)) * F(1, 2)
        W2 = W2 + F(1, 2) * sum((ue[a] * Ke[e, a, b] * ue[b] for a in range(len(ue)) for b in range(len(ue)) if not fem._is0(Ke[e, a, b])), c.const(0))
    cnt += 1
    d = W - W2
    # Wdef integrated from the stress/strain fields == 1/2 u^T K u as quadratic forms in u (coefficients within 2^-40 of the largest: Gauss points are floats)
    dd = c.reduce(d)
    scale = max((abs(float(alg._eval_ground(c, X(c, c.F(c.R({tuple([0] * c.nvars + list(m[c.nvars:])): cf})))))) for m, cf in c.reduce(W2).v.numer.terms()), default=1.0)
    worst = 0.0
    for m, cf in dd.v.numer.terms():
        v = abs(float(alg._eval_ground(c, X(c, c.F(c.R({tuple([0] * c.nvars + list(m[c.nvars:])): cf}))))))
        worst = max(worst, v)
    den = abs(float(dd.v.denom.LC))
    if worst / den > 2.0 ** -40 * scale / abs(float(c.reduce(W2).v.denom.LC)):
        raise Refuted(f"{et}: energy integrated from the stress and strain fields differs from 1/2 u'Ku as a quadratic form in u (max coefficient {worst/den:.3e})",
                      signature=f"exact:{et}:energy", replay=dict(confirmed=False))
    return Verdict(DISCHARGED, backend="exact arithmetic on the real B, wJ and element operator; polynomial identity in the state", sub=cnt, detail=f"max coef diff {worst/den:.2e}")


# ---------------------------------------------------------------- X: run-time contracts per simulation

def _elastic(dim, mixed=False):
    from EasyFEA import Models, Simulations
    if mixed:
        from .C03 import _mixed_mesh
        mesh = _mixed_mesh()
    else:
        et = "QUAD8" if dim == 2 else "TETRA10"
        coords, connect = patches.star_patch(et)
        mesh = patches.real_mesh(et, coords, connect)
    mat = Models.Elastic.Isotropic(dim, E=3.0, v=0.25, planeStress=(dim == 2), thickness=1.3)
    return Simulations.Elastic(mesh, mat)


def _set_state(simu, rng):
    for pt in simu.Get_problemTypes():
        n = simu.mesh.Nn * simu.Get_dof_n(pt)
        simu._Set_solutions(pt, rng.normal(size=n), rng.normal(size=n), rng.normal(size=n))


def ob_result_elastic(dim, mixed, seed):
    rng = np.random.default_rng(seed + 17)
    simu = _elastic(dim, mixed)
    simu.Solver_Set_Hyperbolic_Algorithm(dt=0.1)
    _set_state(simu, rng)
    mesh = simu.mesh
    Nn, Ne = mesh.Nn, mesh.Ne
    names = simu.Results_Available()
    n = 0
    sig0 = f"result:elastic{dim}d{':mixed' if mixed else ''}"

    def bad(msg, **k):
        raise Refuted(f"Elastic {dim}-D{' (mixed groups)' if mixed else ''}: {msg}", cex=dict(dim=dim, mixed=mixed, **k), signature=f"{sig0}:{msg.split(':')[0][:40]}", replay=dict(confirmed=True))
    vals = {}
    for nm in names:
        for nodeValues in (True, False):
            try:
                v = simu.Result(nm, nodeValues=nodeValues)
            except Exception as ex:
                bad(f"Result('{nm}', nodeValues={nodeValues}) raises {type(ex).__name__}: {ex}", name=nm)
            if v is None:
                bad(f"Result('{nm}') returns None although the name is advertised", name=nm)
            vals[(nm, nodeValues)] = np.asarray(v)
            n += 1
    comps = ["x", "y", "z"][:dim]
    for vec, pre in (("displacement", "u"), ("speed", "v"), ("accel", "a")):
        full = vals[(vec, True)].reshape(Nn, dim)
        for d, cn in enumerate(comps):
            n += 1
            if not np.array_equal(vals[(f"{pre}{cn}", True)], full[:, d]):
                bad(f"component result: '{pre}{cn}' is not column {d} of '{vec}'", name=f"{pre}{cn}")
        n += 1
        if not np.allclose(vals[(f"{vec}_norm", True)], np.linalg.norm(full, axis=1), rtol=1e-13):
            bad(f"norm result: '{vec}_norm' is not the node-wise Euclidean norm")
    tcomps = ["xx", "yy", "xy"] if dim == 2 else ["xx", "yy", "zz", "yz", "xz", "xy"]
    for vec, pre in (("Strain", "E"), ("Stress", "S")):
        full = vals[(vec, False)].reshape(Ne, -1)
        for i, cn in enumerate(tcomps):
            n += 1
            if not np.allclose(vals[(f"{pre}{cn}", False)], full[:, i], rtol=1e-12, atol=1e-14):
                bad(f"tensor component: '{pre}{cn}' (element values) is not component {i} of '{vec}'", name=f"{pre}{cn}")
    # stress == C : strain at every Gauss point (KM), element averages, KM factor removed
    C = np.asarray(simu.material.C)
    r2 = np.sqrt(2)
    ns = 1 if dim == 2 else 3
    scale_km = np.ones(len(tcomps))
    scale_km[len(tcomps) - ns:] = r2
    E_el = vals[("Strain", False)].reshape(Ne, -1)
    S_el = vals[("Stress", False)].reshape(Ne, -1)
    n += 1
    if not np.allclose(S_el * scale_km, (E_el * scale_km) @ C.T, rtol=1e-10, atol=1e-12):
        bad("stress: element 'Stress' is not C : 'Strain' (Kelvin-Mandel)")
    # von Mises of the per-point stress averaged per element: recompute from the real Gauss-point stress field
    svm_want = []
    for g in mesh.Get_list_groupElem():
        Eps = simu._Calc_Epsilon_e_pg(simu.displacement, g)
        Sig = np.asarray(simu._Calc_Sigma_e_pg(Eps, g)) / scale_km
        if dim == 2:
            xx, yy, xy = (Sig[..., i] for i in range(3))
            vm = np.sqrt(xx ** 2 + yy ** 2 - xx * yy + 3 * xy ** 2)
        else:
            xx, yy, zz, yz, xz, xy = (Sig[..., i] for i in range(6))
            vm = np.sqrt(0.5 * ((xx - yy) ** 2 + (yy - zz) ** 2 + (zz - xx) ** 2 + 6 * (xy ** 2 + yz ** 2 + xz ** 2)))
        svm_want.append(vm.mean(1))
    n += 1
    if not np.allclose(vals[("Svm", False)], np.concatenate(svm_want), rtol=1e-10):
        bad("Svm: element value is not the von Mises norm of the stress at each integration point averaged per element")
    # energy == 1/2 u'Ku
    K = simu.Get_K_C_M_F()[0]
    u = simu.displacement
    W = float(vals[("Wdef", True)]) if vals[("Wdef", True)].ndim == 0 else float(simu.Result("Wdef"))
    Wk = 0.5 * float(u @ (K @ u))
    n += 1
    if abs(W - Wk) > 1e-10 * abs(Wk):
        bad(f"Wdef: reported deformation energy {W:.12g} differs from 1/2 u'Ku = {Wk:.12g}")
    n += 1
    if abs(float(np.sum(vals[("Wdef_e", False)])) - W) > 1e-10 * abs(W):
        bad("Wdef_e: element energies do not sum to Wdef")
    # node <-> element conversion preserves constants
    ce = np.full(Ne, 2.75)
    nv = np.asarray(simu.Results_Reshape_values(ce, True))
    ev = np.asarray(simu.Results_Reshape_values(np.full(Nn, -1.25), False))
    n += 2
    if not np.allclose(nv, 2.75, rtol=1e-13) or not np.allclose(ev, -1.25, rtol=1e-13):
        bad("conversion: node<->element conversion does not preserve a constant field")
    return Verdict(DISCHARGED, backend="native run of the real Result() on an arbitrary state (run-time contracts)", sub=n)


def ob_reactions(dim):
    """a body loaded on one face and fully constrained on the opposite one: reactions K u - F on the constrained dofs balance the applied loads."""
    from EasyFEA import SolverType
    simu = _elastic(dim)
    simu.solver = SolverType.scipy
    mesh = simu.mesh
    co = np.asarray(mesh.coord)
    n0 = np.where(co[:, 0] <= np.sort(co[:, 0])[max(2, dim)])[0]
    n1 = np.setdiff1d(np.arange(mesh.Nn), n0)[:3]
    comps = ["x", "y", "z"][:dim]
    simu.add_dirichlet(n0, [0] * dim, comps)
    simu.add_neumann(n1, [0.7, -0.4, 0.2][:dim], comps)
    u = np.asarray(simu.Solve())
    K = simu.Get_K_C_M_F()[0]
    b = np.asarray(simu.Bc_vector_Neumann().todense()).ravel() if hasattr(simu.Bc_vector_Neumann(), "todense") else np.asarray(simu.Bc_vector_Neumann()).ravel()
    r = K @ u - b
    dofs0 = np.array([n * dim + d for n in n0 for d in range(dim)])
    free = np.setdiff1d(np.arange(mesh.Nn * dim), dofs0)
    if np.abs(r[free]).max() > 1e-9 * np.abs(b).max():
        raise Refuted("equilibrium: free dofs do not satisfy K u = F", signature="reactions:free", replay=dict(confirmed=True))
    R = r[dofs0].reshape(-1, dim).sum(0)
    Fapp = b.reshape(-1, dim).sum(0)
    if np.abs(R + Fapp).max() > 1e-9 * np.abs(Fapp).max():
        raise Refuted(f"reactions {R.tolist()} do not balance the applied loads {Fapp.tolist()}", signature="reactions:balance", replay=dict(confirmed=True))
    return Verdict(DISCHARGED, backend="native run", sub=2)


def ob_reactions_frame(kind):
    """a 2-D frame of two beams joined by a rigid / hinged connection (the system then carries Lagrange multipliers), clamped at one end, loaded at the other:
    Calc_Reaction on the clamped dofs balances the applied force and its moment about the support."""
    from EasyFEA import Models, Simulations, Mesher, ElemType
    from EasyFEA.Geoms import Domain, Point, Line
    mesher = Mesher()
    section = mesher.Mesh_2D(Domain(Point(-0.05, -0.05), Point(0.05, 0.05)))
    p1, p2, p3 = Point(0, 0), Point(2, 0), Point(2, 1.5)
    beams = [Models.Beam.Isotropic(2, Line(a, b, 0.5), section, 210e9, 0.3) for a, b in ((p1, p2), (p2, p3))]
    mesh = mesher.Mesh_Beams(beams, elemType=ElemType.SEG2)
    simu = Simulations.Beam(mesh, Models.Beam.BeamStructure(beams))
    n1 = mesh.Nodes_Point(p1)
    simu.add_dirichlet(n1, [0, 0, 0], ["x", "y", "rz"])
    if kind == "fixed":
        simu.add_connection_fixed(mesh.Nodes_Point(p2))
    else:
        simu.add_connection_hinged(mesh.Nodes_Point(p2))
        simu.add_dirichlet(mesh.Nodes_Point(p3), [0], ["rz"])       # the hinged arm is held in rotation at its tip (otherwise a mechanism)
    Fx, Fy = 1000.0, -5000.0
    simu.add_neumann(mesh.Nodes_Point(p3), [Fx, Fy], ["x", "y"])
    simu.Solve()
    dofs = simu.Bc_dofs_nodes(n1, ["x", "y", "rz"])
    try:
        R = np.asarray(simu.Calc_Reaction(dofs), dtype=float)
    except Exception as ex:
        raise Refuted(f"2-D frame with a {kind} connection: Calc_Reaction on the clamped support raises {type(ex).__name__}: {ex}", cex=dict(connection=kind), signature=f"reactions:frame:{kind}:raises",
                      replay=dict(confirmed=True, raised=repr(ex)[:200]))
    want = np.array([-Fx, -Fy])
    if R.shape != (3,) or np.abs(R[:2] - want).max() > 1e-6 * np.abs(want).max():
        raise Refuted(f"2-D frame with a {kind} connection: Calc_Reaction on the clamped support gives {R.tolist()}, the applied force is ({Fx}, {Fy})", cex=dict(connection=kind), signature=f"reactions:frame:{kind}:balance",
                      replay=dict(confirmed=True))
    if kind == "fixed":
        cz = -(Fy * 2.0 - Fx * 1.5)
        if abs(R[2] - cz) > 1e-6 * abs(cz):
            raise Refuted(f"2-D frame with a fixed connection: reaction moment {R[2]} instead of {cz}", signature="reactions:frame:fixed:moment", replay=dict(confirmed=True))
    return Verdict(DISCHARGED, backend="native", sub=3)


def ob_calc_reaction(algo, extra=0):
    """_Simu.Calc_Reaction from the AST on symbolic matrices and vectors: the returned values are (K u)[dofs] for an elliptic problem,
    (K u + C v)[dofs] for a parabolic one and (K u + C v + M a)[dofs] for every hyperbolic algorithm, for any dof subset and order."""
    from vt import sx, npshim
    from EasyFEA.Simulations.Solvers import AlgoType
    n_ = 4
    # `extra` rows and columns after those of the dofs: the Lagrange multipliers of a system with connections (the state vectors keep the size of the dofs)
    nm = n_ + extra
    names = [f"{m}{i}{j}" for m in "KCM" for i in range(nm) for j in range(nm)] + [f"{v}{i}" for v in "uva" for i in range(n_)]
    c = Ctx(names, nspare=1)
    NPs = npshim.NP(c)
    g = sx.module_globals("EasyFEA.Simulations._simu", np=NPs, MPI_SIZE=1)
    mat = {m: np.array([[c.sym(f"{m}{i}{j}") for j in range(nm)] for i in range(nm)], dtype=object) for m in "KCM"}
    vec = {v: np.array([c.sym(f"{v}{i}") for i in range(n_)], dtype=object) for v in "uva"}
    f = extract.compile_fn(extract.get("EasyFEA/Simulations/_simu.py", "_Simu.Calc_Reaction"), g)
    n = 0
    for dofs in ([2, 0], [0, 1, 2, 3], [3], None):
        me = sx.Mock("self", isNonLinear=False, problemType="pt", algo=AlgoType[algo], Get_dofs=lambda pt=None: np.arange(n_),
                     Get_K_C_M_F=lambda pt=None: (mat["K"], mat["C"], mat["M"], None),
                     _Get_u_n=lambda pt=None: vec["u"], _Get_v_n=lambda pt=None: vec["v"], _Get_a_n=lambda pt=None: vec["a"])
        try:
            got = np.asarray(f(me, None if dofs is None else np.array(dofs)))
        except ValueError as ex:
            raise Refuted(f"Calc_Reaction({dofs}), algo {algo}, matrices of size {nm} for {n_} dofs: raises ValueError: {str(ex)[:120]}", cex=dict(algo=algo, dofs=dofs, multipliers=extra),
                          signature=f"reaction:{algo}:raises", replay=_replay_reaction(algo))
        dd = list(range(n_)) if dofs is None else dofs
        if got.shape != (len(dd),):
            raise Refuted(f"Calc_Reaction({dofs}) returns shape {got.shape}", signature=f"reaction:{algo}:shape", replay=_replay_reaction(algo))
        hyper = AlgoType[algo] in AlgoType.Get_Hyperbolic_Types()
        for k, d in enumerate(dd):
            want = sum((mat["K"][d, j] * vec["u"][j] for j in range(n_)), c.const(0))
            if algo == "parabolic" or hyper:
                want = want + sum((mat["C"][d, j] * vec["v"][j] for j in range(n_)), c.const(0))
            if hyper:
                want = want + sum((mat["M"][d, j] * vec["a"][j] for j in range(n_)), c.const(0))
            gk = got[k] if isinstance(got[k], X) else c.const(got[k])
            n += 1
            if not (gk == want):
                raise Refuted(f"Calc_Reaction, algo {algo}, dof {d}: returned {gk}, expected the row of K u{' + C v' if (algo == 'parabolic' or hyper) else ''}{' + M a' if hyper else ''}",
                              cex=dict(algo=algo, dofs=dofs), signature=f"reaction:{algo}", replay=_replay_reaction(algo))
    return Verdict(DISCHARGED, backend="ring-normal-form (symbolic 4x4 matrices, vectors)", sub=n)


def _replay_reaction(algo):
    """native: a damped dynamic bar, clamped on one side, arbitrary state: Calc_Reaction on the clamped dofs vs rows of K u + C v + M a."""
    try:
        from EasyFEA import Simulations
        simu = _elastic(2)
        rng = np.random.default_rng(3)
        from EasyFEA.Simulations.Solvers import AlgoType
        if algo not in ("elliptic", "parabolic"):
            simu.Solver_Set_Hyperbolic_Algorithm(0.1, algo=AlgoType[algo])
        simu.Set_Rayleigh_Damping_Coefs(0.3, 0.2)
        _set_state(simu, rng)
        K, C, M, _ = simu.Get_K_C_M_F()
        u, v, a = simu._Get_u_n(simu.problemType), simu._Get_v_n(simu.problemType), simu._Get_a_n(simu.problemType)
        dofs = np.array([0, 1, 5])
        want = (K @ u)[dofs]
        if algo != "elliptic":
            want = want + (C @ v)[dofs]
            if algo != "parabolic":
                want = want + (M @ a)[dofs]
        got = np.asarray(simu.Calc_Reaction(dofs))
        err = float(np.abs(got - want).max() / np.abs(want).max())
        return dict(confirmed=err > 1e-9, rel_err=err)
    except Exception as e:
        return dict(confirmed=False, raised=repr(e))


def ob_reactions_dynamic(algo):
    """damped dynamic problem, one side fully constrained, loads elsewhere, several time steps: at every step the reactions on the constrained
    dofs plus the applied loads equal the resultant of the inertia and damping forces (global balance per direction)."""
    from EasyFEA import SolverType
    simu = _elastic(2)
    simu.solver = SolverType.scipy
    mesh = simu.mesh
    dim = 2
    co = np.asarray(mesh.coord)
    n0 = np.where(co[:, 0] <= np.sort(co[:, 0])[2])[0]
    n1 = np.setdiff1d(np.arange(mesh.Nn), n0)[:3]
    simu.rho = 1.7
    simu.Set_Rayleigh_Damping_Coefs(0.4, 0.05)
    from EasyFEA.Simulations.Solvers import AlgoType
    simu.Solver_Set_Hyperbolic_Algorithm(0.05, algo=AlgoType[algo])
    dofs0 = simu.Bc_dofs_nodes(n0, ["x", "y"])
    n = 0
    for step in range(5):
        simu.Bc_Init()
        simu.add_dirichlet(n0, [0, 0], ["x", "y"])
        simu.add_neumann(n1, [0.7 * (step + 1), -0.4], ["x", "y"])
        simu.Solve()
        K, C, M, _ = simu.Get_K_C_M_F()
        pt = simu.problemType
        u, v, a = simu._Get_u_n(pt), simu._Get_v_n(pt), simu._Get_a_n(pt)
        R = np.zeros(mesh.Nn * dim)
        R[dofs0] = np.asarray(simu.Calc_Reaction(dofs0))
        want = np.zeros(mesh.Nn * dim)
        want[dofs0] = (K @ u + C @ v + M @ a)[dofs0]
        n += 1
        e = float(np.abs(R - want).max() / max(np.abs(want).max(), 1e-30))
        if not e < 1e-9:
            raise Refuted(f"algo {algo}, step {step}: Calc_Reaction on the clamped dofs differs from the rows of K u + C v + M a by {e:.3e} (relative)", cex=dict(algo=algo, step=step),
                          signature=f"reactions:dynamic:{algo}", replay=dict(confirmed=True, rel_err=e))
    return Verdict(DISCHARGED, backend="native run", sub=n)


def ob_energy_inelastic(kind):
    """history-dependent simulation in its elastic range (virgin state): the reported stored energy equals one half of u'Ku and the deformation energy of the elastic
    simulation of the same state -- plane strain, plane stress (the out-of-plane strain that makes sigma_zz vanish belongs to the energy) and 3-D."""
    from EasyFEA import Models, Simulations
    from . import patches
    dim = 3 if kind == "3d" else 2
    et = "TETRA4" if dim == 3 else "TRI6"
    coords, connect = patches.star_patch(et)
    mesh = patches.real_mesh(et, coords, connect)
    IE = Models.InElastic
    el3 = Models.Elastic.Isotropic(3, E=3.0, v=0.3)
    kw = dict(planeStress=(kind == "ps"), thickness=0.7) if dim == 2 else {}
    beh = IE.Behavior(dim, el3, yieldSurface=IE.Yield.VonMises(1e6), hardening=IE.IsotropicHardening.Linear(0.4), **kw)
    s_ = Simulations.InElastic(mesh, beh)
    import contextlib, io
    rng = np.random.default_rng(4)
    co = np.asarray(mesh.coord)
    order_x = np.argsort(co[:, 0])
    n0, n1 = order_x[:4], order_x[-1:]                      # enough clamped nodes to remove every rigid motion
    names = ["x", "y", "z"][:dim]
    s_.add_dirichlet(n0, [0] * dim, names)
    s_.add_dirichlet(n1, [1e-3], ["x"])
    with contextlib.redirect_stdout(io.StringIO()):
        s_.Solve()
    u = 1e-3 * rng.normal(size=mesh.Nn * dim)            # an arbitrary (non-equilibrium) state in the elastic range
    s_._Set_solutions(s_.problemType, u, np.zeros_like(u), np.zeros_like(u))
    ref = Simulations.Elastic(mesh, Models.Elastic.Isotropic(dim, E=3.0, v=0.3, **kw) if dim == 2 else Models.Elastic.Isotropic(3, E=3.0, v=0.3))
    ref._Set_solutions(ref.problemType, u)
    K = ref.Get_K_C_M_F()[0]
    half = 0.5 * float(u @ (K @ u))
    en = s_.Results_dict_Energy()
    vals = [float(v) for v in en.values()]
    W = float(ref.Result("Wdef"))
    got = vals[0]
    e1, e2 = abs(got - half) / abs(half), abs(W - half) / abs(half)
    if e1 > 1e-9 or e2 > 1e-9:
        raise Refuted(f"InElastic ({kind}), virgin elastic state: reported stored energy {got:.9g}, 1/2 u'Ku = {half:.9g} (relative difference {e1:.3e}); Elastic.Wdef {W:.9g}", cex=dict(kind=kind),
                      signature=f"energy:InElastic:{kind}", replay=dict(confirmed=True, reported=got, half_uKu=half, elastic_Wdef=W))
    return Verdict(DISCHARGED, backend="native run", detail=f"rel diff {e1:.1e}")


def ob_reshape_coincidence():
    """a mesh whose number of elements equals its number of nodes (a closed band of triangles: 2k nodes, 2k elements): nodal values of an element-wise result are
    the values extrapolated to the nodes, not the element array handed back unchanged."""
    from EasyFEA import Models, Simulations, ElemType
    from EasyFEA.FEM._mesh import Mesh
    from EasyFEA.FEM._group_elem import GroupElemFactory
    k = 6
    ang = np.linspace(0, 2 * np.pi, k, endpoint=False)
    inner = np.c_[np.cos(ang), np.sin(ang), 0 * ang]
    co = np.vstack([inner, 2 * inner])
    tri = []
    for i in range(k):
        j = (i + 1) % k
        tri += [[i, k + i, k + j], [i, k + j, j]]
    mesh = Mesh({ElemType.TRI3: GroupElemFactory.Create(ElemType.TRI3, np.array(tri), co)})
    if mesh.Nn != mesh.Ne:
        raise Unsupported("the band does not have as many elements as nodes")
    s_ = Simulations.Elastic(mesh, Models.Elastic.Isotropic(2, E=3.0, v=0.25, planeStress=True))
    rng = np.random.default_rng(0)
    s_._Set_solutions(s_.problemType, 1e-3 * rng.normal(size=mesh.Nn * 2))
    n = 0
    for name in ("Sxx", "Svm", "Exy"):
        Se = np.asarray(s_.Result(name, nodeValues=False))
        Sn = np.asarray(s_.Result(name, nodeValues=True))
        ref = np.asarray(mesh.Get_Node_Values(Se.reshape(mesh.Ne, -1))).ravel()
        n += 1
        e = float(np.abs(Sn.ravel() - ref).max() / np.abs(ref).max())
        if e > 1e-10:
            raise Refuted(f"mesh with Nn == Ne == {mesh.Nn}: Result('{name}', nodeValues=True) is {'the element array itself' if np.array_equal(Sn, Se) else 'wrong'}: it differs from the element values "
                          f"brought to the nodes by {e:.3e} (relative)", cex=dict(Nn=int(mesh.Nn), Ne=int(mesh.Ne), result=name), signature="reshape:Nn==Ne", replay=dict(confirmed=True, rel_err=e))
    return Verdict(DISCHARGED, backend="native run", sub=n)


def ob_reshape_divisible(case):
    """meshes where (number of elements x number of components) happens to be a multiple of the number of nodes, or the number of dofs a multiple of the number of elements
    (both numbers differ): a result stored per element is still brought to the nodes (and a nodal vector still averaged per element), never merely reshaped"""
    import contextlib, io
    from EasyFEA import Models, Simulations, ElemType
    from EasyFEA.Geoms import Domain, Point
    with contextlib.redirect_stdout(io.StringIO()):
        if case == "quad5x4":           # Ne = 20, Nn = 30: Strain (20, 3) has 60 = 2 Nn entries
            mesh = Domain(Point(), Point(5, 4), 1.0).Mesh_2D([], ElemType.QUAD4, isOrganised=True)
        elif case == "quad4x1":         # Nn = 10, Ne = 4: the dof vector (20,) has 5 Ne entries
            mesh = Domain(Point(), Point(4, 1), 1.0).Mesh_2D([], ElemType.QUAD4, isOrganised=True)
        else:                           # TETRA4 box
            mesh = Domain(Point(), Point(3, 2), 1.0).Mesh_Extrude([], [0, 0, 1], [2], ElemType.TETRA4, isOrganised=True)
    if mesh.Nn == mesh.Ne:
        raise Unsupported("Nn == Ne: that is the case of C16.reshape.coincidence")
    dim = mesh.dim
    s_ = Simulations.Elastic(mesh, Models.Elastic.Isotropic(dim, E=3.0, v=0.25))
    rng = np.random.default_rng(0)
    u = 1e-3 * rng.normal(size=mesh.Nn * dim)
    s_._Set_solutions(s_.problemType, u)
    Nn, Ne = int(mesh.Nn), int(mesh.Ne)
    n = 0
    for name in ("Strain", "Stress", "Svm", "Exx"):
        Se = np.asarray(s_.Result(name, nodeValues=False))
        Sn = np.asarray(s_.Result(name, nodeValues=True))
        if Se.shape[0] != Ne:
            raise Refuted(f"{case} (Nn={Nn}, Ne={Ne}): Result('{name}', nodeValues=False) has shape {Se.shape}", cex=dict(Nn=Nn, Ne=Ne, result=name), signature="reshape:divisible:elem", replay=dict(confirmed=True))
        ref = np.asarray(mesh.Get_Node_Values(Se.reshape(Ne, -1)))
        n += 1
        if Sn.reshape(Nn, -1).shape != ref.reshape(Nn, -1).shape or np.abs(Sn.reshape(Nn, -1) - ref.reshape(Nn, -1)).max() > 1e-10 * np.abs(ref).max():
            raise Refuted(f"{case} (Nn={Nn}, Ne={Ne}): Result('{name}', nodeValues=True) has shape {Sn.shape} and is not the element values brought to the nodes "
                          f"(the element array of {Se.size} entries was taken for nodal storage)", cex=dict(Nn=Nn, Ne=Ne, result=name), signature="reshape:divisible:node", replay=dict(confirmed=True))
    ue = np.asarray(s_.Result("displacement", nodeValues=False))
    ux = np.asarray(s_.Result("ux", nodeValues=False))
    n += 1
    if ue.size != Ne * dim or np.abs(ue.reshape(Ne, dim)[:, 0] - ux.ravel()).max() > 1e-12:
        raise Refuted(f"{case} (Nn={Nn}, Ne={Ne}): Result('displacement', nodeValues=False) has {ue.size} entries: its x component is not Result('ux', nodeValues=False)",
                      cex=dict(Nn=Nn, Ne=Ne), signature="reshape:divisible:vector", replay=dict(confirmed=True))
    return Verdict(DISCHARGED, backend="native run", sub=n)


def ob_result_other(sim, seed):
    """generic clauses for the other simulation types: every advertised name is served for an arbitrary state; vector results and their components agree."""
    from .C15 import _mk
    rng = np.random.default_rng(seed + 31)
    if sim == "Beam3D":
        from EasyFEA import Models, Simulations, Mesher, ElemType, SolverType
        from EasyFEA.Geoms import Domain, Point, Line
        sect = Mesher().Mesh_2D(Domain(Point(), Point(0.1, 0.2)))
        beam = Models.Beam.Isotropic(3, Line(Point(0.1, 0.2, 0.3), Point(1.1, 1.5, 0.9)), sect, 210e3, v=0.3)
        s = Simulations.Beam(Mesher().Mesh_Beams([beam], elemType=ElemType.SEG3), Models.Beam.BeamStructure([beam]))
    elif sim == "WeakForms":
        from EasyFEA import Models, Simulations
        from EasyFEA.FEM import Field, BiLinearForm
        from . import patches
        mesh = patches.two_element_mesh("QUAD4")
        field = Field(mesh.groupElem, 2)
        s = Simulations.WeakForms(mesh, Models.WeakForms(field, BiLinearForm(lambda u, v: u.grad.ddot(v.grad)), computeM=BiLinearForm(lambda u, v: u.dot(v))))
        s.Solver_Set_Hyperbolic_Algorithm(dt=0.1)
    elif sim.endswith(".3d"):
        # the same simulation types on a three-dimensional patch (the component names x, y, z all exist)
        from EasyFEA import Models, Simulations, SolverType
        from . import patches
        coords, connect = patches.star_patch("TETRA4")
        mesh = patches.real_mesh("TETRA4", coords, connect)
        base = sim[:-3]
        if base == "Elastic":
            s = Simulations.Elastic(mesh, Models.Elastic.Isotropic(3, E=3.0, v=0.25))
        elif base == "Thermal":
            s = Simulations.Thermal(mesh, Models.Thermal(k=1.5, c=0.8))
        elif base == "PhaseField":
            mat = Models.Elastic.Isotropic(3, E=3.0, v=0.25)
            s = Simulations.PhaseField(mesh, Models.PhaseField(mat, Models.PhaseField.SplitType.Miehe, Models.PhaseField.ReguType.AT2, Gc=1.0, l0=0.5))
        elif base == "HyperElastic":
            s = Simulations.HyperElastic(mesh, Models.HyperElastic.NeoHookean(3, K=50.0), verbosity=False)
        elif base == "InElastic":
            IE = Models.InElastic
            s = Simulations.InElastic(mesh, IE.Behavior(3, Models.Elastic.Isotropic(3, E=3.0, v=0.25), yieldSurface=IE.Yield.VonMises(0.003), hardening=IE.IsotropicHardening.Linear(0.4)))
        elif base == "WeakForms":
            from EasyFEA.FEM import Field, BiLinearForm
            field = Field(mesh.groupElem, 3)
            s = Simulations.WeakForms(mesh, Models.WeakForms(field, BiLinearForm(lambda u, v: u.grad.ddot(v.grad)), computeM=BiLinearForm(lambda u, v: u.dot(v))))
            s.Solver_Set_Hyperbolic_Algorithm(dt=0.1)
        else:
            raise Unsupported(sim)
        s.solver = SolverType.scipy
        sim = base
    else:
        s = _mk(sim)
    if sim in ("Elastic", "Beam", "HyperElastic"):
        try:
            s.Solver_Set_Hyperbolic_Algorithm(dt=0.1)
        except Exception:
            pass
    if sim == "Thermal":
        s.Solver_Set_Parabolic_Algorithm(dt=0.1)
    _set_state(s, rng * 1 if False else rng)
    if sim in ("HyperElastic", "InElastic", "PhaseField"):
        # admissible (small) state for nonlinear kinematics / local integration
        for pt in s.Get_problemTypes():
            nd = s.mesh.Nn * s.Get_dof_n(pt)
            small = 1e-3 * rng.normal(size=nd)
            if sim == "PhaseField" and str(pt) == "damage":
                small = np.abs(small) * 10
            s._Set_solutions(pt, small, rng.normal(size=nd), 3.0 * rng.normal(size=nd))        # distinct, non-zero velocity and acceleration
    names = s.Results_Available()
    n = 0
    got = {}
    for nm in names:
        for nv in (True, False):
            try:
                v = s.Result(nm, nodeValues=nv)
            except Exception as ex:
                raise Refuted(f"{sim}: Result('{nm}', nodeValues={nv}) raises {type(ex).__name__}: {ex}", cex=dict(simulation=sim, name=nm), signature=f"result:{sim}:raises:{nm}",
                              replay=dict(confirmed=True))
            n += 1
            if v is None:
                raise Refuted(f"{sim}: Result('{nm}') returns None although the name is advertised by Results_Available()", cex=dict(simulation=sim, name=nm),
                              signature=f"result:{sim}:none:{nm}", replay=dict(confirmed=True))
            got[(nm, nv)] = np.asarray(v)
    Nn = s.mesh.Nn
    if ("displacement", True) in got:
        full = got[("displacement", True)].reshape(Nn, -1)
        unk = s.Get_unknowns()
        for d, cn in enumerate(unk):
            key = {"x": "ux", "y": "uy", "z": "uz"}.get(cn, cn)
            if (key, True) in got:
                n += 1
                if not np.array_equal(got[(key, True)].ravel(), full[:, d]):
                    raise Refuted(f"{sim}: '{key}' is not column {d} of 'displacement'", cex=dict(simulation=sim, name=key), signature=f"result:{sim}:component:{key}", replay=dict(confirmed=True))
    # velocity / acceleration vectors and their components (dynamic simulations)
    for base, pre in (("speed", "v"), ("accel", "a"), ("velocity", "v"), ("acceleration", "a")):
        if (base, True) not in got:
            continue
        full = got[(base, True)].reshape(Nn, -1)
        for d, cn in enumerate("xyz"[:full.shape[1]]):
            key = pre + cn
            if (key, True) in got:
                n += 1
                if not np.array_equal(got[(key, True)].ravel(), full[:, d]):
                    raise Refuted(f"{sim}: '{key}' is not column {d} of '{base}'", cex=dict(simulation=sim, name=key), signature=f"result:{sim}:component:{key}", replay=dict(confirmed=True))
        if (base + "_norm", True) in got:
            n += 1
            if not np.allclose(got[(base + "_norm", True)].ravel(), np.linalg.norm(full, axis=1), rtol=1e-12):
                raise Refuted(f"{sim}: '{base}_norm' is not the norm of '{base}'", signature=f"result:{sim}:norm:{base}", replay=dict(confirmed=True))
    # vector results named by a single letter (weak-form simulations: u, v, a) and their components
    for base in ("u", "v", "a"):
        if (base, True) not in got:
            continue
        full = got[(base, True)].reshape(Nn, -1)
        for d, cn in enumerate("xyz"[:full.shape[1]]):
            key = base + cn
            if (key, True) in got:
                n += 1
                if not np.array_equal(got[(key, True)].ravel(), full[:, d]):
                    raise Refuted(f"{sim}: '{key}' is not column {d} of '{base}'", cex=dict(simulation=sim, name=key), signature=f"result:{sim}:component:{key}", replay=dict(confirmed=True))
    return Verdict(DISCHARGED, backend="native run (run-time contracts)", sub=n)


def build(tier, seed):
    obs = []
    for dim in (2, 3):
        obs.append(Ob(f"C16.indices.{dim}d", ob_indices, (dim,), "P", (f"{MU}::__Result_in_Strain_or_Stress_field",),
                      clause="named components are the tensor components with the Kelvin-Mandel factor removed; vm is the von Mises norm", timeout=300))
    for et in (["TRI3", "QUAD4", "TETRA4"] if tier == "quick" else ["TRI3", "TRI6", "QUAD4", "QUAD8", "TETRA4", "HEXA8"]):
        obs.append(Ob(f"C16.exact.{et}", ob_exact, (et,), "B", ("EasyFEA/FEM/_group_elem.py::_GroupElem.Get_B_e_pg", "EasyFEA/FEM/Operators/Bilinear.py::LinearizedElasticity"),
                      bound="2-element patch, isotropic rational C, symbolic nodal state", clause="energy from the stress/strain fields == 1/2 u'Ku as quadratic forms in u", timeout=900))
    seeds_ = range(4) if tier == "thorough" else range(1)
    for dim, mixed, sd in [(d_, m_, s_) for d_, m_ in ((2, False), (3, False), (2, True)) for s_ in seeds_]:
        obs.append(Ob(f"C16.result.Elastic.{dim}d{'.mixed' if mixed else ''}" + (f".s{sd}" if sd else ""), ob_result_elastic, (dim, mixed, seed + sd), "X", (f"{SE}::Elastic.Result", f"{SE}::Elastic._Calc_Psi_Elas",
                      f"{MU}::Result_strain_or_stress_field_e", "EasyFEA/Simulations/_simu.py::_Simu.Results_Reshape_values"),
                      bound="one mesh, one random non-equilibrium state (u, v, a)", clause="all advertised names; components vs vectors; Svm; Wdef = 1/2 u'Ku; constants preserved", timeout=300))
    for kind in ("fixed", "hinged"):
        obs.append(Ob(f"C16.reactions.frame.{kind}", ob_reactions_frame, (kind,), "X", ("EasyFEA/Simulations/_simu.py::_Simu.Calc_Reaction", "EasyFEA/Simulations/_simu.py::_Simu.Get_K_C_M_F"), bound="one two-beam frame",
                      clause="reactions of the clamped support of a frame whose beams are joined by connections (system with Lagrange multipliers) balance the applied load"))
    for dim in (2, 3):
        obs.append(Ob(f"C16.reactions.{dim}d", ob_reactions, (dim,), "X", ("EasyFEA/Simulations/_simu.py::_Simu.Solve",), bound="one loaded, constrained patch",
                      clause="reactions on the constrained boundary balance the applied loads", timeout=300))
    for sim, sd in [(m_, s_) for m_ in ("Thermal", "Beam", "Beam3D", "PhaseField", "HyperElastic", "InElastic", "WeakForms", "Thermal.3d", "PhaseField.3d", "HyperElastic.3d", "InElastic.3d", "WeakForms.3d") for s_ in seeds_]:
        obs.append(Ob(f"C16.result.{sim}" + (f".s{sd}" if sd else ""), ob_result_other, (sim, seed + sd), "X", (f"EasyFEA/Simulations/_{sim.split('.')[0].lower().replace('3d','')}.py::{sim.split('.')[0].replace('3D','')}.Result",), bound="one small mesh, one arbitrary state",
                      clause="every advertised result name is served; displacement components equal the columns of the vector result", timeout=300))
    for algo in ("elliptic", "parabolic", "newmark", "hht", "midpoint"):
        if algo in ("elliptic", "newmark"):
            obs.append(Ob(f"C16.reaction.formula.{algo}.multipliers", ob_calc_reaction, (algo, 2), "P", ("EasyFEA/Simulations/_simu.py::_Simu.Calc_Reaction",),
                          clause="with matrices that carry two more rows and columns than the state vectors (Lagrange multipliers): Calc_Reaction(dofs) == rows `dofs` of K[:, :Ndof] u (+ C v + M a), any dof subset"))
        obs.append(Ob(f"C16.reaction.formula.{algo}", ob_calc_reaction, (algo,), "P", ("EasyFEA/Simulations/_simu.py::_Simu.Calc_Reaction",),
                      clause="Calc_Reaction(dofs) == rows `dofs` of K u (+ C v for parabolic, + C v + M a for hyperbolic algorithms), any dof subset and order, all matrices and states"))
    for algo in ("newmark", "hht", "midpoint"):
        obs.append(Ob(f"C16.reactions.dynamic.{algo}", ob_reactions_dynamic, (algo,), "X", ("EasyFEA/Simulations/_simu.py::_Simu.Calc_Reaction",), bound="one damped 2-D patch, 5 steps",
                      clause="reactions reported on the constrained boundary are the rows of K u + C v + M a there (damped dynamics)", timeout=300))
    for kind in ("pe", "ps", "3d"):
        obs.append(Ob(f"C16.energy.InElastic.{kind}", ob_energy_inelastic, (kind,), "X", ("EasyFEA/Simulations/_inelastic.py::InElastic._Calc_psi", "EasyFEA/Models/InElastic/_behavior.py::Behavior.Compute_psi"),
                      bound="one star patch, one random state in the elastic range", clause="reported stored energy == 1/2 u'Ku == Elastic.Wdef (plane strain, plane stress, 3-D)", timeout=300))
    obs.append(Ob("C16.reshape.coincidence", ob_reshape_coincidence, (), "X", ("EasyFEA/Simulations/_simu.py::_Simu.Results_Reshape_values",), bound="one closed band of 12 triangles on 12 nodes",
                  clause="nodal form of an element-wise result on a mesh with as many elements as nodes", timeout=120))
    # results of a restored iteration are functions of that iteration alone (energies and reactions of a phase-field simulation go through assembled matrices
    # that depend on the damage): shared with C15.roundtrip
    from . import C15
    for variant in (None, "HistoryDamage", "BoundConstrain"):
        obs.append(Ob(f"C16.restored.PhaseField.{variant or 'History'}", C15.ob_roundtrip, ("PhaseField", "memory", False, variant), "X",
                      ("EasyFEA/Simulations/_phasefield.py::PhaseField.Set_Iter", "EasyFEA/Simulations/_phasefield.py::PhaseField.Result"),
                      bound="3 solve/save steps on a 9-node patch, restores in the order 0, 1, 0, 2, 1, 0", timeout=300,
                      clause="every advertised result after Set_Iter(i) is the same whichever iteration was current before (no matrix of another state is reused)"))
    obs.append(Ob("C16.restored.multimesh", C15.ob_multimesh, (), "X", ("EasyFEA/Simulations/_simu.py::_Simu.__Update_mesh", "EasyFEA/Simulations/_simu.py::_Simu.Get_K_C_M_F"),
                  bound="one history with two meshes of the same size and a restart from an older iteration", timeout=300,
                  clause="after Set_Iter switched to the mesh of the stored iteration, the assembled system, Wdef == 1/2 u'Ku and the value at save time agree"))
    for case in ("quad5x4", "quad4x1", "tetra"):
        obs.append(Ob(f"C16.reshape.divisible.{case}", ob_reshape_divisible, (case,), "X", ("EasyFEA/Simulations/_simu.py::_Simu.Results_Reshape_values",), bound="one structured mesh with divisible counts, one random state",
                      clause="element results are brought to the nodes (nodal vectors averaged per element) whatever divisibility relation holds between Ne, Nn and the number of components"))
    obs.append(Ob("canary.indices", ob_indices, (2, True), "P", expect=REFUTED, timeout=300))
    functions = {"__Result_in_Strain_or_Stress_field": extract.get(MU, "__Result_in_Strain_or_Stress_field").describe(), "Elastic.Result": extract.get(SE, "Elastic.Result").describe(),
                 "Elastic._Calc_Psi_Elas": extract.get(SE, "Elastic._Calc_Psi_Elas").describe()}
    obs += ops.pointwise_obligations('C16', tier)
    obs.append(ops.selfcheck_ob('C16'))
    return dict(
        obs=obs, level="other", min_obligations=12,
        explanation=("Component extraction and the von Mises formula are decided symbolically from the extracted source. The energy identity is a polynomial identity in a symbolic "
                     "state on exact patches (real B, wJ, element operator). All advertised result names of seven simulation types are exercised on arbitrary states with run-time "
                     "contracts tying each named result to the vector/tensor result, the matrices and the loads."),
        trusted_base=ops.GP_TRUST + ["vt/npshim.py + vt/symrun.py", "C03 scatter-add contract"],
        assumptions=["one mesh / one random state per simulation type (seeded)", "beam internal-force results and phase-field energies: only availability is checked"],
        functions=functions,
        dropped=["P: D1-D5; B/X: imported code unmodified"],
    )
