"""C17 -- phase-field splits partition stress and energy; the history energy never decreases.

  P  C17.terms.*            k, c_w, Get_r_e_pg, Get_f_e_pg (AT1/AT2) executed from the AST on symbolic values
  P  C17.history.max        the History branch of __Calc_psiPlus_e_pg returns max(new, old) pointwise (symbolic, both orders)
  P  C17.lb                 Get_lb_ub: BoundConstrain passes the previous damage as lower bound
  B  C17.eig2d.*            the REAL 2-D _Eigen_values_vectors_projectors on exact symbolic strains, every combination of
                            generic / zero / hydrostatic / uniaxial points in (1,1), (1,2), (2,2) fields: sum M = I,
                            sum lambda_i M_i = eps, M_i M_j = delta_ij M_i, eigenvalues ordered -- identities modulo s^2 = delta
  X  C17.split.<s>.<dim>    run-time contracts on the real Calc_C / Calc_Sigma_e_pg / Calc_psi_e_pg (floats) at designated strain
                            states (generic, zero, hydrostatic, uniaxial, two-equal, and mixed inside one element):
                            finite, cP + cM = C, sigma+ + sigma- = C eps, psi+ + psi- = 1/2 eps C eps; projectors vs numpy eigh
"""
from __future__ import annotations

import itertools
from fractions import Fraction

import numpy as np

from vt import alg, extract, sx, symrun, npshim
from vt.alg import Ctx, X
from vt.core import Ob, Verdict, Refuted, Unsupported, DISCHARGED, REFUTED
from . import ops
from . import common

PROP = "C17"
F = Fraction
MP = "EasyFEA/Models/_phasefield.py"
SPF = "EasyFEA/Simulations/_phasefield.py"


def _splits():
    from EasyFEA import Models
    return [str(s) for s in Models.PhaseField.Get_splits()]


def _model(split, dim, regu="AT2", aniso=False, solver="History"):
    from EasyFEA import Models
    if aniso:
        mat = Models.Elastic.TransverselyIsotropic(dim, El=11.0, Et=7.0, Gl=3.0, vl=0.2, vt=0.25, axis_l=(1, 0, 0), axis_t=(0, 1, 0), planeStress=False)
    else:
        mat = Models.Elastic.Isotropic(dim, E=3.0, v=0.25, planeStress=False)
    PF = Models.PhaseField
    return PF(mat, PF.SplitType[split] if hasattr(PF.SplitType, split) else split, PF.ReguType[regu], Gc=1.5, l0=0.1, solver=PF.SolverType[solver])


# ---------------------------------------------------------------- P: closed-form terms

def ob_terms():
    names = ["Gc", "l0", "psi"]
    c = Ctx(names, nspare=1, witness=dict(Gc=F(3, 2), l0=F(1, 10), psi=F(2)))
    NPs = npshim.NP(c)
    g = sx.module_globals("EasyFEA.Models._phasefield", np=NPs)
    from EasyFEA import Models
    PF = Models.PhaseField
    Gc, l0, psi = (c.sym(n) for n in names)
    n = 0
    for regu in ("AT1", "AT2"):
        me = sx.Mock("self", Gc=Gc, l0=l0, regularization=PF.ReguType[regu], ReguType=PF.ReguType, isHeterogeneous=False)
        k = extract.compile_fn(extract.get(MP, "PhaseField.k", "getter"), g)(me)
        cw = extract.compile_fn(extract.get(MP, "PhaseField.c_w", "getter"), g)(me)
        wk, wcw = (F(3, 4) * Gc * l0, F(8, 3)) if regu == "AT1" else (Gc * l0, F(2))
        for nm, got, want in (("k", k, wk), ("c_w", cw, wcw)):
            n += 1
            got = got if isinstance(got, X) else c.const(got)
            if not (got == want):
                raise Refuted(f"PhaseField.{nm} ({regu}) = {got}, expected {want}", signature=f"terms:{nm}:{regu}", replay=_replay_terms(regu))
        arr = np.empty((1, 1), dtype=object)
        arr[0, 0] = psi
        from EasyFEA.FEM._linalg import FeArray
        # symbolic psi through the real FeArray class is not needed: the formulas are scalar -> pass the scalar field as a plain object array
        gr = dict(g)

        class FA:
            @staticmethod
            def asfearray(x, b=False):
                return x

            @staticmethod
            def broadcast(x, *a):
                return x
        gr["FeArray"] = FA
        r = extract.compile_fn(extract.get(MP, "PhaseField.Get_r_e_pg"), gr)(me, arr)[0, 0]
        wr = 2 * psi if regu == "AT1" else 2 * psi + Gc / l0
        n += 1
        if not (r == wr):
            raise Refuted(f"Get_r_e_pg ({regu}) = {r}, expected {wr}", signature=f"terms:r:{regu}", replay=_replay_terms(regu))
        # source term; AT1: positive part of 2 psi - 3Gc/(8 l0) (two witnesses: above and below the threshold)
        for wit_psi in (F(20), F(1, 100)):
            c2 = Ctx(names, nspare=1, witness=dict(Gc=F(3, 2), l0=F(1, 10), psi=wit_psi))
            NP2 = npshim.NP(c2)
            g2 = sx.module_globals("EasyFEA.Models._phasefield", np=NP2)
            g2["FeArray"] = FA
            Gc2, l02, psi2 = (c2.sym(nm) for nm in names)
            me2 = sx.Mock("self", Gc=Gc2, l0=l02, regularization=PF.ReguType[regu], ReguType=PF.ReguType, isHeterogeneous=False)
            a2 = np.empty((1, 1), dtype=object)
            a2[0, 0] = psi2
            f = extract.compile_fn(extract.get(MP, "PhaseField.Get_f_e_pg"), g2)(me2, a2)[0, 0]
            if regu == "AT2":
                wf = 2 * psi2
            else:
                thr = 2 * psi2 - 3 * Gc2 / (8 * l02)
                wf = thr if wit_psi == 20 else c2.const(0)
            n += 1
            f = f if isinstance(f, X) else c2.const(f)
            if not (f == wf):
                raise Refuted(f"Get_f_e_pg ({regu}, psi witness {wit_psi}) = {f}, expected {wf}", signature=f"terms:f:{regu}", replay=_replay_terms(regu))
    return Verdict(DISCHARGED, backend="ring-normal-form (+ witness paths for the positive part)", sub=n)


def _replay_terms(regu):
    try:
        m = _model("Miehe", 2, regu)
        psi = np.array([[2.0]])
        r = float(np.asarray(m.Get_r_e_pg(psi))[0, 0])
        f = float(np.asarray(m.Get_f_e_pg(psi))[0, 0])
        Gc, l0 = 1.5, 0.1
        wr = 4.0 if regu == "AT1" else 4.0 + Gc / l0
        wf = max(4.0 - 3 * Gc / (8 * l0), 0) if regu == "AT1" else 4.0
        wk = 0.75 * Gc * l0 if regu == "AT1" else Gc * l0
        bad = abs(r - wr) > 1e-12 or abs(f - wf) > 1e-12 or abs(float(m.k) - wk) > 1e-12
        return dict(confirmed=bool(bad), r=r, f=f, k=float(m.k))
    except Exception as e:
        return dict(confirmed=True, raised=repr(e))


# ---------------------------------------------------------------- P: history

def ob_history_max(canary=False):
    """History branch: returned psi+ == max(new, old) at every (e,p): executed from the AST with symbolic new/old values, both orders."""
    n = 0
    for wit in (dict(a=F(3), b=F(1), c=F(1), d=F(4)), dict(a=F(1), b=F(3), c=F(5), d=F(2))):
        c = Ctx(["a", "b", "c", "d"], nspare=1, witness=wit)
        NPs = npshim.NP(c)
        g = sx.module_globals("EasyFEA.Simulations._phasefield", np=NPs)

        class FA:
            @staticmethod
            def asfearray(x, b=False):
                return x
        g["FeArray"] = FA
        new = np.empty((1, 2), dtype=object)
        old = np.empty((1, 2), dtype=object)
        new[0, 0], new[0, 1], old[0, 0], old[0, 1] = c.sym("a"), c.sym("c"), c.sym("b"), c.sym("d")
        newc = new.copy()

        class PFM:
            solver = "History"

            @staticmethod
            def Calc_psi_e_pg(eps):
                return newc, None
        me = sx.Mock("self", phaseFieldModel=PFM, displacement=np.zeros(4), damage=np.zeros(2), mesh=sx.Mock("mesh", Nn=2), dim=2,
                     _Calc_Epsilon_e_pg=lambda u, ge, mt: "eps", _PhaseField__old_psiP_e_pg=old)
        f = extract.compile_fn(extract.get(SPF, "PhaseField.__Calc_psiPlus_e_pg"), g)
        out = f(me, "group")
        for p in range(2):
            nv, ov = new[0, p], old[0, p]
            want = nv if nv >= ov else ov
            if canary:
                want = nv
            n += 1
            if not (out[0, p] == want):
                raise Refuted(f"history energy at point {p} is {out[0,p]} with new={nv.w}, old={ov.w}: not max(new, old)",
                              cex={k: str(v) for k, v in wit.items()}, signature="history:max", replay=dict(confirmed=True, note="symbolic run with witness"))
        if old[0, 0] is not me._PhaseField__old_psiP_e_pg[0, 0] and False:
            pass
    return Verdict(DISCHARGED, backend="symbolic execution with witness paths", sub=n)


def ob_lb():
    """Get_lb_ub: BoundConstrain -> lower bound is the current damage (capped below 1), upper bound 1; other solvers -> no bounds."""
    from EasyFEA import Models
    g = sx.module_globals("EasyFEA.Simulations._phasefield")
    f = extract.compile_fn(extract.get(SPF, "PhaseField.Get_lb_ub"), g, exact=False)
    dmg = np.array([0.0, 0.3, 1.0, 0.7])

    class PT:
        damage, elastic = "damage", "elastic"
    n = 0
    for solver in Models.PhaseField.SolverType:
        me = sx.Mock("self", ProblemTypes=PT, phaseFieldModel=sx.Mock("pfm", solver=solver), damage=dmg.copy())
        lb, ub = f(me, "damage")
        n += 1
        if solver == Models.PhaseField.SolverType.BoundConstrain:
            if not (len(lb) == 4 and np.all(lb[[0, 1, 3]] == dmg[[0, 1, 3]]) and lb[2] < 1 and lb[2] > 1 - 1e-12 and np.all(ub == 1)):
                raise Refuted(f"BoundConstrain bounds are lb={lb}, ub={ub} for damage {dmg}", signature="lb:bound", replay=dict(confirmed=True))
        elif len(lb) or len(ub):
            raise Refuted(f"solver {solver} passes bounds", signature="lb:other", replay=dict(confirmed=True))
    me = sx.Mock("self", ProblemTypes=PT, phaseFieldModel=sx.Mock("pfm", solver=Models.PhaseField.SolverType.BoundConstrain), damage=dmg.copy())
    lb, ub = f(me, "elastic")
    if len(lb) or len(ub):
        raise Refuted("displacement problem gets bounds", signature="lb:elastic", replay=dict(confirmed=True))
    return Verdict(DISCHARGED, backend="execution of the extracted function", sub=n + 1)


# ---------------------------------------------------------------- B: 2-D eigen decomposition on exact values

KINDS2 = ["generic", "zero", "hydro", "uniaxial", "shear"]


def _point2(c, kind, tag):
    if kind == "generic":
        return [c.sym(f"x{tag}"), c.sym(f"y{tag}"), c.sym(f"s{tag}")]
    if kind == "zero":
        return [F(0), F(0), F(0)]
    if kind == "hydro":
        return [c.sym(f"x{tag}"), c.sym(f"x{tag}"), F(0)]
    if kind == "uniaxial":
        return [c.sym(f"x{tag}"), F(0), F(0)]
    if kind == "shear":
        return [F(0), F(0), c.sym(f"s{tag}")]
    raise ValueError(kind)


def ob_eig2d(shape, kinds):
    Ne, nPg = shape
    tags = [f"{e}{p}" for e in range(Ne) for p in range(nPg)]
    names = [f"{v}{t}" for t in tags for v in "xys"]
    wit = {}
    for i, t in enumerate(tags):
        wit[f"x{t}"], wit[f"y{t}"], wit[f"s{t}"] = F(3 + i, 7), F(-2 - i, 5), F(1 + i, 3)
    c = Ctx(names, nspare=2 * len(tags) + 2, witness=wit)
    symrun.install(c, gauss="float")
    pf = _model("Miehe", 2)
    eps = np.empty((Ne, nPg, 3), dtype=object)
    r2 = c.sqrt_rational(F(2))
    for (e, p), kind, t in zip(itertools.product(range(Ne), range(nPg)), kinds, tags):
        v = _point2(c, kind, t)
        eps[e, p, 0], eps[e, p, 1], eps[e, p, 2] = v[0], v[1], r2 * v[2]      # Kelvin-Mandel vector
    from EasyFEA.FEM._linalg import FeArray
    vals, list_m, list_M = pf._Eigen_values_vectors_projectors(FeArray.asfearray(eps))
    vals = np.asarray(vals)
    Ms = [np.asarray(M) for M in list_M]
    n = 0
    lift = lambda v: v if isinstance(v, X) else c.const(v)
    for (e, p), kind, t in zip(itertools.product(range(Ne), range(nPg)), kinds, tags):
        v = _point2(c, kind, t)
        A = [[lift(v[0]), lift(v[2])], [lift(v[2]), lift(v[1])]]
        M1, M2 = Ms[0][e, p], Ms[1][e, p]
        l1, l2 = lift(vals[e, p, 0]), lift(vals[e, p, 1])
        for i in range(2):
            for j in range(2):
                checks = [("sum M = I", lift(M1[i, j]) + lift(M2[i, j]), c.const(1 if i == j else 0)),
                          ("sum lambda M = eps", l1 * lift(M1[i, j]) + l2 * lift(M2[i, j]), A[i][j]),
                          ("M1 M1 = M1", sum((lift(M1[i, k]) * lift(M1[k, j]) for k in range(2)), c.const(0)), lift(M1[i, j])),
                          ("M1 M2 = 0", sum((lift(M1[i, k]) * lift(M2[k, j]) for k in range(2)), c.const(0)), c.const(0)),
                          ("trace M1 = 1 (rank-one projector, as the split formulas assume)", lift(M1[0, 0]) + lift(M1[1, 1]), c.const(1))]
                for nm, a, b in checks:
                    n += 1
                    if not (a == b):
                        raise Refuted(f"2-D eigen decomposition, field {shape} kinds {kinds}: `{nm}` fails at element {e} point {p} ({kind}) entry ({i},{j}): {a - b}",
                                      cex=dict(kinds=list(kinds), element=e, point=p), signature=f"eig2d:{nm}", replay=_replay_eig(2, kinds, shape))
        n += 1
        if (l2 - l1).sign() < 0:
            raise Refuted(f"eigenvalues not ordered at element {e} point {p}", signature="eig2d:order", replay=_replay_eig(2, kinds, shape))
        # eigenvalues are roots of the characteristic polynomial
        tr, det = A[0][0] + A[1][1], A[0][0] * A[1][1] - A[0][1] * A[1][0]
        for l in (l1, l2):
            n += 1
            if not (l * l - tr * l + det == 0):
                raise Refuted(f"eigenvalue at element {e} point {p} is not a root of the characteristic polynomial", signature="eig2d:charpoly", replay=_replay_eig(2, kinds, shape))
    return Verdict(DISCHARGED, backend="real method on exact field elements; identities modulo s^2 = delta", sub=n, detail=f"path conditions: {len(c.pc)}")


def _state(dim, kind, rng):
    """Kelvin-Mandel strain vector of a designated kind (floats)."""
    r2 = np.sqrt(2)
    Q = np.linalg.qr(rng.normal(size=(dim, dim)))[0]
    if kind == "generic":
        lam = rng.normal(size=dim)
    elif kind == "zero":
        lam = np.zeros(dim)
    elif kind == "hydro_exact":
        lam = np.full(dim, 0.013)
        Q = np.eye(dim)                 # exactly repeated principal values in floats
    elif kind == "hydro":
        lam = np.full(dim, 0.013)
    elif kind == "uniaxial":
        lam = np.zeros(dim)
        lam[0] = 0.02
        Q = np.eye(dim)
    elif kind == "two_equal_max":
        lam = np.array([-0.01] + [0.02] * (dim - 1))
    elif kind == "two_equal_min":
        lam = np.array([0.01] * (dim - 1) + [0.03])
    elif kind == "two_equal_axis":
        lam = np.array([0.02] + [0.01] * (dim - 1))
        Q = np.eye(dim)
    elif kind == "compress":
        lam = -np.abs(rng.normal(size=dim)) * 0.01
    else:
        raise ValueError(kind)
    A = Q @ np.diag(lam) @ Q.T
    if dim == 2:
        return np.array([A[0, 0], A[1, 1], r2 * A[0, 1]]), A
    return np.array([A[0, 0], A[1, 1], A[2, 2], r2 * A[1, 2], r2 * A[0, 2], r2 * A[0, 1]]), A


def _replay_eig(dim, kinds, shape):
    """native float run of the real 2-D method at the witness values of the exact obligation."""
    try:
        from EasyFEA.FEM._linalg import FeArray
        Ne, nPg = shape
        pf = _model("Miehe", 2)
        eps = np.zeros((Ne, nPg, 3))
        r2 = np.sqrt(2)
        import itertools as it
        for i, ((e, p), kind) in enumerate(zip(it.product(range(Ne), range(nPg)), kinds)):
            x, y, sh = (3 + i) / 7, (-2 - i) / 5, (1 + i) / 3
            v = {"generic": (x, y, sh), "zero": (0, 0, 0), "hydro": (x, x, 0), "uniaxial": (x, 0, 0), "shear": (0, 0, sh)}[kind]
            eps[e, p] = (v[0], v[1], r2 * v[2])
        vals, lm, lM = pf._Eigen_values_vectors_projectors(FeArray.asfearray(eps.copy()))
        vals = np.asarray(vals)
        M1, M2 = np.asarray(lM[0]), np.asarray(lM[1])
        worst = 0.0
        for e in range(Ne):
            for p in range(nPg):
                A = np.array([[eps[e, p, 0], eps[e, p, 2] / r2], [eps[e, p, 2] / r2, eps[e, p, 1]]])
                worst = max(worst, np.abs(M1[e, p] + M2[e, p] - np.eye(2)).max(), np.abs(vals[e, p, 0] * M1[e, p] + vals[e, p, 1] * M2[e, p] - A).max(),
                            np.abs(M1[e, p] @ M1[e, p] - M1[e, p]).max(), abs(np.trace(M1[e, p]) - 1.0))
        return dict(confirmed=bool(worst > 1e-9), worst_invariant_error=float(worst), eps=eps.tolist())
    except Exception as e:
        return dict(confirmed=True, raised=repr(e))


STATE_KINDS = ["generic", "zero", "hydro", "hydro_exact", "uniaxial", "two_equal_max", "two_equal_min", "two_equal_axis", "compress"]


def _fields(dim, seed):
    """list of (label, eps field (Ne,nPg,D), matrices) : uniform single-point fields and mixed fields."""
    rng = np.random.default_rng(seed)
    out = []
    for k in STATE_KINDS:
        v, A = _state(dim, k, rng)
        out.append((k, v[None, None, :].copy(), [[A]]))
    mixes = [("generic", "zero"), ("generic", "hydro"), ("hydro", "generic"), ("generic", "hydro_exact"), ("hydro_exact", "generic"), ("generic", "uniaxial"), ("generic", "two_equal_max"), ("two_equal_min", "generic"), ("zero", "uniaxial")]
    for a, b in mixes:
        va, Aa = _state(dim, a, rng)
        vb, Ab = _state(dim, b, rng)
        vc, Ac = _state(dim, "generic", rng)
        f = np.array([[va, vb], [vc, va]])
        out.append((f"mixed[{a},{b};generic,{a}]", f, [[Aa, Ab], [Ac, Aa]]))
    return out


def ob_split(split, dim, aniso, seed):
    """run-time contracts on the real model (floats)."""
    pf = _model(split, dim, aniso=aniso)
    C = np.asarray(pf.material.C, dtype=float)
    n = 0
    for label, eps, mats in _fields(dim, seed):
        sig = f"split:{split}:{dim}d:{label}"
        with np.errstate(all="ignore"):
            try:
                from EasyFEA.FEM._linalg import FeArray
                fe = lambda: FeArray.asfearray(eps.copy())     # requires: strain field is a FeArray (as every call site passes)
                cP, cM = pf.Calc_C(fe())
                sP, sM = pf.Calc_Sigma_e_pg(fe())
                pP, pM = pf.Calc_psi_e_pg(fe())
            except Exception as ex:
                raise Refuted(f"{split} {dim}-D on {label}: raises {type(ex).__name__}: {ex}", cex=dict(state=label, eps=eps.tolist()), signature=sig + ":raises",
                              replay=dict(confirmed=True))
        cP, cM, sP, sM, pP, pM = (np.asarray(a, dtype=float) for a in (cP, cM, sP, sM, pP, pM))
        rec = dict(state=label, eps=eps.tolist())
        n += 1
        if not (np.isfinite(cP).all() and np.isfinite(cM).all() and np.isfinite(sP).all() and np.isfinite(pP).all() and np.isfinite(pM).all()):
            raise Refuted(f"{split} {dim}-D on {label}: non-finite split matrices / stresses / energies", cex=rec, signature=sig + ":finite",
                          replay=dict(confirmed=True, nan_in_cP=bool(np.isnan(cP).any())))
        scale = np.abs(C).max()
        n += 1
        err = float(np.abs(cP + cM - C).max() / scale)
        if err > 1e-9:
            raise Refuted(f"{split} {dim}-D on {label}: cP + cM differs from C by {err:.3e} (relative)", cex=rec, signature=sig + ":partition",
                          replay=dict(confirmed=True, rel_err=err))
        s = np.einsum("ij,epj->epi", C, eps)
        es = float(np.abs(sP + sM - s).max() / max(np.abs(s).max(), 1e-30))
        n += 1
        if np.abs(s).max() > 0 and es > 1e-9:
            raise Refuted(f"{split} {dim}-D on {label}: sigma+ + sigma- differs from C eps by {es:.3e}", cex=rec, signature=sig + ":stress", replay=dict(confirmed=True, rel_err=es))
        if split == "Miehe" and not aniso:
            # independent reference (Miehe et al. 2010): psi+ = lam/2 <tr eps>+^2 + mu sum <eps_i>+^2, eigenvalues from numpy eigh
            E_, nu = 3.0, 0.25
            lam, mu = E_ * nu / ((1 + nu) * (1 - 2 * nu)), E_ / (2 * (1 + nu))
            for e in range(eps.shape[0]):
                for p in range(eps.shape[1]):
                    w = np.linalg.eigvalsh(mats[e][p])
                    tr = w.sum()
                    refP = lam / 2 * max(tr, 0) ** 2 + mu * (np.maximum(w, 0) ** 2).sum()
                    refM = lam / 2 * min(tr, 0) ** 2 + mu * (np.minimum(w, 0) ** 2).sum()
                    n += 1
                    sc = max(refP + refM, 1e-30)
                    if abs(pP[e, p] - refP) > 1e-6 * sc or abs(pM[e, p] - refM) > 1e-6 * sc:
                        raise Refuted(f"Miehe {dim}-D on {label}: psi+ = {pP[e,p]:.6e}, psi- = {pM[e,p]:.6e} at element {e} point {p}; "
                                      f"reference from numpy eigh: {refP:.6e}, {refM:.6e}", cex=dict(**rec, element=e, point=p), signature=sig + ":miehe_reference",
                                      replay=dict(confirmed=True, psiP=float(pP[e, p]), refP=float(refP), psiM=float(pM[e, p]), refM=float(refM)))
        psi = 0.5 * np.einsum("epi,epi->ep", eps, s)
        ep_ = float(np.abs(pP + pM - psi).max() / max(np.abs(psi).max(), 1e-30))
        n += 1
        if np.abs(psi).max() > 0 and ep_ > 1e-9:
            raise Refuted(f"{split} {dim}-D on {label}: psi+ + psi- differs from the undamaged energy by {ep_:.3e}", cex=rec, signature=sig + ":energy", replay=dict(confirmed=True, rel_err=ep_))
    return Verdict(DISCHARGED, backend="native float run of the real model (run-time contract 1e-9)", sub=n)


def ob_eig_native(dim, seed):
    """Spectral projectors of the real code agree with an independent eigen-decomposition (numpy eigh) on the designated fields."""
    pf = _model("Miehe", dim)
    n = 0
    for label, eps, mats in _fields(dim, seed):
        with np.errstate(all="ignore"):
            try:
                from EasyFEA.FEM._linalg import FeArray
                vals, list_m, list_M = pf._Eigen_values_vectors_projectors(FeArray.asfearray(eps.copy()))
            except Exception as ex:
                raise Refuted(f"eigen {dim}-D on {label}: raises {type(ex).__name__}: {ex}", signature=f"eig{dim}d:{label}:raises", cex=dict(state=label), replay=dict(confirmed=True))
        vals = np.asarray(vals, dtype=float)
        Ms = [np.asarray(M, dtype=float) for M in list_M]
        for e in range(eps.shape[0]):
            for p in range(eps.shape[1]):
                A = mats[e][p]
                w = np.linalg.eigvalsh(A)
                n += 1
                sig = f"eig{dim}d:{label}"
                if not np.isfinite(vals[e, p]).all() or not all(np.isfinite(M[e, p]).all() for M in Ms):
                    raise Refuted(f"eigen {dim}-D on {label}: non-finite eigenvalues/projectors at element {e} point {p}", cex=dict(state=label, matrix=A.tolist()),
                                  signature=sig + ":finite", replay=dict(confirmed=True))
                scale = max(np.abs(w).max(), 1e-30)
                if np.abs(np.sort(vals[e, p]) - w).max() > 1e-6 * max(scale, 1e-12) and np.abs(w).max() > 0:
                    raise Refuted(f"eigen {dim}-D on {label}: eigenvalues {vals[e,p]} differ from numpy eigh {w} at element {e} point {p}",
                                  cex=dict(state=label, matrix=A.tolist()), signature=sig + ":values", replay=dict(confirmed=True, code=vals[e, p].tolist(), eigh=w.tolist()))
                S = sum(M[e, p] for M in Ms)
                R = sum(vals[e, p, i] * Ms[i][e, p] for i in range(dim))
                if np.abs(S - np.eye(dim)).max() > 1e-9 or np.abs(R - A).max() > 1e-6 * max(scale, 1e-12) + 1e-15:
                    raise Refuted(f"eigen {dim}-D on {label}: projectors do not resolve the identity / reconstruct the tensor at element {e} point {p}",
                                  cex=dict(state=label, matrix=A.tolist()), signature=sig + ":projectors",
                                  replay=dict(confirmed=True, sum_err=float(np.abs(S - np.eye(dim)).max()), recon_err=float(np.abs(R - A).max())))
    # positive / negative projection of the tensor: projP . eps == sum_i <eps_i>+ v_i v_i^T  computed with numpy eigh (well defined for
    # repeated eigenvalues), projM . eps the negative part, projP + projM == identity
    r2 = np.sqrt(2)
    for label, eps, mats in _fields(dim, seed):
        from EasyFEA.FEM._linalg import FeArray
        with np.errstate(all="ignore"):
            projP, projM = pf._PhaseField__Spectral_Decomposition(FeArray.asfearray(eps.copy()))
        projP, projM = np.asarray(projP, dtype=float), np.asarray(projM, dtype=float)
        for e in range(eps.shape[0]):
            for p in range(eps.shape[1]):
                A = mats[e][p]
                w, V = np.linalg.eigh(A)
                Ap = (V * np.maximum(w, 0)) @ V.T
                km = (lambda M: np.array([M[0, 0], M[1, 1], r2 * M[0, 1]])) if dim == 2 else (lambda M: np.array([M[0, 0], M[1, 1], M[2, 2], r2 * M[1, 2], r2 * M[0, 2], r2 * M[0, 1]]))
                gotP, gotM = projP[e, p] @ eps[e, p], projM[e, p] @ eps[e, p]
                scale = max(np.abs(A).max(), 1e-30)
                n += 1
                if np.abs(gotP - km(Ap)).max() > 1e-7 * scale or np.abs(gotM - km(A - Ap)).max() > 1e-7 * scale:
                    raise Refuted(f"spectral decomposition {dim}-D on {label}: projP.eps / projM.eps differ from the positive / negative parts computed with numpy eigh "
                                  f"at element {e} point {p} (err {np.abs(gotP - km(Ap)).max():.3e})", cex=dict(state=label, matrix=A.tolist()),
                                  signature=f"spectral{dim}d:{label}", replay=dict(confirmed=True, code=gotP.tolist(), eigh=km(Ap).tolist()))
                if np.abs(projP[e, p] + projM[e, p] - np.eye(eps.shape[2])).max() > 1e-9:
                    raise Refuted(f"spectral decomposition {dim}-D on {label}: projP + projM != I", signature=f"spectral{dim}d:{label}:sum", cex=dict(state=label), replay=dict(confirmed=True))
    return Verdict(DISCHARGED, backend="native float run vs numpy eigh (1e-9)", sub=n)


def _km_basis(dim):
    r2 = np.sqrt(2)
    if dim == 2:
        pairs = [(0, 0, 1.0), (1, 1, 1.0), (0, 1, 1 / r2)]
    else:
        pairs = [(0, 0, 1.0), (1, 1, 1.0), (2, 2, 1.0), (1, 2, 1 / r2), (0, 2, 1 / r2), (0, 1, 1 / r2)]
    out = []
    for i, j, c in pairs:
        E = np.zeros((dim, dim))
        E[i, j] += c
        E[j, i] += c if i != j else 0.0
        out.append(E)
    return out


def _frechet_positive_part(A):
    """Kelvin-Mandel matrix of the derivative of A -> A+ (positive part of a symmetric tensor), from numpy eigh: sum_ij theta_ij (v_i v_i^T) H (v_j v_j^T) with
    theta_ij = (f(l_i) - f(l_j)) / (l_i - l_j), f' (l_i) for equal values (Daleckii-Krein); defined where no principal value is exactly zero"""
    dim = A.shape[0]
    w, V = np.linalg.eigh(A)
    f, df = np.maximum(w, 0), (w > 0).astype(float)
    r2 = np.sqrt(2)
    km = (lambda M: np.array([M[0, 0], M[1, 1], r2 * M[0, 1]])) if dim == 2 else (lambda M: np.array([M[0, 0], M[1, 1], M[2, 2], r2 * M[1, 2], r2 * M[0, 2], r2 * M[0, 1]]))
    sc = max(np.abs(w).max(), 1e-300)
    D = []
    for H in _km_basis(dim):
        Hh = V.T @ H @ V
        R = np.zeros_like(Hh)
        for i in range(dim):
            for j in range(dim):
                th = df[i] if abs(w[i] - w[j]) <= 1e-12 * sc else (f[i] - f[j]) / (w[i] - w[j])
                R[i, j] = th * Hh[i, j]
        D.append(km(V @ R @ V.T))
    return np.array(D).T


def ob_projector_frechet(dim, seed):
    """the positive projector is the derivative of eps -> eps+ : compared with the closed form built on numpy eigh at generic states and at states with repeated
    principal values (in the repeated eigen-plane the limit of the divided differences is the derivative of the positive part)"""
    from EasyFEA.FEM._linalg import FeArray
    pf = _model("Miehe", dim)
    n = 0
    for label, eps, mats in _fields(dim, seed):
        with np.errstate(all="ignore"):
            projP, projM = pf._PhaseField__Spectral_Decomposition(FeArray.asfearray(eps.copy()))
        projP = np.asarray(projP, dtype=float)
        for e in range(eps.shape[0]):
            for p in range(eps.shape[1]):
                A = mats[e][p]
                w = np.linalg.eigvalsh(A)
                if np.abs(w).min() <= 1e-9 * max(np.abs(w).max(), 1e-300):
                    continue                         # the positive part is not differentiable where a principal value vanishes
                want = _frechet_positive_part(A)
                err = float(np.abs(projP[e, p] - want).max())
                n += 1
                if err > 1e-7:
                    raise Refuted(f"positive projector {dim}-D on {label} (principal values {np.round(w, 5).tolist()}), element {e} point {p}: differs from d(eps+)/d(eps) by {err:.3e}",
                                  cex=dict(state=label, matrix=A.tolist()), signature=f"frechet{dim}d:{label.split('[')[0]}", replay=dict(confirmed=True, err=err, code=projP[e, p].tolist(), reference=want.tolist()))
    if n < 8:
        raise Unsupported("too few differentiable states")
    return Verdict(DISCHARGED, backend="native float run vs Daleckii-Krein formula on numpy eigh (1e-7)", sub=n)


def ob_eig_near_hydrostatic():
    """3-D strains that are hydrostatic up to a small uniaxial deviator, eps = a (I + delta n (x) n): all principal values are positive, so eps+ == eps and the negative parts vanish"""
    from EasyFEA.FEM._linalg import FeArray
    pf = _model("Miehe", 3)
    r2 = np.sqrt(2)
    km = lambda M: np.array([M[0, 0], M[1, 1], M[2, 2], r2 * M[1, 2], r2 * M[0, 2], r2 * M[0, 1]])
    n_ = np.array([1.0, 2.0, 3.0]) / np.sqrt(14.0)
    worst, at = 0.0, None
    for a in (1e-3, 1.0):
        for delta in (1e-3, 1e-5, 1e-6, 1e-7, 1e-9):
            A = a * (np.eye(3) + delta * np.outer(n_, n_))
            eps = km(A)[None, None, :]
            with np.errstate(all="ignore"):
                projP, projM = pf._PhaseField__Spectral_Decomposition(FeArray.asfearray(eps.copy()))
            got = np.asarray(projP)[0, 0] @ eps[0, 0]
            e = float(np.abs(got - eps[0, 0]).max() / np.abs(eps).max())
            if not np.isfinite(e):
                e = float("inf")
            if e > worst:
                worst, at = e, (a, delta)
    if worst > 1e-6:
        raise Refuted(f"3-D strain a (I + delta n (x) n) with a = {at[0]:g}, delta = {at[1]:g} (three positive principal values): projP . eps differs from eps by {worst:.3e} |eps| "
                      "(the nearly repeated principal values are sent to the three-distinct-values branch, which divides by their round-off gap)", cex=dict(a=at[0], delta=at[1], n=n_.tolist()),
                      signature="eig3d:nearhydro", replay=dict(confirmed=True, rel_err=worst))
    return Verdict(DISCHARGED, backend="native vs the state itself", sub=10)


def ob_damage_monotone(solver):
    """Load / unload sequence on a small mesh (native floats): between saved steps the stored nodal damage (damage-based solvers) and the
    history energy at every integration point (History solver) never decrease; with no loading the damage stays zero."""
    from EasyFEA import Models, Simulations, SolverType
    from . import patches
    PF = Models.PhaseField
    coords, connect = patches.star_patch("QUAD4", affine=None)      # square [-3,1]^2: whole edges can be clamped / pulled
    mesh = patches.real_mesh("QUAD4", coords, connect)
    mat = Models.Elastic.Isotropic(2, E=3.0, v=0.25, planeStress=False)
    pfm = PF(mat, PF.SplitType.Miehe, PF.ReguType.AT2, Gc=1.0, l0=0.8, solver=PF.SolverType[solver])
    simu = Simulations.PhaseField(mesh, pfm)
    simu.solver = SolverType.scipy
    co = np.asarray(mesh.coord)
    n0 = np.where(np.isclose(co[:, 0], co[:, 0].min()))[0]
    n1 = np.where(np.isclose(co[:, 0], co[:, 0].max()))[0]
    loads = [0.0, 0.6, 1.2, 0.5, 0.0, 0.9]
    dam, hist = [], []
    for k, ud in enumerate(loads):
        simu.Bc_Init()
        simu.add_dirichlet(n0, [0, 0], ["x", "y"])
        simu.add_dirichlet(n1, [ud], ["x"])
        u, d, Kglob_or_conv = simu.Solve(tolConv=1e-3, maxIter=50)[:3] if True else (None, None, None)
        simu.Save_Iter()
        dam.append(np.asarray(simu.Get_results(k)["damage"]).copy())
        if solver == "History":
            h = getattr(simu, "_PhaseField__old_psiP_e_pg")
            hist.append(np.asarray(h).copy())
    if np.abs(dam[0]).max() > 1e-12:
        raise Refuted(f"{solver}: damage is not zero without loading (max {np.abs(dam[0]).max():.3e})", signature=f"monotone:{solver}:zero", cex=dict(loads=loads), replay=dict(confirmed=True))
    if solver in ("HistoryDamage", "BoundConstrain"):
        for k in range(1, len(dam)):
            dec = float((dam[k - 1] - dam[k]).max())
            if dec > 1e-9:
                raise Refuted(f"{solver}: saved nodal damage decreases between saved steps {k-1} and {k} (imposed displacement {loads[k-1]} -> {loads[k]}): max decrease {dec:.3e}",
                              cex=dict(loads=loads, step=k), signature=f"monotone:{solver}:damage",
                              replay=dict(confirmed=True, max_damage=[float(d.max()) for d in dam]))
    else:
        for k in range(1, len(hist)):
            if hist[k].shape == hist[k - 1].shape:
                dec = float((hist[k - 1] - hist[k]).max())
                if dec > 1e-12:
                    raise Refuted(f"History: history energy decreases between saved steps {k-1} and {k} (max decrease {dec:.3e})", cex=dict(loads=loads, step=k),
                                  signature="monotone:History:psi", replay=dict(confirmed=True))
    return Verdict(DISCHARGED, backend="native float run (run-time contract)", detail=f"max damage per step {[round(float(d.max()), 4) for d in dam]}")


def ob_history_damage_stored():
    """Solve(): with the HistoryDamage solver the irreversible field max(old, new) is what the simulation keeps (it is stored by Save_Iter),
    not only what is returned.  AST path rule."""
    from vt import eff
    fn = extract.get(SPF, "PhaseField.Solve")
    n = 0
    for p in eff.paths(fn):
        if ("branch", "solver == solverTypes.HistoryDamage", True) in p:
            n += 1
            ok = any(e[0] == "call" and e[1] in ("self._Set_solutions", "self._Simu__Set_u_n") and "d_np1" in e[2] for e in p)
            if not ok:
                raise Refuted("PhaseField.Solve: HistoryDamage computes max(old, new) but never stores it in the simulation (Save_Iter then saves the raw solved damage)",
                              signature="history_damage:stored", replay=_replay_hd())
            break
    if n == 0:
        raise Unsupported("HistoryDamage branch not found")
    return Verdict(DISCHARGED, backend="AST path analysis", sub=n)


def _replay_hd():
    try:
        ob_damage_monotone("HistoryDamage")
        return dict(confirmed=False)
    except Refuted as r:
        return dict(confirmed=True, detail=str(r)[:300])
    except Exception as e:
        return dict(confirmed=False, error=repr(e))


def build(tier, seed):
    obs = []
    for solver in ("History", "HistoryDamage", "BoundConstrain"):
        obs.append(Ob(f"C17.monotone.{solver}", ob_damage_monotone, (solver,), "X", (f"{SPF}::PhaseField.Solve", f"{SPF}::PhaseField.Save_Iter"),
                      bound="one 4-element mesh, one load/unload/reload sequence of 6 saved steps", clause="stored damage / history energy never decreases between saved steps; zero without loading", timeout=600))
    obs.append(Ob("C17.history_damage.stored", ob_history_damage_stored, (), "E", (f"{SPF}::PhaseField.Solve",), clause="HistoryDamage: max(old, new) is stored in the simulation state"))
    obs.append(Ob("C17.terms", ob_terms, (), "P", (f"{MP}::PhaseField.k", f"{MP}::PhaseField.c_w", f"{MP}::PhaseField.Get_r_e_pg", f"{MP}::PhaseField.Get_f_e_pg"),
                  clause="AT1/AT2 diffusion, reaction and source terms equal their documented formulas (symbolic Gc, l0, psi)"))
    obs.append(Ob("C17.history.max", ob_history_max, (), "P", (f"{SPF}::PhaseField.__Calc_psiPlus_e_pg",),
                  clause="History solver: psi+ returned == max(new, old) pointwise, hence never decreases"))
    obs.append(Ob("C17.lb", ob_lb, (), "P", (f"{SPF}::PhaseField.Get_lb_ub",), clause="BoundConstrain: lower bound of the bounded solve is the previous damage"))
    shapes = {(1, 1): [(k,) for k in KINDS2], (1, 2): list(itertools.product(KINDS2, repeat=2))}
    if tier == "thorough":
        import random
        rnd = random.Random(seed)
        all4 = list(itertools.product(KINDS2, repeat=4))
        rnd.shuffle(all4)
        shapes[(2, 2)] = all4[:60]
    else:
        shapes[(2, 2)] = [("generic", "zero", "hydro", "uniaxial"), ("shear", "generic", "generic", "zero")]
    for shape, combos in shapes.items():
        for kinds in combos:
            obs.append(Ob(f"C17.eig2d.{shape[0]}x{shape[1]}." + "-".join(kinds), ob_eig2d, (shape, kinds), "B", (f"{MP}::PhaseField._Eigen_values_vectors_projectors",),
                          bound=f"field shape {shape}; each point independently generic/zero/hydrostatic/uniaxial/pure-shear, symbolic values",
                          clause="sum M = I, sum lambda M = eps, idempotent/orthogonal projectors, ordered eigenvalues, roots of the characteristic polynomial", timeout=300))
    for dim in (2, 3):
        obs.append(Ob(f"C17.eig.native.{dim}d", ob_eig_native, (dim, seed), "X", (f"{MP}::PhaseField._Eigen_values_vectors_projectors",),
                      bound="14 designated fields (8 uniform kinds + 6 mixed 2x2 fields), floats", clause="finite; eigenvalues/projectors agree with numpy eigh", timeout=120))
        if dim == 3:
            obs.append(Ob("C17.eig.native.3d.nearhydro", ob_eig_near_hydrostatic, (), "X", (f"{MP}::PhaseField._Eigen_values_vectors_projectors",), bound="10 states a (I + delta n (x) n), delta from 1e-3 to 1e-9",
                          clause="nearly hydrostatic tensile states: eps+ == eps", timeout=120))
        obs.append(Ob(f"C17.projector.frechet.{dim}d", ob_projector_frechet, (dim, seed), "X", (f"{MP}::PhaseField.__Spectral_Decomposition",),
                      bound="designated fields with no vanishing principal value (generic, hydrostatic, two equal largest / smallest values, compression; uniform and mixed), floats",
                      clause="P+ == d(eps+)/d(eps) as given by the divided-difference formula on an independent eigen-decomposition", timeout=120))
        for split in _splits():
            for aniso in ((False, True) if tier == "thorough" else (False,)):
                from EasyFEA import Models
                if aniso and split in [str(s) for s in Models.PhaseField._PhaseField__SPLITS_ISOT]:
                    continue
                obs.append(Ob(f"C17.split.{split}.{dim}d{'.aniso' if aniso else ''}", ob_split, (split, dim, aniso, seed), "X",
                              (f"{MP}::PhaseField.Calc_C", f"{MP}::PhaseField.Calc_Sigma_e_pg", f"{MP}::PhaseField.Calc_psi_e_pg"),
                              bound="14 designated strain fields, floats", clause="finite; cP + cM = C; stresses and energies partition", timeout=180))
    obs.append(Ob("canary.history.max", ob_history_max, (True,), "P", expect=REFUTED))
    functions = {q: extract.get(MP, f"PhaseField.{q}").describe() for q in ("_Eigen_values_vectors_projectors", "Calc_C", "Get_r_e_pg", "Get_f_e_pg")}
    functions["__Calc_psiPlus_e_pg"] = extract.get(SPF, "PhaseField.__Calc_psiPlus_e_pg").describe()
    from . import C15
    for variant in (None, "HistoryDamage", "BoundConstrain"):
        obs.append(Ob(f"C17.restore.replay.{variant or 'History'}", C15.ob_roundtrip, ("PhaseField", "memory", False, variant), "X", (f"{SPF}::PhaseField.Set_Iter", f"{SPF}::PhaseField.Solve"),
                      bound="3 solved and saved load steps on a 9-node patch, restart from iteration 0", timeout=300,
                      clause="restarting from a stored iteration and applying the next load again gives the stored next iteration (damage and displacement): no damage system of a later state is reused"))
    obs += ops.phasefield_obligations('C17', tier)
    obs.append(ops.selfcheck_ob('C17'))
    return dict(
        obs=obs, level="other", min_obligations=40,
        explanation=("Closed-form terms and the history maximum are proved from the AST. The 2-D eigen-decomposition is the real method run on exact "
                     "symbolic strains for every combination of degenerate and generic points in small fields (complete in values). The 14 splits in 2-D and "
                     "3-D and the 3-D Lode-angle eigen code (arccos/cos: not algebraic) are checked by run-time contracts on the real model at designated "
                     "degenerate/generic/mixed states in floats -- bounded and sampled, labelled X."),
        trusted_base=ops.GP_TRUST + ["vt/npshim.py + vt/symrun.py", "numpy eigh as independent oracle for the float contracts", "sympy normal form"],
        assumptions=["monotonicity of the SOLVED damage field for the unconstrained linear solve is not addressed (discrete maximum principle, not code)",
                     "staggered-loop convergence not addressed", "3-D eigen code: float run-time contracts only"],
        functions=functions,
        dropped=["B/X: imported code unmodified (np replaced in module globals)"],
        not_attempted=["C17.eig3d symbolic (arccos/cos)", "split partition as exact identities (B-tier) for the 14 splits"],
    )
