"""C05 -- time schemes: update rule, discrete equation of motion, weights, energy.

P-tier.  The five real functions of `_simu.py` are extracted from the file at every run and
executed on the formal domain  sum coef(dt,alpha,beta,gamma) * (Mat (x) vec): K, C, M are
abstract matrices of any size (no symmetry assumed unless stated), u_n, v_n, a_n, F, fN, and
the solve unknown u* abstract vectors.  Every clause is an identity between such formal
combinations, i.e. one rational-function identity per (Mat, vec) term, decided by normal form
for ALL (dt, alpha, beta, gamma), all matrices and vectors.

Spec (from the property statement and the scheme definitions documented in `AlgoType`):
  update   (u',v',a') returned by _Solver_Update_solutions satisfy the documented relations
  eval     (u_t,v_t,a_t) are the documented evaluation points expressed with (u',v',a')
  eom      A u* - b == K u_t + C v_t + M a_t - (F + fN),  A built by _Solver_Apply_Dirichlet,
           b by _Solver_Apply_Neumann
  weights  (cK,cC,cM) == d(u_t,v_t,a_t)/du*
  energy   newmark(1/4,1/2), midpoint: E'-E == multiplier . residual  (so E'=E on solutions);
           euler_implicit: E'-E + 1/2 dv'M dv + 1/2 du'K du == multiplier . residual
"""
from __future__ import annotations

import itertools
import random
import time
from fractions import Fraction

from vt import alg, extract, sx
from vt.alg import Ctx, Lin, X
from vt.core import Ob, Verdict, Refuted, Unsupported, DISCHARGED, REFUTED

PROP = "C05"
PATH = "EasyFEA/Simulations/_simu.py"
MOD = "EasyFEA.Simulations._simu"
FN = {
    "eval": "_Simu._Solver_Evaluate_u_v_a_for_time_scheme",
    "coefs": "_Simu._Solver_Get_K_C_M_coefs_for_time_scheme",
    "neumann": "_Simu._Solver_Apply_Neumann",
    "dirichlet": "_Simu._Solver_Apply_Dirichlet",
    "update": "_Simu._Solver_Update_solutions",
    "set_hyp": "_Simu.Solver_Set_Hyperbolic_Algorithm",
    "set_par": "_Simu.Solver_Set_Parabolic_Algorithm",
}
ALGOS = ["parabolic", "newmark", "hht", "hht_newmark", "midpoint", "euler_implicit", "euler_explicit"]


def _algo(name):
    from EasyFEA.Simulations.Solvers import AlgoType
    return AlgoType[name]


class _Captured(Exception):
    pass


def _env(algo: str, nonlinear=False, witness=None, derive_hht_newmark=True):
    """Symbolic environment for one algorithm: context, mock self, atoms."""
    names = ["dt", "alpha", "beta", "gamma"]
    c = Ctx(names, nspare=2, witness=witness)
    dt, alpha, beta, gamma = (c.sym(n) for n in names)
    if algo == "hht_newmark" and derive_hht_newmark:
        # beta, gamma are not free: obtained by running the real setter on a mock (see set_hyp obligation)
        beta = Fraction(1, 4) * (1 + alpha) ** 2
        gamma = Fraction(1, 2) + alpha
    A = {n: Lin.atom("mat", n) for n in ("K", "C", "M")}
    V = {n: Lin.atom("vec", n) for n in ("u_n", "v_n", "a_n", "F", "fN", "ustar")}
    AlgoType = _algo(algo).__class__
    captured = {}

    def get_dirichlet_A_x(problemType, resolution, Amat, b, dofsValues):
        captured["A"] = Amat
        captured["dofsValues"] = dofsValues
        return Amat, "x"

    import numpy as np
    me = sx.Mock(
        "self",
        algo=_algo(algo),
        isNonLinear=nonlinear,
        _verbosity=False,
        _Get_u_n=lambda pt, asCsrMatrix=False: V["u_n"],
        _Get_v_n=lambda pt, asCsrMatrix=False: V["v_n"],
        _Get_a_n=lambda pt, asCsrMatrix=False: V["a_n"],
        _Simu__Solver_Get_Hyperbolic_Params=lambda: (dt, beta, gamma, alpha),
        _Simu__Solver_Get_Parabolic_Params=lambda: (dt, alpha),
        _Simu__algo=_algo(algo),
        Bc_dofs_Neumann=lambda pt: np.array([], dtype=int),
        Bc_values_Neumann=lambda pt: np.array([]),
        Bc_dofs_Dirichlet=lambda pt: np.array([], dtype=int),
        Bc_values_Dirichlet=lambda pt: np.array([]),
        _Simu__Get_Ndof=lambda pt: 0,
        Get_K_C_M_F=lambda pt=None: (A["K"], A["C"], A["M"], V["F"]),
        _Simu__Solver_Get_Dirichlet_A_x=get_dirichlet_A_x,
        _Solver_Get_Newton_Raphson_current_solution=lambda: np.array([]),
    )

    class _Sparse:
        @staticmethod
        def csr_matrix(*a, **k):
            # assumed contract of scipy COO construction: the (Ndof,1) vector of summed entered values = fN
            return V["fN"]

    class _ShapeLike:
        pass

    g = sx.module_globals(MOD, sparse=_Sparse)
    for v in V.values():
        pass
    return c, me, g, A, V, (dt, alpha, beta, gamma), captured


def _call(key, me, g, *args):
    fn = extract.get(PATH, FN[key])
    f = extract.compile_fn(fn, g, exact=True)
    return f(me, *args)


def _run_all(algo, nonlinear=False, witness=None):
    c, me, g, A, V, P, cap = _env(algo, nonlinear, witness)
    # callee wiring: Dirichlet calls the real coefs function (extracted too)
    coefs_f = extract.compile_fn(extract.get(PATH, FN["coefs"]), g)
    object.__setattr__(me, "_Solver_Get_K_C_M_coefs_for_time_scheme", lambda: coefs_f(me))
    u_t, v_t, a_t = _call("eval", me, g, "pt", V["ustar"])
    cK, cC, cM = coefs_f(me)
    b = _call("neumann", me, g, "pt")
    _call("dirichlet", me, g, "pt", b, "r1")
    Amat = cap["A"]
    up = _call("update", me, g, "pt", V["ustar"])
    return dict(c=c, A=A, V=V, P=P, u_t=u_t, v_t=v_t, a_t=a_t, coefs=(cK, cC, cM), b=b, Amat=Amat, up=up)


ZERO_V = Lin("vec", {})


def _spec_update(algo, P, V, up):
    """documented update relations -> list of (name, lhs, rhs)."""
    dt, alpha, beta, gamma = P
    u, v, a = V["u_n"], V["v_n"], V["a_n"]
    u1, v1, a1 = up
    H = Fraction(1, 2)
    if algo in ("newmark", "hht", "hht_newmark"):
        ut = u + dt * v + dt ** 2 * H * (1 - 2 * beta) * a
        return [("u'=u*", u1, V["ustar"]),
                ("a'=(u'-utilde)/(beta dt^2)", a1, (u1 - ut) / (beta * dt ** 2)),
                ("v'=v+dt[(1-gamma)a+gamma a']", v1, v + dt * ((1 - gamma) * a + gamma * a1))]
    if algo == "midpoint":
        return [("u'=u*", u1, V["ustar"]),
                ("v'=2/dt(u'-u)-v", v1, 2 / dt * (u1 - u) - v),
                ("a'=2/dt(v'-v)-a", a1, 2 / dt * (v1 - v) - a)]
    if algo == "euler_implicit":
        return [("u'=u*", u1, V["ustar"]),
                ("v'=(u'-u)/dt", v1, (u1 - u) / dt),
                ("a'=(v'-v)/dt", a1, (v1 - v) / dt)]
    if algo == "euler_explicit":
        return [("a'=a^n (solve unknown)", a1, V["ustar"]),
                ("u'=u+dt v", u1, u + dt * v),
                ("v'=v+dt a^n", v1, v + dt * V["ustar"])]
    if algo == "parabolic":
        # generalized trapezoidal rule (Hughes ch.8): u' = u + dt[(1-alpha) v + alpha v']
        return [("u'=u*", u1, V["ustar"]),
                ("u'=u+dt[(1-alpha)v+alpha v']", u1, u + dt * ((1 - alpha) * v + alpha * v1)),
                ("a' is None", a1 is None, True)]
    raise Unsupported(algo)


def _spec_eval(algo, P, V, up):
    dt, alpha, beta, gamma = P
    u, v, a = V["u_n"], V["v_n"], V["a_n"]
    u1, v1, a1 = up
    H = Fraction(1, 2)
    if algo in ("newmark", "euler_implicit"):
        return u1, v1, a1
    if algo == "hht":
        return (1 - alpha) * u1 + alpha * u, (1 - alpha) * v1 + alpha * v, (1 - alpha) * a1 + alpha * a
    if algo == "hht_newmark":
        return (1 - alpha) * u1 + alpha * u, v1, a1
    if algo == "midpoint":
        return (u1 + u) * H, (v1 + v) * H, (a1 + a) * H
    if algo == "parabolic":
        return u1, v1, None
    if algo == "euler_explicit":
        # forces evaluated at state n; the acceleration entering M a is the solve unknown a^n
        return u, v, None
    raise Unsupported(algo)


def _eq(l, r):
    if isinstance(l, bool) or isinstance(r, bool) or l is None or r is None:
        return l is r or l == r
    d = l - r
    return d.iszero() if isinstance(d, Lin) else d == 0


def _diff_point(c: Ctx, l, r, seed=0):
    """A rational parameter point where the two formal combinations differ (always exists if not identical)."""
    d = l - r
    rnd = random.Random(seed)
    for _ in range(200):
        pt = {"dt": Fraction(rnd.randint(1, 9), rnd.randint(1, 9)), "alpha": Fraction(rnd.randint(1, 9), 30),
              "beta": Fraction(rnd.randint(1, 9), rnd.randint(2, 12)), "gamma": Fraction(rnd.randint(1, 9), rnd.randint(2, 12))}
        for n in c.spare:
            pt[n] = Fraction(0)
        try:
            if isinstance(d, Lin):
                vals = {"@".join(k): (v.subs_point(pt) if isinstance(v, X) else Fraction(v)) for k, v in d.terms.items()}
                vals = {k: v for k, v in vals.items() if v != 0}
                if vals:
                    return pt, {k: str(v) for k, v in vals.items()}
            else:
                val = d.subs_point(pt) if isinstance(d, X) else Fraction(d)
                if val != 0:
                    return pt, {"scalar": str(val)}
        except ZeroDivisionError:
            continue
    return None, None


# ------------------------------------------------------------------ native float replay

def native_replay(algo: str, point: dict, seed: int = 0, raw: bool = False):
    """Runs the real functions natively (floats, numpy/scipy, no exact rewriting) on a random small
    system at the parameter point and reports the residuals of each clause."""
    import numpy as np
    from scipy import sparse
    rng = np.random.default_rng(seed)
    n = 4
    def spd():
        B = rng.normal(size=(n, n))
        return sparse.csr_matrix(B @ B.T + n * np.eye(n))
    K, C, M = spd(), spd(), spd()
    F = sparse.csr_matrix(rng.normal(size=(n, 1)))
    u, v, a = (rng.normal(size=n) for _ in range(3))
    dt, alpha = float(point["dt"]), float(point["alpha"])
    beta, gamma = float(point["beta"]), float(point["gamma"])
    if algo == "hht_newmark":
        beta, gamma = 0.25 * (1 + alpha) ** 2, 0.5 + alpha
    cap = {}

    def get_dirichlet_A_x(pt, res, A, b, dv):
        cap["A"] = A
        return A, None
    g = sx.float_globals(MOD)
    me = sx.Mock(
        "self", algo=_algo(algo), isNonLinear=False, _verbosity=False, _Simu__algo=_algo(algo),
        _Get_u_n=lambda pt, asCsrMatrix=False: sparse.csr_matrix(u[:, None]) if asCsrMatrix else u.copy(),
        _Get_v_n=lambda pt, asCsrMatrix=False: sparse.csr_matrix(v[:, None]) if asCsrMatrix else v.copy(),
        _Get_a_n=lambda pt, asCsrMatrix=False: sparse.csr_matrix(a[:, None]) if asCsrMatrix else a.copy(),
        _Simu__Solver_Get_Hyperbolic_Params=lambda: (dt, beta, gamma, alpha),
        _Simu__Solver_Get_Parabolic_Params=lambda: (dt, alpha),
        Bc_dofs_Neumann=lambda pt: np.array([], dtype=int), Bc_values_Neumann=lambda pt: np.array([]),
        Bc_dofs_Dirichlet=lambda pt: np.array([], dtype=int), Bc_values_Dirichlet=lambda pt: np.array([]),
        _Simu__Get_Ndof=lambda pt: n, Get_K_C_M_F=lambda pt=None: (K, C, M, F),
        _Simu__Solver_Get_Dirichlet_A_x=get_dirichlet_A_x)
    fl = lambda key: extract.compile_fn(extract.get(PATH, FN[key]), g, exact=False)
    coefs_f = fl("coefs")
    object.__setattr__(me, "_Solver_Get_K_C_M_coefs_for_time_scheme", lambda: coefs_f(me))
    b = fl("neumann")(me, "pt")
    fl("dirichlet")(me, "pt", b, "r1")
    A = cap["A"]
    ustar = np.asarray(np.linalg.solve(A.toarray(), np.asarray(b.todense()).ravel()))
    u_t, v_t, a_t = fl("eval")(me, "pt", ustar)
    u1, v1, a1 = fl("update")(me, "pt", ustar)
    Kd, Cd, Md, Fd = K.toarray(), C.toarray(), M.toarray(), np.asarray(F.todense()).ravel()
    if algo == "euler_explicit":
        a_eff = ustar
    else:
        a_eff = a_t if a_t is not None else np.zeros(n)
    res = Kd @ u_t + Cd @ v_t + (Md @ a_eff if (a_t is not None or algo == "euler_explicit") else 0) - Fd
    out = dict(eom_residual_inf=float(np.abs(res).max()), scale=float(np.abs(Fd).max()))
    # numeric weights by finite difference of the evaluation-point states
    h = 1e-6
    e0 = np.zeros(n); e0[0] = 1.0
    ut2, vt2, at2 = fl("eval")(me, "pt", ustar + h * e0)
    cK, cC, cM = coefs_f(me)
    fd = lambda x2, x1: 0.0 if x1 is None else float((x2[0] - x1[0]) / h)
    out["weights_code"] = [float(cK), float(cC), float(cM)]
    out["weights_fd"] = [fd(ut2, u_t), fd(vt2, v_t), fd(at2, a_t) if algo != "euler_explicit" else 1.0]
    out["update"] = dict(u1=u1.tolist(), v1=None if v1 is None else v1.tolist(), a1=None if a1 is None else a1.tolist())
    if raw:
        out["raw"] = dict(dt=dt, alpha=alpha, beta=beta, gamma=gamma, u=u, v=v, a=a, ustar=ustar, up=(u1, v1, a1),
                          u_t=u_t, v_t=v_t, a_t=a_t)
    return out


def _refute(name, algo, c, l, r, clause):
    pt, vals = _diff_point(c, l, r) if not isinstance(l, bool) else (None, None)
    rep = None
    if pt is not None:
        try:
            nat = native_replay(algo, pt)
            confirmed = False
            if clause == "eom":
                confirmed = nat["eom_residual_inf"] > 1e-7 * max(1.0, nat["scale"])
            elif clause == "weights":
                confirmed = max(abs(x - y) for x, y in zip(nat["weights_code"], nat["weights_fd"])) > 1e-4 * max(1.0, max(map(abs, nat["weights_fd"])))
            elif clause in ("update", "eval"):
                # native check of the documented relation itself, in floats
                confirmed = _native_relation_violated(algo, pt, clause)
            rep = dict(confirmed=bool(confirmed), native=nat)
        except Exception as e:  # replay harness failure is not a verdict
            rep = dict(confirmed=False, error=repr(e))
    raise Refuted(f"{name}: formal identity fails; nonzero coefficients at {pt}: {vals}",
                  cex=dict(params={k: str(v) for k, v in (pt or {}).items()}, nonzero_terms=vals),
                  signature=f"{algo}:{clause}", replay=rep)


def _native_relation_violated(algo, pt, clause):
    """Re-evaluate the documented relations in floats on the natively-run real functions' outputs."""
    import numpy as np
    nat = native_replay(algo, pt, raw=True)
    raw = nat["raw"]
    P = (raw["dt"], raw["alpha"], raw["beta"], raw["gamma"])
    V = dict(u_n=raw["u"], v_n=raw["v"], a_n=raw["a"], ustar=raw["ustar"])
    worst = 0.0
    if clause == "update":
        rels = [(l, r) for _, l, r in _spec_update(algo, P, V, raw["up"])]
    else:
        rels = list(zip((raw["u_t"], raw["v_t"], raw["a_t"]), _spec_eval(algo, P, V, raw["up"])))
    for l, r in rels:
        if l is None or r is None or isinstance(l, bool) or isinstance(r, bool):
            if (l is None) != (r is None) and not isinstance(l, bool):
                return True
            continue
        worst = max(worst, float(np.abs(np.asarray(l, dtype=float) - np.asarray(r, dtype=float)).max()))
    return worst > 1e-8


# ------------------------------------------------------------------ obligations

def ob_update(algo, canary=False):
    t0 = time.time()
    r = _run_all(algo)
    P = r["P"]
    if canary:
        dt, alpha, beta, gamma = P
        P = (dt, alpha, gamma, beta)  # beta/gamma swapped in the spec: must be refuted
    n = 0
    for name, l, rr in _spec_update(algo, P, r["V"], r["up"]):
        n += 1
        if not _eq(l, rr):
            _refute(f"C05.{algo}.update[{name}]", algo, r["c"], l, rr, "update")
    return Verdict(DISCHARGED, backend="ring-normal-form", sub=n, solver_s=time.time() - t0)


def ob_eval(algo):
    t0 = time.time()
    r = _run_all(algo)
    su, sv, sa = _spec_eval(algo, r["P"], r["V"], r["up"])
    for name, l, rr in (("u_t", r["u_t"], su), ("v_t", r["v_t"], sv), ("a_t", r["a_t"], sa)):
        if not _eq(l, rr):
            _refute(f"C05.{algo}.eval[{name}]", algo, r["c"], l, rr, "eval")
    return Verdict(DISCHARGED, backend="ring-normal-form", sub=3, solver_s=time.time() - t0)


def _a_eff(algo, r):
    if algo == "euler_explicit":
        return r["V"]["ustar"]
    return r["a_t"]


def ob_eom(algo, canary=False):
    t0 = time.time()
    r = _run_all(algo)
    A, V = r["A"], r["V"]
    lhs = r["Amat"] @ V["ustar"] - r["b"]
    rhs = A["K"] @ r["u_t"] + A["C"] @ r["v_t"] - (V["F"] + V["fN"])
    a_eff = _a_eff(algo, r)
    if a_eff is not None:
        rhs = rhs + A["M"] @ a_eff
    if canary:
        rhs = rhs + A["C"] @ V["v_n"]
    if not _eq(lhs, rhs):
        _refute(f"C05.{algo}.eom", algo, r["c"], lhs, rhs, "eom")
    return Verdict(DISCHARGED, backend="ring-normal-form", sub=len(lhs.terms) + len(rhs.terms), solver_s=time.time() - t0)


def ob_eom_nonlinear(algo):
    """Newton path: b is F + fN only (history terms belong to the solve for u^{n+1}) and A has the same weights."""
    r = _run_all(algo, nonlinear=True)
    V = r["V"]
    if not _eq(r["b"], V["F"] + V["fN"]):
        _refute(f"C05.{algo}.newton.rhs", algo, r["c"], r["b"], V["F"] + V["fN"], "eom")
    cK, cC, cM = r["coefs"]
    A = r["A"]
    if not _eq(r["Amat"], cK * A["K"] + cC * A["C"] + cM * A["M"]):
        _refute(f"C05.{algo}.newton.A", algo, r["c"], r["Amat"], cK * A["K"] + cC * A["C"] + cM * A["M"], "eom")
    return Verdict(DISCHARGED, backend="ring-normal-form", sub=2)


def ob_weights(algo):
    r = _run_all(algo)
    cK, cC, cM = r["coefs"]
    c = r["c"]
    def d(x):
        if x is None:
            return 0
        return x.coef("ustar")
    want = (d(r["u_t"]), d(r["v_t"]), d(_a_eff(algo, r)))
    for name, got, w in zip(("coefK", "coefC", "coefM"), (cK, cC, cM), want):
        got = c.const(got) if not isinstance(got, X) else got
        w = c.const(w) if not isinstance(w, X) else w
        if not (got == w):
            _refute(f"C05.{algo}.weights[{name}]", algo, c, got, w, "weights")
    # A is exactly cK K + cC C + cM M
    A = r["A"]
    if not _eq(r["Amat"], cK * A["K"] + cC * A["C"] + cM * A["M"]):
        _refute(f"C05.{algo}.weights[A]", algo, c, r["Amat"], cK * A["K"] + cC * A["C"] + cM * A["M"], "weights")
    return Verdict(DISCHARGED, backend="ring-normal-form", sub=4)


# bilinear algebra for the energy clauses: x^T Mat y with Mat symmetric
def _quad(x: Lin, mat: str, y: Lin):
    out = {}
    for (a,), ca in x.terms.items():
        for (b,), cb in y.terms.items():
            k = (mat,) + tuple(sorted((a, b)))
            out[k] = out.get(k, 0) + ca * cb
    return out


def _pair(x: Lin, z: Lin):
    """x^T z where z's terms are (Mat, atom)."""
    out = {}
    for (a,), ca in x.terms.items():
        for k2, cb in z.terms.items():
            if len(k2) != 2:
                raise Unsupported("pairing with a non (Mat@vec) term")
            k = (k2[0],) + tuple(sorted((a, k2[1])))
            out[k] = out.get(k, 0) + ca * cb
    return out


def _qadd(*qs):
    out = {}
    for sgn, q in qs:
        for k, v in q.items():
            out[k] = out.get(k, 0) + sgn * v
    return out


def _qzero(q):
    return all(alg._is0(v) for v in q.values())


def ob_energy(algo, fix, canary=False):
    """C=0, F=0, K and M symmetric. fix: substitution for (beta, gamma) (newmark: 1/4, 1/2)."""
    names = ["dt", "alpha", "beta", "gamma"]
    c, me, g, A, V, P, cap = _env(algo)
    dt, alpha, beta, gamma = P
    if fix:
        beta, gamma = Fraction(1, 4), Fraction(1, 2)
        if canary:
            gamma = Fraction(3, 5)
        object.__setattr__(me, "_Simu__Solver_Get_Hyperbolic_Params", lambda: (dt, beta, gamma, alpha))
    coefs_f = extract.compile_fn(extract.get(PATH, FN["coefs"]), g)
    object.__setattr__(me, "_Solver_Get_K_C_M_coefs_for_time_scheme", lambda: coefs_f(me))
    u_t, v_t, a_t = _call("eval", me, g, "pt", V["ustar"])
    u1, v1, a1 = _call("update", me, g, "pt", V["ustar"])
    u, v, a = V["u_n"], V["v_n"], V["a_n"]
    H = Fraction(1, 2)
    K, M = A["K"], A["M"]
    E1 = _qadd((H, _quad(v1, "M", v1)), (H, _quad(u1, "K", u1)))
    E0 = _qadd((H, _quad(v, "M", v)), (H, _quad(u, "K", u)))
    res_t = K @ u_t + M @ a_t          # residual of the discrete equation of motion with C=0, F=0
    if algo == "midpoint":
        # E' - E == (u'-u)^T (K u_t + M a_t)
        lhs = _qadd((1, E1), (-1, E0), (-1, _pair(u1 - u, res_t)))
        if canary:
            lhs = _qadd((1, lhs), (1, _quad(u, "K", v)))
    elif algo == "newmark":
        # requires M a_n + K u_n = 0 (the scheme's own invariant, ensured by the previous step's eom);
        # E' - E == dt/4 (v+v')^T [ (K u' + M a') + (K u + M a) ]
        res_n = K @ u + M @ a
        lhs = _qadd((1, E1), (-1, E0), (-1, _pair((v + v1) * (dt / 4), res_t + res_n)))
    elif algo == "euler_implicit":
        # E' - E + 1/2 dv^T M dv + 1/2 du^T K du == (u'-u)^T (K u' + M a')  => E' <= E when K, M are PSD
        dv, du = v1 - v, u1 - u
        lhs = _qadd((1, E1), (-1, E0), (H, _quad(dv, "M", dv)), (H, _quad(du, "K", du)), (-1, _pair(du, res_t)))
    else:
        raise Unsupported(algo)
    if not _qzero(lhs):
        bad = {"^".join(k): str(v) for k, v in lhs.items() if not alg._is0(v)}
        raise Refuted(f"C05.{algo}.energy: energy identity fails, nonzero bilinear terms {bad}",
                      cex=dict(nonzero_terms=bad), signature=f"{algo}:energy",
                      replay=_native_energy(algo))
    return Verdict(DISCHARGED, backend="ring-normal-form (symmetric bilinear forms)", sub=len(lhs))


def _native_energy(algo):
    """One free-vibration step natively (floats): energy before/after."""
    try:
        import numpy as np
        from scipy import sparse
        rng = np.random.default_rng(1)
        n = 4
        B = rng.normal(size=(n, n)); Kd = B @ B.T + n * np.eye(n)
        B = rng.normal(size=(n, n)); Md = B @ B.T + n * np.eye(n)
        K, M, C = sparse.csr_matrix(Kd), sparse.csr_matrix(Md), sparse.csr_matrix((n, n))
        F = sparse.csr_matrix((n, 1))
        u, v = rng.normal(size=n), rng.normal(size=n)
        a = -np.linalg.solve(Md, Kd @ u)
        dt, alpha, beta, gamma = 0.37, 0.5, 0.25, 0.5
        cap = {}
        g = sx.float_globals(MOD)
        me = sx.Mock(
            "self", algo=_algo(algo), isNonLinear=False, _verbosity=False, _Simu__algo=_algo(algo),
            _Get_u_n=lambda pt, asCsrMatrix=False: sparse.csr_matrix(u[:, None]) if asCsrMatrix else u.copy(),
            _Get_v_n=lambda pt, asCsrMatrix=False: sparse.csr_matrix(v[:, None]) if asCsrMatrix else v.copy(),
            _Get_a_n=lambda pt, asCsrMatrix=False: sparse.csr_matrix(a[:, None]) if asCsrMatrix else a.copy(),
            _Simu__Solver_Get_Hyperbolic_Params=lambda: (dt, beta, gamma, alpha),
            Bc_dofs_Neumann=lambda pt: np.array([], dtype=int), Bc_values_Neumann=lambda pt: np.array([]),
            Bc_dofs_Dirichlet=lambda pt: np.array([], dtype=int), Bc_values_Dirichlet=lambda pt: np.array([]),
            _Simu__Get_Ndof=lambda pt: n, Get_K_C_M_F=lambda pt=None: (K, C, M, F),
            _Simu__Solver_Get_Dirichlet_A_x=lambda pt, res, A, b, dv: (cap.__setitem__("A", A), (A, None))[1])
        fl = lambda key: extract.compile_fn(extract.get(PATH, FN[key]), g, exact=False)
        coefs_f = fl("coefs")
        object.__setattr__(me, "_Solver_Get_K_C_M_coefs_for_time_scheme", lambda: coefs_f(me))
        b = fl("neumann")(me, "pt")
        fl("dirichlet")(me, "pt", b, "r1")
        ustar = np.linalg.solve(cap["A"].toarray(), np.asarray(b.todense()).ravel())
        u1, v1, a1 = fl("update")(me, "pt", ustar)
        E0 = 0.5 * v @ Md @ v + 0.5 * u @ Kd @ u
        E1 = 0.5 * v1 @ Md @ v1 + 0.5 * u1 @ Kd @ u1
        bad = abs(E1 - E0) > 1e-9 * abs(E0) if algo != "euler_implicit" else E1 > E0 * (1 + 1e-12)
        return dict(confirmed=bool(bad), E0=float(E0), E1=float(E1), dt=dt)
    except Exception as e:
        return dict(confirmed=False, error=repr(e))


def _setter_mock():
    """receiver of the scheme setters: a linear simulation; the private callee that re-flags a non-linear one is the real function (it writes no scheme parameter)"""
    me = sx.Mock("self", isNonLinear=False)
    try:
        real = extract.compile_fn(extract.get(PATH, "_Simu.__Solver_Time_scheme_changed"), sx.module_globals(MOD))
        object.__setattr__(me, "_Simu__Solver_Time_scheme_changed", lambda: real(me))
    except Exception:      # a tree without that callee: the setters do not call it
        pass
    return me


def ob_set_hyperbolic():
    """Run the real setter on a mock with symbolic alpha in [0, 1/3]: derived beta, gamma for hht_newmark."""
    n = 0
    for wit in (Fraction(1, 5), Fraction(1, 7), Fraction(0), Fraction(1, 3)):
        c = Ctx(["dt", "alpha", "beta", "gamma"], nspare=1,
                witness=dict(dt=Fraction(1, 10), alpha=wit, beta=Fraction(1, 4), gamma=Fraction(1, 2)))
        dt, alpha, beta, gamma = (c.sym(k) for k in ("dt", "alpha", "beta", "gamma"))
        if wit in (0, Fraction(1, 3)):
            alpha = c.const(wit)   # boundary values are ground (comparisons decided exactly)
        g = sx.module_globals(MOD)
        me = _setter_mock()
        f = extract.compile_fn(extract.get(PATH, FN["set_hyp"]), g)
        f(me, dt, _algo("hht_newmark"), beta, gamma, alpha)
        got = dict(me._writes())
        p = got.get("_Simu__hyperbolicParams")
        if p is None or got.get("_Simu__algo") != _algo("hht_newmark"):
            raise Refuted("setter does not store parameters/algo", signature="set_hyp:store")
        wb, wg = Fraction(1, 4) * (1 + alpha) ** 2, Fraction(1, 2) + alpha
        if not (p[0] == dt and p[1] == wb and p[2] == wg and p[3] == alpha):
            raise Refuted(f"hht_newmark derived parameters differ from documented beta=(1+alpha)^2/4, gamma=1/2+alpha: got {p}",
                          cex=dict(alpha=str(wit)), signature="set_hyp:derived",
                          replay=dict(confirmed=True, note="values read from the real setter executed on a mock receiver"))
        n += 1
    # other algorithms: parameters stored unchanged
    for a in ("newmark", "hht", "midpoint", "euler_implicit", "euler_explicit"):
        c = Ctx(["dt", "alpha", "beta", "gamma"], nspare=1,
                witness=dict(dt=Fraction(1, 10), alpha=Fraction(1, 5), beta=Fraction(1, 4), gamma=Fraction(1, 2)))
        dt, alpha, beta, gamma = (c.sym(k) for k in ("dt", "alpha", "beta", "gamma"))
        me = _setter_mock()
        f = extract.compile_fn(extract.get(PATH, FN["set_hyp"]), sx.module_globals(MOD))
        f(me, dt, _algo(a), beta, gamma, alpha)
        p = dict(me._writes()).get("_Simu__hyperbolicParams")
        if p is None or not (p[0] == dt and p[1] == beta and p[2] == gamma and p[3] == alpha):
            raise Refuted(f"{a}: setter alters the supplied parameters: {p}", signature=f"set_hyp:{a}")
        n += 1
    return Verdict(DISCHARGED, backend="ring-normal-form + witness paths", sub=n)


def ob_reject_bad_dt():
    """requires dt > 0: the setters must reject dt <= 0 (assert)."""
    for key, args in (("set_hyp", ()), ("set_par", ())):
        for bad in (0, Fraction(-1, 2)):
            c = Ctx(["x"], nspare=1)
            me = _setter_mock()
            f = extract.compile_fn(extract.get(PATH, FN[key]), sx.module_globals(MOD))
            try:
                f(me, c.const(bad))
            except AssertionError:
                continue
            raise Refuted(f"{FN[key]} accepts dt={bad}", cex=dict(dt=str(bad)), signature=f"{key}:dt",
                          replay=dict(confirmed=True))
    return Verdict(DISCHARGED, backend="ground evaluation", sub=4)


def ob_native_switch(seed):
    """X: ONE simulation carried through changes of time step, parameters and algorithm between steps; after each change its next step must equal the step of a
    FRESH simulation started from the same (u, v, a) with the same settings (the symbolic obligations are per call: they cannot see state kept between calls)."""
    import numpy as np
    import contextlib, io
    from EasyFEA import Models, Simulations, AlgoType
    from contracts import patches
    pre, connect = patches.star_patch("TRI3")
    mesh = patches.real_mesh("TRI3", [[float(v) for v in p_] for p_ in pre], connect)
    co = np.asarray(mesh.coord)
    fixed = np.where(np.isclose(co[:, 0], co[:, 0].min()))[0]
    loaded = np.where(np.isclose(co[:, 0], co[:, 0].max()))[0]

    def mk():
        sm = Simulations.Elastic(mesh, Models.Elastic.Isotropic(2, E=50.0, v=0.3, planeStress=True))
        sm.rho = 2.0
        sm.Set_Rayleigh_Damping_Coefs(0.05, 0.002) if hasattr(sm, "Set_Rayleigh_Damping_Coefs") else None
        sm.add_dirichlet(fixed, [0, 0], ["x", "y"])
        sm.add_neumann(loaded, [0.3, -0.1], ["x", "y"])
        return sm
    settings = [dict(dt=1e-2), dict(dt=1e-2), dict(dt=4e-3), dict(dt=4e-3, beta=0.3, gamma=0.6), dict(dt=4e-3, algo=AlgoType.hht, alpha=0.2), dict(dt=7e-3, algo=AlgoType.midpoint),
                dict(dt=2e-3, algo=AlgoType.euler_implicit) if "euler_implicit" in AlgoType.__members__ else dict(dt=2e-3), dict(dt=5e-3, algo=AlgoType.hht_newmark, alpha=0.1) if "hht_newmark" in AlgoType.__members__ else dict(dt=5e-3)]
    one = mk()
    pt = one.problemType
    n = 0
    with contextlib.redirect_stdout(io.StringIO()):
        for k, st in enumerate(settings):
            u0, v0, a0 = one._Get_u_n(pt).copy(), one._Get_v_n(pt).copy(), one._Get_a_n(pt).copy()
            one.Solver_Set_Hyperbolic_Algorithm(**st)
            one.Solve()
            fresh = mk()
            fresh.Solver_Set_Hyperbolic_Algorithm(**st)
            fresh._Set_solutions(pt, u0, v0, a0)
            fresh.Solve()
            for nm, a_, b_ in (("u", one._Get_u_n(pt), fresh._Get_u_n(pt)), ("v", one._Get_v_n(pt), fresh._Get_v_n(pt)), ("a", one._Get_a_n(pt), fresh._Get_a_n(pt))):
                e = float(np.abs(a_ - b_).max() / (np.abs(b_).max() + 1e-30))
                n += 1
                if e > 1e-9:
                    raise Refuted(f"step {k} with settings {({kk: str(vv) for kk, vv in st.items()})}: the simulation that went through the earlier settings gives another {nm} than a fresh simulation "
                                  f"started from the same state (relative difference {e:.3e})", cex=dict(step=k, settings={kk: str(vv) for kk, vv in st.items()}), signature="native:switch",
                                  replay=dict(confirmed=True, err=e))
    return Verdict(DISCHARGED, backend="native simulation vs fresh simulation", sub=n)


def ob_native_switch_parabolic(seed):
    """X: the same for the parabolic (theta) scheme: one heat-conduction simulation through changes of dt and alpha between steps vs a fresh simulation from the same (u, v)."""
    import numpy as np
    import contextlib, io
    from EasyFEA import Models, Simulations
    from contracts import patches
    pre, connect = patches.star_patch("TRI3")
    mesh = patches.real_mesh("TRI3", [[float(v) for v in p_] for p_ in pre], connect)
    co = np.asarray(mesh.coord)
    fixed = np.where(np.isclose(co[:, 0], co[:, 0].min()))[0]
    loaded = np.where(np.isclose(co[:, 0], co[:, 0].max()))[0]

    def mk():
        sm = Simulations.Thermal(mesh, Models.Thermal(k=1.5, c=0.7, thickness=1.2))
        sm.rho = 2.0
        sm.add_dirichlet(fixed, [1.0], ["t"])
        sm.add_neumann(loaded, [0.3], ["t"])
        return sm
    settings = [dict(dt=5e-2), dict(dt=5e-2), dict(dt=1e-2), dict(dt=1e-2, alpha=1.0), dict(dt=3e-2, alpha=0.5), dict(dt=3e-2, alpha=0.75), dict(dt=2e-3)]
    one = mk()
    pt = one.problemType
    n = 0
    with contextlib.redirect_stdout(io.StringIO()):
        for k, st in enumerate(settings):
            u0, v0 = one._Get_u_n(pt).copy(), one._Get_v_n(pt).copy()
            one.Solver_Set_Parabolic_Algorithm(**st)
            one.Solve()
            fresh = mk()
            fresh.Solver_Set_Parabolic_Algorithm(**st)
            fresh._Set_solutions(pt, u0, v0)
            fresh.Solve()
            for nm, a_, b_ in (("u", one._Get_u_n(pt), fresh._Get_u_n(pt)), ("v", one._Get_v_n(pt), fresh._Get_v_n(pt))):
                e = float(np.abs(a_ - b_).max() / (np.abs(b_).max() + 1e-30))
                n += 1
                if e > 1e-9:
                    raise Refuted(f"parabolic step {k} with settings {st}: the simulation that went through the earlier settings gives another {nm} than a fresh simulation started from the same "
                                  f"state (relative difference {e:.3e})", cex=dict(step=k, settings={kk: str(vv) for kk, vv in st.items()}), signature="native:switch:parabolic",
                                  replay=dict(confirmed=True, err=e))
    return Verdict(DISCHARGED, backend="native simulation vs fresh simulation", sub=n)


def ob_accepted_params(which):
    """a parameter value that the setter ACCEPTS (and, for alpha = 0, documents as forward Euler) must allow a step: the step returns finite fields."""
    import numpy as np
    import contextlib, io
    from EasyFEA import Models, Simulations
    from contracts import patches
    pre, connect = patches.star_patch("TRI3")
    mesh = patches.real_mesh("TRI3", [[float(v) for v in p_] for p_ in pre], connect)
    co = np.asarray(mesh.coord)
    fixed = np.where(np.isclose(co[:, 0], co[:, 0].min()))[0]
    try:
        with contextlib.redirect_stdout(io.StringIO()):
            if which == "parabolic.alpha0":
                sm = Simulations.Thermal(mesh, Models.Thermal(k=1.5, c=0.7))
                sm.rho = 2.0
                sm.add_dirichlet(fixed, [1.0], ["t"])
                sm.Solver_Set_Parabolic_Algorithm(1e-4, alpha=0)
            else:
                sm = Simulations.Elastic(mesh, Models.Elastic.Isotropic(2, E=50.0, v=0.3))
                sm.rho = 2.0
                sm.add_dirichlet(fixed, [0, 0], ["x", "y"])
                sm.Solver_Set_Hyperbolic_Algorithm(1e-4, beta=0.0, gamma=0.5)
            u = np.asarray(sm.Solve())
    except AssertionError as ex:
        # a setter that rejects the value is a legitimate answer
        return Verdict(DISCHARGED, backend="native run", detail=f"rejected by an assertion: {str(ex)[:80]}")
    except Exception as ex:
        raise Refuted(f"{which}: the value is accepted by the setter but the first step raises {type(ex).__name__}: {ex}", cex=dict(case=which), signature=f"accepted:{which}",
                      replay=dict(confirmed=True, error=str(ex)[:200]))
    if not np.isfinite(u).all():
        raise Refuted(f"{which}: the value is accepted by the setter but the step returns non-finite values", cex=dict(case=which), signature=f"accepted:{which}", replay=dict(confirmed=True))
    return Verdict(DISCHARGED, backend="native run")


def build(tier: str, seed: int):
    F = tuple(f"{PATH}::{q}" for q in FN.values())
    obs = []
    for a in ALGOS:
        fu = (f"{PATH}::{FN['update']}",)
        obs.append(Ob(f"C05.{a}.update", ob_update, (a,), "P", fu, clause="documented update relations of (u',v',a')"))
        obs.append(Ob(f"C05.{a}.eval", ob_eval, (a,), "P", (f"{PATH}::{FN['eval']}", f"{PATH}::{FN['update']}"),
                      clause="evaluation-point states equal the documented combination of old and updated state"))
        obs.append(Ob(f"C05.{a}.eom", ob_eom, (a,), "P", F[:4], clause="A u* - b == K u_t + C v_t + M a_t - F for all K,C,M,states,parameters"))
        obs.append(Ob(f"C05.{a}.weights", ob_weights, (a,), "P", F[:2] + (F[3],), clause="(cK,cC,cM) == d(u_t,v_t,a_t)/du* and A == cK K + cC C + cM M"))
        if a != "euler_explicit":
            obs.append(Ob(f"C05.{a}.newton", ob_eom_nonlinear, (a,), "P", F[2:4], clause="incremental path: b = F + fN, same A"))
    obs.append(Ob("C05.newmark.energy", ob_energy, ("newmark", True), "P", F[:2] + (F[4],),
                  clause="beta=1/4,gamma=1/2, C=0,F=0, K,M symmetric, M a_n + K u_n = 0: E'-E == dt/4 (v+v')^T(R'+R)"))
    obs.append(Ob("C05.midpoint.energy", ob_energy, ("midpoint", False), "P", F[:2] + (F[4],),
                  clause="C=0,F=0, K,M symmetric: E'-E == (u'-u)^T R_t"))
    obs.append(Ob("C05.euler_implicit.energy", ob_energy, ("euler_implicit", False), "P", F[:2] + (F[4],),
                  clause="E'-E + 1/2 dv'Mdv + 1/2 du'Kdu == (u'-u)^T R  => E' <= E for PSD K, M"))
    obs.append(Ob("C05.set_hyperbolic.params", ob_set_hyperbolic, (), "P", (f"{PATH}::{FN['set_hyp']}",),
                  clause="hht_newmark derives beta=(1+alpha)^2/4, gamma=1/2+alpha for alpha in [0,1/3]; other schemes store the parameters as given"))
    obs.append(Ob("C05.setters.reject_dt", ob_reject_bad_dt, (), "P", (f"{PATH}::{FN['set_hyp']}", f"{PATH}::{FN['set_par']}"),
                  clause="dt <= 0 rejected"))
    obs.append(Ob("C05.native.switch", ob_native_switch, (seed,), "X", (f"{PATH}::{FN['coefs']}", f"{PATH}::{FN['set_hyp']}"), bound="8 consecutive steps with changing dt / parameters / algorithm on one 4-element patch",
                  clause="a step after a change of time-scheme settings == the step of a fresh simulation from the same state", timeout=600))
    obs.append(Ob("C05.native.switch.parabolic", ob_native_switch_parabolic, (seed,), "X", (f"{PATH}::{FN['coefs']}", f"{PATH}::{FN['set_par']}"), bound="7 consecutive steps with changing dt / alpha on one 4-element patch",
                  clause="a parabolic step after a change of dt / alpha == the step of a fresh simulation from the same state", timeout=600))
    for which in ("parabolic.alpha0", "newmark.beta0"):
        obs.append(Ob(f"C05.accepted.{which}", ob_accepted_params, (which,), "X", (f"{PATH}::{FN['set_par']}", f"{PATH}::{FN['set_hyp']}"), bound="one 4-element patch, one step",
                      clause="a parameter value the setter accepts allows a step (finite fields)", timeout=300))
    # canaries (engine soundness): wrong specs must be refuted
    obs.append(Ob("canary.newmark.update.swapped", ob_update, ("newmark", True), "P", expect=REFUTED))
    obs.append(Ob("canary.hht.eom.extra_term", ob_eom, ("hht", True), "P", expect=REFUTED))
    obs.append(Ob("canary.newmark.energy.gamma", ob_energy, ("newmark", True, True), "P", expect=REFUTED))
    obs.append(Ob("canary.midpoint.energy.extra", ob_energy, ("midpoint", False, True), "P", expect=REFUTED))
    functions = {k: extract.get(PATH, q).describe() for k, q in FN.items()}
    return dict(
        obs=obs, level="proof", min_obligations=38,
        explanation=("Each real time-scheme function of _simu.py is extracted from the file (AST) at run time and executed on "
                     "formal linear combinations of abstract matrices/vectors with exact rational-function coefficients in "
                     "(dt, alpha, beta, gamma); every clause is an identity decided by ring normal form, hence for all "
                     "parameters, all K/C/M of any size, all prior states and therefore all step sequences (each obligation is "
                     "per step with arbitrary prior state)."),
        trusted_base=["Python semantics of the executed subset (assignments, arithmetic, if/elif chains on enum members, calls)",
                      "float literals and float arithmetic read as exact rational arithmetic",
                      "scipy.sparse COO constructor contract: (Ndof,1) vector of summed entered values (abstract vector fN)",
                      "sparse matrix + - * @ are the linear-algebra operations (formal non-commutative algebra)",
                      "sympy 1.14 polynomial/fraction-field normal form",
                      "Dirichlet rows are excluded by C04's elimination contract (the equation holds on free dofs)"],
        assumptions=["machine arithmetic treated as mathematical (round-off not modelled)",
                     "AlgoType enum imported from the working tree (not symbolic)",
                     "energy clauses: K, M symmetric; Newmark additionally requires M a_n + K u_n = 0 (its own invariant)",
                     "parabolic scheme: spec is the generalized trapezoidal rule (Hughes ch. 8) evaluated at n+1, as the code documents in _Solver_Update_solutions"],
        functions=functions,
        dropped=["D1 decorators", "D2 annotations", "D3 docstrings", "D4 float literals -> exact rationals, `/` and `**` -> exact division / power",
                 "D5 compiled inside `class _Simu` for private-name mangling", "Tic timing calls bound to a no-op"],
    )
