"""C02 -- K symmetric PSD with exactly the physical kernel; M SPD with the right mass.

B-tier on exact 2-element conforming patches of every element type (the smallest meshes of the property's
quantifier), real element operators run natively on exact values, assembly by C03's contract:
  C02.K.congruence[t]  operator output == sum_p wJ_p B_p^T C B_p recomputed from the real B and wJ  (PSD structure;
                       with wJ > 0 from C07 and C SPD from C11 this gives PSD)
  C02.K.symker[t,ph]   K_e == K_e^T exactly; K_patch . mode == 0 for every rigid-body / constant mode (exact)
  C02.K.rank[t,ph]     exact rank of the assembled patch matrix == ndof - #modes  (no spurious zero-energy mode)
  C02.M.mass[t]        M_e symmetric; sum of entries == rho * measure (2^-40); exact rank of the patch mass matrix == Nn (SPD)
"""
from __future__ import annotations

from fractions import Fraction

import numpy as np

from vt import alg, extract, symrun
from vt.alg import Ctx, X
from vt.core import Ob, Verdict, Refuted, Unsupported, DISCHARGED, REFUTED
from . import ops
from . import common, patches, fem

PROP = "C02"
F = Fraction
TOL = F(1, 2 ** 40)
GP = "EasyFEA/FEM/_group_elem.py"
BP = "EasyFEA/FEM/Operators/Bilinear.py"


def _setup(et, face=0, mirrored=False):
    c = Ctx([], nspare=10)
    symrun.install(c)
    coords, connect = patches.two_element_patch(et, face)
    if mirrored:
        # reflected patch (what Mesh.Symmetry / an affine image with det < 0 produces): every element negatively oriented
        coords = [[-p[0]] + list(p[1:]) for p in coords]
    g = fem.exact_group(et, coords, connect)
    return c, coords, connect, g


def _Ke(g, physics, dim):
    from EasyFEA.FEM import Operators
    if physics == "thermal":
        return np.asarray(Operators.Bilinear.GradUGradV(g, coef=F(3, 2))), 1
    return np.asarray(Operators.Bilinear.LinearizedElasticity(g, fem.iso_C(dim))), dim


def _native_K(et, physics, face=0, mirrored=False):
    """Native replay (floats): assembled matrix of the real simulation on the same patch: symmetry, nullity."""
    try:
        from EasyFEA import Models, Simulations
        mesh = patches.two_element_mesh(et, face)
        if mirrored:
            co = mesh.coord.copy()
            co[:, 0] *= -1
            mesh.coord = co
        dim = mesh.dim
        if physics == "thermal":
            simu = Simulations.Thermal(mesh, Models.Thermal(k=1.5, c=1.0))
            nm = 1
        else:
            simu = Simulations.Elastic(mesh, Models.Elastic.Isotropic(dim, E=3.0, v=0.25, planeStress=False))
            nm = 3 if dim == 2 else 6
        K = simu.Get_K_C_M_F()[0].toarray()
        asym = float(np.abs(K - K.T).max() / np.abs(K).max())
        ev = np.linalg.eigvalsh((K + K.T) / 2)
        tol = 1e-9 * np.abs(ev).max()
        nullity = int((np.abs(ev) < tol).sum())
        return dict(confirmed=bool(asym > 1e-12 or nullity != nm or ev.min() < -tol), asym=asym, nullity=nullity, expected_nullity=nm, min_eig=float(ev.min()))
    except Exception as e:
        return dict(confirmed=True, raised=repr(e))


def ob_congruence(et, physics, mirrored=False):
    gid, nPe, dim, order = common.elem_infos(et)
    c, coords, connect, g = _setup(et, mirrored=mirrored)
    from EasyFEA.FEM._utils import MatrixType
    Ke, ncomp = _Ke(g, physics, dim)
    wJ = np.asarray(g.Get_weightedJacobian_e_pg(MatrixType.rigi))
    n = 0
    for e in range(wJ.shape[0]):
        for p in range(wJ.shape[1]):
            n += 1
            v = wJ[e, p]
            s = (v.sign() if isinstance(v, X) else ((v > 0) - (v < 0)))
            if s <= 0:
                raise Refuted(f"{et}: weighted Jacobian at element {e}, point {p} is not positive", signature=f"congruence:{et}:wJ", replay=_native_K(et, physics, 0, mirrored))
    if physics == "thermal":
        B = np.asarray(g.Get_dN_e_pg(MatrixType.rigi))
        Cm = np.empty((dim, dim), dtype=object)
        for i in range(dim):
            for j in range(dim):
                Cm[i, j] = F(3, 2) if i == j else F(0)
    else:
        B = np.asarray(g.Get_B_e_pg(MatrixType.rigi))
        Cm = fem.iso_C(dim)
    want = np.einsum("ep,epji,jk,epkl->eil", wJ, B, Cm, B)
    for idx in np.ndindex(Ke.shape):
        n += 1
        a, b = Ke[idx], want[idx]
        d = a - b
        if not fem._is0(d):
            raise Refuted(f"{et} {physics}: operator output differs from sum_p wJ B^T C B at {idx} by {float(d):.3e}", signature=f"congruence:{et}:{physics}",
                          replay=_native_K(et, physics, 0, mirrored))
    return Verdict(DISCHARGED, backend="exact field arithmetic on the real operators", sub=n)


def ob_symker(et, physics, face=0):
    gid, nPe, dim, order = common.elem_infos(et)
    c, coords, connect, g = _setup(et, face)
    Ke, ncomp = _Ke(g, physics, dim)
    n = 0
    m = Ke.shape[1]
    for e in range(Ke.shape[0]):
        for i in range(m):
            for j in range(i + 1, m):
                n += 1
                if not fem._is0(Ke[e, i, j] - Ke[e, j, i]):
                    raise Refuted(f"{et} {physics}: K_e[{e}] not symmetric at ({i},{j})", signature=f"sym:{et}:{physics}", replay=_native_K(et, physics, face))
    Nn = len(coords)
    modes = [[F(1)] * Nn] if physics == "thermal" else fem.rigid_modes(coords, dim)
    for mi, mode in enumerate(modes):
        # element-wise: K_e . mode_e == 0 exactly (algebraic: partition of unity / linear completeness)
        for e, con in enumerate(connect):
            me = [mode[k * ncomp + d] for k in con for d in range(ncomp)]
            for i in range(m):
                val = sum((Ke[e, i, j] * me[j] for j in range(m) if not fem._is0(Ke[e, i, j])), F(0))
                n += 1
                if not fem._is0(val):
                    raise Refuted(f"{et} {physics}: K_e[{e}] . mode {mi} != 0 at row {i}: {float(val):.3e} (missing physical zero-energy mode)",
                                  signature=f"kernel:{et}:{physics}", replay=_native_K(et, physics, face))
    return Verdict(DISCHARGED, backend="exact field arithmetic", sub=n)


def ob_rank(et, physics, face=0, canary=False):
    gid, nPe, dim, order = common.elem_infos(et)
    c, coords, connect, g = _setup(et, face)
    Ke, ncomp = _Ke(g, physics, dim)
    Nn = len(coords)
    K = fem.dense_assemble(Ke, connect, Nn * ncomp, ncomp)
    nm = 1 if physics == "thermal" else (3 if dim == 2 else 6)
    if canary:
        nm -= 1
    r = fem.rank_mod(K, c)      # lower bound (F_p image); the kernel obligation gives the matching upper bound
    if r != Nn * ncomp - nm:
        raise Refuted(f"{et} {physics}: assembled 2-element patch has rank {r}, expected {Nn*ncomp - nm} (ndof {Nn*ncomp}, physical modes {nm})",
                      cex=dict(elemType=et, rank=r, ndof=Nn * ncomp), signature=f"rank:{et}:{physics}", replay=_native_K(et, physics, face))
    return Verdict(DISCHARGED, backend="rank of the image in F_p (sound lower bound) == upper bound from the exact kernel identity", sub=1, detail=f"rank {r} of {Nn*ncomp}")


def _native_M(et, face=0):
    try:
        from EasyFEA import Models, Simulations
        mesh = patches.two_element_mesh(et, face)
        simu = Simulations.Thermal(mesh, Models.Thermal(k=1.5, c=1.0))
        simu.rho = 2.0
        M = simu.Get_K_C_M_F()[1].toarray()
        ev = np.linalg.eigvalsh((M + M.T) / 2)
        meas = {1: lambda: mesh.length, 2: lambda: mesh.area, 3: lambda: mesh.volume}[mesh.dim]()
        tot = float(M.sum())
        return dict(confirmed=bool(ev.min() < 1e-12 * ev.max() or abs(tot - 2.0 * meas) > 1e-9 * meas), min_eig=float(ev.min()), max_eig=float(ev.max()),
                    total=tot, rho_measure=2.0 * meas)
    except Exception as e:
        return dict(confirmed=True, raised=repr(e))


def ob_mass(et, face=0):
    gid, nPe, dim, order = common.elem_infos(et)
    c, coords, connect, g = _setup(et, face)
    from EasyFEA.FEM import Operators
    rho = F(5, 2)
    Me = np.asarray(Operators.Bilinear.UV(g, coef=rho, dof_n=1))
    n = 0
    m = Me.shape[1]
    for e in range(Me.shape[0]):
        for i in range(m):
            for j in range(i + 1, m):
                n += 1
                if not fem._is0(Me[e, i, j] - Me[e, j, i]):
                    raise Refuted(f"{et}: M_e not symmetric", signature=f"mass:{et}:sym", replay=_native_M(et, face))
    # total mass: exact measure of the affine patch = 2 * |det A| * |ref|
    ref = {"SEG": F(2), "TRI": F(1, 2), "QUAD": F(4), "TETRA": F(1, 6), "HEXA": F(8), "PRISM": F(1)}["".join(ch for ch in et if not ch.isdigit())]
    A, b = patches.DEFAULT_AFFINE[dim]
    from vt import npshim
    detA = abs(npshim._det([list(r) for r in A]))
    meas = 2 * detA * ref
    tot = sum((Me[idx] for idx in np.ndindex(Me.shape)), F(0))
    diff = tot - rho * meas
    dv = abs(float(diff))
    n += 1
    if dv > float(TOL * rho * meas):
        raise Refuted(f"{et}: sum of mass entries = rho*measure + {dv:.3e}", signature=f"mass:{et}:total", replay=_native_M(et, face))
    # vector mass (dof_n = dim): block structure N_i N_j delta_dd'
    if dim >= 2:
        Mv = np.asarray(Operators.Bilinear.UV(g, coef=rho, dof_n=dim))
        for e in range(Mv.shape[0]):
            for i in range(nPe):
                for j in range(nPe):
                    for d1 in range(dim):
                        for d2 in range(dim):
                            n += 1
                            want = Me[e, i, j] if d1 == d2 else F(0)
                            if not fem._is0(Mv[e, i * dim + d1, j * dim + d2] - want):
                                raise Refuted(f"{et}: vector mass block ({i},{d1}),({j},{d2}) wrong", signature=f"mass:{et}:block", replay=_native_M(et, face))
    M = fem.dense_assemble(Me, connect, len(coords), 1)
    r = fem.rank_mod(M, c)
    n += 1
    if r != len(coords):
        raise Refuted(f"{et}: consistent mass matrix of the 2-element patch has rank {r} < {len(coords)} nodes: not positive definite",
                      cex=dict(elemType=et, rank=r, Nn=len(coords)), signature=f"mass:{et}:rank", replay=_native_M(et, face))
    return Verdict(DISCHARGED, backend="exact field arithmetic + exact rank", sub=n, detail=f"rank {r}")


def ob_simu_mass(physics, et):
    """Simulation level (native floats): consistent mass / capacity entries sum to rho (x c) x measure x thickness in 2-D."""
    from EasyFEA import Models, Simulations
    mesh = patches.two_element_mesh(et)
    dim = mesh.dim
    th = 1.3 if dim == 2 else 1.0
    meas = {1: lambda: mesh.length, 2: lambda: mesh.area, 3: lambda: mesh.volume}[dim]()
    rho = 2.5
    if physics == "thermal":
        simu = Simulations.Thermal(mesh, Models.Thermal(k=1.5, c=0.7, thickness=th))
        simu.rho = rho
        A = simu.Get_K_C_M_F()[1].toarray()
        want = rho * 0.7 * meas * th
        ncomp = 1
    else:
        simu = Simulations.Elastic(mesh, Models.Elastic.Isotropic(dim, E=3.0, v=0.25, planeStress=True, thickness=th))
        simu.rho = rho
        A = simu.Get_K_C_M_F()[2].toarray()
        want = rho * meas * th * dim      # per direction, dim directions
        ncomp = dim
    tot = float(A.sum())
    ev = np.linalg.eigvalsh((A + A.T) / 2)
    rec = dict(total=tot, expected=want, min_eig=float(ev.min()), thickness=th, measure=float(meas))
    if abs(tot - want) > 1e-10 * abs(want):
        raise Refuted(f"{physics} simulation on {et}: mass/capacity entries sum to {tot:.6g}, expected rho*measure*thickness = {want:.6g}",
                      cex=dict(elemType=et, thickness=th), signature=f"simu_mass:{physics}:{'2d' if dim == 2 else str(dim)+'d'}",
                      replay=dict(confirmed=True, **rec))
    if ev.min() <= 0:
        raise Refuted(f"{physics} simulation on {et}: mass matrix not positive definite (min eig {ev.min():.3e})", signature=f"simu_mass:{physics}:spd:{et}",
                      replay=dict(confirmed=True, **rec))
    return Verdict(DISCHARGED, backend="native float run of the real simulation (1e-10)", detail=str(rec))


def ob_thermal_embedded(et, placing):
    """heat conduction on meshes that do not lie in their canonical position: a segment mesh inclined in the plane or in space (element dimension 1), a plate tilted
    out of the (x, y) plane (element dimension 2): the thickness of the model multiplies K and C exactly when the ELEMENTS are two-dimensional, wherever the mesh
    lies; capacity entries sum to rho c x measure (x thickness), K symmetric PSD with the constants as only kernel."""
    from EasyFEA import Models, Simulations
    th, rho, cc = 0.6, 2.5, 0.7

    def build(thickness):
        mesh = patches.two_element_mesh(et)
        dim = mesh.dim
        co = np.asarray(mesh.coord).copy()
        if placing == "inplane":        # rotation about z: a segment mesh leaves the x axis (inDim 2)
            a = 0.6
            R = np.array([[np.cos(a), -np.sin(a), 0], [np.sin(a), np.cos(a), 0], [0, 0, 1]])
        elif placing == "space":        # generic rotation: inDim 3
            a, b = 0.6, 0.9
            R = np.array([[np.cos(a), -np.sin(a), 0], [np.sin(a), np.cos(a), 0], [0, 0, 1]]) @ np.array([[1, 0, 0], [0, np.cos(b), -np.sin(b)], [0, np.sin(b), np.cos(b)]])
        else:
            R = np.eye(3)
        mesh.coord = co @ R.T + np.array([0.3, -0.2, 0.1 if placing == "space" else 0.0])
        simu = Simulations.Thermal(mesh, Models.Thermal(k=1.5, c=cc, thickness=thickness))
        simu.rho = rho
        K, C, _, _ = simu.Get_K_C_M_F()
        meas = {1: lambda: mesh.length, 2: lambda: mesh.area, 3: lambda: mesh.volume}[dim]()
        return dim, mesh.inDim, K.toarray(), C.toarray(), float(meas)
    dim, inDim, K1, C1, meas = build(1.0)
    _, _, Kt, Ct, _ = build(th)
    f = th if dim == 2 else 1.0
    rec = dict(elemType=et, placing=placing, dim=dim, inDim=int(inDim), thickness=th, sum_C=float(Ct.sum()), expected=rho * cc * meas * f)
    if abs(Ct.sum() - rho * cc * meas * f) > 1e-10 * abs(rho * cc * meas * f):
        raise Refuted(f"thermal simulation on a {et} mesh placed '{placing}' (element dimension {dim}, space dimension {inDim}): capacity entries sum to {Ct.sum():.6g}, expected rho c measure"
                      f"{' thickness' if dim == 2 else ''} = {rho * cc * meas * f:.6g}", cex=rec, signature=f"thermal_embedded:{dim}:{placing}:C", replay=dict(confirmed=True, **rec))
    eK = float(np.abs(Kt - f * K1).max() / np.abs(K1).max())
    if eK > 1e-12:
        raise Refuted(f"thermal simulation on a {et} mesh placed '{placing}': K(thickness {th}) differs from {f} x K(thickness 1) by {eK:.3e} (relative)", cex=rec,
                      signature=f"thermal_embedded:{dim}:{placing}:K", replay=dict(confirmed=True, rel_err=eK, **rec))
    w = np.linalg.eigvalsh((Kt + Kt.T) / 2)
    asym = float(np.abs(Kt - Kt.T).max() / np.abs(Kt).max())
    nz = int((np.abs(w) < 1e-10 * w.max()).sum())
    if asym > 1e-12 or w.min() < -1e-10 * w.max() or nz != 1 or np.abs(Kt @ np.ones(Kt.shape[0])).max() > 1e-10 * np.abs(Kt).max():
        raise Refuted(f"thermal K on a {et} mesh placed '{placing}': asymmetry {asym:.1e}, min eigenvalue {w.min():.3e}, {nz} zero-energy modes (expected the constants only)", cex=rec,
                      signature=f"thermal_embedded:{dim}:{placing}:kernel", replay=dict(confirmed=True, **rec))
    return Verdict(DISCHARGED, backend="native run", detail=str(rec))


ELASTIC_QUICK = ["TRI3", "TRI6", "QUAD4", "QUAD8", "TETRA4", "HEXA8", "PRISM6"]
ELASTIC_THOROUGH = ["TRI10", "TRI15", "QUAD9", "TETRA10", "PRISM15", "PRISM18", "HEXA20", "HEXA27"]
HEAVY = {"HEXA20", "HEXA27", "PRISM18"}


def _beam_K(dim, timo, et, inclined, nL=3, reversed_=False):
    import contextlib, io
    from EasyFEA import Models, Simulations, Mesher, ElemType
    from EasyFEA.Geoms import Domain, Point, Line
    with contextlib.redirect_stdout(io.StringIO()):
        sect = Mesher().Mesh_2D(Domain(Point(), Point(0.3, 0.5)), elemType=ElemType.QUAD4)
        L = 3.0
        if dim == 1 or not inclined:
            p2 = Point(L, 0, 0)
        elif dim == 2:
            p2 = Point(L * 0.6, L * 0.8, 0)
        else:
            p2 = Point(L / 3, 2 * L / 3, 2 * L / 3)
        line = Line(p2, Point(0, 0, 0), L / nL) if reversed_ else Line(Point(0, 0, 0), p2, L / nL)
        beam = Models.Beam.Isotropic(dim, line, sect, 210e3, v=0.3)
        mesh = Mesher().Mesh_Beams([beam], elemType=ElemType[et])
        simu = Simulations.Beam(mesh, beam, useTimoshenko=timo)
        K = simu.Get_K_C_M_F()[0].toarray()
    return K, np.asarray(simu.mesh.coord), simu.Get_dof_n()


def ob_beam_kernel(dim, timo, et, inclined, reversed_=False):
    """free beam: K symmetric, positive semi-definite, K r == 0 for every rigid motion (translations; rotations carry the matching nodal rotation), rank == ndof - number of rigid motions.
    reversed_: the line is drawn from its far end to the origin."""
    K, co, dn = _beam_K(dim, timo, et, inclined, reversed_=reversed_)
    n = K.shape[0]
    Nn = n // dn
    if Nn != co.shape[0]:
        raise Unsupported(f"unexpected dof layout: {n} dofs, {co.shape[0]} nodes")
    sc = np.abs(K).max()
    asym = float(np.abs(K - K.T).max() / sc)
    modes = []
    if dim == 1:
        modes.append(("tx", np.ones(n)))
    elif dim == 2:
        for d, nm in ((0, "tx"), (1, "ty")):
            r = np.zeros((Nn, 3))
            r[:, d] = 1
            modes.append((nm, r.ravel()))
        r = np.zeros((Nn, 3))
        r[:, 0], r[:, 1], r[:, 2] = -co[:, 1], co[:, 0], 1.0
        modes.append(("rot_z", r.ravel()))
    else:
        for d, nm in ((0, "tx"), (1, "ty"), (2, "tz")):
            r = np.zeros((Nn, 6))
            r[:, d] = 1
            modes.append((nm, r.ravel()))
        for k, nm in ((0, "rot_x"), (1, "rot_y"), (2, "rot_z")):
            a = np.zeros(3)
            a[k] = 1
            r = np.zeros((Nn, 6))
            r[:, :3] = np.cross(a, co)
            r[:, 3 + k] = 1
            modes.append((nm, r.ravel()))
    tag = f"{dim}-D {'Timoshenko' if timo else 'Euler-Bernoulli'} {et}{' inclined' if inclined else ''}{' drawn backwards' if reversed_ else ''}"
    rv = ":reversed" if reversed_ else ""
    if asym > 1e-12:
        raise Refuted(f"beam K ({tag}) is not symmetric: {asym:.2e}", signature=f"beam:{dim}:{timo}:{et}:sym{rv if not inclined else ''}", replay=dict(confirmed=True))
    for nm, r in modes:
        e = float(np.abs(K @ r).max() / (sc * np.abs(r).max()))
        if e > 1e-10:
            raise Refuted(f"beam K ({tag}): the rigid motion {nm} stores energy: |K r| / |K| = {e:.3e} (r'Kr / |K| = {float(r @ K @ r / sc):.3e})", cex=dict(mode=nm), signature=f"beam:{dim}:{timo}:{et}:rigid{rv if not inclined else ''}",
                          replay=dict(confirmed=True, err=e))
    w = np.linalg.eigvalsh((K + K.T) / 2)
    if w.min() < -1e-9 * w.max():
        raise Refuted(f"beam K ({tag}) has a negative eigenvalue {w.min():.3e}", signature=f"beam:{dim}:{timo}:{et}:psd{rv if not inclined else ''}", replay=dict(confirmed=True))
    nz = int((w < 1e-9 * w.max()).sum())
    if nz != len(modes):
        raise Refuted(f"beam K ({tag}) has {nz} zero-energy modes, expected exactly the {len(modes)} rigid motions", signature=f"beam:{dim}:{timo}:{et}:rank{rv if not inclined else ''}", replay=dict(confirmed=True, zero_modes=nz))
    return Verdict(DISCHARGED, backend="native beam simulation (free beam)", detail=f"{n} dofs")


def ob_beam_mass(dim, timo, et, inclined):
    """beam mass matrix: symmetric, positive semi-definite, and the translational mass is right: t^T M t == rho A L for every unit translation t of the structure."""
    import contextlib, io
    from EasyFEA import Models, Simulations, Mesher, ElemType
    from EasyFEA.Geoms import Domain, Point, Line
    with contextlib.redirect_stdout(io.StringIO()):
        sect = Mesher().Mesh_2D(Domain(Point(), Point(0.3, 0.5)), elemType=ElemType.QUAD4)
        L = 3.0
        if dim == 1 or not inclined:
            p2 = Point(L, 0, 0)
        elif dim == 2:
            p2 = Point(L * 0.6, L * 0.8, 0)
        else:
            p2 = Point(L / 3, 2 * L / 3, 2 * L / 3)
        beam = Models.Beam.Isotropic(dim, Line(Point(0, 0, 0), p2, L / 3), sect, 210e3, v=0.3)
        mesh = Mesher().Mesh_Beams([beam], elemType=ElemType[et])
        simu = Simulations.Beam(mesh, beam, useTimoshenko=timo)
        simu.rho = 7.8
        simu.Solver_Set_Hyperbolic_Algorithm(0.1)
        M = simu.Get_K_C_M_F()[2].toarray()
    dn = simu.Get_dof_n()
    Nn = mesh.Nn
    tag = f"{dim}-D {'Timoshenko' if timo else 'Euler-Bernoulli'} {et}{' inclined' if inclined else ''}"
    asym = float(np.abs(M - M.T).max() / np.abs(M).max())
    if asym > 1e-12:
        raise Refuted(f"beam M ({tag}) not symmetric: {asym:.3e}", signature=f"beam_mass:{dim}:{timo}:{et}:sym", replay=dict(confirmed=True))
    w = np.linalg.eigvalsh((M + M.T) / 2)
    if w.min() < -1e-10 * w.max():
        raise Refuted(f"beam M ({tag}) has a negative eigenvalue {w.min():.3e}", signature=f"beam_mass:{dim}:{timo}:{et}:psd", replay=dict(confirmed=True))
    want = 7.8 * 0.3 * 0.5 * L
    n = 0
    for d in range(dim):
        t = np.zeros((Nn, dn))
        t[:, d] = 1.0
        got = float(t.ravel() @ M @ t.ravel())
        n += 1
        if abs(got - want) > 1e-9 * want:
            raise Refuted(f"beam M ({tag}): translational mass along {'xyz'[d]} is {got:.6f}, rho A L = {want:.6f}", cex=dict(direction=d), signature=f"beam_mass:{dim}:{timo}:{et}:translation",
                          replay=dict(confirmed=True, got=got, want=want))
    return Verdict(DISCHARGED, backend="native beam simulation", detail=f"translational mass {want:.4f}, min eig {w.min():.2e}", sub=n + 2)


def ob_mixed_mass(quad):
    """a plane mesh that mixes two element types of the main dimension (gmsh recombination leaves triangles next to quadrangles), thickness t != 1, Elastic and Thermal:
    K(t) == t K(1), M(t) == t M(1) (C(t) == t C(1)), translational mass == rho x area x t per direction, M positive definite, K r == 0 for the rigid motions / the constants"""
    import contextlib, io
    from EasyFEA import Models, Simulations, ElemType
    from EasyFEA.Geoms import Points
    with contextlib.redirect_stdout(io.StringIO()):
        mesh = Points([(0, 0), (1, 0), (0.2, 0.9)], 0.21).Mesh_2D([], ElemType[quad])          # a triangle cannot be tiled by the recombination: a few triangles remain
    groups = mesh.Get_list_groupElem(2)
    if len(groups) < 2:
        raise Unsupported("the mesher did not produce a mixed mesh")
    th, rho = 0.35, 1.9
    area = float(mesh.area)
    n = 0

    def mats(phys, t):
        if phys == "elastic":
            sm = Simulations.Elastic(mesh, Models.Elastic.Isotropic(2, E=3.0, v=0.25, planeStress=True, thickness=t))
        else:
            sm = Simulations.Thermal(mesh, Models.Thermal(k=1.5, c=0.7, thickness=t))
        sm.rho = rho
        K, C, M, _ = sm.Get_K_C_M_F()
        return K.toarray(), (M if phys == "elastic" else C).toarray()
    for phys in ("elastic", "thermal"):
        K1, M1 = mats(phys, 1.0)
        Kt, Mt = mats(phys, th)
        for nm, A1, At in (("K", K1, Kt), ("M" if phys == "elastic" else "C", M1, Mt)):
            e = float(np.abs(At - th * A1).max() / np.abs(th * A1).max())
            n += 1
            if e > 1e-12:
                raise Refuted(f"{phys} simulation on a mixed {'+'.join(g.elemType for g in groups)} mesh: {nm}(thickness {th}) differs from {th} x {nm}(thickness 1) by {e:.3e} (relative)",
                              cex=dict(elemTypes=[str(g.elemType) for g in groups], thickness=th, physics=phys, matrix=nm), signature=f"mixed:{phys}:{nm}:thickness", replay=dict(confirmed=True, rel_err=e))
        dof_n = 2 if phys == "elastic" else 1
        want = rho * area * th * (1.0 if phys == "elastic" else 0.7)
        for d in range(dof_n):
            t_ = np.zeros(Mt.shape[0])
            t_[d::dof_n] = 1
            got = float(t_ @ Mt @ t_)
            n += 1
            if abs(got - want) > 1e-10 * want:
                raise Refuted(f"{phys} simulation on a mixed {'+'.join(g.elemType for g in groups)} mesh, thickness {th}: the entries of the mass / capacity matrix sum to {got:.8g} along direction {d}, "
                              f"rho (c) x area x thickness = {want:.8g}", cex=dict(thickness=th, physics=phys), signature=f"mixed:{phys}:mass", replay=dict(confirmed=True, got=got, want=want))
        if np.linalg.eigvalsh(Mt).min() <= 0:
            raise Refuted(f"{phys} mass / capacity matrix of the mixed mesh is not positive definite", signature=f"mixed:{phys}:spd", replay=dict(confirmed=True))
    return Verdict(DISCHARGED, backend="native", sub=n)


def ob_large(n):
    """a mesh large enough for Ndof^2 to exceed 2^31 (index arithmetic of the scatter map): K and M of a 2-D elastic problem are symmetric, K r == 0 for the three rigid motions,
    no zero diagonal entry, t^T M t == rho x area x thickness per direction"""
    import contextlib, io
    from EasyFEA import Models, Simulations, ElemType
    from EasyFEA.Geoms import Domain, Point
    with contextlib.redirect_stdout(io.StringIO()):
        mesh = Domain(Point(), Point(2, 1), 2.0 / n).Mesh_2D([], ElemType.TRI3, isOrganised=True)
    Ndof = 2 * mesh.Nn
    if Ndof ** 2 <= 2 ** 31:
        raise Unsupported(f"only {Ndof} dofs")
    simu = Simulations.Elastic(mesh, Models.Elastic.Isotropic(2, E=3.0, v=0.25, planeStress=True, thickness=0.7))
    simu.rho = 1.9
    K, _, M, _ = simu.Get_K_C_M_F()
    co = np.asarray(mesh.coord)
    out = []
    for nm, A in (("K", K), ("M", M)):
        asym = abs(A - A.T).max() / abs(A).max()
        if asym > 1e-12:
            out.append(f"{nm} is not symmetric (max |A - A^T| / max |A| = {asym:.2e})")
        nz = int((A.diagonal() <= 0).sum())
        if nz:
            out.append(f"{nm} has {nz} non-positive diagonal entries")
    tx, ty = np.zeros(Ndof), np.zeros(Ndof)
    tx[0::2], ty[1::2] = 1, 1
    rot = np.zeros(Ndof)
    rot[0::2], rot[1::2] = -co[:, 1], co[:, 0]
    for nm, r in (("translation x", tx), ("translation y", ty), ("rotation", rot)):
        e = float(np.abs(K @ r).max() / (abs(K).max() * np.abs(r).max()))
        if e > 1e-10:
            out.append(f"K . ({nm}) != 0 (relative {e:.2e})")
    want = 1.9 * 2.0 * 0.7
    for nm, t in (("x", tx), ("y", ty)):
        got = float(t @ (M @ t))
        if abs(got - want) > 1e-9 * want:
            out.append(f"translational mass along {nm}: {got:.6f} instead of {want:.6f}")
    if out:
        raise Refuted(f"2-D elastic problem with {Ndof} dofs (Ndof^2 = {Ndof ** 2:.3e} > 2^31): " + "; ".join(out[:4]), cex=dict(Ndof=int(Ndof), Nn=int(mesh.Nn)), signature="large:elastic",
                      replay=dict(confirmed=True, violations=out[:6]))
    return Verdict(DISCHARGED, backend="native", detail=f"{Ndof} dofs", sub=9)


def build(tier, seed):
    obs = []
    fk = (f"{BP}::GradUGradV", f"{BP}::LinearizedElasticity", f"{GP}::_GroupElem.Get_B_e_pg", f"{GP}::_GroupElem.Get_dN_e_pg",
          f"{GP}::_GroupElem.Get_weightedJacobian_e_pg")
    fm = (f"{BP}::UV", f"{GP}::_GroupElem.Get_ReactionPart_e_pg")
    bound = "2-element conforming patch (affine exact-rational geometry), isotropic rational C / conductivity 3/2"
    for et in common.LAGRANGE:
        faces = [0, 1] if et.startswith("PRISM") and tier == "thorough" else [0]
        heavy = et in HEAVY
        if not (tier == "quick" and heavy):
            obs.append(Ob(f"C02.K.congruence.{et}.thermal", ob_congruence, (et, "thermal"), "B", fk, bound=bound,
                          clause="GradUGradV == sum_p wJ dN^T k dN with wJ > 0", timeout=900))
            obs.append(Ob(f"C02.K.congruence.{et}.thermal.mirrored", ob_congruence, (et, "thermal", True), "B", fk, bound=bound + ", reflected (every element negatively oriented)",
                          clause="GradUGradV == sum_p wJ dN^T k dN with wJ > 0 on a mirrored part", timeout=900))
        for fc in faces:
            sfx = f".face{fc}" if fc else ""
            if not (tier == "quick" and heavy):
                obs.append(Ob(f"C02.K.symker.{et}.thermal{sfx}", ob_symker, (et, "thermal", fc), "B", fk, bound=bound,
                              clause="K_e symmetric; constants in the kernel (exact)", timeout=900))
            obs.append(Ob(f"C02.K.rank.{et}.thermal{sfx}", ob_rank, (et, "thermal", fc), "B", fk, bound=bound,
                          clause="rank of the assembled conductivity matrix == Nn - 1", timeout=1200))
            obs.append(Ob(f"C02.M.mass.{et}{sfx}", ob_mass, (et, fc), "B", fm, bound=bound,
                          clause="M_e symmetric, entries sum to rho*measure, vector mass block-diagonal in the dof index, patch mass matrix of full rank", timeout=1200))
    el = [t for t in ELASTIC_QUICK] + (ELASTIC_THOROUGH if tier == "thorough" else [])
    for et in el:
        obs.append(Ob(f"C02.K.congruence.{et}.elastic", ob_congruence, (et, "elastic"), "B", fk, bound=bound,
                      clause="LinearizedElasticity == sum_p wJ B^T C B with wJ > 0", timeout=2400))
        obs.append(Ob(f"C02.K.symker.{et}.elastic", ob_symker, (et, "elastic"), "B", fk, bound=bound,
                      clause="K_e symmetric; rigid-body modes in the kernel (exact)", timeout=2400))
        obs.append(Ob(f"C02.K.rank.{et}.elastic", ob_rank, (et, "elastic"), "B", fk, bound=bound,
                      clause="rank of the assembled stiffness == ndof - #rigid modes", timeout=2400))
    # both shared-face kinds of the prism family for elasticity (a single layer of PRISM15 had 2 spurious modes with the 6-point rule)
    for et in (["PRISM6", "PRISM15"] if tier == "quick" else ["PRISM6", "PRISM15", "PRISM18"]):
        obs.append(Ob(f"C02.K.rank.{et}.elastic.face1", ob_rank, (et, "elastic", 1), "B", fk, bound=bound + " (quadrangular shared face: single layer)",
                      clause="rank of the assembled stiffness == ndof - 6", timeout=2400))
    for physics, et in (("thermal", "SEG2"), ("thermal", "TRI3"), ("thermal", "QUAD8"), ("thermal", "TETRA4"), ("elastic", "TRI3"), ("elastic", "QUAD4"), ("elastic", "HEXA8")):
        obs.append(Ob(f"C02.simu.mass.{physics}.{et}", ob_simu_mass, (physics, et), "X", ("EasyFEA/Simulations/_thermal.py::Thermal.Construct_local_matrix_system",
                      "EasyFEA/Simulations/_elastic.py::Elastic.Construct_local_matrix_system"), bound="2-element patch, one thickness/density value, floats",
                      clause="assembled mass/capacity sums to rho x measure x thickness (2-D) per direction and is positive definite", timeout=120))
    for et, placing in (("SEG2", "inplane"), ("SEG3", "space"), ("SEG2", "canonical"), ("TRI3", "space"), ("QUAD4", "space"), ("TRI6", "inplane"), ("QUAD8", "space")) + \
            ((("SEG4", "inplane"), ("SEG5", "space"), ("TRI10", "space"), ("QUAD9", "space")) if tier == "thorough" else ()):
        obs.append(Ob(f"C02.thermal.embedded.{et}.{placing}", ob_thermal_embedded, (et, placing), "X", ("EasyFEA/Simulations/_thermal.py::Thermal.Construct_local_matrix_system",),
                      bound="2-element patch rotated in the plane / in space, one thickness", timeout=120,
                      clause="thickness multiplies K and C exactly when the elements are two-dimensional, wherever the mesh lies; capacity sums to rho c measure (x thickness); K symmetric PSD, kernel = constants"))
    from . import C14
    for dim in (1, 2, 3):
        for timo in (False, True):
            for et in ("SEG2", "SEG3") + (("SEG4", "SEG5") if tier == "thorough" else ()):
                for inclined in ((False, True) if dim > 1 else (False,)):
                    obs.append(Ob(f"C02.beam.{dim}d.{'timoshenko' if timo else 'bernoulli'}.{et}{'.inclined' if inclined else ''}", ob_beam_kernel, (dim, timo, et, inclined), "X",
                                  ("EasyFEA/FEM/Elems/_beam.py::_Timoshenko.Get_beam_B_e_pg" if timo else "EasyFEA/FEM/Elems/_beam.py::_Euler_Bernoulli.Get_beam_B_e_pg", "EasyFEA/Simulations/_beam.py::Beam.Construct_local_matrix_system"),
                                  bound="one free 3-element beam", clause="symmetric, PSD, K r == 0 for every rigid motion, exactly that many zero-energy modes", timeout=600))
    for dim in (1, 2, 3):
        for timo in (False, True):
            for inclined in ((False, True) if dim > 1 else (False,)):
                obs.append(Ob(f"C02.beam.{dim}d.{'timoshenko' if timo else 'bernoulli'}.SEG2{'.inclined' if inclined else ''}.reversed", ob_beam_kernel, (dim, timo, "SEG2", inclined, True), "X",
                              ("EasyFEA/FEM/Elems/_beam.py::_Timoshenko.Get_beam_B_e_pg" if timo else "EasyFEA/FEM/Elems/_beam.py::_Euler_Bernoulli.Get_beam_B_e_pg", "EasyFEA/FEM/_group_elem.py::_GroupElem.Get_F_e_pg"),
                              bound="one free 3-element beam drawn from its far end to the origin", clause="symmetric, PSD, K r == 0 for every rigid motion, exactly that many zero-energy modes", timeout=600))
    for dim in (1, 2, 3):
        for timo in (False, True):
            for et in ("SEG2", "SEG3"):
                for inclined in ((False, True) if dim > 1 else (False,)):
                    obs.append(Ob(f"C02.beam.mass.{dim}d.{'timoshenko' if timo else 'bernoulli'}.{et}{'.inclined' if inclined else ''}", ob_beam_mass, (dim, timo, et, inclined), "X",
                                  ("EasyFEA/FEM/Operators/Bilinear.py::BeamMass", "EasyFEA/Models/Beam/_beam.py::BeamStructure.Calc_M_e_pg"), bound="one 3-element beam",
                                  clause="beam mass matrix symmetric, positive semi-definite, translational mass == rho A L per direction", timeout=300))
    for quad in ("QUAD4", "QUAD8"):
        obs.append(Ob(f"C02.simu.mixed.{quad}", ob_mixed_mass, (quad,), "X", ("EasyFEA/Simulations/_elastic.py::Elastic.Construct_local_matrix_system", "EasyFEA/Simulations/_thermal.py::Thermal.Construct_local_matrix_system"),
                      bound="one gmsh mesh mixing triangles and quadrangles, one thickness", timeout=300,
                      clause="on a mesh with two element groups of the main dimension the thickness multiplies K and M (C) of every group once; the mass sums to rho x area x thickness"))
    obs.append(Ob("C02.simu.large.elastic", ob_large, (220,), "X", ("EasyFEA/Simulations/_simu.py::_Simu.__Get_csr_map", "EasyFEA/FEM/_group_elem.py::_GroupElem._Get_assembly_e"), bound="one structured TRI3 mesh with more than 46340 dofs",
                  clause="K, M symmetric with positive diagonal, K r == 0 for the rigid motions, translational mass == rho x area x thickness when Ndof^2 exceeds 2^31", timeout=900))
    obs.append(Ob("C02.cache.transparent", C14.ob_cache_key, (), "B", ("EasyFEA/Utilities/_cache.py::cache_computed_values",),
                  bound="7 call spellings x all ordered pairs", clause="cached geometric factors (weighted Jacobians, B, N) are those the functions compute for the requested arguments"))
    obs.append(Ob("canary.rank.TRI3.thermal", ob_rank, ("TRI3", "thermal", 0, True), "B", expect=REFUTED, timeout=300))
    functions = {q: extract.get(BP, q).describe() for q in ("GradUGradV", "UV", "LinearizedElasticity")}
    GP_GROUPS = {'beam', 'parts', 'local', 'operators.K', 'operators.M'}
    obs += ops.obligations('C02', tier, GP_GROUPS)
    obs.append(ops.selfcheck_ob('C02'))
    return dict(
        obs=obs, level="other", min_obligations=60,
        explanation=("The real element operators run natively on exact values on 2-element conforming patches of every element type: "
                     "congruence form (PSD structure), symmetry and kernel inclusion are exact identities; absence of spurious modes and "
                     "positive-definiteness of the mass matrix are exact ranks of the assembled patch matrices (assembly by C03's contract). "
                     "Bounded in mesh (smallest meshes of the quantifier) and in material (one isotropic law)."),
        trusted_base=ops.GP_TRUST + ["vt/npshim.py + vt/symrun.py", "C03 scatter-add contract", "C07: selected rules have positive weights", "C11: C SPD",
                      "lemma: K = sum wJ B^T C B with wJ>0, C SPD is PSD and x^T K x = 0 iff B x = 0 at all points"],
        assumptions=["2-element patches only (rank is lower semicontinuous: generic geometry not proved, one affine instance per type)",
                     "Gauss points = the code's floats read exactly; total-mass clause within 2^-40",
                     "beam stiffness/mass matrices not covered"],
        functions={**functions, **ops.functions_under_contract(GP_GROUPS)},
        dropped=["imported code unmodified; module globals np / Gauss points / element tables replaced (see vt/symrun.py)"],
        not_attempted=["beam K/M (Euler-Bernoulli, Timoshenko)", "anisotropic laws", "larger meshes"],
    )
