"""C19 -- history-dependent material integration is admissible, dissipative and consistent.

  E  C19.pure.behavior        no method of Behavior reachable from Integrate stores to `self` or writes into one of its array parameters (only into arrays it
                              allocated itself); __Pin / __Freeze write into their J / D / r arguments, which every call site passes freshly built locals
  E  C19.pure.simulation      Simulations.InElastic: the committed state attribute is (re)bound only by __init__, Save_Iter, Set_Iter and the guarded zero
                              initialisation, and never written in place; Construct_local_matrix_system only binds the trial state
  P  C19.yield.<surface>      real yield-surface functions run on a symbolic stress (radicals by relation): phi^2 is the stated quadratic form, N phi == grad(phi^2)/2,
                              dNdSig phi == Hess(phi^2)/2 - N (x) N  (i.e. N = df/dsig, dNdSig = dN/dsig), f is positively homogeneous in (sig, sigma_y + R)
  P  C19.hardening.<law>      R == d psi/dp, dR == dR/dp, R(0) == 0  (sympy, all parameters);  kinematic: X == d psi/d alpha, modulus == dX/d alpha;
                              rate laws: inverse(rate(f)) == f, dinverse == d inverse/d gdot
  X  C19.path.<config>        seeded random strain paths (loading, unloading, reversal, non-proportional turns; 12 paths integrated at once) through the real
                              Behavior.Integrate for constructor combinations of surface x isotropic / kinematic hardening x rate law x Maxwell branches x
                              3-D / plane strain / plane stress: convergence, f <= tol on or inside the surface (rate-independent), d gamma >= 0, p monotone,
                              traceless plastic strain (deviatoric surfaces), sigma:d eps - d psi >= 0, consistent tangent vs Richardson finite differences,
                              sigma_zz == 0 in plane stress, committed state and behavior untouched and a second call bit-identical
  X  C19.solvers.<config>     spectral return and local Newton agree along the same paths
  X  C19.elastic.<dim>        no internal variables: sigma == C : eps and tangent == C exactly as Models.Elastic gives them
  X  C19.simulation.*         Simulations.InElastic: Solve / Result never advance the committed state, Save_Iter does; MaterialPoint.Run leaves the behavior unchanged
"""
from __future__ import annotations

import ast
import copy
import itertools
from fractions import Fraction

import numpy as np

from vt import alg, extract, sx, npshim, symrun, eff
from vt.alg import Ctx, X
from vt.core import Ob, Verdict, Refuted, Unsupported, DISCHARGED, REFUTED

PROP = "C19"
F = Fraction
BEH = "EasyFEA/Models/InElastic/_behavior.py"
SIM = "EasyFEA/Simulations/_inelastic.py"
YLD = "EasyFEA/Models/InElastic/Yield.py"
ISO = "EasyFEA/Models/InElastic/IsotropicHardening.py"
KIN = "EasyFEA/Models/InElastic/KinematicHardening.py"
VP = "EasyFEA/Models/InElastic/ViscoPlastic.py"


# ---------------------------------------------------------------- E: purity

FRESH_CALLS = ("zeros", "copy", "broadcast", "asfearray", "zeros_like", "ones", "eye", "abs", "where", "maximum", "solve")


def _methods(path, cls):
    src, tree = extract.read(path)
    c = extract.find_class(tree, cls)
    return {n.name: n for n in c.body if isinstance(n, ast.FunctionDef)}


def _root_name(node):
    while isinstance(node, (ast.Subscript, ast.Attribute)):
        node = node.value
    return node.id if isinstance(node, ast.Name) else None


def _is_self_attr(node):
    return isinstance(node, ast.Attribute) and isinstance(node.value, ast.Name) and node.value.id == "self"


def ob_pure_behavior():
    meths = _methods(BEH, "Behavior")
    reach, todo = set(), ["Integrate", "Compute_stress", "Compute_psi", "Compute_sigma", "Compute_strain_6d", "Compute_back_stress", "Compute_elastic_strain"]
    while todo:
        m = todo.pop()
        if m in reach or m not in meths:
            continue
        reach.add(m)
        for node in ast.walk(meths[m]):
            if isinstance(node, ast.Call) and _is_self_attr(node.func):
                todo.append(node.func.attr)
    MUTATES = {"__Pin": {"J_e_pg", "D_e_pg", "r_e_pg"}, "__Freeze": {"J_e_pg", "D_e_pg", "r_e_pg"}}
    n = 0
    for m in sorted(reach):
        fn = meths[m]
        params = {a.arg for a in fn.args.args} - {"self"}
        rebound = set()

        def fresh_value(v):
            """value that cannot alias a parameter: a call (allocation / arithmetic helper), an arithmetic expression, a constant"""
            if isinstance(v, (ast.BinOp, ast.UnaryOp, ast.Constant, ast.Compare, ast.Tuple)):
                return True
            if isinstance(v, ast.Call):
                return True
            return False
        for stmt in ast.walk(fn):
            # stores to self.<attr>
            targets = []
            if isinstance(stmt, ast.Assign):
                targets = stmt.targets
            elif isinstance(stmt, (ast.AugAssign, ast.AnnAssign)):
                targets = [stmt.target]
            for t in targets:
                for tt in (t.elts if isinstance(t, ast.Tuple) else [t]):
                    n += 1
                    if _is_self_attr(tt) or (isinstance(tt, ast.Subscript) and _is_self_attr(tt.value)):
                        raise Refuted(f"Behavior.{m} stores to self.{(tt if _is_self_attr(tt) else tt.value).attr}: Integrate is no longer pure (line {stmt.lineno})",
                                      signature=f"pure:behavior:{m}:self", replay=_replay_pure())
        # in-place writes into parameters: walk statements in order, tracking rebinding to fresh values
        for stmt in _ordered(fn):
            if isinstance(stmt, ast.Assign):
                for t in stmt.targets:
                    for tt in (t.elts if isinstance(t, ast.Tuple) else [t]):
                        if isinstance(tt, ast.Name) and fresh_value(stmt.value):
                            rebound.add(tt.id)
                        elif isinstance(tt, ast.Name):
                            rebound.discard(tt.id) if (isinstance(stmt.value, ast.Name) and stmt.value.id in params and stmt.value.id not in rebound) else rebound.add(tt.id)
                        if isinstance(tt, ast.Subscript):
                            r = _root_name(tt)
                            n += 1
                            if r in params and r not in rebound and r not in MUTATES.get(m, set()):
                                raise Refuted(f"Behavior.{m} writes in place into its argument `{r}` (line {stmt.lineno}): the committed state / strain handed to Integrate can be modified",
                                              signature=f"pure:behavior:{m}:{r}", replay=_replay_pure())
            if isinstance(stmt, ast.AugAssign):
                r = _root_name(stmt.target)
                n += 1
                if r in params and r not in rebound and r not in MUTATES.get(m, set()):
                    raise Refuted(f"Behavior.{m} updates its argument `{r}` in place (line {stmt.lineno})", signature=f"pure:behavior:{m}:{r}", replay=_replay_pure())
        # call sites of the mutating helpers must pass locals bound from calls
        for node in ast.walk(fn):
            if isinstance(node, ast.Call) and _is_self_attr(node.func) and node.func.attr in MUTATES:
                for a in node.args[:3]:
                    n += 1
                    if isinstance(a, ast.Name) and a.id in params and a.id not in rebound and a.id not in MUTATES.get(m, set()):
                        raise Refuted(f"Behavior.{m} hands its argument `{a.id}` to {node.func.attr}, which writes into it", signature=f"pure:behavior:{m}:escape", replay=_replay_pure())
    return Verdict(DISCHARGED, backend="AST effect scan over the methods reachable from Integrate", sub=n, detail=f"{len(reach)} methods")


def _ordered(fn):
    out = []

    def walk(body):
        for s in body:
            out.append(s)
            for fld in ("body", "orelse", "finalbody"):
                if hasattr(s, fld) and isinstance(getattr(s, fld), list):
                    walk(getattr(s, fld))
    walk(fn.body)
    return out


def ob_pure_simulation():
    meths = _methods(SIM, "InElastic")
    allowed_bind = {"__init__", "Save_Iter", "Set_Iter"}
    n = 0
    for m, fn in meths.items():
        for stmt in ast.walk(fn):
            targets = stmt.targets if isinstance(stmt, ast.Assign) else [stmt.target] if isinstance(stmt, (ast.AugAssign, ast.AnnAssign)) else []
            for t in targets:
                for tt in (t.elts if isinstance(t, ast.Tuple) else [t]):
                    if _is_self_attr(tt) and tt.attr == "__zOld":
                        n += 1
                        # replacing the mesh starts a new history: the mesh setter may only EMPTY the committed state (C14.history.meshswap.InElastic needs it to)
                        reset = m.startswith("mesh") and isinstance(stmt, ast.Assign) and isinstance(stmt.value, ast.Dict) and not stmt.value.keys
                        if m not in allowed_bind and not reset:
                            raise Refuted(f"InElastic.{m} rebinds the committed state (line {stmt.lineno}): only Save_Iter / Set_Iter may advance the history", signature=f"pure:simu:{m}:bind",
                                          replay=_replay_simulation())
                    if isinstance(tt, ast.Subscript):
                        base = tt.value
                        if _is_self_attr(base) and base.attr == "__zOld":
                            n += 1
                            # self.__zOld[elemType] = ... : only the guarded zero initialisation of __Get_state
                            ok = m == "__Get_state" and isinstance(stmt, ast.Assign) and isinstance(stmt.value, ast.Call) and ast.unparse(stmt.value.func).endswith("State_zeros")
                            if not ok:
                                raise Refuted(f"InElastic.{m} assigns into the committed state dictionary (line {stmt.lineno})", signature=f"pure:simu:{m}:item", replay=_replay_simulation())
                        if isinstance(base, ast.Subscript) and _is_self_attr(base.value) and base.value.attr == "__zOld":
                            raise Refuted(f"InElastic.{m} writes in place into a committed state array (line {stmt.lineno})", signature=f"pure:simu:{m}:inplace", replay=_replay_simulation())
        # the committed arrays may only be handed to the behavior (Integrate / Compute_*), which C19.pure.behavior shows does not write them
    # the committed and the trial dictionaries never alias: every binding of either is a fresh dictionary (literal or comprehension), so that the item stores of
    # Construct_local_matrix_system into the trial dictionary cannot reach the committed one
    for m, fn in meths.items():
        for stmt in ast.walk(fn):
            if not isinstance(stmt, ast.Assign):
                continue
            for t in stmt.targets:
                for tt, vv in (zip(t.elts, stmt.value.elts) if isinstance(t, ast.Tuple) and isinstance(stmt.value, ast.Tuple) else [(t, stmt.value)]):
                    if _is_self_attr(tt) and tt.attr in ("__z", "__zOld"):
                        n += 1
                        if not isinstance(vv, (ast.Dict, ast.DictComp)):
                            raise Refuted(f"InElastic.{m} binds self.{tt.attr} to `{ast.unparse(vv)}` (line {stmt.lineno}): not a fresh dictionary, the trial and the committed state may share storage "
                                          f"and a Newton iteration then overwrites the committed history", signature=f"pure:simu:{m}:alias", replay=_replay_restore())
    # Save_Iter must copy the trial state
    sv = ast.unparse(meths["Save_Iter"])
    n += 1
    if "self.__zOld = " not in sv or ".copy()" not in sv:
        raise Refuted("InElastic.Save_Iter does not commit a copy of the trial state", signature="pure:simu:save", replay=_replay_simulation())
    cl = meths["Construct_local_matrix_system"]
    for node in ast.walk(cl):
        if isinstance(node, ast.Call) and isinstance(node.func, ast.Attribute) and node.func.attr in ("Save_Iter", "Set_Iter"):
            raise Refuted("Construct_local_matrix_system advances the history", signature="pure:simu:construct", replay=_replay_simulation())
    return Verdict(DISCHARGED, backend="AST effect scan", sub=n + 1)


# ---------------------------------------------------------------- P: yield surfaces on a symbolic stress

def ob_yield(surface):
    names = [f"s{i}" for i in range(6)] + ["R"]
    wit = dict(s0=F(310), s1=F(-45), s2=F(70), s3=F(33), s4=F(-58), s5=F(91), R=F(17))
    c = Ctx(names, nspare=10, witness=wit)
    NPs = symrun.install(c)
    import EasyFEA.Models.InElastic.Yield as Y
    import EasyFEA.Models._kelvin as KV
    from EasyFEA.FEM._linalg import FeArray
    Y.np = NPs
    KV.np = NPs if hasattr(KV, "np") else None
    sy = 250.0
    if surface == "VonMises":
        ys = Y.VonMises(sy)
        eta = 0
    elif surface == "Hill":
        ys = Y.Hill(sy, F=0.375, G=0.625, H=0.5, L=1.25, M=1.75, N=1.5)
        eta = 0
    else:
        ys = Y.DruckerPrager(sy, 0.125)
        eta = F(1, 8)
    s = [c.sym(f"s{i}") for i in range(6)]
    R = c.sym("R")
    arr = np.empty((1, 1, 6), dtype=object)
    for i in range(6):
        arr[0, 0, i] = s[i]
    sig = FeArray.asfearray(arr)
    Rf = np.empty((1, 1), dtype=object)
    Rf[0, 0] = R
    Rfe = FeArray.asfearray(Rf)
    f = np.asarray(ys.f(sig, Rfe))[0, 0]
    N = np.asarray(ys.N(sig, Rfe))[0, 0]
    dN = np.asarray(ys.dNdSig(sig))[0, 0]
    tr = s[0] + s[1] + s[2]
    phi = f + F(250) + R - eta * tr                     # phi(sig): the norm-like part
    q = phi * phi                                       # must be a polynomial (the quadratic form)
    q = q if isinstance(q, X) else c.const(q)
    n = 0
    # the quadratic form written independently (Kelvin-Mandel components): von Mises / Drucker-Prager 3/2 dev:dev, Hill 1948 with the constructor's coefficients
    if surface == "Hill":
        Fh, Gh, Hh, Lh, Mh, Nh = F(3, 8), F(5, 8), F(1, 2), F(5, 4), F(7, 4), F(3, 2)
        qpoly = Fh * (s[1] - s[2]) ** 2 + Gh * (s[2] - s[0]) ** 2 + Hh * (s[0] - s[1]) ** 2 + Lh * s[3] ** 2 + Mh * s[4] ** 2 + Nh * s[5] ** 2
    else:
        m = tr / 3
        qpoly = F(3, 2) * ((s[0] - m) ** 2 + (s[1] - m) ** 2 + (s[2] - m) ** 2 + s[3] ** 2 + s[4] ** 2 + s[5] ** 2)
    n += 1
    if not (q == qpoly):
        raise Refuted(f"{surface}: phi^2 = (f + sigma_y + R{' - eta tr sig' if eta else ''})^2 is not the surface's quadratic form {qpoly}", signature=f"yield:{surface}:form", replay=_sub("_replay_yield", surface))
    if ys.P is not None:
        P = np.asarray(ys.P)
        want = sum(F(float(P[i][j])) * s[i] * s[j] for i in range(6) for j in range(6))
        n += 1
        if not (qpoly == want):
            raise Refuted(f"{surface}: the declared P gives sig'P sig = {want}, the surface's phi^2 is {qpoly} (the spectral return integrates another surface than the Newton solve)",
                          signature=f"yield:{surface}:P", replay=_sub("_replay_yield", surface))
    q = qpoly
    for i in range(6):
        want = q.diff(f"s{i}") / 2 + eta * (1 if i < 3 else 0) * phi
        got = N[i] * phi
        n += 1
        if not (got == want):
            raise Refuted(f"{surface}: flow direction N[{i}] is not df/dsig[{i}]  (N phi = {got}, grad(phi^2)/2 = {want})", signature=f"yield:{surface}:N", replay=_sub("_replay_yield", surface))
    Nn = [N[i] - eta * (1 if i < 3 else 0) for i in range(6)]          # d phi / d sig
    for i in range(6):
        for j in range(6):
            want = q.diff(f"s{i}").diff(f"s{j}") / 2 - Nn[i] * Nn[j]
            got = dN[i][j] * phi
            n += 1
            if not (got == want):
                raise Refuted(f"{surface}: dNdSig[{i},{j}] is not dN/dsig  (dN phi = {got}, expected Hess(phi^2)/2 - N(x)N = {want})", signature=f"yield:{surface}:dN",
                              replay=_sub("_replay_yield", surface))
    return Verdict(DISCHARGED, backend="real surface functions on Q(sig, R) with radicals by relation", sub=n)


# ---------------------------------------------------------------- P: hardening / rate laws with sympy

class _SymNP:
    def __init__(self):
        import sympy as sp
        self.sp = sp

    def exp(self, x): return self.sp.exp(x)
    def sqrt(self, x): return self.sp.sqrt(x)
    def log(self, x): return self.sp.log(x)

    def maximum(self, a, b):
        # precondition of the clause: the argument is in the flowing range (a > b); recorded in the obligation text
        return a

    def __getattr__(self, k):
        raise Unsupported(f"np.{k} not modelled")


def _sym_globals(mod):
    import sympy as sp
    g = sx.module_globals(mod, np=_SymNP())
    g["__vt_div__"] = lambda a, b: (sp.Rational(a, b) if isinstance(a, int) and isinstance(b, int) else a / b)
    g["__vt_pow__"] = lambda a, b: a ** b
    g["__vt_lit__"] = lambda s: sp.Rational(str(extract.lit(s)))
    return g


def _zero(sp, e):
    e = sp.simplify(e)
    if e == 0:
        return True
    return sp.simplify(sp.powsimp(sp.expand(e), force=True)) == 0


def ob_hardening(law):
    import sympy as sp
    g = _sym_globals("EasyFEA.Models.InElastic.IsotropicHardening")
    fn = extract.compile_fn(extract.get(ISO, law), g)
    p = sp.Symbol("p", positive=True)
    if law == "Linear":
        h = fn(sp.Symbol("H", positive=True))
    elif law == "Voce":
        h = fn(sp.Symbol("Q", positive=True), sp.Symbol("b", positive=True))
    else:
        hs = [fn(sp.Symbol("K", positive=True), sp.Rational(1, 3), sp.Symbol("e0", positive=True)), fn(sp.Symbol("K", positive=True), sp.Rational(7, 10), sp.Symbol("e0", positive=True))]
        h = None
    n = 0
    for hh in ([h] if h is not None else hs):
        psi, R, dR = hh.psi(p), hh.R(p), hh.dR(p)
        n += 3
        if not _zero(sp, sp.diff(psi, p) - R):
            raise Refuted(f"{law}: R(p) = {R} is not d psi/dp = {sp.diff(psi, p)}: the hardening force is not derived from the stored energy (dissipation inequality at risk)",
                          signature=f"hardening:{law}:R", replay=_replay_hardening(law))
        if not _zero(sp, sp.diff(R, p) - dR):
            raise Refuted(f"{law}: dR(p) = {dR} is not dR/dp = {sp.diff(R, p)} (local Jacobian / algorithmic tangent wrong)", signature=f"hardening:{law}:dR", replay=_replay_hardening(law))
        if not _zero(sp, R.subs(p, 0)) or not _zero(sp, psi.subs(p, 0)):
            raise Refuted(f"{law}: R(0) = {R.subs(p, 0)}, psi(0) = {psi.subs(p, 0)}: the initial yield stress belongs to the surface", signature=f"hardening:{law}:zero", replay=_replay_hardening(law))
    return Verdict(DISCHARGED, backend="extracted law on sympy symbols", sub=n)


def ob_kinematic():
    import sympy as sp
    g = _sym_globals("EasyFEA.Models.InElastic.KinematicHardening")
    fn = extract.compile_fn(extract.get(KIN, "ArmstrongFrederick"), g)
    C, gam = sp.Symbol("C", positive=True), sp.Symbol("gamma", nonnegative=True)
    k = fn(C, gam)
    a = sp.symbols("a0:6", real=True)

    class V:
        def __init__(self, v): self.v = list(v)
        def dot(self, o): return sum(x * y for x, y in zip(self.v, o.v))
        def __rmul__(self, s): return V([s * x for x in self.v])
        __mul__ = __rmul__
    psi = k.psi(V(a))
    Xv = k.X(V(a))
    n = 0
    for i in range(6):
        n += 2
        if not _zero(sp, sp.diff(psi, a[i]) - Xv.v[i]):
            raise Refuted(f"kinematic hardening: X[{i}] = {Xv.v[i]} is not d psi/d alpha[{i}] = {sp.diff(psi, a[i])}", signature="kinematic:X", replay=dict(confirmed=True))
        if not _zero(sp, sp.diff(Xv.v[i], a[i]) - k.modulus):
            raise Refuted(f"kinematic hardening: modulus {k.modulus} is not dX/d alpha = {sp.diff(Xv.v[i], a[i])}", signature="kinematic:modulus", replay=dict(confirmed=True))
    if k.recall != gam:
        raise Refuted("kinematic hardening: recall coefficient is not gamma", signature="kinematic:recall", replay=dict(confirmed=True))
    return Verdict(DISCHARGED, backend="extracted law on sympy symbols", sub=n + 1)


def ob_ratelaw():
    import sympy as sp
    g = _sym_globals("EasyFEA.Models.InElastic.ViscoPlastic")
    fn = extract.compile_fn(extract.get(VP, "Norton"), g)
    A, s0 = sp.Symbol("A", positive=True), sp.Symbol("s0", positive=True)
    f, gd = sp.Symbol("f", positive=True), sp.Symbol("g", positive=True)
    n = 0
    for nexp in (sp.Integer(1), sp.Integer(3), sp.Rational(5, 2)):
        r = fn(A, nexp, s0)
        n += 2
        if not _zero(sp, r.inverse(r.rate(f)) - f):
            raise Refuted(f"Norton (n = {nexp}): inverse(rate(f)) = {sp.simplify(r.inverse(r.rate(f)))} != f for f > 0: the stress-form residual f - inverse(dGamma/dt) has another root than the rate law",
                          signature="ratelaw:inverse", replay=dict(confirmed=True))
        if not _zero(sp, sp.diff(r.inverse(gd), gd) - r.dinverse(gd)):
            raise Refuted(f"Norton (n = {nexp}): dinverse is not the derivative of inverse", signature="ratelaw:dinverse", replay=dict(confirmed=True))
    gp = _sym_globals("EasyFEA.Models.InElastic.ViscoPlastic")
    gp["Norton"] = fn
    per = extract.compile_fn(extract.get(VP, "Perzyna"), gp)
    eta = sp.Symbol("eta", positive=True)
    r = per(eta, sp.Integer(2), s0)
    n += 1
    if not _zero(sp, r.rate(f) - (f / s0) ** 2 / eta):
        raise Refuted("Perzyna: rate is not (f/sigma_0)^n / eta", signature="ratelaw:perzyna", replay=dict(confirmed=True))
    return Verdict(DISCHARGED, backend="extracted laws on sympy symbols (flowing range f > 0, gdot > 0)", sub=n)


def _replay_hardening(law):
    try:
        from EasyFEA.Models.InElastic import IsotropicHardening as IH
        h = {"Linear": lambda: IH.Linear(2000.0), "Voce": lambda: IH.Voce(150.0, 30.0), "Swift": lambda: IH.Swift(500.0, 0.3)}[law]()
        p = np.linspace(1e-4, 0.05, 7)
        hstep = 1e-6
        e1 = np.abs((h.psi(p + hstep) - h.psi(p - hstep)) / (2 * hstep) - h.R(p)).max()
        e2 = np.abs((h.R(p + hstep) - h.R(p - hstep)) / (2 * hstep) - h.dR(p)).max()
        return dict(confirmed=bool(e1 > 1e-5 * (1 + np.abs(h.R(p)).max()) or e2 > 1e-4 * (1 + np.abs(h.dR(p)).max())), R_err=float(e1), dR_err=float(e2))
    except Exception as e:
        return dict(confirmed=False, raised=repr(e)[:300])


def _sub(fn, *args):
    import json, os, subprocess, sys
    root = os.path.dirname(os.path.dirname(os.path.abspath(__file__)))
    code = f"import json, sys; sys.path.insert(0, {root!r}); from contracts import C19; print('@@' + json.dumps(C19.{fn}(*{args!r}), default=str))"
    try:
        out = subprocess.run([sys.executable, "-c", code], capture_output=True, text=True, timeout=900, cwd=root)
        for line in out.stdout.splitlines():
            if line.startswith("@@"):
                return json.loads(line[2:])
        return dict(confirmed=False, error=(out.stderr or out.stdout)[-400:])
    except Exception as e:
        return dict(confirmed=False, error=repr(e)[:300])


def _replay_yield(surface):
    try:
        from EasyFEA.Models.InElastic import Yield as Y
        from EasyFEA.FEM._linalg import FeArray
        ys = {"VonMises": lambda: Y.VonMises(250.0), "Hill": lambda: Y.Hill(250.0, F=0.375, G=0.625, H=0.5, L=1.25, M=1.75, N=1.5), "DruckerPrager": lambda: Y.DruckerPrager(250.0, 0.125)}[surface]()
        rng = np.random.default_rng(0)
        s0 = rng.uniform(-300, 300, (1, 4, 6))
        R = FeArray.asfearray(np.zeros((1, 4)))
        N = np.asarray(ys.N(FeArray.asfearray(s0), R))
        dN = np.asarray(ys.dNdSig(FeArray.asfearray(s0)))
        eN = edN = 0.0
        h = 1e-3
        for i in range(6):
            d = np.zeros(6)
            d[i] = h
            fd = (np.asarray(ys.f(FeArray.asfearray(s0 + d), R)) - np.asarray(ys.f(FeArray.asfearray(s0 - d), R))) / (2 * h)
            eN = max(eN, float(np.abs(fd - N[..., i]).max()))
            fdN = (np.asarray(ys.N(FeArray.asfearray(s0 + d), R)) - np.asarray(ys.N(FeArray.asfearray(s0 - d), R))) / (2 * h)
            edN = max(edN, float(np.abs(fdN - dN[..., i]).max()))
        return dict(confirmed=bool(eN > 1e-6 or edN > 1e-7), N_err=eN, dN_err=edN)
    except Exception as e:
        return dict(confirmed=False, raised=repr(e)[:300])


# ---------------------------------------------------------------- X: strain paths through the real Integrate

def _elastic3():
    from EasyFEA import Models
    return Models.Elastic.Isotropic(3, E=210e3, v=0.3)


def make_behavior(cfg, solver="auto"):
    from EasyFEA import Models
    from EasyFEA.Models.InElastic import Yield as Y, IsotropicHardening as IH, KinematicHardening as KH, ViscoPlastic as VPm, ViscoElastic as VE
    surf = {None: None, "VonMises": lambda: Y.VonMises(250.0), "Hill": lambda: Y.Hill(250.0, F=0.4, G=0.6, H=0.5, L=1.4, M=1.6, N=1.5), "DruckerPrager": lambda: Y.DruckerPrager(250.0, 0.1)}[cfg.get("surface")]
    hard = {None: None, "Linear": lambda: IH.Linear(2000.0), "Voce": lambda: IH.Voce(150.0, 30.0), "Swift": lambda: IH.Swift(500.0, 0.3)}[cfg.get("hardening")]
    kin = {None: None, "Prager": lambda: KH.Prager(20000.0), "AF": lambda: KH.ArmstrongFrederick(60000.0, 300.0), "Chaboche": lambda: KH.Chaboche((60000.0, 500.0), (20000.0, 100.0), (2000.0, 0.0))}[cfg.get("kinematic")]
    rate = {None: None, "Norton": lambda: VPm.Norton(1e-4, 2.0, 100.0), "Perzyna": lambda: VPm.Perzyna(50.0, 1.0, 1.0)}[cfg.get("rate")]
    branches = {0: (), 1: (VE.Maxwell(0.3, 0.5),), 2: (VE.Maxwell(0.25, 0.2), VE.Maxwell(0.2, 3.0))}[cfg.get("branches", 0)]
    dim = cfg.get("dim", 3)
    return Models.InElastic.Behavior(dim, _elastic3(), yieldSurface=surf() if surf else None, hardening=hard() if hard else None, kinematic=kin() if kin else None, rate=rate() if rate else None,
                           branches=branches, planeStress=bool(cfg.get("planeStress", False)), solver=solver)


def cfg_name(cfg):
    parts = [cfg.get("surface") or "elastic", cfg.get("hardening") or "perfect", cfg.get("kinematic") or "nokin", cfg.get("rate") or "ri", f"b{cfg.get('branches', 0)}",
             {(3, False): "3d", (2, False): "pe", (2, True): "ps"}[(cfg.get("dim", 3), bool(cfg.get("planeStress", False)))]]
    return ".".join(parts)


def _paths(seed, ncomp, Ne=3, nPg=4, nseg=5, npts=7, amp=4e-3):
    """piecewise-linear strain paths: load, unload, reverse, turn (non-proportional), reload -- one per (element, Gauss point)."""
    rng = np.random.default_rng(seed)
    out = np.zeros((Ne, nPg, nseg * npts + 1, ncomp))
    for e in range(Ne):
        for p in range(nPg):
            pts = [np.zeros(ncomp)]
            d1 = rng.normal(size=ncomp)
            d1 /= np.linalg.norm(d1)
            d2 = rng.normal(size=ncomp)
            d2 /= np.linalg.norm(d2)
            a = amp * rng.uniform(0.6, 1.4)
            pts += [a * d1, 0.3 * a * d1, -0.9 * a * d1, -0.9 * a * d1 + 0.8 * a * d2, 1.1 * a * d2][:nseg]
            k = 1
            for s in range(nseg):
                for t in np.linspace(0, 1, npts + 1)[1:]:
                    out[e, p, k] = pts[s] + t * (pts[s + 1] - pts[s])
                    k += 1
    return out


def _snapshot(b):
    d = {}
    for k, v in vars(b).items():
        if isinstance(v, np.ndarray):
            d[k] = v.copy()
        elif isinstance(v, (int, float, str, bool, tuple, type(None))):
            d[k] = v
    return d


def _same_snapshot(a, b):
    if a.keys() != b.keys():
        return False
    for k in a:
        if isinstance(a[k], np.ndarray):
            if not np.array_equal(a[k], b[k]):
                return False
        elif a[k] != b[k]:
            return False
    return True


def run_path(cfg, seed, check_tangent=True, solver="auto"):
    """drive the real Integrate along the seeded paths and evaluate the contracts; returns the list of violations (strings) and statistics."""
    from EasyFEA.FEM._linalg import FeArray
    b = make_behavior(cfg, solver)
    dim = cfg.get("dim", 3)
    ncomp = 6 if dim == 3 else 3
    P = _paths(seed, ncomp)
    Ne, nPg, nstep, _ = P.shape
    dt = 0.05
    rate_dep = cfg.get("rate") is not None
    viol = []
    stats = dict(steps=0, plastic_points=0, tangent_checked=0, max_f=0.0, min_dgamma=0.0, min_dissipation=0.0, max_tangent_err=0.0, max_szz=0.0)
    z = b.State_zeros(Ne, nPg)
    layout = b.layout
    scale = 250.0
    eps6_old = np.zeros((Ne, nPg, 6))
    psi_old = np.zeros((Ne, nPg))
    snap = _snapshot(b)
    has_y = cfg.get("surface") is not None
    alive = np.ones((Ne, nPg), dtype=bool)
    stats["dead"] = 0
    # solver accuracy only (class-level settings): the default 1e-10 on strain rows is a stress noise of C * 1e-10 ~ 3e-5, which finite differences of the
    # returned stress amplify by 1/h -- tightened so that the tangent can be resolved; non-convergence at this accuracy removes the point (see below)
    b._tol = 1e-13
    if cfg.get("planeStress"):
        b._planeStress_tol = 1e-12
    snap = _snapshot(b)
    for k in range(1, nstep):
        eps = FeArray.asfearray(P[:, :, k].copy())
        zin = z.copy()
        zbytes = np.asarray(z).tobytes()
        try:
            sig, C, znew, ok = b.Integrate(eps, z, dt)
        except AssertionError as ex:
            if "did not converge" in str(ex):
                stats["stopped"] = f"step {k}: {str(ex)[:80]}"           # a step that does not converge is outside the property's range: the experiment ends here
                break
            raise
        stats["steps"] += 1
        if np.asarray(z).tobytes() != zbytes:
            viol.append(f"step {k}: Integrate modified the committed state it was given")
            break
        if not _same_snapshot(snap, _snapshot(b)):
            viol.append(f"step {k}: Integrate modified the behavior object")
            break
        sig2, C2, z2, ok2 = b.Integrate(FeArray.asfearray(P[:, :, k].copy()), zin, dt)
        if not (np.array_equal(np.asarray(sig), np.asarray(sig2)) and np.array_equal(np.asarray(znew), np.asarray(z2)) and np.array_equal(np.asarray(C), np.asarray(C2))):
            viol.append(f"step {k}: a second Integrate call with the same arguments returns different values (hidden state advance)")
            break
        okm = np.asarray(ok).astype(bool)
        if not okm.all():
            # the property ranges over steps that converge: a point whose local solve reports non-convergence leaves the experiment (with its committed state frozen)
            alive &= okm
            stats["dead"] = int((~alive).sum())
        sig, C, znew = np.asarray(sig).copy(), np.asarray(C).copy(), np.asarray(znew).copy()
        if not alive.all():
            dead = ~alive
            znew[dead] = np.asarray(z)[dead]
            P[dead, k:] = P[dead, k - 1][:, None, :]           # hold the strain: nothing happens any more at a dead point
            if alive.sum() < 6:
                break
        eps6 = np.asarray(b.Compute_strain_6d(eps, z, dt))
        zfe = FeArray.asfearray(znew)
        m = alive
        sig6 = np.asarray(b.Compute_sigma(FeArray.asfearray(eps6), zfe))
        if dim == 2:
            if np.abs(sig6[..., [0, 1, 5]] - sig)[m].max() > 1e-6 * scale:
                viol.append(f"step {k}: returned 2-D stress differs from the 6-D stress of the returned state by {np.abs(sig6[..., [0, 1, 5]] - sig)[m].max():.3e}")
            if cfg.get("planeStress"):
                stats["max_szz"] = max(stats["max_szz"], float(np.abs(sig6[..., 2])[m].max()))
                if np.abs(sig6[..., 2])[m].max() > 1e-5 * scale:
                    viol.append(f"step {k}: plane stress leaves sigma_zz = {np.abs(sig6[..., 2])[m].max():.3e}")
        else:
            if np.abs(sig6 - sig)[m].max() > 1e-6 * scale:
                viol.append(f"step {k}: returned stress differs from C:(eps - eps_p) - ... of the returned state by {np.abs(sig6 - sig)[m].max():.3e}")
        if has_y:
            Pslot, Aslot = layout.slots["eps_p"], layout.slots["p"]
            p_new, p_old = znew[..., Aslot][..., 0], np.asarray(z)[..., Aslot][..., 0]
            dg = p_new - p_old
            stats["min_dgamma"] = min(stats["min_dgamma"], float(dg[m].min()))
            stats["plastic_points"] += int(((dg > 1e-12) & m).sum())
            if dg[m].min() < -1e-12:
                viol.append(f"step {k}: plastic multiplier increment {dg[m].min():.3e} < 0 (accumulated plastic strain decreases)")
            if cfg.get("surface") in ("VonMises", "Hill"):
                ep = znew[..., Pslot]
                t = np.abs(ep[..., :3].sum(-1))[m].max()
                if t > 1e-10 * (1e-3 + np.abs(ep)[m].max()):
                    viol.append(f"step {k}: plastic strain is not traceless (|tr eps_p| = {t:.3e})")
            if not rate_dep:
                Xb = b.Compute_back_stress(zfe)
                xi = FeArray.asfearray(sig6 - np.asarray(Xb)) if not isinstance(Xb, float) else FeArray.asfearray(sig6)
                # the yield function and the hardening force of the behavior itself
                ysurf = b._Behavior__yield
                Rv = b._Behavior__hardening.R(FeArray.asfearray(p_new))
                fval = np.asarray(ysurf.f(xi, Rv))
                stats["max_f"] = max(stats["max_f"], float(fval[m].max()))
                if fval[m].max() > 1e-6 * scale:
                    viol.append(f"step {k}: stress outside the yield surface: max f = {fval[m].max():.3e} (scale {scale})")
                # consistency: flowing points sit ON the surface
                flowing = dg > 1e-10
                if (flowing & m).any() and np.abs(fval[flowing & m]).max() > 1e-6 * scale:
                    viol.append(f"step {k}: flowing points are not on the surface: |f| = {np.abs(fval[flowing & m]).max():.3e}")
        # dissipation: sigma_{n+1} : d eps - d psi >= 0
        psi_new = np.asarray(b.Compute_psi(FeArray.asfearray(eps6), zfe))
        D = np.einsum("epi,epi->ep", sig6, eps6 - eps6_old) - (psi_new - psi_old)
        stats["min_dissipation"] = min(stats["min_dissipation"], float(D[m].min()))
        if D[m].min() < -1e-7 * scale * 1e-3:
            viol.append(f"step {k}: negative dissipation  sigma:d eps - d psi = {D[m].min():.3e}")
        # consistent tangent vs Richardson finite differences of the returned stress (same committed state)
        if check_tangent and k % 3 == 0:
            h = 1e-6
            Cfd = np.zeros_like(C)
            stable = alive.copy()
            for j in range(ncomp):
                d = np.zeros(ncomp)
                d[j] = 1.0

                def S(hh):
                    s_, _, zz_, ok_ = b.Integrate(FeArray.asfearray(P[:, :, k] + hh * d), z, dt, withTangent=False)
                    return np.asarray(s_), np.asarray(zz_), np.asarray(ok_).astype(bool)
                try:
                    (sp1, zp1, o1), (sm1, zm1, o2), (sp2, zp2, o3), (sm2, zm2, o4) = S(h), S(-h), S(h / 2), S(-h / 2)
                except AssertionError as ex:
                    if "did not converge" in str(ex):
                        stable[:] = False          # a perturbed solve does not converge: no finite difference at this step
                        break
                    raise
                stable &= o1 & o2 & o3 & o4
                Cfd[..., j] = (4 * (sp2 - sm2) / h - (sp1 - sm1) / (2 * h)) / 3
                if has_y:
                    A = layout.slots["p"]
                    act = [(zz[..., A][..., 0] - np.asarray(z)[..., A][..., 0]) > 1e-13 for zz in (zp1, zm1, zp2, zm2)]
                    base = (znew[..., A][..., 0] - np.asarray(z)[..., A][..., 0]) > 1e-13
                    for a_ in act:
                        stable &= (a_ == base)
            if stable.any():
                err = np.abs(Cfd - C)[stable].max() / np.abs(C).max()
                stats["tangent_checked"] += int(stable.sum())
                stats["max_tangent_err"] = max(stats["max_tangent_err"], float(err))
                if err > (1e-4 if cfg.get("planeStress") else 2e-5):
                    viol.append(f"step {k}: algorithmic tangent differs from the finite-difference derivative of the returned stress by {err:.3e} (relative)")
        z = FeArray.asfearray(znew.copy())
        eps6_old, psi_old = eps6, psi_new
        if len(viol) >= 3:
            break
    return viol, stats, (P, )


def ob_path(cfg, seed):
    viol, stats, _ = run_path(cfg, seed)
    if viol:
        raise Refuted(f"{cfg_name(cfg)} (path seed {seed}): " + " | ".join(viol[:3]), cex=dict(config=cfg, seed=seed), signature=f"path:{cfg_name(cfg)}", replay=dict(confirmed=True, stats=stats))
    if cfg.get("surface") and stats["plastic_points"] == 0:
        raise Unsupported("the paths never yield: vacuous")
    if stats["steps"] < 8 or stats.get("dead", 0) > 8:          # vacuity guard only: most of the experiment must have converged
        raise Unsupported(f"too little of the experiment converged ({stats['steps']} steps, {stats.get('dead', 0)} dead points): {stats.get('stopped', '')}")
    return Verdict(DISCHARGED, backend="native Integrate along seeded strain paths", detail=f"{stats['steps']} steps x 12 points, {stats['plastic_points']} plastic increments, tangent err {stats['max_tangent_err']:.1e}, "
                   f"max f {stats['max_f']:.1e}, min D {stats['min_dissipation']:.1e}, non-converged points {stats.get('dead', 0)}", sub=stats["steps"] * 12)


def ob_jacobian(cfg, seed):
    """the local Jacobian (dr/du, dr/deps) returned by Behavior.__Jacobian is the derivative of Behavior.__Residual (Richardson finite differences) at flowing points of a seeded path."""
    from EasyFEA.FEM._linalg import FeArray
    b = make_behavior(cfg)
    if b.layout.n == 0 or b._Behavior__eigen is not None:
        raise Unsupported("no local Newton for this configuration")
    b._tol = 1e-13
    dim = cfg.get("dim", 3)
    P = _paths(seed, 6 if dim == 3 else 3)
    Ne, nPg, nstep, _ = P.shape
    dt = 0.05
    z = b.State_zeros(Ne, nPg)
    nz = b.layout.n
    has_y = cfg.get("surface") is not None
    nu = nz + (1 if has_y else 0)
    R, J_ = b._Behavior__Residual, b._Behavior__Jacobian
    checked, worst = 0, 0.0
    for k in range(1, nstep):
        eps = FeArray.asfearray(P[:, :, k].copy())
        try:
            sig, C, znew, ok = b.Integrate(eps, z, dt)
        except AssertionError as ex:
            if "did not converge" in str(ex):
                break
            raise
        ok = np.asarray(ok).astype(bool)
        if k % 4 == 0:
            eps6 = np.asarray(b.Compute_strain_6d(eps, z, dt))
            u = np.zeros((Ne, nPg, nu))
            u[..., :nz] = np.asarray(znew) - np.asarray(z)
            flowing = np.zeros((Ne, nPg), dtype=bool)
            if has_y:
                A = b.layout.slots["p"]
                u[..., nz] = u[..., A.start]
                flowing = u[..., nz] > 1e-9
            sel = ok & (flowing if has_y else np.ones((Ne, nPg), dtype=bool))
            if sel.any():
                Cm = b._C_e_pg(Ne, nPg)
                ufe = FeArray.asfearray(u)
                r, s_, N, dN = R(FeArray.asfearray(eps6), ufe, z, Cm, dt)
                J, D = J_(ufe, z, N, dN, Cm, dt)
                J, D = np.asarray(J), np.asarray(D)
                fd = lambda f, hh: (f(hh) - f(-hh)) / (2 * hh)

                def fd_tables(h):
                    Jfd, Dfd = np.zeros_like(J), np.zeros_like(D)
                    for j in range(nu):
                        d = np.zeros(nu)
                        d[j] = 1.0
                        # the rate law is singular at zero flow: its column is differentiated with a step relative to the multiplier itself
                        sc_j = np.where(sel, np.maximum(np.abs(u[..., nz]), 1e-12) * 1e3, 1.0)[..., None] if (has_y and j == nz and cfg.get("rate")) else 1.0
                        f = lambda hh: np.asarray(R(FeArray.asfearray(eps6), FeArray.asfearray(u + hh * sc_j * d), z, Cm, dt)[0])
                        col = (4 * fd(f, h / 2) - fd(f, h)) / 3
                        Jfd[..., j] = col / sc_j if not np.isscalar(sc_j) else col
                    for j in range(6):
                        d = np.zeros(6)
                        d[j] = 1.0
                        f = lambda hh: np.asarray(R(FeArray.asfearray(eps6 + hh * d), ufe, z, Cm, dt)[0])
                        Dfd[..., j] = (4 * fd(f, h / 2) - fd(f, h)) / 3
                    return Jfd, Dfd
                with np.errstate(all="ignore"):
                    (Jfd, Dfd), (Jfd2, Dfd2) = fd_tables(1e-6), fd_tables(4e-6)
                # compare row-wise on the scale of each row (strain rows ~1, the yield row ~C); a point where the two finite-difference tables (steps h and 4h)
                # disagree is one where the residual is not smooth enough for the oracle (e.g. next to the apex of a pressure-dependent surface): it leaves the experiment
                sel_pt = sel.copy()
                for A_, B_ in ((Jfd, Jfd2), (Dfd, Dfd2)):
                    sc = np.maximum(np.abs(A_).max(axis=-1, keepdims=True), 1.0)
                    with np.errstate(all="ignore"):
                        dev = (np.abs(A_ - B_) / sc).max(axis=(-1, -2))
                    sel_pt &= np.isfinite(dev) & (dev < 1e-7)
                for name, A_, B_ in (("dr/du", J, Jfd), ("dr/deps", D, Dfd)):
                    if not sel_pt.any():
                        break
                    sc = np.maximum(np.abs(B_).max(axis=-1, keepdims=True), 1.0)
                    e = (np.abs(A_ - B_) / sc)[sel_pt].max()
                    worst = max(worst, float(e))
                    if e > 1e-6:
                        idx = np.unravel_index(np.argmax(np.where(sel_pt[..., None, None], np.abs(A_ - B_) / sc, 0.0)), A_.shape)
                        raise Refuted(f"{cfg_name(cfg)} step {k}: {name}[{idx[2]},{idx[3]}] = {A_[idx]:.6g}, finite differences of the residual give {B_[idx]:.6g} (slots {({str(kk): (v.start, v.stop) for kk, v in b.layout.slots.items()})})",
                                      cex=dict(config=cfg, step=k, entry=[int(idx[2]), int(idx[3])]), signature=f"jacobian:{cfg_name(cfg)}", replay=dict(confirmed=True, rel_err=float(e)))
                sel = sel_pt
                checked += int(sel.sum())
        z = FeArray.asfearray(np.where(ok[..., None], np.asarray(znew), np.asarray(z)))
        P[~ok, k:] = P[~ok, k - 1][:, None, :]
    if checked == 0:
        raise Unsupported("no flowing point reached")
    return Verdict(DISCHARGED, backend="native: Jacobian vs Richardson finite differences of the residual", detail=f"{checked} points, worst {worst:.1e}", sub=checked)


def ob_maxwell_consistency(cfg, seed):
    """thermodynamic consistency of the visco-elastic branches: in the local residual the strain increment of a Maxwell dashpot is driven by the force conjugate to it in
    the free energy, A_i = - d psi / d eps_v_i (obtained here by central differences of the real Compute_psi):  r_v_i == d eps_v_i - (dt / tau_i) (g_i C)^-1 A_i  at the
    end-of-step state -- which is what makes the branch dissipation A_i : d eps_v_i non-negative (also together with plasticity, where eps_e = eps - eps_p)."""
    from EasyFEA.FEM._linalg import FeArray
    b = make_behavior(cfg)
    branches = getattr(b, "_Behavior__branches")
    if not branches or b.layout.n == 0:
        raise Unsupported("no Maxwell branch / no local Newton in this configuration")
    rng = np.random.default_rng(seed + 5)
    Ne, nPg = 2, 3
    nz = b.layout.n
    has_y = cfg.get("surface") is not None
    nu = nz + (1 if has_y else 0)
    dt = 0.3
    Cm = b._C_e_pg(Ne, nPg)
    C6 = np.asarray(Cm)[0, 0] if np.asarray(Cm).ndim == 4 else np.asarray(Cm)
    R = b._Behavior__Residual
    n = 0
    for trial in range(3):
        eps6 = 2e-3 * rng.normal(size=(Ne, nPg, 6))
        z = 1e-3 * rng.normal(size=(Ne, nPg, nz))
        u = 5e-4 * rng.normal(size=(Ne, nPg, nu))
        if Slot_p(b) is not None:
            z[..., Slot_p(b)] = np.abs(z[..., Slot_p(b)])
            u[..., Slot_p(b)] = np.abs(u[..., Slot_p(b)])
            if has_y:
                u[..., nz] = u[..., Slot_p(b).start]
        zfe = FeArray.asfearray(z)
        r = np.asarray(R(FeArray.asfearray(eps6), FeArray.asfearray(u), zfe, Cm, dt)[0])
        zend = z + u[..., :nz]
        psi = lambda zz: np.asarray(b.Compute_psi(FeArray.asfearray(eps6), FeArray.asfearray(zz)))
        for i, br in enumerate(branches):
            sl = b.layout.slots[f"eps_v{i}"]
            A = np.zeros((Ne, nPg, 6))
            h = 1e-6
            for c_ in range(6):
                d = np.zeros(nz)
                d[sl.start + c_] = h
                A[..., c_] = -(psi(zend + d) - psi(zend - d)) / (2 * h)
            drive = np.linalg.solve(br.g * C6, A[..., None])[..., 0]            # (g C)^-1 A
            want = u[..., sl] - (dt / br.tau) * drive
            e = float(np.abs(r[..., sl] - want).max() / max(np.abs(want).max(), 1e-30))
            n += 1
            if e > 1e-6:
                raise Refuted(f"{cfg_name(cfg)}: Maxwell branch {i} (g = {br.g}, tau = {br.tau}): its residual is not d eps_v - (dt/tau) (g C)^-1 A with A = -d psi/d eps_v "
                              f"(relative difference {e:.3e}): the dashpot is not driven by its conjugate force", cex=dict(config=cfg, branch=i), signature=f"maxwell:{cfg_name(cfg)}",
                              replay=dict(confirmed=True, rel_err=e))
    return Verdict(DISCHARGED, backend="native: residual vs finite differences of the free energy", sub=n)


def Slot_p(b):
    for k, v in b.layout.slots.items():
        if str(getattr(k, "value", k)) == "p":
            return v
    return None


def ob_solvers(cfg, seed):
    from EasyFEA.FEM._linalg import FeArray
    b1, b2 = make_behavior(cfg, "auto"), make_behavior(cfg, "newton")
    if b1._Behavior__eigen is None:
        raise Unsupported("configuration is not reducible: only one local solver applies")
    if b2._Behavior__eigen is not None:
        raise Unsupported("solver='newton' did not select the Newton path")
    dim = cfg.get("dim", 3)
    P = _paths(seed, 6 if dim == 3 else 3)
    Ne, nPg, nstep, _ = P.shape
    z1, z2 = b1.State_zeros(Ne, nPg), b2.State_zeros(Ne, nPg)
    worst = 0.0
    for k in range(1, nstep):
        s1, C1, zz1, ok1 = b1.Integrate(FeArray.asfearray(P[:, :, k].copy()), z1, 0.05)
        s2, C2, zz2, ok2 = b2.Integrate(FeArray.asfearray(P[:, :, k].copy()), z2, 0.05)
        es = float(np.abs(np.asarray(s1) - np.asarray(s2)).max() / 250.0)
        ez = float(np.abs(np.asarray(zz1) - np.asarray(zz2)).max())
        worst = max(worst, es, ez * 1e3)
        if es > 1e-6 or ez > 1e-9:
            raise Refuted(f"{cfg_name(cfg)} step {k}: spectral return and local Newton disagree: stress {es:.3e} (x sigma_y), state {ez:.3e}", cex=dict(config=cfg, seed=seed, step=k),
                          signature=f"solvers:{cfg_name(cfg)}", replay=dict(confirmed=True, stress=es, state=ez))
        z1, z2 = zz1, zz2
    return Verdict(DISCHARGED, backend="native", detail=f"worst {worst:.1e}")


def ob_spectral_flag(law, n):
    """the spectral (default) local solve with a rate law of exponent n: every point it reports as converged satisfies the visco-plastic consistency condition
    f(sigma, R(p)) == inverse(dp / dt) and agrees with the local Newton there; a point it gave up on must not be reported as converged"""
    from EasyFEA import Models
    from EasyFEA.FEM._linalg import FeArray
    InE = Models.InElastic
    SY, H, DT = 250.0, 2000.0, 1.0
    surface = InE.Yield.VonMises(SY)
    rate = (InE.ViscoPlastic.Norton(1e-2, n, SY) if law == "Norton" else InE.ViscoPlastic.Perzyna(100.0, n, SY))
    rng = np.random.default_rng(5)
    eps = np.array([3e-3, -5e-4, -5e-4, 1e-4, -2e-4, 3e-4])[None, None] * rng.uniform(0.6, 1.6, size=(2, 3, 1))
    out = {}
    for solver in ("auto", "newton"):
        b = InE.Behavior(3, _elastic3(), yieldSurface=surface, hardening=InE.IsotropicHardening.Linear(H), rate=rate, solver=solver)
        if solver == "auto" and b._Behavior__eigen is None:
            raise Unsupported("the configuration does not select the spectral path")
        sig, _, z, ok = b.Integrate(FeArray.asfearray(eps.copy()), dt=DT)
        p = np.asarray(z)[..., 6]
        f = np.asarray(surface.f(sig, H * FeArray.asfearray(p)))
        out[solver] = (np.asarray(sig), p, f - np.asarray(rate.inverse(p / DT)), np.asarray(ok, dtype=bool))
    sig1, p1, r1, ok1 = out["auto"]
    sig2, p2, r2, ok2 = out["newton"]
    if not (p2 > 0).any():
        raise Unsupported("no flowing point")
    bad = ok1 & (np.abs(r1) > 1e-6 * SY)
    if bad.any():
        e, q = np.argwhere(bad)[0]
        raise Refuted(f"{law} n={n}: the spectral local solve reports point ({e},{q}) as converged with a consistency residual f - inverse(dp/dt) = {r1[e, q]:.3e} "
                      f"(p = {p1[e, q]:.3e}; the local Newton finds p = {p2[e, q]:.3e} with residual {r2[e, q]:.1e})", cex=dict(law=law, n=n, strain=eps[e, q].tolist(), dt=DT),
                      signature=f"spectral:flag:{law}", replay=dict(confirmed=True, residual=float(r1[e, q]), p_spectral=float(p1[e, q]), p_newton=float(p2[e, q])))
    both = ok1 & ok2
    if both.any():
        es = float(np.abs(sig1 - sig2)[both].max() / SY)
        if es > 1e-6:
            raise Refuted(f"{law} n={n}: spectral return and local Newton both report convergence and differ by {es:.3e} sigma_y", signature=f"spectral:agree:{law}", replay=dict(confirmed=True, stress=es))
    return Verdict(DISCHARGED, backend="native", detail=f"converged spectral {int(ok1.sum())}/{ok1.size}, newton {int(ok2.sum())}/{ok2.size}")


def ob_readback(cfg, seed):
    """Behavior.Compute_stress(eps, z) READS the stress of a state: at the state Integrate just returned it gives the stress Integrate returned (no flow, no time step), for
    rate-independent and rate-dependent behaviours, in 3-D, plane strain and plane stress"""
    from EasyFEA.FEM._linalg import FeArray
    b = make_behavior(cfg)
    dim = cfg.get("dim", 3)
    P = _paths(seed, 6 if dim == 3 else 3)
    Ne, nPg, nstep, _ = P.shape
    z = b.State_zeros(Ne, nPg)
    n, flowed = 0, False
    for k in range(1, min(nstep, 14)):
        eps = FeArray.asfearray(P[:, :, k].copy())
        sig, _, z2, ok = b.Integrate(eps, z, 0.05)
        ok = np.asarray(ok, dtype=bool)
        if b.layout.n and (np.abs(np.asarray(z2) - np.asarray(z)).max() > 0):
            flowed = True
        try:
            back = np.asarray(b.Compute_stress(eps, z2))
        except Exception as ex:
            raise Refuted(f"{cfg_name(cfg)} step {k}: Compute_stress at the state Integrate returned raises {type(ex).__name__}: {str(ex)[:160]}", cex=dict(config=cfg, seed=seed, step=k),
                          signature=f"readback:{cfg_name(cfg)}:raises", replay=dict(confirmed=True, raised=repr(ex)[:200]))
        sg = np.asarray(sig)
        if ok.any():
            e = float(np.abs(back - sg)[ok].max() / 250.0)
            n += 1
            if not e < 1e-6:
                raise Refuted(f"{cfg_name(cfg)} step {k}: Compute_stress(eps, z) differs from the stress Integrate returned with that state by {e:.3e} sigma_y", cex=dict(config=cfg, seed=seed, step=k),
                              signature=f"readback:{cfg_name(cfg)}", replay=dict(confirmed=True, err=e))
        z = z2
    if b.layout.n and not flowed:
        raise Unsupported("the paths never change the state")
    return Verdict(DISCHARGED, backend="native", sub=n)


def ob_elastic(dim, planeStress):
    from EasyFEA import Models
    from EasyFEA.FEM._linalg import FeArray
    b = Models.InElastic.Behavior(dim, _elastic3(), planeStress=planeStress)
    ref = Models.Elastic.Isotropic(dim, E=210e3, v=0.3, planeStress=planeStress) if dim == 2 else _elastic3()
    Cref = np.asarray(ref.C)
    P = _paths(3, 6 if dim == 3 else 3)
    for k in (1, 9, 17, 30):
        eps = P[:, :, k]
        s, C, z, ok = b.Integrate(FeArray.asfearray(eps.copy()))
        want = np.einsum("ij,epj->epi", Cref, eps)
        e1 = float(np.abs(np.asarray(s) - want).max() / (np.abs(want).max() + 1e-30))
        e2 = float(np.abs(np.asarray(C) - Cref).max() / np.abs(Cref).max())
        if e1 > 1e-12 or e2 > 1e-12 or np.asarray(z).shape[-1] != 0:
            raise Refuted(f"behavior without internal variables ({dim}-D, planeStress={planeStress}): stress differs from C:eps of Models.Elastic by {e1:.3e}, tangent by {e2:.3e}",
                          signature=f"elastic:{dim}:{planeStress}", replay=dict(confirmed=True, stress=e1, tangent=e2))
    return Verdict(DISCHARGED, backend="native")


def _simulation_run(cfg):
    from EasyFEA import Simulations, ElemType
    from EasyFEA.Geoms import Domain
    b = make_behavior(cfg)
    mesh = Domain((0, 0), (4.0, 1.0), 0.5).Mesh_2D([], ElemType.QUAD4, isOrganised=True)
    simu = Simulations.InElastic(mesh, b)
    simu.dt = 0.05
    n0 = mesh.Nodes_Conditions(lambda x, y, z: x == 0)
    nL = mesh.Nodes_Conditions(lambda x, y, z: x == 4.0)
    out = []

    def committed():
        d = simu._InElastic__zOld
        return {str(k): np.asarray(v).copy() for k, v in d.items()}
    for step, ux in enumerate((0.004, 0.012, 0.006)):
        simu.Bc_Init()
        simu.add_dirichlet(n0, [0, 0], ["x", "y"])
        simu.add_dirichlet(nL, [ux], ["x"])
        before = committed()
        simu.Solve()
        mid1 = committed()
        r1 = np.asarray(simu.Result("Svm", nodeValues=False)).copy()
        simu.Need_Update()
        simu.Get_K_C_M_F()                     # re-assembly (another pass through Integrate) between the solve and the save
        r2 = np.asarray(simu.Result("Svm", nodeValues=False)).copy()
        simu.Result("Sxx")
        simu.Result("p", nodeValues=False)
        mid2 = committed()
        trial = {str(k): np.asarray(v).copy() for k, v in simu._InElastic__z.items()}
        simu.Save_Iter()
        after = committed()
        out.append(dict(before=before, mid1=mid1, mid2=mid2, after=after, trial=trial, r1=r1, r2=r2))
    # restore an earlier iteration, then solve another load step WITHOUT saving: the restored committed state must survive the Newton iterations,
    # and replaying the load of the next stored step must reproduce that stored step
    stored1 = {str(k): np.asarray(v).copy() for k, v in simu.results[1]["state"].items()} if hasattr(simu, "results") else None
    simu.Set_Iter(0)
    restored = committed()
    simu.Bc_Init()
    simu.add_dirichlet(n0, [0, 0], ["x", "y"])
    simu.add_dirichlet(nL, [0.012], ["x"])
    simu.Solve()
    after_solve = committed()
    trial = {str(k): np.asarray(v).copy() for k, v in simu._InElastic__z.items()}
    out.append(dict(restore=True, restored=restored, after_solve=after_solve, trial=trial, stored_next=out[1]["after"]))
    return out


def ob_simulation(cfg):
    import contextlib, io
    try:
        with contextlib.redirect_stdout(io.StringIO()):
            runs = _simulation_run(cfg)
    except (AssertionError, ValueError, IndexError, KeyError, FloatingPointError) as ex:
        # the scenario (three small load steps, restore, one more step) solves on the unchanged tree: an exception here comes from the simulation itself
        raise Refuted(f"{cfg_name(cfg)}: the load / save / restore / solve scenario raises {type(ex).__name__}: {str(ex)[:160]}", signature=f"simulation:raises:{cfg_name(cfg)}", replay=dict(confirmed=True))
    def same(a, b):
        return a.keys() == b.keys() and all(np.array_equal(a[k], b[k]) for k in a)
    anyp = False
    rr = runs.pop()
    if not same(rr["restored"], rr["after_solve"]):
        raise Refuted("after Set_Iter(0), a Solve() without Save_Iter changed the restored committed state (the trial state shares storage with it)", signature="simulation:restore:solve",
                      replay=dict(confirmed=True))
    worst = max(float(np.abs(rr["trial"][k] - rr["stored_next"][k]).max()) for k in rr["trial"])
    if worst > 1e-9:
        raise Refuted(f"replaying the load of step 1 from restored iteration 0 does not reproduce the stored state of step 1 (max difference {worst:.3e})", signature="simulation:restore:replay",
                      replay=dict(confirmed=True, diff=worst))
    for i, r in enumerate(runs):
        # the zero state may be created lazily: compare contents where present
        if r["before"] and not same(r["before"], r["mid1"]):
            raise Refuted(f"load step {i}: Solve() changed the committed state before Save_Iter", signature="simulation:solve", replay=dict(confirmed=True))
        if not same(r["mid1"], r["mid2"]):
            raise Refuted(f"load step {i}: re-assembly / Result() queries changed the committed state", signature="simulation:resolve", replay=dict(confirmed=True))
        if not np.allclose(r["r1"], r["r2"], rtol=1e-9, atol=1e-9):
            raise Refuted(f"load step {i}: solving the same step twice gives different results (history advanced by re-assembly / result queries)", signature="simulation:repeat", replay=dict(confirmed=True))
        if not same(r["after"], r["trial"]):
            raise Refuted(f"load step {i}: Save_Iter did not commit the trial state", signature="simulation:save", replay=dict(confirmed=True))
        anyp = anyp or any(np.abs(v).max() > 0 for v in r["after"].values())
    if not anyp:
        raise Unsupported("the simulation never yields: vacuous")
    return Verdict(DISCHARGED, backend="native simulation, 3 load steps")


def ob_materialpoint():
    from EasyFEA.Models.InElastic._materialpoint import MaterialPoint
    cfg = dict(surface="VonMises", hardening="Linear", kinematic="AF")
    b = make_behavior(cfg)
    snap = _snapshot(b)
    path = np.concatenate([np.linspace(0, 5e-3, 30), np.linspace(5e-3, -2e-3, 40)[1:]])
    r1 = MaterialPoint(b).Run(strain={"xx": path})
    r2 = MaterialPoint(b).Run(strain={"xx": path})
    if not _same_snapshot(snap, _snapshot(b)):
        raise Refuted("MaterialPoint.Run modified the behavior", signature="materialpoint:pure", replay=dict(confirmed=True))
    if not np.array_equal(r1["stress"], r2["stress"]) or not np.array_equal(r1["state"], r2["state"]):
        raise Refuted("MaterialPoint.Run twice on the same behavior gives different histories", signature="materialpoint:repeat", replay=dict(confirmed=True))
    p = r1["p"]
    if np.diff(p).min() < -1e-12:
        raise Refuted("uniaxial path: accumulated plastic strain decreases", signature="materialpoint:p", replay=dict(confirmed=True))
    lat = np.abs(r1["stress"][:, 1:3]).max()
    if lat > 1e-6 * 250:
        raise Refuted(f"uniaxial stress path leaves lateral stress {lat:.3e}", signature="materialpoint:uniaxial", replay=dict(confirmed=True))
    return Verdict(DISCHARGED, backend="native", detail=f"p_end {p[-1]:.4f}")


def _replay_pure():
    try:
        viol, stats, _ = run_path(dict(surface="VonMises", hardening="Linear", kinematic="AF"), 0, check_tangent=False)
        bad = [v for v in viol if "modified" in v or "second Integrate" in v]
        return dict(confirmed=bool(bad), violations=viol[:3])
    except Exception as e:
        return dict(confirmed=False, raised=repr(e)[:300])


def _replay_restore():
    try:
        ob_simulation(dict(surface="VonMises", hardening="Linear", dim=2))
        return dict(confirmed=False)
    except Refuted as r:
        return dict(confirmed="restore" in str(r) or "replay" in str(r), native=str(r)[:300])
    except Exception as e:
        return dict(confirmed=False, raised=repr(e)[:300])


def _replay_simulation():
    try:
        ob_simulation(dict(surface="VonMises", hardening="Linear", dim=2))
        return dict(confirmed=False)
    except Refuted as r:
        return dict(confirmed=True, native=str(r)[:300])
    except Exception as e:
        return dict(confirmed=False, raised=repr(e)[:300])


# ---------------------------------------------------------------- build

QUICK_CFGS = [
    dict(surface="VonMises"), dict(surface="VonMises", hardening="Linear"), dict(surface="VonMises", hardening="Voce", kinematic="AF"),
    dict(surface="VonMises", hardening="Swift", kinematic="Chaboche"), dict(surface="VonMises", kinematic="Prager"),
    dict(surface="Hill", hardening="Linear"), dict(surface="Hill", hardening="Voce", kinematic="AF"), dict(surface="DruckerPrager", hardening="Linear"),
    dict(surface="VonMises", hardening="Linear", rate="Norton"), dict(surface="VonMises", hardening="Voce", kinematic="AF", rate="Perzyna"),
    dict(branches=1), dict(surface="VonMises", hardening="Linear", branches=2), dict(surface="VonMises", kinematic="Prager", branches=1), dict(surface="Hill", hardening="Swift", kinematic="AF", branches=1), dict(surface="VonMises", hardening="Linear", kinematic="AF", branches=1, rate="Norton"),
    # several back-stresses together with Maxwell branches: every block of the local Jacobian (back-strain rows x branch columns, per component) is exercised
    dict(surface="VonMises", hardening="Linear", kinematic="Chaboche", branches=1), dict(surface="Hill", hardening="Voce", kinematic="Chaboche", branches=2, rate="Norton"),
    dict(surface="VonMises", hardening="Linear", dim=2), dict(surface="VonMises", hardening="Linear", dim=2, planeStress=True),
    dict(surface="VonMises", hardening="Voce", kinematic="AF", dim=2, planeStress=True), dict(surface="Hill", hardening="Linear", dim=2, planeStress=True),
    dict(surface="DruckerPrager", hardening="Voce", dim=2), dict(surface="VonMises", hardening="Linear", rate="Norton", dim=2, planeStress=True),
]


def _all_cfgs():
    out = []
    for surf in ("VonMises", "Hill", "DruckerPrager"):
        for hard in (None, "Linear", "Voce", "Swift"):
            for kin in (None, "Prager", "AF", "Chaboche"):
                for rate in (None, "Norton"):
                    for br in (0, 1, 2):
                        for dim, ps in ((3, False), (2, False), (2, True)):
                            out.append(dict(surface=surf, hardening=hard, kinematic=kin, rate=rate, branches=br, dim=dim, planeStress=ps))
    return out


def build(tier, seed):
    obs = []
    thorough = tier == "thorough"
    obs.append(Ob("C19.pure.behavior", ob_pure_behavior, (), "E", (f"{BEH}::Behavior.Integrate",), clause="no store to self, no in-place write into an argument, on every path of every method reachable from Integrate"))
    obs.append(Ob("C19.pure.simulation", ob_pure_simulation, (), "E", (f"{SIM}::InElastic",), clause="committed state bound only by __init__ / Save_Iter / Set_Iter (+ guarded zero init); never written in place"))
    for s in ("VonMises", "Hill", "DruckerPrager"):
        obs.append(Ob(f"C19.yield.{s}", ob_yield, (s,), "P", (f"{YLD}::{s}",), clause="phi^2 == sig'P sig; N == df/dsig; dNdSig == dN/dsig for all stresses", timeout=900))
    for law in ("Linear", "Voce", "Swift"):
        obs.append(Ob(f"C19.hardening.{law}", ob_hardening, (law,), "P", (f"{ISO}::{law}",), clause="R == d psi/dp, dR == dR/dp, R(0) == psi(0) == 0", timeout=600))
    obs.append(Ob("C19.hardening.kinematic", ob_kinematic, (), "P", (f"{KIN}::ArmstrongFrederick",), clause="X == d psi/d alpha, modulus == dX/d alpha"))
    obs.append(Ob("C19.ratelaw", ob_ratelaw, (), "P", (f"{VP}::Norton", f"{VP}::Perzyna"), clause="inverse(rate(f)) == f, dinverse == d inverse / d gdot in the flowing range"))
    cfgs = list(QUICK_CFGS)
    if thorough:
        import random
        rnd = random.Random(seed)
        allc = _all_cfgs()
        names = {cfg_name(c) for c in cfgs}
        rnd.shuffle(allc)
        for c in allc:
            if cfg_name(c) not in names and len(cfgs) < 90:
                cfgs.append(c)
                names.add(cfg_name(c))
    for cfg in cfgs:
        for s in range(2 if thorough else 1):
            obs.append(Ob(f"C19.path.{cfg_name(cfg)}" + (f".s{s}" if s else ""), ob_path, (cfg, seed + s), "X", (f"{BEH}::Behavior.Integrate", f"{BEH}::Behavior.__Flow", f"{BEH}::Behavior.__Spectral"),
                          bound="12 seeded strain paths of 35 steps (load / unload / reverse / turn)", clause="converged; f <= 0; d gamma >= 0; tr eps_p == 0; sigma:d eps - d psi >= 0; tangent == d sigma/d eps; sigma_zz == 0; pure",
                          timeout=3600))
    for cfg in cfgs:
        probe = make_behavior(cfg)
        if probe.layout.n and probe._Behavior__eigen is None:
            obs.append(Ob(f"C19.jacobian.{cfg_name(cfg)}", ob_jacobian, (cfg, seed + 2), "X", (f"{BEH}::Behavior.__Jacobian", f"{BEH}::Behavior.__Residual"), bound="flowing points of 12 seeded strain paths",
                          clause="dr/du and dr/deps of the local solve == derivatives of its residual", timeout=1800))
    for cfg in cfgs:
        if cfg.get("branches"):
            obs.append(Ob(f"C19.maxwell.{cfg_name(cfg)}", ob_maxwell_consistency, (cfg, seed), "X", (f"{BEH}::Behavior.__Residual", f"{BEH}::Behavior.Compute_psi"), bound="3 random states x 6 points",
                          clause="each Maxwell dashpot is driven by the force conjugate to it in the free energy (non-negative branch dissipation), with and without plasticity", timeout=600))
    for cfg in [dict(surface="VonMises"), dict(surface="VonMises", hardening="Linear"), dict(surface="VonMises", hardening="Voce"), dict(surface="Hill", hardening="Linear"), dict(surface="Hill", hardening="Swift"),
                dict(surface="VonMises", hardening="Linear", dim=2, planeStress=True), dict(surface="Hill", hardening="Voce", dim=2), dict(surface="VonMises", hardening="Linear", rate="Norton")]:
        obs.append(Ob(f"C19.solvers.{cfg_name(cfg)}", ob_solvers, (cfg, seed + 1), "X", ("EasyFEA/Models/InElastic/_spectral.py::Solve", f"{BEH}::Behavior.__Flow"), bound="12 seeded strain paths",
                      clause="spectral return == local Newton (stress 1e-6 sigma_y, state 1e-9)", timeout=1800))
    for cfg in (dict(surface="VonMises", hardening="Linear"), dict(surface="VonMises", hardening="Linear", rate="Norton"), dict(surface="VonMises", hardening="Linear", dim=2, planeStress=True),
                dict(surface="VonMises", hardening="Linear", rate="Norton", dim=2, planeStress=True), dict(surface="VonMises", hardening="Voce", kinematic="AF", rate="Norton", dim=2, planeStress=True),
                dict(surface="VonMises", hardening="Linear", branches=1, dim=2, planeStress=True), dict(surface="Hill", hardening="Linear", dim=2)):
        obs.append(Ob(f"C19.readback.{cfg_name(cfg)}", ob_readback, (cfg, seed + 3), "X", (f"{BEH}::Behavior.Compute_stress", f"{BEH}::Behavior.Compute_strain_6d"), bound="12 seeded strain paths, 13 steps",
                      clause="Compute_stress(eps, z) at the state Integrate returned == the stress Integrate returned (a read: no flow, no time)", timeout=900))
    for law, n in (("Norton", 1.0), ("Norton", 3.0), ("Norton", 5.0), ("Norton", 8.0), ("Perzyna", 6.0)):
        obs.append(Ob(f"C19.solvers.flag.{law}.n{int(n)}", ob_spectral_flag, (law, n), "X", ("EasyFEA/Models/InElastic/_spectral.py::Solve", f"{BEH}::Behavior.__Spectral"), bound="6 strain states, one step",
                      clause="a point the spectral solve reports as converged satisfies f == inverse(dp/dt) (1e-6 sigma_y) and agrees with the local Newton", timeout=600))
    for dim, ps in ((3, False), (2, False), (2, True)):
        obs.append(Ob(f"C19.elastic.{dim}d{'.ps' if ps else ''}", ob_elastic, (dim, ps), "X", (f"{BEH}::Behavior.Integrate",), bound="4 strain states x 12 points", clause="no internal variables: sigma == C:eps, tangent == C of Models.Elastic"))
    for cfg in (dict(surface="VonMises", hardening="Linear", dim=2), dict(surface="VonMises", hardening="Voce", kinematic="AF", rate="Norton", dim=2, planeStress=True)):
        obs.append(Ob(f"C19.simulation.{cfg_name(cfg)}", ob_simulation, (cfg,), "X", (f"{SIM}::InElastic.Construct_local_matrix_system", f"{SIM}::InElastic.Save_Iter"), bound="one 16-element bar, 3 load steps",
                      clause="Solve / Result never advance the committed state; Save_Iter commits the trial state", timeout=1800))
    obs.append(Ob("C19.materialpoint", ob_materialpoint, (), "X", ("EasyFEA/Models/InElastic/_materialpoint.py::MaterialPoint.Run",), bound="one uniaxial load / reverse path", clause="Run is repeatable and leaves the behavior unchanged"))
    from . import C14 as _C14
    obs.append(Ob("C19.solvers.after.elastic.change", _C14.ob_behavior_elastic_change, ("auto",), "X", ("EasyFEA/Models/InElastic/_behavior.py::Behavior._Update", "EasyFEA/Models/InElastic/_behavior.py::Behavior.Integrate"),
                  bound="one von Mises / linear hardening behaviour, 6 strain states, E and v of its elastic law re-assigned three times", timeout=300,
                  clause="after the elastic law is re-parametrised the spectral return runs on the decomposition of the new stiffness: stress, tangent and state equal those of a behaviour built on the new law"))
    obs.append(Ob("canary.yield", ob_yield_canary, (), "P", expect=REFUTED))
    obs.append(Ob("canary.path", ob_path_canary, (), "X", expect=REFUTED))
    return dict(
        obs=obs, level="other", min_obligations=30,
        explanation=("Purity of Integrate and of the simulation's history is an effect contract decided on the AST for every call sequence. The pieces the local solve is built from (yield "
                     "surfaces, hardening, back-stress, rate laws) are decided symbolically: their hand-written derivatives are the derivatives of their potentials for all arguments and "
                     "parameters. The return mapping itself is an iterative float solve outside the deductive domain: admissibility, dissipation, tangent consistency, plane stress and "
                     "solver agreement are run-time contracts on seeded strain paths (bounded)."),
        trusted_base=["sympy simplification; exact field arithmetic with radicals", "AST scan assumes no aliasing through containers (arrays are passed directly)", "numpy.linalg.solve (external)"],
        assumptions=["inequalities (f <= 0, dissipation >= 0) over ALL paths are not decidable by contracts on an iterative float solver: bounded sampling only",
                     "tangent checked away from the elastic/plastic switch (finite differences are meaningless across it)", "Swift exponent instantiated (1/3, 7/10)"],
        functions={"Integrate": extract.get(BEH, "Behavior.Integrate").describe(), "__Flow": extract.get(BEH, "Behavior.__Flow").describe(), "__Residual": extract.get(BEH, "Behavior.__Residual").describe(),
                   "__Jacobian": extract.get(BEH, "Behavior.__Jacobian").describe()},
        dropped=["hardening / rate laws: D1-D5, numpy replaced by sympy functions, np.maximum(x, floor) read as x (flowing range)"],
    )


def ob_yield_canary():
    """a von Mises normal scaled by the wrong factor must be refuted."""
    import EasyFEA.Models.InElastic.Yield as Y
    orig = Y._Normal_J2
    Y._Normal_J2 = lambda s: orig(s) * 1.01
    return ob_yield("VonMises")


def ob_path_canary():
    """a hardening law whose slope is wrong must break tangent consistency."""
    from EasyFEA.Models.InElastic import IsotropicHardening as IH
    orig = IH.Linear

    def bad(H):
        h = orig(H)
        return IH.IsotropicHardening(h.psi, h.R, lambda p: 3.0 * h.dR(p))
    IH.Linear = bad
    return ob_path(dict(surface="VonMises", hardening="Linear", kinematic="AF"), 0)
