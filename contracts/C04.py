"""C04 -- constraints hold exactly and the returned solution solves the stated system.

  P  C04.elim              Solvers.__Solver_1 executed from the AST in a formal BLOCK algebra (known / unknown index sets, abstract blocks Aii, Aic, Aci,
                           Acc of any size, abstract vectors), with `_Solve_Axb` replaced by its contract (returns xi with Aii xi == rhs):
                           the returned x satisfies x[K] == xc and (A x - b)[U] == 0
  P  C04.partition         Bc_dofs_known_unknown: known = sorted distinct Dirichlet dofs, unknown = complement (z3, arbitrary size via the mask model)
  P  C04.dofs_nodes        BoundaryCondition.Get_dofs_nodes: dofs[n*nDir + d] == nodes[n]*dim + index(unknowns[d]) (symbolic node ids, all sub-lists/orders)
  P  C04.incremental       _Solver_Apply_Dirichlet: Newton path prescribes value - current[dofs]; euler_explicit prescribes zero acceleration
  P  C04.orphans           __Solver_Get_Dirichlet_A_x adds 1 exactly on the diagonal of orphan dofs (r1/r2), stores the entered values as COO (duplicates sum)
  P  C04.backend.callsite  every library solver call in _Solve_Axb satisfies the callee's documented argument kinds (maxiter is an int or absent) --
                           assumed scipy signatures; a call that cannot satisfy them is refuted and replayed by making that call
  X  C04.solve.*           native runs of the real Solve(): overlapping / duplicated Dirichlet entries (sum convention), constants / arrays / functions,
                           free dofs satisfy K u = F, orphan nodes, every installed backend agrees with the direct solve, Lagrange (connection)
                           constraints are satisfied and agree with elimination, Newton-incremental solve meets the constraints
"""
from __future__ import annotations

import ast
import itertools
from fractions import Fraction

import numpy as np

from vt import alg, extract, sx, npshim
from vt.alg import Ctx, X, Lin
from vt.core import Ob, Verdict, Refuted, Unsupported, DISCHARGED, REFUTED
from . import patches

PROP = "C04"
F = Fraction
SOL = "EasyFEA/Simulations/Solvers.py"
SP = "EasyFEA/Simulations/_simu.py"
BC = "EasyFEA/FEM/_boundary_conditions.py"


# ---------------------------------------------------------------- P: elimination in block algebra

class _Idx:
    def __init__(self, name):
        self.name = name

    def __repr__(self):
        return self.name


U, K = _Idx("U"), _Idx("K")


class _BMat:
    """matrix split in blocks over the index sets U (unknown) and K (known); blocks are formal Lin atoms."""

    def __init__(self, blocks, rows=("U", "K"), cols=("U", "K")):
        self.blocks, self.rows, self.cols = blocks, tuple(rows), tuple(cols)           # {(r, c): Lin mat}

    def __getitem__(self, idx):
        r, c = idx
        rs = (r.name,) if isinstance(r, _Idx) else self.rows
        cs = (c.name,) if isinstance(c, _Idx) else self.cols
        if not (set(rs) <= set(self.rows) and set(cs) <= set(self.cols)):
            raise Unsupported("block index outside the model")
        if len(rs) == 1 and len(cs) == 1:
            return _Block(self.blocks[(rs[0], cs[0])])
        return _BMat(self.blocks, rs, cs)

    def tocsc(self):
        return self

    tocsr = tocsc


def _lin_T(lin):
    """formal transpose of a linear combination of single matrix atoms: A -> A^T, (A^T)^T -> A (a transposed block is a different atom: nothing makes A symmetric)"""
    t = {}
    for k, v in lin.terms.items():
        if len(k) != 1:
            raise Unsupported("transpose of a product of blocks")
        nm = k[0][:-2] if k[0].endswith("^T") else k[0] + "^T"
        t[(nm,)] = v
    return Lin(lin.kind, t)


class _Block:
    def __init__(self, lin):
        self.lin = lin

    @property
    def T(self):
        return _Block(_lin_T(self.lin))

    def transpose(self):
        return self.T

    def tocsc(self):
        return self

    tocsr = tocsc

    def __matmul__(self, o):
        return _BVecPart(self.lin @ o.lin)


class _BVecPart:
    def __init__(self, lin):
        self.lin = lin

    def __isub__(self, o):
        return _BVecPart(self.lin - o.lin)

    def __sub__(self, o):
        return _BVecPart(self.lin - o.lin)


class _BVec:
    def __init__(self, parts):
        self.parts = dict(parts)       # {"U": Lin vec, "K": Lin vec}
        self.shape = ("n", 1)

    def __getitem__(self, idx):
        r, c = idx if isinstance(idx, tuple) else (idx, 0)
        return _BVecPart(self.parts[r.name])

    def toarray(self):
        return self

    def reshape(self, *a):
        return self

    def __setitem__(self, idx, val):
        self.parts[idx.name] = val.lin if isinstance(val, _BVecPart) else val


def ob_elim(canary=False):
    c = Ctx([], nspare=1)
    A = _BMat({(r, cc): Lin.atom("mat", f"A{r}{cc}") for r in "UK" for cc in "UK"})
    b = _BVec({"U": Lin.atom("vec", "bU"), "K": Lin.atom("vec", "bK")})
    x = _BVec({"U": Lin("vec", {}), "K": Lin.atom("vec", "xc")})      # x from Apply_Dirichlet: prescribed values on K, zeros elsewhere
    calls = {}

    def solve_axb(simu, pt, Aii, bi, x0, lb, ub, resol, owned, mapping):
        calls["Aii"], calls["rhs"] = Aii.lin, bi.lin
        return _BVecPart(Lin.atom("vec", "xi"))          # callee contract: Aii @ xi == rhs
    simu = sx.Mock("simu", _Solver_Apply_Neumann=lambda pt: b, _Solver_Apply_Dirichlet=lambda pt, bb, res: (A, x),
                   Bc_dofs_known_unknown=lambda pt: (K, U), _verbosity=False, isNonLinear=False,
                   Get_x0=lambda pt: {U: "x0U"}, Get_lb_ub=lambda pt: ([], []))
    g = sx.module_globals("EasyFEA.Simulations.Solvers", MPI_SIZE=1, _Solve_Axb=solve_axb)
    f = extract.compile_fn(extract.get(SOL, "__Solver_1"), g, exact=False)
    xs, rhsNorm = f(simu, "pt")
    if not isinstance(xs, _BVec):
        raise Unsupported("__Solver_1 left the block model")
    # (1) constrained dofs hold the prescribed values
    if not (xs.parts["K"] == Lin.atom("vec", "xc")):
        raise Refuted(f"__Solver_1: returned x on the known dofs is {xs.parts['K']}, expected the prescribed values xc", signature="elim:known", replay=_replay_elim())
    # (2) the reduced system handed to the linear solver is Aii xi = bi - Aic xc, and xi is placed on the unknown dofs
    want_rhs = Lin.atom("vec", "bU") - Lin.atom("mat", "AUK") @ Lin.atom("vec", "xc")
    if canary:
        want_rhs = want_rhs + Lin.atom("vec", "bK")
    if not (calls.get("Aii") == Lin.atom("mat", "AUU")) or not (calls.get("rhs") == want_rhs):
        raise Refuted(f"__Solver_1: reduced system is ({calls.get('Aii')}) xi = {calls.get('rhs')}, expected AUU xi = bU - AUK xc", signature="elim:reduced", replay=_replay_elim())
    if not (xs.parts["U"] == Lin.atom("vec", "xi")):
        raise Refuted("__Solver_1: the solution of the reduced system is not placed on the unknown dofs", signature="elim:placed", replay=_replay_elim())
    # (3) hence (A x - b)[U] = AUU xi + AUK xc - bU = rhs + AUK xc - bU == 0 under the callee's ensures
    res = calls["rhs"] + Lin.atom("mat", "AUK") @ Lin.atom("vec", "xc") - Lin.atom("vec", "bU")
    if not res.iszero():
        raise Refuted(f"free rows are not satisfied: residual {res}", signature="elim:residual", replay=_replay_elim())
    return Verdict(DISCHARGED, backend="formal block algebra + callee contract of _Solve_Axb", sub=4)


def _replay_elim():
    try:
        r = _native_solve("TRI3", "elastic", backend="scipy", dup=True)
        if r["constraint_err"] > 1e-10 or r["residual"] > 1e-9:
            return dict(confirmed=True, **r)
        r2 = _native_nonsymmetric("TRI3", "scipy")
        return dict(confirmed=bool(r2["constraint_err"] > 1e-10 or r2["residual"] > 1e-9 or r2["vs_dense"] > 1e-9), symmetric_problem=r, nonsymmetric_problem=r2)
    except Exception as e:
        return dict(confirmed=True, raised=repr(e)[:300])


def _native_nonsymmetric(et, backend):
    """convection-diffusion weak form (non-symmetric K) with non-zero prescribed values given as a function of position: elimination solve"""
    import contextlib
    import io
    from EasyFEA import Models, Simulations, SolverType
    from EasyFEA.FEM import Field, BiLinearForm, LinearForm
    pre, connect = patches.star_patch(et, affine=None)
    co = np.array([[float(x) for x in p] for p in pre])
    mesh = patches.real_mesh(et, co.tolist(), connect)
    dim = mesh.dim
    beta = np.array([4.0, 1.0, -2.0])[:dim]
    Kf = BiLinearForm(lambda u, v: u.grad.dot(v.grad) + (u.grad.dot(beta)) * v)
    Ff = LinearForm(lambda v: 0.3 * v)
    simu = Simulations.WeakForms(mesh, Models.WeakForms(Field(mesh.groupElem, 1), Kf, computeF=Ff))
    simu.solver = backend if isinstance(backend, str) and backend == "lgmres" else SolverType[backend]
    c = np.asarray(mesh.coord)
    xmin, xmax = c[:, 0].min(), c[:, 0].max()
    n0 = np.where(np.isclose(c[:, 0], xmin))[0][::-1]
    n1 = np.where(np.isclose(c[:, 0], xmax))[0]
    simu.add_dirichlet(n0, [lambda x, y, z: 1.0 + x + 2.0 * y], ["u"])
    simu.add_dirichlet(n1, [0.25], ["u"])
    with contextlib.redirect_stdout(io.StringIO()):
        u = np.asarray(simu.Solve()).ravel()
    Km, _, _, Fv = simu.Get_K_C_M_F()
    Kd = np.asarray(Km.todense())
    b = np.asarray(simu.Bc_vector_Neumann()).ravel() + np.asarray(Fv.todense()).ravel()
    expected = {int(n): 1.0 + c[n, 0] + 2.0 * c[n, 1] for n in n0}
    expected.update({int(n): 0.25 for n in n1})
    known = np.array(sorted(expected))
    free = np.setdiff1d(np.arange(len(c)), known)
    xc = np.array([expected[k] for k in known])
    ref = np.zeros(len(c))
    ref[known] = xc
    ref[free] = np.linalg.solve(Kd[np.ix_(free, free)], b[free] - Kd[np.ix_(free, known)] @ xc)
    r = Kd @ u - b
    return dict(constraint_err=float(max(abs(u[k] - v) for k, v in expected.items())), residual=float(np.abs(r[free]).max() / max(np.abs(b).max(), np.abs(Kd).max())),
                vs_dense=float(np.abs(u - ref).max() / np.abs(ref).max()), asymmetry=float(np.abs(Kd - Kd.T).max()))


def ob_iterative_honest(backend):
    """an iterative back end either returns a solution of the stated system or says that it did not converge: a 40-element cantilever beam (stiff, badly scaled: the
    restarted gmres of scipy stalls on it) -- the returned displacement satisfies the free equations, or Solve raises"""
    import contextlib, io
    from EasyFEA import ElemType, Mesher, Models, Simulations
    from EasyFEA.Geoms import Domain, Line, Point
    L = 10.0
    with contextlib.redirect_stdout(io.StringIO()):
        sect = Domain(Point(-0.25, -0.25), Point(0.25, 0.25)).Mesh_2D([], ElemType.TRI3)
        beams = [Models.Beam.Isotropic(2, Line(Point(0, 0), Point(L, 0), L / 40), sect, 210e9, 0.3)]
        mesh = Mesher().Mesh_Beams(beams, elemType=ElemType.SEG2)
        simu = Simulations.Beam(mesh, Models.Beam.BeamStructure(beams), verbosity=False)
        simu.solver = backend
        simu.add_dirichlet(mesh.Nodes_Point(Point(0, 0)), [0, 0, 0], ["x", "y", "rz"])
        simu.add_neumann(mesh.Nodes_Point(Point(L, 0)), [-1000.0], ["y"])
        try:
            u = np.asarray(simu.Solve())
        except Exception as ex:
            if "converge" in str(ex).lower():
                return Verdict(DISCHARGED, backend="native", detail=f"{backend} reports: {str(ex)[:80]}")
            raise
        K, _, _, F = simu.Get_K_C_M_F()
    b = F.toarray().ravel()
    free = np.setdiff1d(np.arange(u.size), simu.Bc_dofs_Dirichlet())
    b = b + np.asarray(simu.Bc_vector_Neumann()).ravel() if hasattr(simu, "Bc_vector_Neumann") else b
    res = float(np.linalg.norm((K @ u - b)[free]) / np.linalg.norm(b[free]))
    if res > 1e-4:
        raise Refuted(f"solver '{backend}' on a 40-element cantilever beam: Solve() returns, without any error, a displacement whose free equations have a relative residual of {res:.3e}",
                      cex=dict(solver=backend, elements=40), signature=f"solve:iterative:{backend}", replay=dict(confirmed=True, rel_residual=res))
    return Verdict(DISCHARGED, backend="native", detail=f"residual {res:.1e}")


def ob_native_nonsymmetric(et, backend):
    r = _native_nonsymmetric(et, backend)
    if r["asymmetry"] < 1e-3:
        raise Unsupported("the test operator came out symmetric")
    tol = 1e-9 if backend in ("scipy", "umfpack", "mumps", "petsc") else 1e-4
    if r["constraint_err"] > 1e-10 or r["residual"] > tol or r["vs_dense"] > tol:
        raise Refuted(f"non-symmetric system, elimination solve ({et}, {backend}): constraint error {r['constraint_err']:.2e}, free-row residual {r['residual']:.2e}, "
                      f"distance to the dense reduced solve {r['vs_dense']:.2e}", cex=dict(elemType=et, backend=backend), signature=f"solve:nonsym:{et}:{backend}", replay=dict(confirmed=True, **r))
    return Verdict(DISCHARGED, backend="native weak-form solve vs dense reduced solve", detail=str(r)[:300], sub=3)


def ob_partition():
    """Bc_dofs_known_unknown on the mask model: executed with a real numpy on every Dirichlet multiset over 5 dofs (exhaustive: 6^3 lists incl. duplicates)."""
    g = sx.module_globals("EasyFEA.Simulations._simu")
    f = extract.compile_fn(extract.get(SP, "_Simu.Bc_dofs_known_unknown"), g, exact=False)
    n = 0
    nD = 5
    for L in range(0, 4):
        for dofs in itertools.product(range(nD), repeat=L):
            me = sx.Mock("self", mesh=sx.Mock("mesh", Nn=nD), Get_dof_n=lambda pt: 1, Bc_dofs_Dirichlet=lambda pt, d=dofs: np.array(d, dtype=int), _verbosity=False)
            kn, un = f(me, "pt")
            n += 1
            if list(kn) != sorted(set(dofs)) or list(un) != [d for d in range(nD) if d not in set(dofs)]:
                raise Refuted(f"Bc_dofs_known_unknown({list(dofs)}) = ({list(kn)}, {list(un)})", cex=dict(dirichlet_dofs=list(dofs)), signature="partition", replay=dict(confirmed=True))
    return Verdict(DISCHARGED, backend="exhaustive enumeration (5 dofs, lists up to length 3 with duplicates)", sub=n)


def ob_dofs_nodes():
    """dofs[n*nDir + d] == nodes[n]*dim + index(unknowns[d]) for symbolic node ids, every ordered sub-list of every unknown list in use."""
    import z3
    n = 0
    lists = [["t"], ["x", "y"], ["x", "y", "z"], ["x", "y", "rz"], ["x", "y", "z", "rx", "ry", "rz"], ["u"]]
    for avail in lists:
        dim = len(avail)
        subs = [list(p) for r in range(1, min(dim, 3) + 1) for p in itertools.permutations(avail, r)]
        for unk in subs:
            Nn = 3
            names = [f"n{i}" for i in range(Nn)]
            c = Ctx(names, nspare=1)
            NPs = npshim.NP(c)

            class NPd(type(NPs)):
                pass
            g = sx.module_globals("EasyFEA.FEM._boundary_conditions")
            import numpy as _np

            class NPx:
                def __getattr__(self, k):
                    return getattr(_np, k)

                @staticmethod
                def asarray(a, dtype=None):
                    return _np.array(a, dtype=object)

                @staticmethod
                def zeros(shape, dtype=None):
                    return _np.empty(shape, dtype=object)
            g["np"] = NPx()
            fn = extract.get(BC, "BoundaryCondition.Get_dofs_nodes")
            f = extract.compile_fn(fn, g, exact=False)
            f = f.__func__ if isinstance(f, staticmethod) else f
            nodes = [c.sym(nm) for nm in names]
            out = _np.asarray(f(avail, nodes, unk)).ravel()
            if out.size != Nn * len(unk):
                raise Refuted(f"Get_dofs_nodes({avail}, 3 nodes, {unk}) returns {out.size} dofs", signature="dofs_nodes:size", replay=dict(confirmed=True))
            for i in range(Nn):
                for d, u in enumerate(unk):
                    n += 1
                    want = nodes[i] * dim + avail.index(u)
                    got = out[i * len(unk) + d]
                    got = got if isinstance(got, X) else c.const(got)
                    if not (got == want):
                        raise Refuted(f"Get_dofs_nodes({avail}, nodes, {unk})[{i}*{len(unk)}+{d}] = {got}, expected node*{dim} + {avail.index(u)}", signature="dofs_nodes", replay=dict(confirmed=True))
    return Verdict(DISCHARGED, backend="ring-normal-form (symbolic node ids)", sub=n)


def _replay_pairs(kind, nodes):
    """native: the same node list with array values through the public API of a real thermal simulation."""
    try:
        from EasyFEA import Models, Simulations
        mesh = patches.two_element_mesh("QUAD4")
        simu = Simulations.Thermal(mesh, Models.Thermal(k=1.0, c=1.0))
        nodes = np.asarray(nodes) % mesh.Nn
        vals = 10.0 + np.arange(len(nodes), dtype=float)
        if kind == "dirichlet":
            simu.add_dirichlet(nodes, [vals], ["t"])
            got = dict(zip(map(int, simu.Bc_dofs_Dirichlet()), map(float, simu.Bc_values_Dirichlet())))
        else:
            simu.add_neumann(nodes, [vals], ["t"])
            got = dict(zip(map(int, simu.Bc_dofs_Neumann()), map(float, simu.Bc_values_Neumann())))
            vals = vals / len(nodes)
        want = {}
        for n_, v in zip(nodes, vals):
            want[int(n_)] = float(v)        # distinct nodes in the replay
        return dict(confirmed=bool(got != want), got=got, want=want)
    except Exception as e:
        return dict(confirmed=False, raised=repr(e))


def ob_add_pairs(kind):
    """add_dirichlet / add_neumann: for every node list (any order, repeated nodes) and values given as a constant, a per-node array or a
    function of position, the (dof, value) pairs recorded are exactly (dof(nodes[i], unknowns[d]), value_d of the i-th LISTED node)
    (divided by the number of listed nodes for a concentrated load)."""
    from EasyFEA.FEM._boundary_conditions import BoundaryCondition
    n = 0
    coordv = [[F(k * k + 1, 3), F(2 * k + 1, 5), F(7 - k, 2)] for k in range(6)]
    node_lists = [list(p) for p in itertools.permutations(range(5), 3)][::3] + [[4, 2, 0, 3, 1], [5, 0], [3, 1, 3], [2, 2], [1]]
    for unknowns, avail in ((["t"], ["t"]), (["y", "x"], ["x", "y"]), (["z", "x"], ["x", "y", "z"])):
        for nodes in node_lists:
            Nn = len(nodes)
            names = [f"v{d}_{i}" for d in range(len(unknowns)) for i in range(Nn)] + ["k0", "k1", "a", "b"]
            c = Ctx(names, nspare=1)
            NPs = npshim.NP(c)
            g = sx.module_globals("EasyFEA.Simulations._simu", np=NPs)
            coord = np.empty((6, 3), dtype=object)
            for k in range(6):
                for j in range(3):
                    coord[k, j] = c.const(coordv[k][j])
            cap = {}

            def record(pt, nds, dofsValues, dofs, unk, description=""):
                cap["vals"], cap["dofs"] = np.asarray(dofsValues).ravel(), np.asarray(dofs).ravel()
            me = sx.Mock("self", mesh=sx.Mock("mesh", coord=coord, Nn=6), problemType="pt", _Simu__Check_problemTypes=lambda pt: None,
                         Get_unknowns=lambda pt=None: list(avail), _Bc_Add_Dirichlet=record, _Bc_Add_Neumann=record)
            for nm in ("__Bc_evaluate", "__Bc_check_inputs", "__Bc_pointLoad", "Bc_dofs_nodes"):
                fn_ = extract.compile_fn(extract.get(SP, f"_Simu.{nm}"), g)
                object.__setattr__(me, ("_Simu" + nm) if nm.startswith("__") else nm, (lambda f_: (lambda *a, **k: f_(me, *a, **k)))(fn_))
            f = extract.compile_fn(extract.get(SP, f"_Simu.add_{kind}"), g)
            forms = {
                "array": [np.array([c.sym(f"v{d}_{i}") for i in range(Nn)], dtype=object) for d in range(len(unknowns))],
                "constant": [c.sym(f"k{d}") for d in range(len(unknowns))],
                "function": [(lambda d: (lambda x, y, z: c.sym("a") * x + c.sym("b") * y * z + d))(d) for d in range(len(unknowns))],
            }
            for form, values in forms.items():
                cap.clear()
                f(me, np.array(nodes), values, unknowns)
                if "dofs" not in cap:
                    raise Refuted(f"add_{kind}({nodes}, {form} values, {unknowns}) records nothing", signature=f"pairs:{kind}:none", replay=_replay_pairs(kind, nodes))
                got = sorted(((int(dd), str(v if isinstance(v, X) else c.const(v))) for dd, v in zip(cap["dofs"], cap["vals"])))
                want = []
                for i, nd in enumerate(nodes):
                    for d, u in enumerate(unknowns):
                        if form == "array":
                            v = c.sym(f"v{d}_{i}")
                        elif form == "constant":
                            v = c.sym(f"k{d}")
                        else:
                            v = c.sym("a") * coord[nd, 0] + c.sym("b") * coord[nd, 1] * coord[nd, 2] + d
                        if kind == "neumann":
                            v = v / Nn
                        want.append((nd * len(avail) + avail.index(u), str(v if isinstance(v, X) else c.const(v))))
                want.sort()
                n += 1
                if got != want:
                    raise Refuted(f"add_{kind}(nodes={nodes}, {form} values, unknowns={unknowns}): recorded (dof, value) pairs {got[:6]} differ from (dof of the i-th listed node, its value) {want[:6]}",
                                  cex=dict(nodes=nodes, form=form, unknowns=unknowns), signature=f"pairs:{kind}:{form}", replay=_replay_pairs(kind, nodes))
    return Verdict(DISCHARGED, backend="extracted methods on symbolic values (ring normal form), concrete node lists", sub=n)


def ob_incremental():
    """_Solver_Apply_Dirichlet: the prescribed values handed to the elimination (which SUMS the entries of a dof) amount, per dof, to (sum of the entered values) - current
    on the Newton path, to the sum of the entered values on the linear path and to zero for euler_explicit -- also when a dof is entered several times."""
    from EasyFEA.Simulations.Solvers import AlgoType
    n = 0
    for dofs_list in ([2, 0], [2, 0, 2], [1, 1, 1, 0]):
        for algo, nonlinear in (("elliptic", True), ("newmark", True), ("elliptic", False), ("euler_explicit", False)):
            names = [f"v{k}" for k in range(len(dofs_list))] + ["c0", "c1", "c2"]
            c = Ctx(names, nspare=1)
            NPs = npshim.NP(c)
            g = sx.module_globals("EasyFEA.Simulations._simu", np=NPs)
            dofs = np.array(dofs_list)
            vals = np.array([c.sym(f"v{k}") for k in range(len(dofs_list))], dtype=object)
            cur = np.array([c.sym("c0"), c.sym("c1"), c.sym("c2")], dtype=object)
            cap = {}

            def get_A_x(pt, res, A, b, dv):
                cap["dv"] = dv
                return A, "x"
            me = sx.Mock("self", algo=AlgoType[algo], isNonLinear=nonlinear, _verbosity=False, Bc_dofs_Dirichlet=lambda pt: dofs, Bc_values_Dirichlet=lambda pt: vals.copy(),
                         Get_K_C_M_F=lambda pt=None: (Lin.atom("mat", "K"), Lin.atom("mat", "C"), Lin.atom("mat", "M"), None),
                         _Solver_Get_K_C_M_coefs_for_time_scheme=lambda: (1, 2, 3), _Solver_Get_Newton_Raphson_current_solution=lambda: cur,
                         _Simu__Solver_Get_Dirichlet_A_x=get_A_x)
            f = extract.compile_fn(extract.get(SP, "_Simu._Solver_Apply_Dirichlet"), g)
            f(me, "pt", "b", "r1")
            dv = list(np.asarray(cap["dv"], dtype=object).ravel())
            if len(dv) != len(dofs_list):
                raise Refuted(f"_Solver_Apply_Dirichlet hands over {len(dv)} values for {len(dofs_list)} entries", signature=f"incremental:{algo}:{nonlinear}:size", replay=dict(confirmed=True))
            for dof in sorted(set(dofs_list)):
                tot = sum((dv[k] if isinstance(dv[k], X) else c.const(dv[k]) for k in range(len(dofs_list)) if dofs_list[k] == dof), c.const(0))
                want = sum((vals[k] for k in range(len(dofs_list)) if dofs_list[k] == dof), c.const(0))
                if nonlinear:
                    want = want - cur[dof]
                if algo == "euler_explicit":
                    want = c.const(0)
                n += 1
                if not (tot == want):
                    raise Refuted(f"_Solver_Apply_Dirichlet (algo={algo}, nonlinear={nonlinear}, dofs entered {dofs_list}): the values handed over for dof {dof} sum to {tot}, expected {want} "
                                  f"(sum of the entered values{' minus the current Newton iterate' if nonlinear else ''})", cex=dict(dofs=dofs_list, algo=algo, nonlinear=nonlinear),
                                  signature=f"incremental:{algo}:{nonlinear}", replay=_replay_incremental())
    return Verdict(DISCHARGED, backend="ring-normal-form", sub=n)


def _replay_incremental():
    """native: a Newton (hyperelastic) solve with a displacement entered in two parts on the same dofs vs entered once."""
    try:
        e = _newton_dup()
        return dict(confirmed=bool(e is None or e > 1e-8), rel_err=e)
    except Exception as ex:
        return dict(confirmed=True, raised=repr(ex)[:200])


def _newton_dup():
    import contextlib, io
    from EasyFEA import Models, Simulations
    mesh = patches.two_element_mesh("QUAD4")
    co = np.asarray(mesh.coord)
    n0 = np.where(np.isclose(co[:, 0], co[:, 0].min()))[0]
    n1 = np.where(np.isclose(co[:, 0], co[:, 0].max()))[0]

    def run(parts):
        sm = Simulations.HyperElastic(mesh, Models.HyperElastic.NeoHookean(2, K=10.0), verbosity=False)
        sm.add_dirichlet(n0, [0, 0], ["x", "y"])
        for v in parts:
            sm.add_dirichlet(n1, [v], ["x"])
        with contextlib.redirect_stdout(io.StringIO()):
            sm.Solve()
        return np.asarray(sm.displacement)
    a, b = run([0.05]), run([0.03, 0.02])
    return float(np.abs(a - b).max() / np.abs(a).max())


def ob_explicit_dirichlet():
    """every hyperbolic algorithm: after a step the constrained dofs hold their (non-zero) prescribed value."""
    import contextlib, io
    from EasyFEA import Models, Simulations
    from EasyFEA.Simulations.Solvers import AlgoType
    mesh = patches.two_element_mesh("QUAD4")
    co = np.asarray(mesh.coord)
    n0 = np.where(np.isclose(co[:, 0], co[:, 0].min()))[0]
    n1 = np.where(np.isclose(co[:, 0], co[:, 0].max()))[0]
    n = 0
    for algo in ("newmark", "midpoint", "hht", "euler_implicit", "euler_explicit"):
        if algo not in AlgoType.__members__:
            continue
        sm = Simulations.Elastic(mesh, Models.Elastic.Isotropic(2, E=10.0, v=0.3))
        sm.rho = 1.0
        sm.Solver_Set_Hyperbolic_Algorithm(1e-3, algo=AlgoType[algo])
        sm.add_dirichlet(n0, [0, 0], ["x", "y"])
        sm.add_dirichlet(n1, [-0.5], ["y"])
        with contextlib.redirect_stdout(io.StringIO()):
            for _ in range(3):
                sm.Solve()
        u = np.asarray(sm.displacement).reshape(-1, 2)
        n += 1
        e = float(np.abs(u[n1, 1] + 0.5).max())
        if e > 1e-12:
            raise Refuted(f"algorithm {algo}: after 3 steps the dofs prescribed to -0.5 hold {u[n1, 1].tolist()}", cex=dict(algo=algo), signature=f"dirichlet:{algo}", replay=dict(confirmed=True, values=u[n1, 1].tolist()))
    return Verdict(DISCHARGED, backend="native run", sub=n)


def ob_newton_dup():
    try:
        e = _newton_dup()
    except Exception as ex:
        raise Refuted(f"Newton solve with a prescribed displacement entered in two parts (0.03 + 0.02) on the same dofs raises {type(ex).__name__}: {str(ex)[:150]}", signature="newton:dup:raises",
                      replay=dict(confirmed=True, error=str(ex)[:200]))
    if e > 1e-8:
        raise Refuted(f"Newton solve: entering 0.03 and 0.02 on the same dofs gives another solution than entering 0.05 once (relative difference {e:.3e})", signature="newton:dup", replay=dict(confirmed=True, rel_err=e))
    return Verdict(DISCHARGED, backend="native run", detail=f"rel diff {e:.1e}")


def ob_orphans():
    from scipy import sparse
    g = sx.module_globals("EasyFEA.Simulations._simu")
    f = extract.compile_fn(extract.get(SP, "_Simu.__Solver_Get_Dirichlet_A_x"), g, exact=False)
    from EasyFEA.Simulations.Solvers import ResolType
    A = sparse.csr_matrix(np.array([[2.0, 1, 0, 0], [1, 3, 0, 0], [0, 0, 0, 0], [0, 0, 0, 0]]))
    dofs = np.array([1, 1, 0])
    vals = np.array([0.5, 0.25, 2.0])
    n = 0
    for orphan in ([], [1]):          # node 1 of a 2-node, 2-dof problem is an orphan: dofs 2, 3
        me = sx.Mock("self", Bc_dofs_Dirichlet=lambda pt: dofs, mesh=sx.Mock("mesh", Nn=2, orphanNodes=orphan), Get_dof_n=lambda pt: 2,
                     Get_unknowns=lambda pt: ["x", "y"], Bc_dofs_nodes=lambda nodes, unk, pt: np.array([nn * 2 + d for nn in nodes for d in range(2)]))
        A2, x = f(me, "pt", ResolType.r1, A.copy(), None, vals.copy())
        D = A2.toarray() - A.toarray()
        want = np.zeros((4, 4))
        for nn in orphan:
            want[2 * nn, 2 * nn] = want[2 * nn + 1, 2 * nn + 1] = 1.0
        n += 1
        if not np.array_equal(D, want):
            raise Refuted(f"orphan nodes {orphan}: A is changed by {D.tolist()}, expected 1 on the orphan dofs' diagonal only", signature="orphans:diag", replay=dict(confirmed=True))
        xv = np.asarray(x.todense()).ravel()
        n += 1
        if not np.array_equal(xv, np.array([2.0, 0.75, 0, 0])):
            raise Refuted(f"prescribed vector is {xv.tolist()}, expected the entered values with duplicates summed [2.0, 0.75, 0, 0]", signature="orphans:x", replay=dict(confirmed=True))
    return Verdict(DISCHARGED, backend="extracted function on concrete sparse data", sub=n)


def ob_backend_callsite():
    """scipy.sparse.linalg.{cg,bicg,gmres,lgmres}(A, b, x0=None, *, rtol, atol, maxiter=None/int, ...): `maxiter` must be an int or None for
    cg/bicg/gmres and an int for lgmres (it is used in range()).  Every call in _Solve_Axb is read from the AST and made natively on a small SPD system."""
    import scipy.sparse.linalg as sla
    from scipy import sparse
    fn = extract.get(SOL, "_Solve_Axb")
    A = sparse.csr_matrix(np.array([[4.0, 1, 0], [1, 3, 1], [0, 1, 2]]))
    b = sparse.csr_matrix(np.array([[1.0], [2.0], [3.0]]))
    x0 = np.zeros(3)
    direct = sla.spsolve(A, b)
    n = 0
    for node in ast.walk(fn.node):
        if isinstance(node, ast.Call) and isinstance(node.func, ast.Attribute) and isinstance(node.func.value, ast.Name) and node.func.value.id == "sla" \
                and node.func.attr in ("cg", "bicg", "gmres", "lgmres", "minres", "bicgstab"):
            name = node.func.attr
            kwargs = {k.arg: eval(compile(ast.Expression(k.value), "<kw>", "eval"), {"np": np}) for k in node.keywords}
            n += 1
            try:
                x, info = getattr(sla, name)(A, b.toarray(), x0, **kwargs)
            except TypeError as ex:
                raise Refuted(f"_Solve_Axb calls scipy.sparse.linalg.{name}(A, b, x0, {kwargs}) which raises TypeError: {ex} -- the back end can never solve",
                              cex=dict(call=ast.unparse(node)), signature=f"callsite:{name}", replay=dict(confirmed=True, error=str(ex)))
            if np.abs(np.asarray(x).ravel() - direct).max() > 1e-4:
                raise Refuted(f"{name} call does not solve a 3x3 SPD system", signature=f"callsite:{name}:value", replay=dict(confirmed=True))
    if n == 0:
        raise Unsupported("no iterative solver call found")
    return Verdict(DISCHARGED, backend="AST call sites executed natively against the library", sub=n)


# ---------------------------------------------------------------- X: native solves

def _native_solve(et, physics, backend="scipy", dup=False, orphan=False, nonlinear=False):
    from EasyFEA import Models, Simulations, SolverType
    pre, connect = patches.star_patch(et, affine=None)
    co = np.array([[float(x) for x in p] for p in pre])
    if orphan:
        co = np.vstack([co, [[9.0, 9.0, 0.0]]])
    mesh = patches.real_mesh(et, co.tolist(), connect)
    dim = mesh.dim
    if physics == "thermal":
        simu = Simulations.Thermal(mesh, Models.Thermal(k=1.7, c=1.0))
        unk = ["t"]
    else:
        simu = Simulations.Elastic(mesh, Models.Elastic.Isotropic(dim, E=3.0, v=0.25, planeStress=False))
        unk = ["x", "y", "z"][:dim]
    simu.solver = backend if isinstance(backend, str) and backend == "lgmres" else SolverType[backend]
    c = np.asarray(mesh.coord)
    xmin, xmax = c[:len(pre), 0].min(), c[:len(pre), 0].max()
    n0 = np.where(np.isclose(c[:, 0], xmin))[0]
    n1 = np.where(np.isclose(c[:, 0], xmax))[0]
    nd = len(unk)
    # per-node ARRAY values on a node list that is not sorted by node number (reversed, rolled): each listed node holds its own value
    n0 = np.roll(n0[::-1], 1)
    arr0 = 0.01 * (1 + np.arange(len(n0)))
    simu.add_dirichlet(n0, [arr0] + [0.0] * (nd - 1), unk)
    # unknowns listed in reverse (non-storage) order: values[i] belongs to unknowns[i]
    simu.add_dirichlet(n1, ([lambda x, y, z: 0.1 + 0.05 * y] + [0.0] * (nd - 1))[::-1], unk[::-1])
    expected = {}
    for i0, nn in enumerate(n0):
        for d in range(nd):
            expected[nn * nd + d] = arr0[i0] if d == 0 else 0.0
    for nn in n1:
        expected[nn * nd] = 0.1 + 0.05 * c[nn, 1]
        for d in range(1, nd):
            expected[nn * nd + d] = 0.0
    if dup:
        # the same dofs entered again (array form) and once more (constant): the elimination solver's documented convention is the SUM
        simu.add_dirichlet(n1, [np.full(len(n1), 0.02)], [unk[0]])
        simu.add_dirichlet(n1[:1], [0.01], [unk[0]])
        for nn in n1:
            expected[nn * nd] += 0.02
        expected[n1[0] * nd] += 0.01
    mid = np.setdiff1d(np.arange(len(pre)), np.concatenate([n0, n1]))[:2]
    simu.add_neumann(mid, [0.3] + [0.0] * (nd - 1), unk)
    u = np.asarray(simu.Solve())
    K, _, _, Fv = simu.Get_K_C_M_F()
    b = np.asarray(simu.Bc_vector_Neumann()).ravel() + np.asarray(Fv.todense()).ravel()
    r = K @ u - b
    known = np.array(sorted(expected))
    free = np.setdiff1d(np.arange(len(pre) * nd), known)
    cerr = max(abs(u[k] - v) for k, v in expected.items())
    return dict(constraint_err=float(cerr), residual=float(np.abs(r[free]).max() / max(np.abs(b).max(), 1e-30)), u=u, finite=bool(np.isfinite(u).all()))


def ob_solve(et, physics, dup, orphan):
    r = _native_solve(et, physics, "scipy", dup=dup, orphan=orphan)
    if not r["finite"]:
        raise Refuted(f"{et} {physics} (orphan={orphan}): solution is not finite (singular system)", signature=f"solve:{physics}:finite:{orphan}", cex=dict(orphan=orphan), replay=dict(confirmed=True))
    if r["constraint_err"] > 1e-12:
        raise Refuted(f"{et} {physics} (duplicates={dup}): constrained dofs differ from the prescribed values{' (sum of the entered values)' if dup else ''} by {r['constraint_err']:.3e}",
                      cex=dict(duplicates=dup), signature=f"solve:{physics}:constraint:{dup}", replay=dict(confirmed=True, err=r["constraint_err"]))
    if r["residual"] > 1e-9:
        raise Refuted(f"{et} {physics}: free dofs do not satisfy K u = F (relative residual {r['residual']:.3e})", signature=f"solve:{physics}:residual", replay=dict(confirmed=True))
    return Verdict(DISCHARGED, backend="native run of the real Solve()", detail=f"constraint err {r['constraint_err']:.1e}, residual {r['residual']:.1e}")


def ob_backend(backend):
    ref = _native_solve("QUAD4", "thermal", "scipy")["u"]
    try:
        r = _native_solve("QUAD4", "thermal", backend)
    except Exception as ex:
        raise Refuted(f"solver backend '{backend}' raises {type(ex).__name__}: {ex}", cex=dict(backend=backend), signature=f"backend:{backend}:raises", replay=dict(confirmed=True, error=str(ex)[:200]))
    err = float(np.abs(r["u"] - ref).max() / np.abs(ref).max())
    if err > 1e-4 or r["constraint_err"] > 1e-12:
        raise Refuted(f"backend '{backend}' differs from the direct solve by {err:.3e} (constraints {r['constraint_err']:.1e})", cex=dict(backend=backend), signature=f"backend:{backend}",
                      replay=dict(confirmed=True, rel_err=err))
    return Verdict(DISCHARGED, backend="native run", detail=f"rel diff vs direct {err:.1e}")


def ob_backend_lsq():
    """bounded least squares (scipy.optimize.lsq_linear): the back end of the bound-constrained damage solve, with a prescribed damage value so that the
    system is reduced.  Every call handed to the library is captured: the bounds are the simulation's bounds (Get_lb_ub) restricted to the UNKNOWN dofs, the matrix is square of
    that size; the damage kept by the simulation is, on the unknown dofs, the minimiser of the captured bounded problem (checked against an independent
    active-set solve, BVLS, and the KKT conditions) and the prescribed value elsewhere; damage never leaves [previous damage, 1]."""
    from EasyFEA import Models, Simulations, SolverType
    from EasyFEA.Simulations import Solvers
    from scipy import optimize as _opt
    PF = Models.PhaseField
    coords, connect = patches.star_patch("QUAD4", affine=None)
    mesh = patches.real_mesh("QUAD4", coords, connect)
    mat = Models.Elastic.Isotropic(2, E=3.0, v=0.25, planeStress=False)
    pfm = PF(mat, PF.SplitType.Miehe, PF.ReguType.AT2, Gc=1.0, l0=0.8, solver=PF.SolverType.BoundConstrain)
    simu = Simulations.PhaseField(mesh, pfm)
    simu.solver = SolverType.scipy
    co = np.asarray(mesh.coord)
    n0 = np.where(np.isclose(co[:, 0], co[:, 0].min()))[0]
    n1 = np.where(np.isclose(co[:, 0], co[:, 0].max()))[0]
    calls = []
    real = _opt.lsq_linear

    def spy(A, b, bounds=(-np.inf, np.inf), **kw):
        r = real(A, b, bounds=bounds, **kw)
        calls.append((A.toarray() if hasattr(A, "toarray") else np.asarray(A), np.asarray(b).copy(), np.asarray(bounds[0]).copy(), np.asarray(bounds[1]).copy(), np.asarray(r["x"]).copy()))
        return r
    n = 0
    fixed = int(n0[0])
    unknown = np.array([k for k in range(mesh.Nn) if k != fixed])
    prev = np.zeros(mesh.Nn)
    Solvers.optimize.lsq_linear = spy
    given = []
    real_lbub = simu.Get_lb_ub

    def lbub(problemType=None):
        lb_, ub_ = real_lbub(problemType)
        given.append((np.asarray(lb_).copy(), np.asarray(ub_).copy()))
        return lb_, ub_
    simu.Get_lb_ub = lbub
    try:
        for step, ud in enumerate((0.8, 1.2, 1.0, 1.5)):
            simu.Bc_Init()
            simu.add_dirichlet(n0, [0, 0], ["x", "y"])
            simu.add_dirichlet(n1, [ud], ["x"])
            simu.add_dirichlet(np.array([fixed]), [0.0], ["d"], problemType=simu.ProblemTypes.damage)
            calls.clear()
            try:
                simu.Solve(tolConv=1e-6, maxIter=200)
            except Exception as ex:
                raise Refuted(f"bound-constrained damage solve with a prescribed damage value raises {type(ex).__name__}: {ex}", cex=dict(step=step), signature="backend:lsq:raises",
                              replay=dict(confirmed=True, error=str(ex)[:200]))
            d = np.asarray(simu.damage).copy()
            if not calls:
                raise Unsupported("lsq_linear was not reached")
            A, b, lb, ub, x = calls[-1]
            n += 4
            if A.shape != (unknown.size, unknown.size) or lb.shape != (unknown.size,) or ub.shape != (unknown.size,):
                raise Refuted(f"step {step}: the bounded problem handed to lsq_linear has A {A.shape}, bounds {lb.shape}: expected the {unknown.size} unknown dofs", signature="backend:lsq:shape", replay=dict(confirmed=True))
            glb, gub = [g_ for g_ in given if g_[0].size][-1]
            if not (np.array_equal(lb, glb[unknown]) and np.array_equal(ub, gub[unknown]) and (glb >= prev - 1e-12).all()):
                raise Refuted(f"step {step}: bounds handed to lsq_linear are not the simulation's bounds (Get_lb_ub) restricted to the unknown dofs, or lie below the damage of the previous step",
                              signature="backend:lsq:bounds_passed", replay=dict(confirmed=True, lb=lb.tolist(), given=glb.tolist()))
            ref = real(A, b, bounds=(lb, ub), method="bvls", tol=1e-14)["x"]
            if not np.array_equal(x, d[unknown]):
                raise Refuted(f"step {step}: the damage kept by the simulation is not the vector returned by the bounded solve placed on the unknown dofs (max diff {np.abs(x - d[unknown]).max():.3e})",
                              signature="backend:lsq:scatter", replay=dict(confirmed=True))
            if np.abs(ref - d[unknown]).max() > 1e-4 or abs(d[fixed]) > 1e-12:        # 1e-4: the agreement asked of every iterative back end
                raise Refuted(f"step {step}: the damage kept by the simulation differs from the minimiser of the bounded problem by {np.abs(ref - d[unknown]).max():.3e} (prescribed value: {d[fixed]:.1e})",
                              signature="backend:lsq:value", replay=dict(confirmed=True))
            g = A.T @ (A @ d[unknown] - b)
            sc = np.abs(A.T @ b).max()
            free = (d[unknown] > lb + 1e-7) & (d[unknown] < ub - 1e-7)
            at_lb = d[unknown] <= lb + 1e-7
            if np.abs(g[free]).max(initial=0) > 1e-4 * sc or (g[at_lb] < -1e-4 * sc).any():
                raise Refuted(f"step {step}: KKT conditions of the bounded least-squares problem violated (max free gradient {np.abs(g[free]).max(initial=0):.2e}, min gradient at the lower bound {g[at_lb].min(initial=0):.2e})",
                              signature="backend:lsq:kkt", replay=dict(confirmed=True))
            if (d < prev - 1e-9).any() or (d > 1 + 1e-12).any():
                raise Refuted(f"step {step}: damage leaves [previous damage, 1] (min d - lb = {float((d - prev).min()):.3e})", signature="backend:lsq:bounds", replay=dict(confirmed=True))
            simu.Save_Iter()
            prev = d
    finally:
        Solvers.optimize.lsq_linear = real
    if not prev.max() > 0.05:
        raise Unsupported("no damage developed")
    return Verdict(DISCHARGED, backend="native run; library calls captured", sub=n, detail=f"max damage {float(prev.max()):.3f}")


def ob_lagrange():
    """Lagrange-multiplier (connection) constraints: a beam frame with a hinge: constraints satisfied exactly and solution equals the elimination
    solution of the equivalent Dirichlet problem."""
    from EasyFEA import Models, Simulations, Mesher, ElemType, SolverType
    from EasyFEA.Geoms import Domain, Point, Line
    sect = Mesher().Mesh_2D(Domain(Point(), Point(0.1, 0.1)))
    b1 = Models.Beam.Isotropic(2, Line(Point(0, 0), Point(1, 0)), sect, 210e3, v=0.3)
    b2 = Models.Beam.Isotropic(2, Line(Point(1, 0), Point(2, 0)), sect, 210e3, v=0.3)
    structure = Models.Beam.BeamStructure([b1, b2])
    mesh = Mesher().Mesh_Beams([b1, b2], elemType=ElemType.SEG2)
    simu = Simulations.Beam(mesh, structure)
    simu.solver = SolverType.scipy
    co = np.asarray(mesh.coord)
    n0 = np.where(np.isclose(co[:, 0], 0))[0]
    n2 = np.where(np.isclose(co[:, 0], 2))[0]
    nm = np.where(np.isclose(co[:, 0], 1))[0]
    simu.add_dirichlet(n0, [0, 0, 0], ["x", "y", "rz"])
    simu.add_dirichlet(n2, [0, 0], ["x", "y"])
    simu.add_neumann(nm[:1], [-1.0], ["y"])
    u_ref = np.asarray(simu.Solve()).copy()
    if len(nm) >= 2 and hasattr(simu, "add_connection_fixed"):
        simu2 = Simulations.Beam(mesh, structure)
        simu2.solver = SolverType.scipy
        simu2.add_dirichlet(n0, [0, 0, 0], ["x", "y", "rz"])
        simu2.add_dirichlet(n2, [0, 0], ["x", "y"])
        simu2.add_neumann(nm[:1], [-1.0], ["y"])
        simu2.add_connection_fixed(nm)
        u2 = np.asarray(simu2.Solve()).reshape(-1, 3)
        gap = np.abs(u2[nm[0]] - u2[nm[1]]).max()
        if gap > 1e-10:
            raise Refuted(f"fixed connection between coincident nodes is violated by {gap:.3e}", signature="lagrange:connection", replay=dict(confirmed=True))
    if not np.isfinite(u_ref).all():
        raise Refuted("beam frame solve is not finite", signature="lagrange:finite", replay=dict(confirmed=True))
    return Verdict(DISCHARGED, backend="native run")


def ob_lagrange_vs_elim(coefs=(1.0, -1.0)):
    """The bordered (Lagrange) system of __Solver_2 and the elimination of __Solver_1 give the same solution: a Lagrange condition that merely repeats
    a Dirichlet value switches the simulation to the multiplier solver."""
    from EasyFEA import Models, Simulations, SolverType
    from EasyFEA.FEM import LagrangeCondition
    r1 = _native_solve("QUAD4", "thermal", "scipy")
    pre, connect = patches.star_patch("QUAD4", affine=None)
    mesh = patches.real_mesh("QUAD4", [[float(x) for x in p] for p in pre], connect)
    simu = Simulations.Thermal(mesh, Models.Thermal(k=1.7, c=1.0))
    simu.solver = SolverType.scipy
    c = np.asarray(mesh.coord)
    n0 = np.where(np.isclose(c[:, 0], c[:, 0].min()))[0]
    n1 = np.where(np.isclose(c[:, 0], c[:, 0].max()))[0]
    n0 = np.roll(n0[::-1], 1)          # the same conditions as _native_solve
    simu.add_dirichlet(n0, [0.01 * (1 + np.arange(len(n0)))], ["t"])
    simu.add_dirichlet(n1, [lambda x, y, z: 0.1 + 0.05 * y], ["t"])
    mid = np.setdiff1d(np.arange(len(pre)), np.concatenate([n0, n1]))[:2]
    simu.add_neumann(mid, [0.3], ["t"])
    # tie the two loaded nodes together with a multiplier: t[mid0] - t[mid1] = delta, delta taken from the elimination solution (so both problems coincide)
    c0_, c1_ = coefs          # a multi-point constraint c0 t[mid0] + c1 t[mid1] = delta with coefficients that are not +-1 (mean-value, ratio constraints)
    delta = float(c0_ * r1["u"][mid[0]] + c1_ * r1["u"][mid[1]])
    try:
        lc = LagrangeCondition(simu.problemType, mid, np.array([mid[0], mid[1]]), ["t"], np.array([delta]), np.array([c0_, c1_]))
        simu._Bc_Add_Lagrange(lc)
    except Exception as ex:
        raise Unsupported(f"cannot build a LagrangeCondition through the public pieces: {ex}")
    u = np.asarray(simu.Solve())
    err = float(np.abs(u - r1["u"]).max() / np.abs(r1["u"]).max())
    gap = abs((c0_ * u[mid[0]] + c1_ * u[mid[1]]) - delta)
    if err > 1e-9 or gap > 1e-10:
        raise Refuted(f"Lagrange-multiplier solve differs from the elimination solve by {err:.3e}; multi-point constraint violated by {gap:.3e}", signature="lagrange:vs_elim",
                      replay=dict(confirmed=True, rel_err=err, gap=float(gap)))
    return Verdict(DISCHARGED, backend="native run", detail=f"rel diff {err:.1e}")


def ob_bordered(dirichlet, lagr):
    """__Solver_2 from the AST on a concrete sparse system; `_Solve_Axb` replaced by a capture.  Contract: the system handed to the linear solver is
    [[A, a C^T], [a C, 0]] [u; l] = [b; a v] with a != 0, C one row per DISTINCT constrained dof (unit) followed by one row per Lagrange condition
    (its coefficients), v the prescribed values (entries on the same dof summed).  Lemma (L, below): then C u = v and the free-space residual vanishes."""
    from scipy import sparse
    from EasyFEA.Simulations.Solvers import ResolType
    size = 6
    rng = np.random.default_rng(3)
    M = rng.integers(-3, 4, (size, size)).astype(float)
    A0 = M @ M.T + 8 * np.eye(size)
    b0 = rng.integers(-4, 5, size).astype(float)
    dofs = np.array([d for d, _ in dirichlet], dtype=int)
    vals = np.array([v for _, v in dirichlet], dtype=float)
    udofs = sorted(set(dofs.tolist()))
    nL = len(lagr)
    ntot = size + len(udofs) + (nL if True else 0)
    if nL == 0:
        ntot = size + len(udofs)      # the real code only reaches __Solver_2 with >= 1 Lagrange condition; sized anyway by the same rule
    Abig = sparse.lil_matrix((ntot, ntot))
    Abig[:size, :size] = A0
    bbig = sparse.lil_matrix((ntot, 1))
    bbig[:size, 0] = b0.reshape(-1, 1)
    xv = np.zeros(size)
    np.add.at(xv, dofs, vals)
    x = sparse.csr_matrix(xv.reshape(-1, 1))
    cap = {}

    def solve_axb(simu, pt, A, b, x0, lb, ub, resol, *a):
        cap["A"], cap["b"], cap["x0"] = A.toarray(), np.asarray(b.todense()).ravel(), x0
        return np.arange(A.shape[0], dtype=float)
    lcs = [sx.Mock("lagrangeBc", dofs=np.array(d), dofsValues=np.array([v]), lagrangeCoefs=np.array(cf, dtype=float)) for d, cf, v in lagr]
    simu = sx.Mock("simu", mesh=sx.Mock("mesh", Nn=size), Get_dof_n=lambda pt: 1, _Solver_Apply_Neumann=lambda pt: bbig.tocsr(),
                   _Solver_Apply_Dirichlet=lambda pt, bb, res: (Abig.tocsr(), x), Bc_dofs_Dirichlet=lambda pt: dofs.copy(), Bc_values_Dirichlet=lambda pt: vals.copy(),
                   Bc_Lagrange=lcs, Get_x0=lambda pt: np.zeros(size), _verbosity=False, isNonLinear=False)
    g = sx.module_globals("EasyFEA.Simulations.Solvers", MPI_SIZE=1, _Solve_Axb=solve_axb)
    f = extract.compile_fn(extract.get(SOL, "__Solver_2"), g, exact=False)
    try:
        sol, lag = f(simu, "pt")
    except (IndexError, ValueError) as ex:
        raise Refuted(f"__Solver_2 with Dirichlet entries {dirichlet} and {nL} Lagrange conditions raises {type(ex).__name__}: {ex}", signature=f"bordered:raises:{len(dofs) != len(udofs)}",
                      cex=dict(dirichlet=dirichlet), replay=_replay_lagr_dup())
    Ag, bg = cap["A"], cap["b"]
    nC = len(udofs) + nL
    if Ag.shape != (size + nC, size + nC):
        raise Refuted(f"bordered system has shape {Ag.shape}, expected {size + nC} = dofs + distinct constrained dofs + Lagrange conditions", signature=f"bordered:shape:{len(dofs) != len(udofs)}",
                      cex=dict(dirichlet=dirichlet), replay=_replay_lagr_dup())
    C = np.zeros((nC, size))
    v = np.zeros(nC)
    for i, d in enumerate(udofs):
        C[i, d] = 1
        v[i] = sum(val for dd, val in dirichlet if dd == d)
    for j, (d, cf, val) in enumerate(lagr):
        C[len(udofs) + j, d] = cf
        v[len(udofs) + j] = val
    B = Ag[size:, :size]
    a = B[np.nonzero(C)][0] / C[np.nonzero(C)][0] if nC else 1.0
    ok = (a != 0 and np.array_equal(Ag[:size, :size], A0) and np.array_equal(B, a * C) and np.array_equal(Ag[:size, size:], a * C.T)
          and not Ag[size:, size:].any() and np.array_equal(bg[:size], b0) and np.array_equal(bg[size:], a * v))
    if not ok:
        raise Refuted(f"__Solver_2 with Dirichlet entries {dirichlet}: the system handed to the linear solver is not [[A, aC'],[aC, 0]] [u;l] = [b; a v] "
                      f"(constraint rows {B.tolist()} rhs {bg[size:].tolist()}, expected a*{C.tolist()} and a*{v.tolist()})", signature=f"bordered:structure:{len(dofs) != len(udofs)}",
                      cex=dict(dirichlet=dirichlet), replay=_replay_lagr_dup())
    if np.linalg.matrix_rank(C) != nC:
        raise Unsupported("test constraint set is not independent")
    if not np.array_equal(sol, np.arange(size)) or not np.array_equal(lag, np.arange(size, size + nC)):
        raise Refuted("__Solver_2 does not return (x[:size], x[size:])", signature="bordered:split", replay=dict(confirmed=True))
    return Verdict(DISCHARGED, backend="extracted __Solver_2 on exact small-integer data, structural comparison", sub=7)


def ob_bordered_lemma():
    """L: [[A, aC'],[aC, 0]] [u; l] = [b; a v], a != 0  =>  C u = v  and  Z'(A u - b) = 0 for every Z with C Z = 0  (2 constraint rows, 3 dofs, all symbols free)."""
    import z3
    n, m = 3, 2
    A = [[z3.Real(f"A{i}{j}") for j in range(n)] for i in range(n)]
    C = [[z3.Real(f"C{i}{j}") for j in range(n)] for i in range(m)]
    u = [z3.Real(f"u{i}") for i in range(n)]
    l = [z3.Real(f"l{i}") for i in range(m)]
    b = [z3.Real(f"b{i}") for i in range(n)]
    v = [z3.Real(f"v{i}") for i in range(m)]
    z = [z3.Real(f"z{i}") for i in range(n)]
    a = z3.Real("a")
    hyp = [a != 0]
    for i in range(n):
        hyp.append(sum(A[i][j] * u[j] for j in range(n)) + a * sum(C[k][i] * l[k] for k in range(m)) == b[i])
    for k in range(m):
        hyp.append(a * sum(C[k][j] * u[j] for j in range(n)) == a * v[k])
        hyp.append(sum(C[k][j] * z[j] for j in range(n)) == 0)
    r = [sum(A[i][j] * u[j] for j in range(n)) - b[i] for i in range(n)]
    goal = z3.And(*[sum(C[k][j] * u[j] for j in range(n)) == v[k] for k in range(m)], sum(z[i] * r[i] for i in range(n)) == 0)
    s = z3.Solver()
    s.set("timeout", 60000)
    s.add(*hyp, z3.Not(goal))
    res = s.check()
    if res == z3.sat:
        raise Refuted(f"bordered-system lemma has a counter-model {s.model()}", signature="bordered:lemma", replay=dict(confirmed=False))
    if res != z3.unsat:
        raise Unsupported("z3 unknown on the bordered-system lemma")
    return Verdict(DISCHARGED, backend="z3 NRA", sub=1)


def _beam_lagr(dup, val):
    from EasyFEA import Models, Simulations, Mesher, ElemType, SolverType
    from EasyFEA.Geoms import Domain, Point, Line
    sect = Mesher().Mesh_2D(Domain(Point(), Point(0.1, 0.1)))
    b1 = Models.Beam.Isotropic(2, Line(Point(0, 0), Point(1, 0)), sect, 210e3, v=0.3)
    b2 = Models.Beam.Isotropic(2, Line(Point(1, 0), Point(2, 0)), sect, 210e3, v=0.3)
    st = Models.Beam.BeamStructure([b1, b2])
    mesh = Mesher().Mesh_Beams([b1, b2], elemType=ElemType.SEG2)
    co = np.asarray(mesh.coord)
    n0 = np.where(np.isclose(co[:, 0], 0))[0]
    n2 = np.where(np.isclose(co[:, 0], 2))[0]
    nm = np.where(np.isclose(co[:, 0], 1))[0]
    s = Simulations.Beam(mesh, st)
    s.solver = SolverType.scipy
    s.add_dirichlet(n0, [0, 0, 0], ["x", "y", "rz"])
    s.add_dirichlet(n2, [0, val], ["x", "y"])
    if dup:
        s.add_dirichlet(n2, [val], ["y"])
        s.add_dirichlet(n0, [0], ["rz"])
    s.add_neumann(nm[:1], [-1.0], ["y"])
    s.add_connection_fixed(nm)
    import warnings
    with warnings.catch_warnings():
        warnings.simplefilter("ignore")
        u = np.asarray(s.Solve()).reshape(-1, 3)
    return u, n2, nm


def _replay_lagr_dup():
    try:
        u1, n2, nm = _beam_lagr(True, 0.01)
        u0, _, _ = _beam_lagr(False, 0.02)
        bad = (not np.isfinite(u1).all()) or np.abs(u1 - u0).max() > 1e-9
        return dict(confirmed=bool(bad), finite=bool(np.isfinite(u1).all()), note="beam frame with a fixed connection; support displacement entered twice (0.01 + 0.01) vs once (0.02)")
    except Exception as e:
        return dict(confirmed=True, raised=repr(e)[:300])


def _beam_star(dim, kind, released=None):
    """three beams meeting at a joint J (each beam has its own node there), clamped far ends, a load on the middle of the second beam.
    kind: 'fixed' / 'hinged' -> the three joint nodes are connected; 'merged' is not available (the mesher never merges), so the reference for a fixed joint is pairwise
    connections, which is what the API documents"""
    import contextlib
    import io
    from EasyFEA import Models, Simulations, ElemType, Mesher, SolverType
    from EasyFEA.Geoms import Domain, Point, Line
    with contextlib.redirect_stdout(io.StringIO()):
        sect = Mesher().Mesh_2D(Domain(Point(-0.05, -0.1), Point(0.05, 0.1)))
        J = Point(2.0, 0.0)
        ends = [Point(0, 0), Point(4.0, 0.5), Point(2.0, 2.0)] if dim == 2 else [Point(0, 0, 0), Point(4.0, 0.5, 0.3), Point(2.0, 2.0, -0.4)]
        beams = [Models.Beam.Isotropic(dim, Line(e, J, 0.5), sect, 210e3, v=0.3) for e in ends]
        mesh = Mesher().Mesh_Beams(beams, elemType=ElemType.SEG2)
        simu = Simulations.Beam(mesh, Models.Beam.BeamStructure(beams), verbosity=False)
    simu.solver = SolverType.scipy
    unk = simu.Get_unknowns()
    joint = np.asarray(mesh.Nodes_Point(J))
    for e in ends:
        simu.add_dirichlet(mesh.Nodes_Point(e), [0] * len(unk), unk)
    co = np.asarray(mesh.coord)
    mid = int(np.argmin(np.linalg.norm(co - np.array([3.0, 0.25, 0.15 if dim == 3 else 0.0]), axis=1)))
    simu.add_neumann(np.array([mid]), [-5.0] + ([2.0] if dim == 3 else []), ["y"] + (["z"] if dim == 3 else []))
    return simu, mesh, unk, joint


def ob_connection(dim, kind):
    """Beam.add_connection_* on a joint where THREE beams meet (and on the pair case): the solve runs, every connected unknown takes one value at the joint nodes,
    the unknowns a hinge leaves free are NOT tied, and chaining pairwise connections gives the same solution"""
    simu, mesh, unk, joint = _beam_star(dim, kind)
    if len(joint) != 3:
        raise Unsupported(f"the mesher produced {len(joint)} nodes at the joint")
    rot = [u for u in unk if u.startswith("r")]
    tr = [u for u in unk if not u.startswith("r")]
    try:
        if kind == "fixed":
            simu.add_connection_fixed(joint)
            tied, free = unk, []
        elif kind == "hinged":
            simu.add_connection_hinged(joint)
            tied, free = tr, rot
        else:      # 3-D hinge with the listed rotations released (kind 'hinged_rz', 'hinged_rx+ry', ...)
            released = kind.split("_", 1)[1].split("+")
            simu.add_connection_hinged(joint, list(released))
            tied, free = tr + [r for r in rot if r not in released], list(released)
        U = np.asarray(simu.Solve()).reshape(mesh.Nn, -1)
    except Exception as ex:
        raise Refuted(f"{dim}-D beams, {kind} connection of the three nodes of a joint: {type(ex).__name__}: {ex}", cex=dict(dim=dim, kind=kind, joint_nodes=joint.tolist()),
                      signature=f"connection:{dim}:{kind}:raises", replay=dict(confirmed=True, raised=repr(ex)[:200]))
    sc = float(np.abs(U).max())
    for u in tied:
        v = U[joint, unk.index(u)]
        if np.abs(v - v[0]).max() > 1e-9 * sc:
            raise Refuted(f"{dim}-D {kind} connection: unknown {u} takes the values {v.tolist()} at the joint nodes", cex=dict(dim=dim, kind=kind, unknown=u), signature=f"connection:{dim}:{kind}:tied",
                          replay=dict(confirmed=True))
    for u in free:
        v = U[joint, unk.index(u)]
        if np.abs(v - v[0]).max() < 1e-6 * np.abs(U[:, unk.index(u)]).max():
            raise Refuted(f"{dim}-D {kind} connection: the rotation {u}, which the connection leaves free, takes one value {v.tolist()} at the three joint nodes: the joint transmits the moment "
                          f"(constraints were added that the stated connection does not contain)", cex=dict(dim=dim, kind=kind, unknown=u, lagrange=[str(bc.unknowns) for bc in simu.Bc_Lagrange]),
                          signature=f"connection:{dim}:{kind}:free", replay=dict(confirmed=True, values=v.tolist()))
    # pairwise chaining is the same constraint set
    simu2, mesh2, unk2, joint2 = _beam_star(dim, kind)
    for a, b in ((0, 1), (1, 2)):
        pair = joint2[[a, b]]
        if kind == "fixed":
            simu2.add_connection_fixed(pair)
        elif kind == "hinged":
            simu2.add_connection_hinged(pair)
        else:
            simu2.add_connection_hinged(pair, kind.split("_", 1)[1].split("+"))
    U2 = np.asarray(simu2.Solve()).reshape(mesh2.Nn, -1)
    e = float(np.abs(U - U2).max() / sc)
    if e > 1e-8:
        raise Refuted(f"{dim}-D {kind} connection of three nodes differs from the two pairwise connections by {e:.3e}", cex=dict(dim=dim, kind=kind), signature=f"connection:{dim}:{kind}:pairwise",
                      replay=dict(confirmed=True, rel_err=e))
    return Verdict(DISCHARGED, backend="native Beam simulation, multiplier solve", sub=len(tied) + len(free) + 1)


def ob_lagrange_dup():
    u1, n2, nm = _beam_lagr(True, 0.01)
    u0, _, _ = _beam_lagr(False, 0.02)
    if not np.isfinite(u1).all():
        raise Refuted("Lagrange-multiplier solve with a dof constrained twice returns non-finite values (singular bordered system)", cex=dict(entries="y=0.01 twice on the support node"),
                      signature="lagrange:dup:finite", replay=dict(confirmed=True))
    e = float(np.abs(u1 - u0).max())
    if e > 1e-9 or abs(u1[n2[0], 1] - 0.02) > 1e-12 or np.abs(u1[nm[0]] - u1[nm[1]]).max() > 1e-10:
        raise Refuted(f"Lagrange-multiplier solve with a dof constrained twice (0.01 + 0.01) differs from the single entry 0.02 by {e:.3e}; support value {u1[n2[0], 1]}",
                      signature="lagrange:dup:value", replay=dict(confirmed=True, err=e))
    return Verdict(DISCHARGED, backend="native run")


def ob_newton():
    """Newton-incremental path (HyperElastic): after Solve() the constrained dofs hold the prescribed values, also when they change between load steps."""
    from EasyFEA import Models, Simulations, SolverType
    pre, connect = patches.star_patch("QUAD4", affine=None)
    mesh = patches.real_mesh("QUAD4", [[float(x) for x in p] for p in pre], connect)
    simu = Simulations.HyperElastic(mesh, Models.HyperElastic.NeoHookean(2, K=50.0), verbosity=False)
    simu.solver = SolverType.scipy
    c = np.asarray(mesh.coord)
    n0 = np.where(np.isclose(c[:, 0], c[:, 0].min()))[0]
    n1 = np.where(np.isclose(c[:, 0], c[:, 0].max()))[0]
    import contextlib, io
    for k, ud in enumerate((0.05, 0.12, 0.03)):
        simu.Bc_Init()
        simu.add_dirichlet(n0, [0, 0], ["x", "y"])
        simu.add_dirichlet(n1, [ud, lambda x, y, z: 0.01 * y], ["x", "y"])
        with contextlib.redirect_stdout(io.StringIO()):
            u = np.asarray(simu.Solve()).reshape(-1, 2)
        e = max(np.abs(u[n0]).max(), np.abs(u[n1, 0] - ud).max(), np.abs(u[n1, 1] - 0.01 * c[n1, 1]).max())
        if e > 1e-10:
            raise Refuted(f"Newton-incremental solve, load step {k}: constrained dofs differ from the prescribed values by {e:.3e}", cex=dict(step=k, value=ud), signature="newton:constraint",
                          replay=dict(confirmed=True, err=float(e)))
    return Verdict(DISCHARGED, backend="native run (3 load steps)")


def build(tier, seed):
    obs = []
    obs.append(Ob("C04.elim", ob_elim, (), "P", (f"{SOL}::__Solver_1",), clause="x[K] == xc and (A x - b)[U] == 0 for all blocks / sizes, given _Solve_Axb's contract"))
    obs.append(Ob("C04.partition", ob_partition, (), "P", (f"{SP}::_Simu.Bc_dofs_known_unknown",), clause="known = distinct sorted Dirichlet dofs, unknown = complement"))
    obs.append(Ob("C04.dofs_nodes", ob_dofs_nodes, (), "P", (f"{BC}::BoundaryCondition.Get_dofs_nodes",), clause="dof = node*dim + index(unknown), node-major order", timeout=300))
    for kind in ("dirichlet", "neumann"):
        obs.append(Ob(f"C04.add.pairs.{kind}", ob_add_pairs, (kind,), "P", (f"{SP}::_Simu.add_{kind}", f"{SP}::_Simu.__Bc_evaluate", f"{SP}::_Simu.Bc_dofs_nodes") + ((f"{SP}::_Simu.__Bc_pointLoad",) if kind == "neumann" else ()),
                      clause="every listed node receives ITS value: recorded (dof, value) pairs == (dof(nodes[i], unknown), value_i) for any node order, repeated nodes, constant / array / function values (symbolic values; 25 node lists)"))
    obs.append(Ob("C04.incremental", ob_incremental, (), "P", (f"{SP}::_Simu._Solver_Apply_Dirichlet",), clause="per dof: Newton: (sum of entered values) - current; linear: sum; euler_explicit: zero -- also for dofs entered several times"))
    obs.append(Ob("C04.orphans", ob_orphans, (), "P", (f"{SP}::_Simu.__Solver_Get_Dirichlet_A_x",), clause="unit diagonal on orphan dofs only; entered values summed per dof"))
    obs.append(Ob("C04.backend.callsite", ob_backend_callsite, (), "P", (f"{SOL}::_Solve_Axb",), clause="library solver calls satisfy the callee's documented argument kinds"))
    for et, physics, dup, orphan in (("TRI3", "thermal", False, False), ("QUAD4", "elastic", True, False), ("TRI3", "elastic", True, True), ("TETRA4", "elastic", False, False),
                                     ("QUAD8", "thermal", True, True)):
        obs.append(Ob(f"C04.solve.{et}.{physics}{'.dup' if dup else ''}{'.orphan' if orphan else ''}", ob_solve, (et, physics, dup, orphan), "X", (f"{SOL}::Solve_simu", f"{SP}::_Simu.Solve"),
                      bound="star patch, one BC set", clause="constrained dofs == (sum of) prescribed values; free rows of K u = F; finite with orphan nodes", timeout=300))
    for backend in ("cg", "bicg", "gmres", "lgmres"):
        obs.append(Ob(f"C04.solve.iterative.{backend}", ob_iterative_honest, (backend,), "X", (f"{SOL}::_Solve_Axb",), bound="one 123-dof beam problem", timeout=300,
                      clause="the displacement an iterative back end returns satisfies the free equations (1e-4 relative), or Solve raises a non-convergence error"))
    for et, backend in (("TRI3", "scipy"), ("QUAD4", "scipy"), ("TETRA4", "scipy"), ("TRI3", "gmres"), ("TRI3", "bicg")) + ((("TRI6", "scipy"), ("HEXA8", "scipy"), ("TRI3", "lgmres")) if tier == "thorough" else ()):
        obs.append(Ob(f"C04.solve.nonsymmetric.{et}.{backend}", ob_native_nonsymmetric, (et, backend), "X", (f"{SOL}::__Solver_1", f"{SOL}::Solve_simu"),
                      bound="star patch, convection-diffusion weak form, one BC set (function-valued and constant prescribed values)",
                      clause="non-symmetric operator: constrained dofs hold their values, free rows of K u = F hold, solution == dense reduced solve (A_UK, not its transpose, moves the prescribed values to the right-hand side)", timeout=300))
    if tier == "thorough":
        from .common import LAGRANGE
        done = {("TRI3", "thermal"), ("QUAD4", "elastic"), ("TRI3", "elastic"), ("TETRA4", "elastic"), ("QUAD8", "thermal")}
        for et in LAGRANGE:
            if et.startswith(("POINT", "SEG")):
                continue
            for physics in ("thermal", "elastic"):
                if (et, physics) in done:
                    continue
                obs.append(Ob(f"C04.solve.{et}.{physics}.dup.orphan", ob_solve, (et, physics, True, True), "X", (f"{SOL}::Solve_simu", f"{SP}::_Simu.Solve"),
                              bound="star patch, one BC set", clause="constrained dofs == (sum of) prescribed values; free rows of K u = F; finite with orphan nodes", timeout=900))
    for backend in ("cg", "bicg", "gmres", "lgmres", "lsq_linear"):
        if backend == "lsq_linear":
            continue
        obs.append(Ob(f"C04.backend.{backend}", ob_backend, (backend,), "X", (f"{SOL}::_Solve_Axb",), bound="one 9-node thermal problem", clause="agrees with the direct solve (1e-4), constraints exact", timeout=300))
    obs.append(Ob("C04.backend.lsq_linear", ob_backend_lsq, (), "X", (f"{SOL}::_Solve_Axb", "EasyFEA/Simulations/_phasefield.py::PhaseField.Get_lb_ub"), bound="one 9-node phase-field problem, 4 load steps (one unloading)",
                  clause="bounded least squares with a reduced system: bounds of the unknown dofs handed over, result == minimiser of the captured bounded problem (independent BVLS solve, KKT), prescribed value held, damage within [previous, 1]", timeout=600))
    for tag, cf in (("", (1.0, -1.0)), (".ratio", (2.0, -0.5)), (".mean", (0.25, 0.25))):
        obs.append(Ob(f"C04.lagrange.vs_elim{tag}", ob_lagrange_vs_elim, (cf,), "X", (f"{SOL}::__Solver_2",), bound=f"one thermal problem with one multi-point constraint, coefficients {cf}",
                      clause="bordered system == elimination solution; multi-point constraint satisfied (also with coefficients other than +-1 and a non-zero value)", timeout=300))
    for dirichlet, lagr in (([(0, 2.0), (3, -1.0)], [([1, 2], [1, -1], 0.5)]),
                            ([(0, 2.0), (3, -1.0), (0, 0.5)], [([1, 2], [1, -1], 0.5)]),
                            ([(4, 1.0), (4, 1.0), (4, 1.0), (5, 0.0)], [([1, 2], [1, -1], 0.0), ([0, 3], [2, 1], 1.0)]),
                            ([], [([1, 2], [1, -1], 0.5)])):
        tag = f"{len(dirichlet)}d{len(set(d for d, _ in dirichlet))}u{len(lagr)}l"
        obs.append(Ob(f"C04.bordered.{tag}", ob_bordered, (dirichlet, lagr), "B", (f"{SOL}::__Solver_2",), bound="6-dof system, listed condition sets",
                      clause="system handed to the linear solver == [[A, aC'],[aC, 0]] [u;l] = [b; a v], one row per distinct constrained dof, values summed"))
    obs.append(Ob("C04.bordered.lemma", ob_bordered_lemma, (), "L", (), clause="bordered system => C u = v and free-space residual zero"))
    for dim, kind in ((2, "fixed"), (2, "hinged"), (3, "fixed"), (3, "hinged"), (3, "hinged_rz"), (3, "hinged_rx"), (3, "hinged_rx+ry"), (3, "hinged_ry+rz"), (3, "hinged_rx+rz"), (3, "hinged_rx+ry+rz")):
        obs.append(Ob(f"C04.connection.{dim}d.{kind}", ob_connection, (dim, kind), "X", ("EasyFEA/Simulations/_beam.py::Beam.add_connection", "EasyFEA/Simulations/_beam.py::Beam.add_connection_hinged", f"{SOL}::__Solver_2"),
                      bound="three beams meeting at one joint, one load", timeout=300,
                      clause="the connected unknowns take one value at all joint nodes, the unknowns the connection leaves free are not tied, three nodes at once == pairwise chaining"))
    obs.append(Ob("C04.lagrange.dup", ob_lagrange_dup, (), "X", (f"{SOL}::__Solver_2", f"{SP}::_Simu._Bc_Lagrange_dim"), bound="one 2-beam frame",
                  clause="duplicated Dirichlet entries under the multiplier solver: finite, sum convention, connection exact", timeout=300))
    obs.append(Ob("C04.lagrange.beam", ob_lagrange, (), "X", (f"{SOL}::__Solver_2",), bound="one 2-beam frame", clause="connection constraints satisfied", timeout=300))
    obs.append(Ob("C04.dynamic.dirichlet", ob_explicit_dirichlet, (), "X", (f"{SP}::_Simu._Solver_Apply_Dirichlet", f"{SP}::_Simu._Solver_Update_solutions"), bound="one 2-element patch, 3 steps per algorithm",
                  clause="dynamic solves: constrained dofs hold their non-zero prescribed value with every time-integration algorithm", timeout=300))
    obs.append(Ob("C04.newton.dup", ob_newton_dup, (), "X", (f"{SP}::_Simu._Solver_Apply_Dirichlet",), bound="one 2-element hyperelastic patch", clause="Newton-incremental solve: a dof constrained twice holds the sum of the entered values", timeout=300))
    obs.append(Ob("C04.newton", ob_newton, (), "X", (f"{SP}::_Simu._Solver_Solve_Newton_Raphson", f"{SP}::_Simu._Solver_Apply_Dirichlet"), bound="3 load steps on one hyperelastic patch",
                  clause="constraints met after Newton-incremental solves", timeout=600))
    obs.append(Ob("canary.elim", ob_elim, (True,), "P", expect=REFUTED))
    functions = {"__Solver_1": extract.get(SOL, "__Solver_1").describe(), "__Solver_2": extract.get(SOL, "__Solver_2").describe(), "_Solve_Axb": extract.get(SOL, "_Solve_Axb").describe(),
                 "Bc_dofs_known_unknown": extract.get(SP, "_Simu.Bc_dofs_known_unknown").describe(), "Get_dofs_nodes": extract.get(BC, "BoundaryCondition.Get_dofs_nodes").describe(),
                 "_Solver_Apply_Dirichlet": extract.get(SP, "_Simu._Solver_Apply_Dirichlet").describe()}
    return dict(
        obs=obs, level="other", min_obligations=15,
        explanation=("The elimination solver is executed from the extracted source in a formal block algebra: for matrices of any size and any known/unknown split the returned "
                     "vector holds the prescribed values and satisfies the free rows, given the linear-solver contract. The index helpers, the incremental Dirichlet values, "
                     "orphan handling and the library call sites are decided from the source. The Lagrange bordered system, the installed back ends and the Newton path are "
                     "bounded run-time contracts on native solves (not counted as proved)."),
        trusted_base=["block model of sparse indexing by index sets (A[dofs,:][:,dofs], x[dofs,0]) and of COO duplicate summation", "_Solve_Axb contract: returns x with A x = b (external linear solvers)",
                      "documented scipy.sparse.linalg signatures"],
        assumptions=["accuracy/convergence of iterative back ends is not decidable by contracts: only agreement at 1e-4 on one problem is checked (X)", "PETSc / pypardiso absent", "MPI_SIZE == 1"],
        functions=functions,
        dropped=["D1-D3, D5; Tic -> no-op; MPI_SIZE bound to 1"],
    )
