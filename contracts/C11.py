"""C11 -- linear elastic laws: SPD, mutually inverse, plane reductions, notation and frame consistency.

The law classes of Models/Elastic/_laws.py are re-assembled from their ASTs and `_Behavior` is executed
with symbolic moduli (exact field QQ(E, v, ...)[sqrt 2]); the helper functions of Models/_utils.py
(Heterogeneous_Array, KelvinMandel_Matrix, Get_Pmat, Apply_Pmat, Project_Kelvin) are extracted the same
way and run on a modelled numpy (vt/npshim.py).  Positivity clauses go to z3 (nonlinear real arithmetic).
"""
from __future__ import annotations

import itertools
import time
from fractions import Fraction

import numpy as np

from vt import alg, extract, sx, npshim, smt
from vt.alg import Ctx, X
from vt.core import Ob, Verdict, Refuted, Unsupported, DISCHARGED, REFUTED
from . import common

PROP = "C11"
LAWS = "EasyFEA/Models/Elastic/_laws.py"
UTILS = "EasyFEA/Models/_utils.py"
F = Fraction


def _env(c: Ctx, floats="refuse"):
    NPs = npshim.NP(c, floats=floats)
    gu = sx.module_globals("EasyFEA.Models._utils", np=NPs)
    gu = extract.compile_module_functions(UTILS, gu)

    def glob_for(path):
        mod = path[:-3].replace("/", ".")
        g = sx.module_globals(mod, np=NPs)
        for k in ("Heterogeneous_Array", "KelvinMandel_Matrix", "Get_Pmat", "Apply_Pmat", "Project_Kelvin",
                  "Reshape_variable"):
            if k in gu and k in g:
                g[k] = gu[k]
        return g
    return NPs, gu, glob_for


def _law(c, clsname, glob_for, **attrs):
    cls = extract.assemble_class(LAWS, clsname, glob_for)
    obj = object.__new__(cls)
    for k, v in attrs.items():
        obj.__dict__[k] = v      # parameter descriptors read instance.__dict__; checkers / notification are bypassed
    return obj


def _mat(a):
    a = np.asarray(a)
    return [[a[i, j] for j in range(a.shape[1])] for i in range(a.shape[0])]


def _eqm(c, A, B):
    A, B = np.asarray(A), np.asarray(B)
    if A.shape != B.shape:
        return False, ("shape", A.shape, B.shape)
    for idx in np.ndindex(A.shape):
        a, b = A[idx], B[idx]
        a = a if isinstance(a, X) else c.const(a)
        b = b if isinstance(b, X) else c.const(b)
        if not (a == b):
            return False, (idx, a - b)
    return True, None


def _find_param_point(c, d: X, names, seed=3):
    import random
    rnd = random.Random(seed)
    for _ in range(100):
        pt = {n: F(rnd.randint(1, 9), rnd.randint(2, 9)) for n in names}
        for n in c.spare:
            pt[n] = F(0)
        try:
            if d.subs_point({**{n: F(0) for n in c.names}, **pt}) != 0:
                return pt
        except ZeroDivisionError:
            continue
    return None


# ---------------------------------------------------------------- isotropic

ISO_WIT = dict(E=F(7, 3), v=F(1, 5))


def _iso(dim, planeStress):
    c = Ctx(["E", "v"], nspare=2, witness=ISO_WIT)
    NPs, gu, glob_for = _env(c)
    obj = _law(c, "Isotropic", glob_for, E=c.sym("E"), v=c.sym("v"), dim=dim, planeStress=planeStress)
    C, S = obj._Behavior(dim)
    return c, NPs, obj, np.asarray(C), np.asarray(S)


def _native_iso(E, v, dim, planeStress):
    from EasyFEA.Models import Elastic
    cls = getattr(Elastic, "Isotropic", None)
    if cls is None:
        from EasyFEA import Models
        cls = Models.Elastic.Isotropic
    m = cls(dim, E=float(E), v=float(v), planeStress=planeStress)
    return np.asarray(m.C, dtype=float), np.asarray(m.S, dtype=float)


def ob_iso_reduction(planeStress, canary=False):
    """2-D law == plane-stress / plane-strain reduction of the 3-D law (Kelvin-Mandel)."""
    c, NPs, obj, C2, S2 = _iso(2, planeStress)
    c3 = Ctx(["E", "v"], nspare=2, witness=ISO_WIT)
    NP3, gu3, gf3 = _env(c3)
    o3 = _law(c3, "Isotropic", gf3, E=c3.sym("E"), v=c3.sym("v"), dim=3, planeStress=planeStress)
    C3, S3 = o3._Behavior(3)
    C3, S3 = np.asarray(C3), np.asarray(S3)
    x = [0, 1, 5]
    if planeStress:
        want = np.asarray(npshim._inv(_mat(S3[np.ix_(x, x)])), dtype=object)
    else:
        want = C3[np.ix_(x, x)]
    # different contexts: compare through printed normal forms at matching generator order (same names, same order)
    n = 0
    for i in range(3):
        for j in range(3):
            a = C2[i, j]
            b = want[i, j]
            b2 = X(c, c.F.from_expr(c3.reduce(b).v.as_expr()) if False else _transfer(c3, c, b), None)
            if canary and (i, j) == (0, 1):
                b2 = b2 + 1
            n += 1
            if not (a == b2):
                pt = _find_param_point(c, a - b2, ["E", "v"]) or dict(E=F(7, 3), v=F(1, 5))
                rep = _replay_iso(pt, planeStress)
                raise Refuted(f"Isotropic 2-D ({'plane stress' if planeStress else 'plane strain'}) C[{i},{j}] differs from the reduction of the 3-D law by {a - b2}",
                              cex={k: str(v) for k, v in pt.items() if k in ("E", "v")}, signature=f"iso:{'ps' if planeStress else 'pe'}", replay=rep)
    # S2 is the inverse of C2 (library inverse modelled exactly): S2 @ C2 == I
    P = S2 @ C2
    ok, why = _eqm(c, P, np.eye(3, dtype=int))
    if not ok:
        raise Refuted(f"Isotropic 2-D: S C != I at {why}", signature="iso:SC", replay=_replay_iso(dict(E=F(7, 3), v=F(1, 5)), planeStress))
    return Verdict(DISCHARGED, backend="ring-normal-form over QQ(E,v)[sqrt2]", sub=n + 9)


def _transfer(c_from: Ctx, c_to: Ctx, x: X) -> "object":
    """Move an element between two contexts with identical generator lists (same names, same radical assignment order)."""
    x = c_from.reduce(x)
    if c_from.names != c_to.names:
        raise Unsupported("context mismatch")
    # radical generators: must denote the same numbers
    for idx, k in c_from.rel.items():
        if idx not in c_to.rel or str(c_to.rel[idx]) != str(k):
            raise Unsupported("radical generators differ between contexts")
    num = c_to.R(dict(x.v.numer.terms()))
    den = c_to.R(dict(x.v.denom.terms()))
    return c_to.F(num) / c_to.F(den)


def _replay_iso(pt, planeStress):
    try:
        E, v = float(pt["E"]), float(pt["v"])
        C2, S2 = _native_iso(E, v, 2, planeStress)
        C3, S3 = _native_iso(E, v, 3, planeStress)
        x = [0, 1, 5]
        want = np.linalg.inv(S3[np.ix_(x, x)]) if planeStress else C3[np.ix_(x, x)]
        err = float(np.abs(C2 - want).max() / np.abs(want).max())
        return dict(confirmed=err > 1e-10, rel_err=err, E=E, v=v)
    except Exception as e:
        return dict(confirmed=False, error=repr(e))


def ob_iso_spd(dim, planeStress):
    """C symmetric and all leading principal minors > 0 for E > 0, -1 < v < 1/2 (z3, nonlinear reals)."""
    c, NPs, obj, C, S = _iso(dim, planeStress)
    n = C.shape[0]
    ok, why = _eqm(c, C, C.T)
    if not ok:
        raise Refuted(f"Isotropic C not symmetric at {why}", signature=f"iso:sym:{dim}", replay=dict(confirmed=True))
    t = 0.0
    for k in range(1, n + 1):
        m = npshim._det(_mat(C[:k, :k]))
        m = m if isinstance(m, X) else c.const(m)
        r = smt.prove_positive(c, m, assumptions=[("E", ">", 0), ("v", ">", -1), ("v", "<", F(1, 2))], timeout=30)
        t += r.time
        if r.status == "cex":
            pt = r.model
            rep = dict(confirmed=False)
            try:
                Cn, _ = _native_iso(float(pt["E"]), float(pt["v"]), dim, planeStress)
                ev = np.linalg.eigvalsh((Cn + Cn.T) / 2)
                rep = dict(confirmed=bool(ev.min() <= 0), min_eig=float(ev.min()), point={a: float(b) for a, b in pt.items()})
            except Exception as e:
                rep = dict(confirmed=False, error=repr(e))
            raise Refuted(f"Isotropic dim={dim}: leading minor {k} not positive at {pt}", cex={a: str(b) for a, b in pt.items()},
                          signature=f"iso:spd:{dim}", replay=rep)
        if r.status != "proved":
            raise Unsupported(f"z3/cvc5 could not decide minor {k}: {r.status}")
    return Verdict(DISCHARGED, backend="z3 QF_NRA (cvc5 fallback)", sub=n + 1, solver_s=t)


def ob_iso_lame():
    """get_lambda/get_mu/get_bulk are the documented Lame relations."""
    c = Ctx(["E", "v"], nspare=1, witness=ISO_WIT)
    NPs, gu, glob_for = _env(c)
    E, v = c.sym("E"), c.sym("v")
    n = 0
    for dim, ps in ((3, False), (2, False), (2, True)):
        o = _law(c, "Isotropic", glob_for, E=E, v=v, dim=dim, planeStress=ps)
        lam, mu, K = o.get_lambda(), o.get_mu(), o.get_bulk()
        wl = E * v / ((1 + v) * (1 - 2 * v)) if not (dim == 2 and ps) else E * v / (1 - v ** 2)
        for name, got, want in (("lambda", lam, wl), ("mu", mu, E / (2 * (1 + v))), ("bulk", K, wl + 2 * (E / (2 * (1 + v))) / dim)):
            n += 1
            if not (got == want):
                raise Refuted(f"Isotropic.get_{name} (dim={dim}, planeStress={ps}) = {got}, expected {want}",
                              signature=f"iso:lame:{name}", replay=dict(confirmed=True, note="closed-form method evaluated symbolically"))
    return Verdict(DISCHARGED, backend="ring-normal-form", sub=n)


# ---------------------------------------------------------------- transversely isotropic / orthotropic material matrices

class _Capture(Exception):
    def __init__(self, kw):
        self.kw = kw


def _material_matrices(clsname):
    if clsname == "TransverselyIsotropic":
        names = ["El", "Et", "Gl", "vl", "vt"]
        wit = dict(El=F(11), Et=F(7), Gl=F(3), vl=F(1, 5), vt=F(1, 4))
    else:
        names = ["E1", "E2", "E3", "G23", "G13", "G12", "v23", "v13", "v12"]
        wit = dict(E1=F(11), E2=F(7), E3=F(5), G23=F(3), G13=F(2), G12=F(4), v23=F(1, 5), v13=F(1, 4), v12=F(1, 6))
    c = Ctx(names, nspare=10, witness=wit)
    NPs, gu, glob_for = _env(c)
    attrs = {n: c.sym(n) for n in names}
    obj = _law(c, clsname, glob_for, dim=3, planeStress=False, **attrs)

    def cap(**kw):
        raise _Capture(kw)
    obj.__dict__["_Apply_basis_transformation"] = cap
    for priv in ("_TransverselyIsotropic__axis_l", "_TransverselyIsotropic__axis_t", "_Orthotropic__axis_1", "_Orthotropic__axis_2"):
        obj.__dict__[priv] = np.array([1, 0, 0])
    try:
        obj._Behavior(3)
    except _Capture as e:
        return c, NPs, names, np.asarray(e.kw["material_cM"]), np.asarray(e.kw["material_sM"])
    raise Unsupported(f"{clsname}._Behavior did not reach _Apply_basis_transformation")


def ob_material_inverse(clsname, canary=False):
    c, NPs, names, cM, sM = _material_matrices(clsname)
    P = sM @ cM
    if canary:
        P = P.copy()
        P[0, 1] = P[0, 1] + c.sym(names[0])
    ok, why = _eqm(c, P, np.eye(6, dtype=int))
    if not ok:
        idx, d = why[0], why[1]
        pt = _find_param_point(c, d, names) if isinstance(d, X) else None
        raise Refuted(f"{clsname}: material_sM @ material_cM != I at entry {idx}: {d}", cex={k: str(v) for k, v in (pt or {}).items() if k in names},
                      signature=f"{clsname}:SC", replay=_replay_material(clsname, pt))
    for M, nm in ((cM, "cM"), (sM, "sM")):
        ok, why = _eqm(c, M, M.T)
        if not ok:
            raise Refuted(f"{clsname}: material_{nm} not symmetric at {why}", signature=f"{clsname}:sym", replay=_replay_material(clsname, None))
    return Verdict(DISCHARGED, backend="ring-normal-form", sub=36 + 72,
                   detail=f"float self-checks of the code turned into identities; skipped at run: {len(NPs.selfchecks_skipped)}")


def _replay_material(clsname, pt):
    try:
        from EasyFEA import Models
        cls = getattr(Models.Elastic, clsname)
        if clsname == "TransverselyIsotropic":
            kw = dict(El=11.0, Et=7.0, Gl=3.0, vl=0.2, vt=0.25)
        else:
            kw = dict(E1=11.0, E2=7.0, E3=5.0, G23=3.0, G13=2.0, G12=4.0, v23=0.2, v13=0.25, v12=1 / 6)
        if pt:
            kw.update({k: float(v) for k, v in pt.items() if k in kw})
        try:
            m = cls(3, **kw)
            C, S = m.C, m.S
            err = float(np.abs(S @ C - np.eye(6)).max())
            return dict(confirmed=err > 1e-9, err=err, params=kw)
        except AssertionError as e:
            return dict(confirmed=True, raised="AssertionError (the code's own float self-check fires)", params=kw)
    except Exception as e:
        return dict(confirmed=False, error=repr(e))


def ob_material_spd(clsname):
    """S (hence C = S^-1, by the identity above) is SPD under the thermodynamic admissibility conditions."""
    c, NPs, names, cM, sM = _material_matrices(clsname)
    if clsname == "TransverselyIsotropic":
        El, Et, Gl, vl, vt = (c.sym(n) for n in names)
        assume = [("El", ">", 0), ("Et", ">", 0), ("Gl", ">", 0), ("vt", ">", -1), ("vt", "<", 1),
                  ((1 - vt) * El - 2 * vl ** 2 * Et, ">", 0)]
    else:
        E1, E2, E3, G23, G13, G12, v23, v13, v12 = (c.sym(n) for n in names)
        m2 = npshim._det(_mat(sM[:2, :2]))
        m3 = npshim._det(_mat(sM[:3, :3]))
        # admissibility of an orthotropic law = positivity of the moduli and of the principal minors of the normal block
        assume = [(n, ">", 0) for n in ("E1", "E2", "E3", "G23", "G13", "G12")] + [(m2, ">", 0), (m3, ">", 0)]
    t = 0.0
    k_done = 0
    for k in range(1, 7):
        m = npshim._det(_mat(sM[:k, :k]))
        m = m if isinstance(m, X) else c.const(m)
        r = smt.prove_positive(c, m, assumptions=assume, timeout=40)
        t += r.time
        if r.status == "cex":
            raise Refuted(f"{clsname}: minor {k} of material_sM not positive at {r.model}", cex={a: str(b) for a, b in r.model.items()},
                          signature=f"{clsname}:spd", replay=dict(confirmed=False))
        if r.status != "proved":
            raise Unsupported(f"solver could not decide minor {k}: {r.status}")
        k_done += 1
    return Verdict(DISCHARGED, backend="z3 QF_NRA (cvc5 fallback)", sub=k_done, solver_s=t)


# ---------------------------------------------------------------- anisotropic law: notation consistency

def ob_aniso_notation(dim_in, law_dim):
    """Anisotropic._Behavior: the same material given in Voigt or in Kelvin-Mandel notation yields the same law
    (symbolic symmetric C; material axes = a concrete non-trivial orthonormal frame); 2-D input embedded at [0,1,5]."""
    size = 3 if dim_in == 2 else 6
    names = [f"c{i}{j}" for i in range(size) for j in range(i, size)]
    wit = {n: F(k + 3, 2 + (k % 7)) for k, n in enumerate(names)}
    c = Ctx(names, nspare=3, witness=wit)
    NPs, gu, glob_for = _env(c)
    Cv = np.empty((size, size), dtype=object)
    for i in range(size):
        for j in range(size):
            Cv[i, j] = c.sym(f"c{min(i,j)}{max(i,j)}")
    a1 = np.array([F(3, 5), F(4, 5), F(0)], dtype=object) if law_dim == 2 else np.array([F(2, 3), F(2, 3), F(1, 3)], dtype=object)
    a2 = np.array([F(-4, 5), F(3, 5), F(0)], dtype=object) if law_dim == 2 else np.array([F(-2, 3), F(1, 3), F(2, 3)], dtype=object)
    obj = _law(c, "Anisotropic", glob_for, dim=law_dim, planeStress=False, _Anisotropic__axis1=a1, _Anisotropic__axis2=a2)
    got_v = np.asarray(obj._Behavior(Cv, True))
    Ckm = gu["KelvinMandel_Matrix"](dim_in, Cv)
    got_k = np.asarray(obj._Behavior(Ckm, False))
    ok, why = _eqm(c, got_v, got_k)
    if not ok:
        raise Refuted(f"Anisotropic (input {size}x{size}, law dim {law_dim}): Voigt input and the equivalent Kelvin-Mandel input give different laws at {why[0]}: {why[1]}",
                      cex=dict(input=f"{size}x{size}", law_dim=law_dim), signature=f"aniso:notation:{dim_in}:{law_dim}", replay=_replay_aniso(dim_in, law_dim))
    return Verdict(DISCHARGED, backend="ring-normal-form over QQ(c_ij)[sqrt2]", sub=got_v.size)


def _replay_aniso(dim_in, law_dim):
    try:
        from EasyFEA import Models
        from EasyFEA.Models._utils import KelvinMandel_Matrix
        size = 3 if dim_in == 2 else 6
        rng = np.random.default_rng(0)
        B = rng.normal(size=(size, size))
        Cv = B @ B.T + size * np.eye(size)
        a1 = (0.6, 0.8, 0.0) if law_dim == 2 else (2 / 3, 2 / 3, 1 / 3)
        a2 = (-0.8, 0.6, 0.0) if law_dim == 2 else (-2 / 3, 1 / 3, 2 / 3)
        m1 = Models.Elastic.Anisotropic(law_dim, Cv, True, a1, a2)
        m2 = Models.Elastic.Anisotropic(law_dim, KelvinMandel_Matrix(dim_in, Cv), False, a1, a2)
        err = float(np.abs(m1.C - m2.C).max() / np.abs(m2.C).max())
        return dict(confirmed=err > 1e-10, rel_err=err)
    except Exception as e:
        return dict(confirmed=True, raised=repr(e))


# ---------------------------------------------------------------- Kelvin-Mandel scaling

def ob_kelvin_mandel():
    """KelvinMandel_Matrix multiplies the shear rows/columns by sqrt(2) (entrywise pattern), dims 2 and 3."""
    n = 0
    for dim, size in ((2, 3), (3, 6)):
        names = [f"m{i}{j}" for i in range(size) for j in range(size)]
        c = Ctx(names, nspare=2)
        NPs, gu, glob_for = _env(c)
        M = np.empty((size, size), dtype=object)
        for i in range(size):
            for j in range(size):
                M[i, j] = c.sym(f"m{i}{j}")
        out = gu["KelvinMandel_Matrix"](dim, M)
        r2 = c.sqrt_rational(F(2))
        for i in range(size):
            for j in range(size):
                f = (r2 if i >= dim else 1) * (r2 if j >= dim else 1)
                n += 1
                if not (out[i, j] == M[i, j] * f):
                    raise Refuted(f"KelvinMandel_Matrix(dim={dim})[{i},{j}] = {out[i,j]}, expected factor {f}", signature=f"km:{dim}",
                                  replay=_replay_km(dim, i, j))
    return Verdict(DISCHARGED, backend="ring-normal-form over QQ(m_ij)[sqrt2]", sub=n)


def _replay_km(dim, i, j):
    try:
        from EasyFEA.Models._utils import KelvinMandel_Matrix
        size = 3 if dim == 2 else 6
        out = KelvinMandel_Matrix(dim, np.ones((size, size)))
        f = (np.sqrt(2) if i >= dim else 1) * (np.sqrt(2) if j >= dim else 1)
        return dict(confirmed=abs(out[i, j] - f) > 1e-12, value=float(out[i, j]), expected=float(f))
    except Exception as e:
        return dict(confirmed=False, error=repr(e))


# ---------------------------------------------------------------- change of basis

def _cayley(c, a, b, cc):
    """Rotation matrix from the Cayley transform of the skew matrix (a,b,c): all rotations except half-turns."""
    one = c.const(1)
    den = one + a * a + b * b + cc * cc
    R = [[(one + a * a - b * b - cc * cc) / den, 2 * (a * b - cc) / den, 2 * (a * cc + b) / den],
         [2 * (a * b + cc) / den, (one - a * a + b * b - cc * cc) / den, 2 * (b * cc - a) / den],
         [2 * (a * cc - b) / den, 2 * (b * cc + a) / den, (one - a * a - b * b + cc * cc) / den]]
    return R


def _pmat_case(shape_kind, lengths="symbolic", half_turn=None):
    names = ["a", "b", "c", "l1", "l2"]
    wit = dict(a=F(1, 3), b=F(-2, 5), c=F(3, 7), l1=F(2), l2=F(3))
    c = Ctx(names, nspare=3, witness=wit)
    NPs, gu, glob_for = _env(c)
    if half_turn is None:
        R = _cayley(c, c.sym("a"), c.sym("b"), c.sym("c"))
    else:
        R = [[c.const(v) for v in row] for row in half_turn]
    l1, l2 = (c.sym("l1"), c.sym("l2")) if lengths == "symbolic" else (c.const(1), c.const(1))
    a1 = np.array([R[i][0] * l1 for i in range(3)], dtype=object)
    a2 = np.array([R[i][1] * l2 for i in range(3)], dtype=object)
    if shape_kind == "i":
        A1, A2 = a1, a2
    elif shape_kind == "ei":
        A1, A2 = np.stack([a1, a1 * 2]), np.stack([a2, a2])
    else:
        A1 = np.stack([np.stack([a1, a1 * 2]), np.stack([a1 * 3, a1])])
        A2 = np.stack([np.stack([a2, a2]), np.stack([a2 * 2, a2 * 5])])
    return c, NPs, gu, R, A1, A2


def ob_pmat_orthogonal(shape_kind, half_turn=None):
    c, NPs, gu, R, A1, A2 = _pmat_case(shape_kind, half_turn=half_turn)
    P = gu["Get_Pmat"](A1, A2, useMandel=True)
    P = np.asarray(P)
    lead = P.shape[:-2]
    n = 0
    for idx in itertools.product(*[range(s) for s in lead]):
        Pm = P[idx]
        G = Pm.T @ Pm
        ok, why = _eqm(c, G, np.eye(6, dtype=int))
        n += 36
        if not ok:
            raise Refuted(f"Get_Pmat: P^T P != I for orthogonal axes of lengths (l1,l2) [{shape_kind}{idx}] at {why[0]}: {why[1]}",
                          cex=dict(a="1/3", b="-2/5", c="3/7", l1="2", l2="3"), signature=f"pmat:orthogonal:{shape_kind}",
                          replay=_replay_pmat())
    return Verdict(DISCHARGED, backend="ring-normal-form over QQ(a,b,c,l1,l2)[sqrt2]", sub=n)


def _replay_pmat():
    try:
        from EasyFEA.Models._utils import Get_Pmat
        a, b, cc = 1 / 3, -2 / 5, 3 / 7
        den = 1 + a * a + b * b + cc * cc
        R = np.array([[(1 + a * a - b * b - cc * cc), 2 * (a * b - cc), 2 * (a * cc + b)],
                      [2 * (a * b + cc), (1 - a * a + b * b - cc * cc), 2 * (b * cc - a)],
                      [2 * (a * cc - b), 2 * (b * cc + a), (1 - a * a - b * b + cc * cc)]]) / den
        P = Get_Pmat(2.0 * R[:, 0], 3.0 * R[:, 1])
        err = float(np.abs(P.T @ P - np.eye(6)).max())
        return dict(confirmed=err > 1e-9, err_PtP_minus_I=err, axis_1=(2.0 * R[:, 0]).tolist(), axis_2=(3.0 * R[:, 1]).tolist())
    except AssertionError as e:
        return dict(confirmed=True, raised=f"AssertionError: {e}")
    except Exception as e:
        return dict(confirmed=False, error=repr(e))


def _rot4(R, T):
    """Q-rotated 4th-order tensor T'_{ijkl} = R_ia R_jb R_kc R_ld T_abcd (object arrays)."""
    Rm = np.array(R, dtype=object)
    T = np.einsum("ia,abcd->ibcd", Rm, T)
    T = np.einsum("jb,ibcd->ijcd", Rm, T)
    T = np.einsum("kc,ijcd->ijkd", Rm, T)
    return np.einsum("ld,ijkd->ijkl", Rm, T)


KM_PAIRS = [(0, 0), (1, 1), (2, 2), (1, 2), (0, 2), (0, 1)]


def _km_to_tensor(c, M):
    """4th-order tensor with minor symmetries whose Kelvin-Mandel matrix is M (6x6)."""
    r2 = c.sqrt_rational(F(2))
    T = np.empty((3, 3, 3, 3), dtype=object)
    for I, (i, j) in enumerate(KM_PAIRS):
        for J, (k, l) in enumerate(KM_PAIRS):
            f = (r2 if i != j else 1) * (r2 if k != l else 1)
            v = M[I, J] / f
            for (p, q) in {(i, j), (j, i)}:
                for (r, s) in {(k, l), (l, k)}:
                    T[p, q, r, s] = v
    return T


def _tensor_to_km(c, T):
    r2 = c.sqrt_rational(F(2))
    M = np.empty((6, 6), dtype=object)
    for I, (i, j) in enumerate(KM_PAIRS):
        for J, (k, l) in enumerate(KM_PAIRS):
            f = (r2 if i != j else 1) * (r2 if k != l else 1)
            M[I, J] = T[i, j, k, l] * f
    return M


def ob_pmat_tensor(toGlobal=True):
    """Apply_Pmat(P, M) is the Kelvin-Mandel image of the Q-rotated 4th-order tensor (unit axes, symbolic rotation,
    M = transversely-isotropic-patterned symbolic matrix)."""
    names = ["a", "b", "c", "l1", "l2", "m0", "m1", "m2", "m3", "m4"]
    wit = dict(a=F(1, 3), b=F(-2, 5), c=F(3, 7), l1=F(1), l2=F(1), m0=F(5), m1=F(2), m2=F(3), m3=F(7), m4=F(11))
    c = Ctx(names, nspare=3, witness=wit)
    NPs, gu, glob_for = _env(c)
    R = _cayley(c, c.sym("a"), c.sym("b"), c.sym("c"))
    a1 = np.array([R[i][0] for i in range(3)], dtype=object)
    a2 = np.array([R[i][1] for i in range(3)], dtype=object)
    m = [c.sym(f"m{i}") for i in range(5)]
    z = c.const(0)
    M = np.array([[m[0], m[1], m[1], z, z, z], [m[1], m[2], m[3], z, z, z], [m[1], m[3], m[2], z, z, z],
                  [z, z, z, m[2] - m[3], z, z], [z, z, z, z, m[4], z], [z, z, z, z, z, m[4]]], dtype=object)
    P = np.asarray(gu["Get_Pmat"](a1, a2, useMandel=True))
    got = np.asarray(gu["Apply_Pmat"](P, M, toGlobal=toGlobal))
    T = _km_to_tensor(c, M)
    Rm = R if toGlobal else [[R[j][i] for j in range(3)] for i in range(3)]
    want = _tensor_to_km(c, _rot4(Rm, T))
    ok, why = _eqm(c, got, want)
    if not ok:
        raise Refuted(f"Apply_Pmat(toGlobal={toGlobal}) differs from the rotated 4th-order tensor at {why[0]}: {why[1]}",
                      signature=f"pmat:tensor:{toGlobal}", replay=_replay_pmat_tensor(toGlobal))
    return Verdict(DISCHARGED, backend="ring-normal-form", sub=36)



def ob_basis_transformation(family):
    """_Elastic._Apply_basis_transformation(3, cM, sM, axis_1, axis_2) returns, for EVERY orientation of the material frame (the generic rotation and
    the rotations about each single global axis, where one material axis coincides with a global one, and the identity), the Kelvin-Mandel images of
    the Q-rotated fourth-order tensors of cM and of sM (two different symbolic matrices: exchanging or skipping one is seen)."""
    names = ["a", "b", "c"] + [f"m{i}" for i in range(9)]
    wit = dict(a=F(1, 3), b=F(-2, 5), c=F(3, 7), **{f"m{i}": F(v) for i, v in enumerate((5, 2, 3, 7, 11, 13, 17, 19, 23))})
    c = Ctx(names, nspare=3, witness=wit)
    NPs, gu, glob_for = _env(c)
    z0 = c.const(0)
    a, b, cc = {"generic": (c.sym("a"), c.sym("b"), c.sym("c")), "about-x": (c.sym("a"), z0, z0), "about-y": (z0, c.sym("b"), z0),
                "about-z": (z0, z0, c.sym("c")), "identity": (z0, z0, z0)}[family]
    R = _cayley(c, a, b, cc)
    a1 = np.array([R[i][0] for i in range(3)], dtype=object)
    a2 = np.array([R[i][1] for i in range(3)], dtype=object)
    m = [c.sym(f"m{i}") for i in range(9)]

    def pattern(m):
        # an orthotropic pattern: no rotation about a single axis leaves it invariant (a transversely isotropic one is invariant about its own axis)
        return np.array([[m[0], m[1], m[2], z0, z0, z0], [m[1], m[3], m[4], z0, z0, z0], [m[2], m[4], m[5], z0, z0, z0],
                         [z0, z0, z0, m[6], z0, z0], [z0, z0, z0, z0, m[7], z0], [z0, z0, z0, z0, z0, m[8]]], dtype=object)
    cM, sM = pattern(m), pattern([m[3], m[7], m[0], m[8], m[1], m[6], m[2], m[5], m[4]])
    obj = _law(c, "_Elastic", glob_for, dim=3, planeStress=False)
    got_c, got_s = obj._Apply_basis_transformation(3, cM, sM, a1, a2)
    n = 0
    for nm, got, M in (("stiffness", got_c, cM), ("compliance", got_s, sM)):
        want = _tensor_to_km(c, _rot4(R, _km_to_tensor(c, M)))
        ok, why = _eqm(c, np.asarray(got), want)
        n += 36
        if not ok:
            raise Refuted(f"_Apply_basis_transformation, material frame '{family}': the returned {nm} differs from the Kelvin-Mandel image of the rotated fourth-order tensor at {why[0]}: {why[1]}",
                          cex=dict(family=family, a="1/3", b="-2/5", c="3/7"), signature=f"basis:{family}:{nm}", replay=_replay_basis(family))
    return Verdict(DISCHARGED, backend="ring-normal-form over QQ(a,b,c,m_i)[sqrt2]", sub=n)


def _replay_basis(family):
    try:
        from EasyFEA import Models
        a, b, cc = {"generic": (1 / 3, -2 / 5, 3 / 7), "about-x": (1 / 3, 0, 0), "about-y": (0, -2 / 5, 0), "about-z": (0, 0, 3 / 7), "identity": (0, 0, 0)}[family]
        den = 1 + a * a + b * b + cc * cc
        R = np.array([[(1 + a * a - b * b - cc * cc), 2 * (a * b - cc), 2 * (a * cc + b)],
                      [2 * (a * b + cc), (1 - a * a + b * b - cc * cc), 2 * (b * cc - a)],
                      [2 * (a * cc - b), 2 * (b * cc + a), (1 - a * a - b * b + cc * cc)]]) / den
        kw = dict(E1=11.0, E2=5.0, E3=3.0, G23=1.1, G13=1.4, G12=1.9, v23=0.2, v13=0.24, v12=0.3)
        M = np.asarray(Models.Elastic.Orthotropic(3, **kw).C)
        got = np.asarray(Models.Elastic.Orthotropic(3, **kw, axis_1=R[:, 0], axis_2=R[:, 1]).C)
        r2 = np.sqrt(2)
        T = np.zeros((3, 3, 3, 3))
        for I, (i, j) in enumerate(KM_PAIRS):
            for J, (k, l) in enumerate(KM_PAIRS):
                f = (r2 if i != j else 1) * (r2 if k != l else 1)
                for (p, q) in {(i, j), (j, i)}:
                    for (r, s) in {(k, l), (l, k)}:
                        T[p, q, r, s] = M[I, J] / f
        Tr = np.einsum("ia,jb,kc,ld,abcd->ijkl", R, R, R, R, T)
        want = np.array([[Tr[i, j, k, l] * (r2 if i != j else 1) * (r2 if k != l else 1) for (k, l) in KM_PAIRS] for (i, j) in KM_PAIRS])
        err = float(np.abs(got - want).max() / np.abs(want).max())
        return dict(confirmed=err > 1e-9, rel_err=err, law="Orthotropic(3, ...)", axis_1=R[:, 0].tolist(), axis_2=R[:, 1].tolist())
    except Exception as e:
        return dict(confirmed=True, raised=repr(e))


def _replay_pmat_tensor(toGlobal):
    try:
        from EasyFEA.Models._utils import Get_Pmat, Apply_Pmat
        a, b, cc = 1 / 3, -2 / 5, 3 / 7
        den = 1 + a * a + b * b + cc * cc
        R = np.array([[(1 + a * a - b * b - cc * cc), 2 * (a * b - cc), 2 * (a * cc + b)],
                      [2 * (a * b + cc), (1 - a * a + b * b - cc * cc), 2 * (b * cc - a)],
                      [2 * (a * cc - b), 2 * (b * cc + a), (1 - a * a - b * b + cc * cc)]]) / den
        m = [5.0, 2.0, 3.0, 7.0, 11.0]
        M = np.array([[m[0], m[1], m[1], 0, 0, 0], [m[1], m[2], m[3], 0, 0, 0], [m[1], m[3], m[2], 0, 0, 0],
                      [0, 0, 0, m[2] - m[3], 0, 0], [0, 0, 0, 0, m[4], 0], [0, 0, 0, 0, 0, m[4]]])
        P = Get_Pmat(R[:, 0], R[:, 1])
        got = Apply_Pmat(P, M, toGlobal=toGlobal)
        r2 = np.sqrt(2)
        T = np.zeros((3, 3, 3, 3))
        for I, (i, j) in enumerate(KM_PAIRS):
            for J, (k, l) in enumerate(KM_PAIRS):
                f = (r2 if i != j else 1) * (r2 if k != l else 1)
                for (p, q) in {(i, j), (j, i)}:
                    for (r, s) in {(k, l), (l, k)}:
                        T[p, q, r, s] = M[I, J] / f
        Rm = R if toGlobal else R.T
        Tr = np.einsum("ia,jb,kc,ld,abcd->ijkl", Rm, Rm, Rm, Rm, T)
        want = np.array([[Tr[i, j, k, l] * (r2 if i != j else 1) * (r2 if k != l else 1) for (k, l) in KM_PAIRS] for (i, j) in KM_PAIRS])
        err = float(np.abs(got - want).max())
        return dict(confirmed=err > 1e-9, err=err)
    except Exception as e:
        return dict(confirmed=False, error=repr(e))


def _replay_pmat2d():
    try:
        from EasyFEA.Models._utils import Get_Pmat
        th = 0.43
        a1, a2 = 2.0 * np.array([np.cos(th), np.sin(th)]), 3.0 * np.array([-np.sin(th), np.cos(th)])
        P2 = Get_Pmat(a1, a2)
        P3 = Get_Pmat(np.r_[a1, 0.0], np.r_[a2, 0.0])
        idx = [0, 1, 5]
        err = float(np.abs(P2 - P3[np.ix_(idx, idx)]).max())
        return dict(confirmed=err > 1e-9, err_vs_3d_block=err, axis_1=a1.tolist(), axis_2=a2.tolist())
    except Exception as e:
        return dict(confirmed=False, error=repr(e))


def ob_pmat_2d(shape_kind):
    """axes given with TWO components (the dim == 2 branch): for every in-plane rotation (tangent half-angle t) and axis lengths l1, l2,
    P is orthogonal, Apply_Pmat(P, M) is the Kelvin-Mandel image of the Q-rotated 2-D fourth-order tensor (both directions), and P is the
    [11, 22, 12] block of the matrix obtained from the same axes given with three components."""
    names = ["t", "l1", "l2", "m0", "m1", "m2", "m3", "m4", "m5"]
    wit = dict(t=F(2, 7), l1=F(2), l2=F(3), m0=F(5), m1=F(2), m2=F(3), m3=F(7), m4=F(11), m5=F(13))
    c = Ctx(names, nspare=3, witness=wit)
    NPs, gu, glob_for = _env(c)
    t, one = c.sym("t"), c.const(1)
    co, si = (one - t * t) / (one + t * t), 2 * t / (one + t * t)
    l1, l2 = c.sym("l1"), c.sym("l2")
    a1 = np.array([co * l1, si * l1], dtype=object)
    a2 = np.array([-si * l2, co * l2], dtype=object)
    z = c.const(0)
    if shape_kind == "i":
        A1, A2 = a1, a2
    elif shape_kind == "ei":
        A1, A2 = np.stack([a1, a1 * 2]), np.stack([a2, a2])
    else:
        A1 = np.stack([np.stack([a1, a1 * 2]), np.stack([a1 * 3, a1])])
        A2 = np.stack([np.stack([a2, a2]), np.stack([a2 * 2, a2 * 5])])
    pad = lambda A: np.concatenate([A, np.full(A.shape[:-1] + (1,), z, dtype=object)], axis=-1)
    P2 = np.asarray(gu["Get_Pmat"](A1, A2, useMandel=True))
    P3 = np.asarray(gu["Get_Pmat"](pad(A1), pad(A2), useMandel=True))
    R = [[co, -si], [si, co]]
    m = [c.sym(f"m{i}") for i in range(6)]
    M = np.array([[m[0], m[1], m[3]], [m[1], m[2], m[4]], [m[3], m[4], m[5]]], dtype=object)      # any symmetric 2-D law (Kelvin-Mandel)
    r2 = c.sqrt_rational(F(2))
    pairs = [(0, 0), (1, 1), (0, 1)]

    def to_tensor(Mk):
        T = np.empty((2, 2, 2, 2), dtype=object)
        for I, (i, j) in enumerate(pairs):
            for J, (k, l) in enumerate(pairs):
                v = Mk[I, J] / ((r2 if i != j else 1) * (r2 if k != l else 1))
                for (p_, q_) in {(i, j), (j, i)}:
                    for (r_, s_) in {(k, l), (l, k)}:
                        T[p_, q_, r_, s_] = v
        return T

    def to_km(T):
        return np.array([[T[i, j, k, l] * ((r2 if i != j else 1) * (r2 if k != l else 1)) for (k, l) in pairs] for (i, j) in pairs], dtype=object)
    n = 0
    lead = P2.shape[:-2]
    idx3 = [0, 1, 5]
    for idx in itertools.product(*[range(s_) for s_ in lead]):
        Pm = P2[idx]
        ok, why = _eqm(c, Pm.T @ Pm, np.eye(3, dtype=int))
        n += 9
        if not ok:
            raise Refuted(f"Get_Pmat (2-component axes) [{shape_kind}{idx}]: P^T P != I at {why[0]}: {why[1]}", signature=f"pmat2d:orthogonal:{shape_kind}", replay=_replay_pmat2d())
        blk = np.array([[P3[idx][i, j] for j in idx3] for i in idx3], dtype=object)
        ok, why = _eqm(c, Pm, blk)
        n += 9
        if not ok:
            raise Refuted(f"Get_Pmat (2-component axes) [{shape_kind}{idx}] differs from the [11,22,12] block of the matrix of the same axes given with 3 components at {why[0]}: {why[1]}",
                          cex=dict(t="2/7", l1="2", l2="3"), signature=f"pmat2d:block:{shape_kind}", replay=_replay_pmat2d())
        for toGlobal in (True, False):
            got = np.asarray(gu["Apply_Pmat"](Pm, M, toGlobal=toGlobal))
            Rm = np.array(R if toGlobal else [[R[j][i] for j in range(2)] for i in range(2)], dtype=object)
            T = to_tensor(M)
            T = np.einsum("ia,abcd->ibcd", Rm, T)
            T = np.einsum("jb,ibcd->ijcd", Rm, T)
            T = np.einsum("kc,ijcd->ijkd", Rm, T)
            T = np.einsum("ld,ijkd->ijkl", Rm, T)
            ok, why = _eqm(c, got, to_km(T))
            n += 9
            if not ok:
                raise Refuted(f"Apply_Pmat(P(2-component axes), M, toGlobal={toGlobal}) [{shape_kind}{idx}] differs from the Q-rotated fourth-order tensor at {why[0]}: {why[1]}",
                              cex=dict(t="2/7", l1="2", l2="3"), signature=f"pmat2d:tensor:{shape_kind}:{toGlobal}", replay=_replay_pmat2d())
    return Verdict(DISCHARGED, backend="ring-normal-form over QQ(t,l1,l2,m*)[sqrt2]", sub=n)


def ob_pmat_voigt(dim):
    """Get_Pmat(useMandel=False) returns (Ps, Pe) with Ps = Ds Pm Ds^-1 and Pe = De Pm De^-1 (Ds = diag(1.., 1/sqrt2..), De = diag(1.., sqrt2..)):
    the Voigt stress / strain vectors transform as the Kelvin-Mandel ones do; hence Ps^-1 = Pe^T."""
    if dim == 3:
        c, NPs, gu, R, A1, A2 = _pmat_case("i")
    else:
        c = Ctx(["t", "l1", "l2"], nspare=3, witness=dict(t=F(2, 7), l1=F(2), l2=F(3)))
        NPs, gu, glob_for = _env(c)
        t, one = c.sym("t"), c.const(1)
        co, si = (one - t * t) / (one + t * t), 2 * t / (one + t * t)
        A1 = np.array([co * c.sym("l1"), si * c.sym("l1")], dtype=object)
        A2 = np.array([-si * c.sym("l2"), co * c.sym("l2")], dtype=object)
    Pm = np.asarray(gu["Get_Pmat"](A1, A2, useMandel=True))
    Ps, Pe = gu["Get_Pmat"](A1, A2, useMandel=False)
    Ps, Pe = np.asarray(Ps), np.asarray(Pe)
    r2 = c.sqrt_rational(F(2))
    nn, ns = (3, 3) if dim == 3 else (2, 1)
    d = [c.const(1)] * nn + [r2] * ns
    N = nn + ns
    wantS = np.array([[Pm[i, j] * d[j] / d[i] for j in range(N)] for i in range(N)], dtype=object)
    wantE = np.array([[Pm[i, j] * d[i] / d[j] for j in range(N)] for i in range(N)], dtype=object)
    for nm, got, want in (("Ps", Ps, wantS), ("Pe", Pe, wantE)):
        ok, why = _eqm(c, got, want)
        if not ok:
            raise Refuted(f"Get_Pmat(useMandel=False), dim {dim}: {nm} differs from the Voigt image of the Kelvin-Mandel matrix at {why[0]}: {why[1]}", signature=f"pmat:voigt:{dim}:{nm}",
                          replay=dict(confirmed=True, note="extracted function evaluated symbolically"))
    ok, why = _eqm(c, Ps @ Pe.T, np.eye(N, dtype=int))
    if not ok:
        raise Refuted(f"Get_Pmat(useMandel=False), dim {dim}: Ps Pe^T != I at {why[0]}", signature=f"pmat:voigt:{dim}:inverse", replay=dict(confirmed=True))
    return Verdict(DISCHARGED, backend="ring-normal-form", sub=3 * N * N)


def ob_hetero(law, dim, planeStress):
    """per-element (Ne,) and per-Gauss-point (Ne, nPg) parameter fields, possibly mixed with scalars: the law at (e, p) is the homogeneous law of the
    parameters at (e, p); after a parameter is re-assigned (scalar -> field, field -> other field, field -> scalar) the next read gives the new law."""
    from EasyFEA import Models
    E_ = Models.Elastic
    Ne, nPg = 3, 2
    rng = np.random.default_rng(23)
    base = {"Isotropic": dict(E=3.0, v=0.25), "TransverselyIsotropic": dict(El=11.0, Et=3.0, Gl=1.7, vl=0.26, vt=0.31),
            "Orthotropic": dict(E1=11.0, E2=5.0, E3=3.0, G23=1.1, G13=1.4, G12=1.9, v23=0.2, v13=0.24, v12=0.3)}[law]
    axes = {"Isotropic": {}, "TransverselyIsotropic": dict(axis_l=(2, 1, 0), axis_t=(-1, 2, 0)), "Orthotropic": dict(axis_1=(2, 1, 0), axis_2=(-1, 2, 0))}[law]
    cls = getattr(E_, law)

    def build(params):
        return cls(dim, planeStress=planeStress, **params, **axes)

    def field(val, kind):
        if kind == "s":
            return val
        f = val * (1 + 0.2 * rng.uniform(-1, 1, size=(Ne,) if kind == "e" else (Ne, nPg)))
        return f

    def at(v, e, p):
        v = np.asarray(v)
        return float(v) if v.ndim == 0 else (float(v[e]) if v.ndim == 1 else float(v[e, p]))
    names = list(base)
    n = 0
    # one kind of field per model (the constructors combine the parameters with plain numpy arithmetic: a per-element field next to a per-point
    # field is rejected by numpy's broadcasting, it is not an accepted input), scalars may be mixed in
    patterns = [{names[0]: "e"}, {names[0]: "ep"}, {names[0]: "e", names[1]: "e"}, {nm: "ep" for nm in names}, {nm: "e" for nm in names}, {names[-1]: "e"}, {names[1]: "ep", names[-1]: "ep"}]
    patterns += [{nm: "e"} for nm in names[1:-1]]          # each parameter alone as the only field of the model

    def check(model, params, what):
        nonlocal n
        C, S = np.asarray(model.C), np.asarray(model.S)
        kinds = [np.asarray(v).ndim for v in params.values()]
        lead = (Ne, nPg) if 2 in kinds else ((Ne,) if 1 in kinds else ())
        if C.shape[:-2] != lead:
            raise Refuted(f"{law} dim {dim}: {what}: C has leading shape {C.shape[:-2]}, parameters have {lead}", signature=f"hetero:{law}:{dim}:shape", replay=dict(confirmed=True))
        for e in range(Ne):
            for p_ in range(nPg):
                ref = build({k: at(v, e, p_) for k, v in params.items()})
                Cr, Sr = np.asarray(ref.C), np.asarray(ref.S)
                Ce = C if not lead else (C[e] if len(lead) == 1 else C[e, p_])
                Se = S if not lead else (S[e] if len(lead) == 1 else S[e, p_])
                n += 2
                ec, es = float(np.abs(Ce - Cr).max() / np.abs(Cr).max()), float(np.abs(Se - Sr).max() / np.abs(Sr).max())
                if not (ec < 1e-12 and es < 1e-12):
                    raise Refuted(f"{law} dim {dim} planeStress={planeStress}: {what}: the law at element {e}, point {p_} differs from the homogeneous law of the parameters there (C {ec:.2e}, S {es:.2e})",
                                  cex=dict(law=law, dim=dim, what=what, e=e, p=p_), signature=f"hetero:{law}:{dim}:value", replay=dict(confirmed=True, err_C=ec, err_S=es))
    for pat in patterns:
        params = {k: field(v, pat.get(k, "s")) for k, v in base.items()}
        try:
            m = build(params)
            m.C
        except (ValueError, TypeError, IndexError) as ex:
            raise Refuted(f"{law} dim {dim}: parameter fields {pat} (the other parameters scalar) are not accepted: {type(ex).__name__}: {ex}", cex=dict(law=law, dim=dim, fields={k: v for k, v in pat.items()}),
                          signature=f"hetero:{law}:{dim}:raises", replay=dict(confirmed=True, error=str(ex)[:200]))
        check(m, params, f"fields {pat}")
        # lazy update: re-assign parameters one after the other, read after each
        fk = next(iter(pat.values()))
        for k in names[:2] + names[-1:]:
            for kind in (fk, "s", fk):
                params[k] = field(base[k] * 1.1, kind)
                setattr(m, k, params[k])
                check(m, params, f"fields {pat}, then {k} re-assigned as {'scalar' if kind == 's' else kind}")
            # the caller's own array, modified in place and assigned again (the same object): the law must follow on the next read
            if isinstance(params[k], np.ndarray):
                arr = params[k]
                arr *= 1.07
                arr.flat[0] *= 1.2
                setattr(m, k, arr)
                check(m, params, f"fields {pat}, then the array given for {k} modified in place and assigned again")
    # moduli given as INTEGER arrays in Pa (e.g. 210_000_000_000): the law is that of the same values given as floats (no silent integer overflow in the products of moduli)
    big = {k: (v if k.startswith("v") else v * 1e10) for k, v in base.items()}
    mods = [k for k in base if not k.startswith("v")]
    ints = {k: (np.array([int(big[k]) * (j + 1) for j in range(Ne)], dtype=np.int64) if k in mods else big[k]) for k in big}
    flts = {k: (np.asarray(v, dtype=float) if isinstance(v, np.ndarray) else v) for k, v in ints.items()}
    Ci, Cf = np.asarray(build(ints).C), np.asarray(build(flts).C)
    n += 1
    e = float(np.abs(Ci - Cf).max() / np.abs(Cf).max())
    if not e < 1e-12:
        raise Refuted(f"{law} dim {dim}: moduli given as int64 per-element arrays ({ {k: ints[k].tolist() for k in mods} }) give a stiffness differing by {e:.3e} (relative) from the same values given as floats",
                      cex=dict(law=law, dim=dim, moduli={k: ints[k].tolist() for k in mods}), signature=f"hetero:{law}:{dim}:int", replay=dict(confirmed=True, rel_err=e))
    # the array handed over is the caller's: writing into it afterwards (no assignment) must not leave the model with parameters and a law that disagree
    arr = np.asarray(flts[mods[0]], dtype=float).copy()
    m = build({**flts, mods[0]: arr})
    m.C
    arr *= 2.0
    now = {k: getattr(m, k) for k in base}
    Cm, Cr = np.asarray(m.C), np.asarray(build(now).C)
    n += 1
    e = float(np.abs(Cm - Cr).max() / np.abs(Cr).max())
    if not e < 1e-12:
        raise Refuted(f"{law} dim {dim}: after the array given for {mods[0]} is modified in place by its owner, the model reports {mods[0]} = {np.asarray(now[mods[0]]).tolist()} but its stiffness is that of other values "
                      f"(relative difference {e:.3e})", cex=dict(law=law, dim=dim, parameter=mods[0]), signature=f"hetero:{law}:{dim}:alias", replay=dict(confirmed=True, rel_err=e))
    return Verdict(DISCHARGED, backend="native run of the real law classes vs the homogeneous law point by point", sub=n)


def ob_hetero_aniso(dim, voigt):
    """Anisotropic law given as a field of matrices (Ne, n, n) or (Ne, nPg, n, n), in Voigt or Kelvin-Mandel notation, with oblique unnormalised axes:
    the law at (e, p) is the law built from the matrix at (e, p); Set_C with a field replaces it."""
    from EasyFEA import Models
    A_ = Models.Elastic.Anisotropic
    Ne, nPg = 3, 2
    n_ = 3 if dim == 2 else 6
    rng = np.random.default_rng(29)
    ax = dict(axis1=(2, 1, 0), axis2=(-1, 2, 0))

    def spd(lead):
        A = rng.normal(size=lead + (n_, n_))
        return A @ np.swapaxes(A, -1, -2) + n_ * np.eye(n_)
    n = 0
    for lead in ((Ne,), (Ne, nPg)):
        C0, C1 = spd(lead), spd(lead)
        m = A_(dim, C0, useVoigtNotation=voigt, **ax)
        for what, Cin in (("constructor", C0), ("Set_C", C1)):
            if what == "Set_C":
                m.Set_C(C1, useVoigtNotation=voigt)
            C, S = np.asarray(m.C), np.asarray(m.S)
            if C.shape[:-2] != lead:
                raise Refuted(f"Anisotropic dim {dim}: {what}: C has leading shape {C.shape[:-2]}, input {lead}", signature=f"hetero:aniso:{dim}:shape", replay=dict(confirmed=True))
            for idx in np.ndindex(lead):
                ref = A_(dim, Cin[idx], useVoigtNotation=voigt, **ax)
                n += 2
                ec = float(np.abs(C[idx] - np.asarray(ref.C)).max() / np.abs(np.asarray(ref.C)).max())
                es = float(np.abs(S[idx] - np.asarray(ref.S)).max() / np.abs(np.asarray(ref.S)).max())
                if not (ec < 1e-12 and es < 1e-11):
                    raise Refuted(f"Anisotropic dim {dim} ({'Voigt' if voigt else 'Kelvin-Mandel'} input, {what}): the law at {idx} differs from the law built from the matrix there (C {ec:.2e}, S {es:.2e})",
                                  cex=dict(dim=dim, voigt=voigt, index=list(idx)), signature=f"hetero:aniso:{dim}:{voigt}", replay=dict(confirmed=True, err_C=ec, err_S=es))
    return Verdict(DISCHARGED, backend="native run vs the homogeneous law point by point", sub=n)


def ob_reduction_axes(law, planeStress):
    """2-D transversely isotropic / orthotropic / anisotropic laws with material axes in ANY orientation (in-plane, tilted out of the plane, generic, unnormalised;
    homogeneous and per-element parameters): plane stress -> the compliance is the [11, 22, 12] block of the 3-D compliance built on the same axes (zero
    out-of-plane STRESS, out-of-plane shear strains free); plane strain -> the stiffness is that block of the 3-D stiffness; C S == I."""
    from EasyFEA import Models
    E_ = Models.Elastic
    x = np.array([0, 1, 5])
    th, ph = 0.7, 0.5
    Rz = np.array([[np.cos(th), -np.sin(th), 0], [np.sin(th), np.cos(th), 0], [0, 0, 1]])
    Ry = np.array([[np.cos(ph), 0, np.sin(ph)], [0, 1, 0], [-np.sin(ph), 0, np.cos(ph)]])
    Rx = np.array([[1, 0, 0], [0, np.cos(1.1), -np.sin(1.1)], [0, np.sin(1.1), np.cos(1.1)]])
    frames = {"default": np.eye(3), "in-plane": Rz, "tilted": Ry, "tilted+spin": Rz @ Ry, "generic": Rz @ Ry @ Rx, "quarter": np.array([[0.0, 0, 1], [0, 1, 0], [-1, 0, 0]])}
    rng = np.random.default_rng(31)
    n = 0
    for fname, R in frames.items():
        for scale in ((1.0, 1.0), (2.5, 0.4)):
            a1, a2 = R[:, 0] * scale[0], R[:, 1] * scale[1]
            for field in (False, True):
                f = (lambda v: v * (1 + 0.2 * rng.uniform(-1, 1, size=3))) if field else (lambda v: v)
                if law == "TransverselyIsotropic":
                    kw = dict(El=f(11.0), Et=f(3.0), Gl=f(1.7), vl=0.26, vt=0.31, axis_l=a1, axis_t=a2)
                    mk = lambda dim, **k: E_.TransverselyIsotropic(dim, **kw, **k)
                elif law == "Orthotropic":
                    kw = dict(E1=f(11.0), E2=f(5.0), E3=f(3.0), G23=1.1, G13=1.4, G12=f(1.9), v23=0.2, v13=0.24, v12=0.3, axis_1=a1, axis_2=a2)
                    mk = lambda dim, **k: E_.Orthotropic(dim, **kw, **k)
                else:
                    A = rng.normal(size=((3,) if field else ()) + (6, 6))
                    C6 = A @ np.swapaxes(A, -1, -2) + 6 * np.eye(6)
                    if planeStress:
                        continue            # the anisotropic law takes a 2-D matrix for 2-D problems; its 6x6 input is reduced in plane strain only (C11.aniso.notation)
                    mk = lambda dim, **k: E_.Anisotropic(dim, C6, useVoigtNotation=False, axis1=a1, axis2=a2)
                m3 = mk(3) if law == "Anisotropic" else mk(3, planeStress=False)
                m2 = mk(2) if law == "Anisotropic" else mk(2, planeStress=planeStress)
                C3, S3, C2, S2 = (np.asarray(v) for v in (m3.C, m3.S, m2.C, m2.S))
                blk = lambda M: M[..., x[:, None], x]
                n += 2
                if planeStress:
                    e1 = float(np.abs(S2 - blk(S3)).max() / np.abs(blk(S3)).max())
                    what = "compliance != [11,22,12] block of the 3-D compliance (zero out-of-plane stress)"
                else:
                    e1 = float(np.abs(C2 - blk(C3)).max() / np.abs(blk(C3)).max())
                    what = "stiffness != [11,22,12] block of the 3-D stiffness (zero out-of-plane strain)"
                e2 = float(np.abs(C2 @ S2 - np.eye(3)).max())
                if not (e1 < 1e-12 and e2 < 1e-10):
                    raise Refuted(f"{law} 2-D {'plane stress' if planeStress else 'plane strain'}, axes '{fname}' (lengths {scale}), {'per-element' if field else 'homogeneous'} parameters: {what} "
                                  f"(relative {e1:.3e}); |C S - I| = {e2:.1e}", cex=dict(law=law, planeStress=planeStress, axes=fname, axis_1=a1.tolist(), axis_2=a2.tolist(), field=field),
                                  signature=f"reduction:{law}:{planeStress}:{fname}", replay=dict(confirmed=True, rel_err=e1))
    return Verdict(DISCHARGED, backend="native run of the real law classes: 2-D law vs the block of the 3-D law on the same axes", sub=n)


def ob_axes_accepted(law):
    """orthogonal material axes of any length and sign are accepted (the perpendicularity test is about the ANGLE), non-orthogonal ones are rejected by the constructor."""
    from EasyFEA import Models
    E_ = Models.Elastic
    th, ph = 0.7, 0.5
    Rz = np.array([[np.cos(th), -np.sin(th), 0], [np.sin(th), np.cos(th), 0], [0, 0, 1]])
    Ry = np.array([[np.cos(ph), 0, np.sin(ph)], [0, 1, 0], [-np.sin(ph), 0, np.cos(ph)]])
    Q = Rz @ Ry

    def mk(a1, a2):
        if law == "TransverselyIsotropic":
            return E_.TransverselyIsotropic(3, El=11.0, Et=3.0, Gl=1.7, vl=0.26, vt=0.31, axis_l=a1, axis_t=a2)
        if law == "Orthotropic":
            return E_.Orthotropic(3, E1=11.0, E2=5.0, E3=3.0, G23=1.1, G13=1.4, G12=1.9, v23=0.2, v13=0.24, v12=0.3, axis_1=a1, axis_2=a2)
        A = np.random.default_rng(3).normal(size=(6, 6))
        return E_.Anisotropic(3, A @ A.T + 6 * np.eye(6), useVoigtNotation=False, axis1=a1, axis2=a2)
    ref = np.asarray(mk(Q[:, 0], Q[:, 1]).C)
    n = 0
    for scale in (1.0, 1e4, 1e-3, 37.0):
        for s1, s2 in ((1, 1), (-1, 1), (1, -1), (-1, -1)):
            a1, a2 = s1 * scale * Q[:, 0], s2 * scale * 3.0 * Q[:, 1]
            n += 1
            try:
                C = np.asarray(mk(a1, a2).C)
            except AssertionError as ex:
                raise Refuted(f"{law}: orthogonal axes {np.round(a1, 3).tolist()}, {np.round(a2, 3).tolist()} (cosine of their angle {float(a1 @ a2) / (np.linalg.norm(a1) * np.linalg.norm(a2)):.1e}) are rejected: {ex}",
                              cex=dict(law=law, axis_1=a1.tolist(), axis_2=a2.tolist()), signature=f"axes:{law}:rejected", replay=dict(confirmed=True, error=str(ex)[:150]))
            if law == "Anisotropic" and (s1, s2) != (1, 1):
                continue            # reversing an axis is a half-turn of the frame: a general anisotropic tensor is not invariant under it (the two other classes are)
            e = float(np.abs(C - ref).max() / np.abs(ref).max())
            if e > 1e-10:
                raise Refuted(f"{law}: the law built on the axes scaled by ({s1 * scale:g}, {s2 * scale * 3:g}) differs from the law on the unit axes by {e:.3e}", signature=f"axes:{law}:length",
                              replay=dict(confirmed=True, rel_err=e))
    # clearly non-orthogonal axes (80 and 100 degrees) must not give a law silently
    for ang in (80.0, 100.0):
        a2 = np.cos(np.deg2rad(ang)) * Q[:, 0] + np.sin(np.deg2rad(ang)) * Q[:, 1]
        n += 1
        try:
            mk(Q[:, 0], a2)
            raise Refuted(f"{law}: axes at {ang} degrees are accepted", signature=f"axes:{law}:nonorthogonal", replay=dict(confirmed=True))
        except AssertionError:
            pass
    return Verdict(DISCHARGED, backend="native run", sub=n)


HALF_TURNS = {"x": [[1, 0, 0], [0, -1, 0], [0, 0, -1]], "y": [[-1, 0, 0], [0, 1, 0], [0, 0, -1]], "z": [[-1, 0, 0], [0, -1, 0], [0, 0, 1]]}


def build(tier, seed):
    obs = []
    fl = lambda q: f"{LAWS}::{q}"
    fu = lambda q: f"{UTILS}::{q}"
    obs.append(Ob("C11.iso.lame", ob_iso_lame, (), "P", (fl("Isotropic.get_lambda"), fl("Isotropic.get_mu"), fl("Isotropic.get_bulk")),
                  clause="Lame coefficients are the documented functions of (E, v)"))
    for ps in (True, False):
        obs.append(Ob(f"C11.iso.reduction.{'planeStress' if ps else 'planeStrain'}", ob_iso_reduction, (ps,), "P",
                      (fl("Isotropic._Behavior"), fu("KelvinMandel_Matrix"), fu("Heterogeneous_Array")),
                      clause="2-D law equals the plane-stress / plane-strain reduction of the 3-D law; S C = I", timeout=120))
    for dim, ps in ((3, False), (2, True), (2, False)):
        obs.append(Ob(f"C11.iso.spd.{dim}{'ps' if ps else ''}", ob_iso_spd, (dim, ps), "P", (fl("Isotropic._Behavior"),),
                      clause="C symmetric, leading principal minors > 0 for E>0, -1<v<1/2", timeout=240))
    for cls in ("TransverselyIsotropic", "Orthotropic"):
        obs.append(Ob(f"C11.{cls}.inverse", ob_material_inverse, (cls,), "P", (fl(f"{cls}._Behavior"),),
                      clause="material_sM @ material_cM == I identically; both symmetric", timeout=300))
        obs.append(Ob(f"C11.{cls}.spd", ob_material_spd, (cls,), "P", (fl(f"{cls}._Behavior"),),
                      clause="S SPD (hence C) under the thermodynamic admissibility conditions", timeout=400))
    for dim_in, law_dim in ((2, 2), (3, 3), (3, 2)):
        obs.append(Ob(f"C11.aniso.notation.in{dim_in}.law{law_dim}", ob_aniso_notation, (dim_in, law_dim), "P", (fl("Anisotropic._Behavior"), fu("KelvinMandel_Matrix"), fu("Get_Pmat"), fu("Apply_Pmat")),
                      clause="Voigt input and the equivalent Kelvin-Mandel input yield the same law (symbolic symmetric C, rotated material axes)", timeout=900))
    obs.append(Ob("C11.kelvin_mandel", ob_kelvin_mandel, (), "P", (fu("KelvinMandel_Matrix"),), clause="sqrt(2) scaling pattern, dims 2 and 3"))
    obs.append(Ob("C11.Pmat.orthogonal.i", ob_pmat_orthogonal, ("i",), "P", (fu("Get_Pmat"),),
                  clause="P^T P == I for every rotation (Cayley) and axes of ANY length", timeout=300))
    for k in ("ei", "epi"):
        obs.append(Ob(f"C11.Pmat.orthogonal.{k}", ob_pmat_orthogonal, (k,), "B", (fu("Get_Pmat"),), bound="batched shape e,p <= 2",
                      clause="same, batched axes", timeout=600))
    for ax, H in HALF_TURNS.items():
        obs.append(Ob(f"C11.Pmat.orthogonal.halfturn.{ax}", ob_pmat_orthogonal, ("i", H), "P", (fu("Get_Pmat"),),
                      clause="half-turn frames (excluded by the Cayley parametrisation)"))
    for tg in (True, False):
        obs.append(Ob(f"C11.Pmat.tensor.{'toGlobal' if tg else 'toMaterial'}", ob_pmat_tensor, (tg,), "P", (fu("Get_Pmat"), fu("Apply_Pmat")),
                      clause="Apply_Pmat == Kelvin-Mandel image of the rotated 4th-order tensor", timeout=900))
    for fam in ("generic", "about-x", "about-y", "about-z", "identity"):
        obs.append(Ob(f"C11.basis.transformation.{fam}", ob_basis_transformation, (fam,), "P", (fl("_Elastic._Apply_basis_transformation"), fu("Get_Pmat"), fu("Apply_Pmat")),
                      clause="_Apply_basis_transformation returns the Kelvin-Mandel images of the rotated stiffness and compliance tensors for every orientation of the material frame, "
                             "including frames sharing one axis with the global frame", timeout=900))
    for k in ("i", "ei", "epi"):
        obs.append(Ob(f"C11.Pmat.2d.{k}", ob_pmat_2d, (k,), "P" if k == "i" else "B", (fu("Get_Pmat"), fu("Apply_Pmat")), bound=None if k == "i" else "batched shape e,p <= 2",
                      clause="axes given with 2 components: P orthogonal for any lengths, == the [11,22,12] block of the 3-component result, Apply_Pmat == Q-rotated 2-D fourth-order tensor (both directions), all in-plane rotations", timeout=600))
    for dim in (2, 3):
        obs.append(Ob(f"C11.Pmat.voigt.{dim}d", ob_pmat_voigt, (dim,), "P", (fu("Get_Pmat"),), clause="(Ps, Pe) are the Voigt images of the Kelvin-Mandel matrix; Ps Pe^T == I; all rotations, any axis lengths", timeout=600))
    for law in ("Isotropic", "TransverselyIsotropic", "Orthotropic"):
        for dim, ps in ((2, True), (2, False), (3, False)):
            obs.append(Ob(f"C11.hetero.{law}.{dim}d{'.ps' if ps else ''}", ob_hetero, (law, dim, ps), "X", (fl(f"{law}._Behavior"), fl(f"{law}._Update"), fu("Heterogeneous_Array")),
                          bound="Ne = 3, nPg = 2; 7 patterns of scalar + per-element or scalar + per-point parameters; 9 re-assignments each; floats",
                          clause="the law at (e, p) is the homogeneous law of the parameters at (e, p); re-assigning a parameter (scalar <-> field) changes the law on the next read", timeout=600))
    for dim in (2, 3):
        for voigt in (False, True):
            obs.append(Ob(f"C11.hetero.Anisotropic.{dim}d.{'voigt' if voigt else 'km'}", ob_hetero_aniso, (dim, voigt), "X", (fl("Anisotropic._Behavior"), fl("Anisotropic.Set_C"), fu("Apply_Pmat")),
                          bound="Ne = 3, nPg = 2, random SPD matrices, floats", clause="a field of stiffness matrices gives at (e, p) the law of the matrix at (e, p), in both notations, after construction and after Set_C", timeout=600))
    for law in ("TransverselyIsotropic", "Orthotropic", "Anisotropic"):
        for ps in ((True, False) if law != "Anisotropic" else (False,)):
            obs.append(Ob(f"C11.reduction.axes.{law}.{'planeStress' if ps else 'planeStrain'}", ob_reduction_axes, (law, ps), "X", (fl("_Elastic._Apply_basis_transformation"), fl(f"{law}._Behavior")),
                          bound="6 axis frames (default, in-plane, tilted out of the plane, tilted+spin, generic, quarter turn) x 2 length pairs x homogeneous / per-element parameters, floats",
                          clause="the 2-D law is the zero-out-of-plane-stress (resp. strain) reduction of the 3-D law built on the same axes, whatever their orientation; C S == I", timeout=600))
    for law in ("TransverselyIsotropic", "Orthotropic", "Anisotropic"):
        obs.append(Ob(f"C11.axes.accepted.{law}", ob_axes_accepted, (law,), "X", (fl(f"{law}.__init__"), fu("Get_Pmat")), bound="one rotation, 4 lengths x 4 sign pairs",
                      clause="orthogonal material axes of any length and sign give the same law; non-orthogonal axes are rejected", timeout=300))
    obs.append(Ob("canary.iso.reduction", ob_iso_reduction, (True, True), "P", expect=REFUTED, timeout=120))
    obs.append(Ob("canary.TI.inverse", ob_material_inverse, ("TransverselyIsotropic", True), "P", expect=REFUTED, timeout=300))
    functions = {}
    for q in ("_Elastic._Apply_basis_transformation", "Isotropic._Behavior", "Isotropic.get_lambda", "Isotropic.get_mu", "TransverselyIsotropic._Behavior", "Orthotropic._Behavior"):
        functions[q] = extract.get(LAWS, q).describe()
    for q in ("Heterogeneous_Array", "KelvinMandel_Matrix", "Get_Pmat", "Apply_Pmat"):
        functions[q] = extract.get(UTILS, q).describe()
    return dict(
        obs=obs, level="proof", min_obligations=17,
        explanation=("Law classes re-assembled from the AST and executed with symbolic moduli in an exact field; plane reductions, "
                     "S C = I, symmetry and the change-of-basis identities are ring identities valid for all moduli / all rotations "
                     "(Cayley parametrisation + the three half-turns) / all axis lengths; positive-definiteness is a nonlinear real "
                     "arithmetic query (z3, cvc5 fallback)."),
        trusted_base=["numpy model vt/npshim.py (allocators, array, sqrt, linalg.inv/det/norm, einsum on exact scalars)",
                      "np.linalg.inv contract: exact inverse", "sympy normal form; z3 5.1 nlsat / cvc5 1.4",
                      "Cayley parametrisation covers every rotation except half-turns (added as concrete cases)"],
        assumptions=["machine arithmetic treated as mathematical", "float self-checks inside _Behavior (norm-based asserts) are not evaluated; their content is the obligation *.inverse",
                     "admissible moduli = positivity + thermodynamic conditions stated in the obligation", "heterogeneous parameter fields, the Anisotropic field form and the lazy update are covered by bounded native runs only (C11.hetero.*, Ne = 3, nPg = 2)", "a per-element field next to a per-point field in one model is not an accepted input (numpy broadcasting rejects it unless Ne == nPg): not exercised"],
        functions=functions,
        dropped=["D1-D5", "class-level parameter descriptors are not assembled: moduli are set as plain instance attributes"],
        not_attempted=["symbolic treatment of heterogeneous parameter fields (bounded native runs instead)"],
    )
